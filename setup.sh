#!/bin/sh
# Run once after a fresh restore, offline.  Builds the witness-search / trusted-fact binary against /repo
# and warms Verus.  Checks rebuild what they need from /repo's working tree themselves.
set -e
cd "$(dirname "$0")"
export CARGO_NET_OFFLINE=true
mkdir -p build/gen evidence replay/out
[ -f replay/Cargo.lock ] || cp /repo/Cargo.lock replay/Cargo.lock
(cd replay && cargo build --release --offline 2>&1 | tail -3)
[ -f replay12/Cargo.lock ] || cp /repo/Cargo.lock replay12/Cargo.lock
(cd replay12 && cargo build --release --offline 2>&1 | tail -2)
echo "setup done"
