// =============================================================================================
// unit `cond` - specification (hand-written) for C06.  Oracle: SQL three-valued (Kleene) logic.
//   any group = OR of its members (empty = FALSE), all group = AND (empty = TRUE), negate = NOT.
// An arbitrary valuation `env` gives the truth value of every atom (any expression that is not
// AND / OR / NOT / a boolean constant).
// =============================================================================================
pub enum TV { T, F, U }
pub open spec fn and3(a: TV, b: TV) -> TV {
    match (a, b) { (TV::F, _) => TV::F, (_, TV::F) => TV::F, (TV::T, TV::T) => TV::T, _ => TV::U }
}
pub open spec fn or3(a: TV, b: TV) -> TV {
    match (a, b) { (TV::T, _) => TV::T, (_, TV::T) => TV::T, (TV::F, TV::F) => TV::F, _ => TV::U }
}
pub open spec fn not3(a: TV) -> TV { match a { TV::T => TV::F, TV::F => TV::T, TV::U => TV::U } }

pub type Env = spec_fn(SimpleExpr) -> TV;

// meaning of the expression tree the builder produces
pub open spec fn sem_expr(e: SimpleExpr, env: Env) -> TV
    decreases e
{
    match e {
        SimpleExpr::Binary(l, BinOper::And, r) => and3(sem_expr(*l, env), sem_expr(*r, env)),
        SimpleExpr::Binary(l, BinOper::Or, r) => or3(sem_expr(*l, env), sem_expr(*r, env)),
        SimpleExpr::Unary(UnOper::Not, x) => not3(sem_expr(*x, env)),
        SimpleExpr::Constant(Value::Bool(Some(b))) => if b { TV::T } else { TV::F },
        _ => env(e),
    }
}
// meaning of a condition tree, exactly as the property states it
pub open spec fn sem_ce(ce: ConditionExpression, env: Env) -> TV
    decreases ce, 0nat
{
    match ce {
        ConditionExpression::Condition(c) => sem_cond(c, env),
        ConditionExpression::SimpleExpr(e) => sem_expr(e, env),
    }
}
pub open spec fn unit_of(ty: ConditionType) -> TV { match ty { ConditionType::Any => TV::F, ConditionType::All => TV::T } }
pub open spec fn join(ty: ConditionType, a: TV, b: TV) -> TV { match ty { ConditionType::Any => or3(a, b), ConditionType::All => and3(a, b) } }
// fold of the first n members of c
pub open spec fn sem_members(c: Condition, n: nat, env: Env) -> TV
    decreases c, n
{
    if n == 0 || n > c.conditions@.len() { unit_of(c.condition_type) }
    else { join(c.condition_type, sem_members(c, (n - 1) as nat, env), sem_ce(c.conditions@[n - 1], env)) }
}
pub open spec fn sem_cond(c: Condition, env: Env) -> TV
    decreases c, c.conditions@.len() + 1
{
    let m = sem_members(c, c.conditions@.len(), env);
    if c.negate { not3(m) } else { m }
}
// fold over a plain sequence (used to state what `add` does without building a Vec in spec code)
pub open spec fn sem_seq(cs: Seq<ConditionExpression>, ty: ConditionType, env: Env) -> TV
    decreases cs.len()
{
    if cs.len() == 0 { unit_of(ty) } else { join(ty, sem_seq(cs.drop_last(), ty, env), sem_ce(cs.last(), env)) }
}
pub proof fn lemma_members_seq(c: Condition, n: nat, env: Env)
    requires n <= c.conditions@.len()
    ensures sem_members(c, n, env) == sem_seq(c.conditions@.subrange(0, n as int), c.condition_type, env)
    decreases n
{
    if n > 0 {
        lemma_members_seq(c, (n - 1) as nat, env);
        assert(c.conditions@.subrange(0, n as int).drop_last() == c.conditions@.subrange(0, n - 1));
    }
}
pub proof fn lemma_cond_seq(c: Condition, env: Env)
    ensures sem_cond(c, env) == (if c.negate { not3(sem_seq(c.conditions@, c.condition_type, env)) } else { sem_seq(c.conditions@, c.condition_type, env) })
{
    lemma_members_seq(c, c.conditions@.len(), env);
    assert(c.conditions@.subrange(0, c.conditions@.len() as int) == c.conditions@);
}
pub proof fn lemma_seq_concat(a: Seq<ConditionExpression>, b: Seq<ConditionExpression>, ty: ConditionType, env: Env)
    ensures sem_seq(a + b, ty, env) == join(ty, sem_seq(a, ty, env), sem_seq(b, ty, env))
    decreases b.len()
{
    if b.len() == 0 {
        assert(a + b == a);
    } else {
        assert((a + b).drop_last() == a + b.drop_last());
        lemma_seq_concat(a, b.drop_last(), ty, env);
    }
}
// the statement-level meaning of a clause holder: no condition = TRUE (and nothing is rendered)
pub open spec fn sem_holder(h: ConditionHolder, env: Env) -> TV {
    match h.contents {
        ConditionHolderContents::Empty => TV::T,
        ConditionHolderContents::Condition(c) => sem_cond(c, env),
        ConditionHolderContents::Chain(_) => TV::U,   // legacy and_or_where representation: outside the property
    }
}

// ---- trusted shims ---------------------------------------------------------------------------------
// R-attr (trusted): #[derive(Clone)] on SimpleExpr is a structural copy
#[verifier::external_body]
fn vclone_expr(e: &SimpleExpr) -> (r: SimpleExpr) ensures r == *e { unimplemented!() }
// macro-generated `impl From<bool> for Value` (type_to_value!): Value::Bool(Some(b)) - checked by Kani harness full_rt_bool
#[verifier::external_body]
fn vvalue_from_bool(b: bool) -> (r: Value) ensures r == Value::Bool(Some(b)) { unimplemented!() }
// R-mem (trusted): std::mem::take returns the old value and leaves Default::default(); #[default] is `Empty`
#[verifier::external_body]
fn vmem_take_contents(x: &mut ConditionHolderContents) -> (r: ConditionHolderContents)
    ensures r == *old(x), *final(x) == ConditionHolderContents::Empty
{ std::mem::replace(x, ConditionHolderContents::Empty) }
