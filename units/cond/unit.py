"""unit `cond`  ->  C06: WHERE / HAVING / ON mean the conjunction of the conditions that were added (Kleene logic).

Under contract (src/query/condition.rs): Condition::{any, all, not, add, add_option, to_simple_expr},
From<Condition|SimpleExpr> for ConditionExpression, IntoCondition for {SimpleExpr, Condition},
ConditionHolder::{new, new_with_condition, add_condition}; SimpleExpr::{and, or, not} with ExprTrait::{and, or, not,
binary, unary} (src/expr.rs); cond_where / cond_having / and_having / and_where of the statements; QueryBuilder::
prepare_condition (src/backend/query_builder.rs).
"""
import re
from vlib import rustlex as rl
from vlib.gen import make_r_fmt, make_r_sub, make_r_dyn, r_unit_tail, r_mutself, make_r_tailbind, r_retself, r_dynw

C = "src/query/condition.rs"
E = "src/expr.rs"
P = ["C06"]
OPAQUE = ["ColumnRef", "FunctionCall", "SubQueryOper", "SubQueryStatement", "Keyword", "DynIden", "PgBinOper", "SqliteBinOper", "LogicalChainOper", "JoinType", "TableRef"]

ENV = "forall|env: Env| "
ENS = "ensures " + ENV
r_vis = make_r_sub("R-vis", r"pub\(crate\) ", "pub ", min_count=0)


def opaque(u, names):
    for n in names:
        u.emit("#[verifier::external_body]\npub struct %s { _opaque: u8 }\n" % n, kind="spec", key="R-opaque:" + n, props=P)


def build(u):
    u.emit("use vstd::prelude::*;\nuse vstd::std_specs::iter::IteratorSpec;\nverus! {\n")
    opaque(u, OPAQUE)
    u.type_item("src/value.rs", "enum", "Value", props=P)
    u.type_item("src/types.rs", "enum", "UnOper", props=P)
    u.type_item("src/types.rs", "enum", "BinOper", props=P)
    u.type_item(E, "enum", "SimpleExpr", props=P)
    u.type_item(C, "enum", "ConditionType", props=P, keep_derive=("PartialEq", "Eq", "Structural"))
    u.type_item(C, "struct", "Condition", props=P, rules=[r_vis])
    u.type_item(C, "enum", "ConditionExpression", props=P)
    u.type_item(C, "enum", "ConditionHolderContents", props=P)
    u.type_item(C, "struct", "ConditionHolder", props=P)
    # CASE WHEN <condition> and JOIN .. ON <condition> hold conditions too
    u.type_item("src/query/case.rs", "struct", "CaseStatementCondition", props=P, rules=[r_vis])
    u.type_item("src/query/case.rs", "struct", "CaseStatement", props=P, rules=[r_vis])
    u.type_item("src/types.rs", "enum", "JoinOn", props=P)
    u.type_item("src/query/select.rs", "struct", "JoinExpr", props=P)
    u.prelude_file("units/cond/spec.rs", props=P)

    # ---- SimpleExpr::{and, or, not} and the ExprTrait methods they run (specialised to SimpleExpr; `.into()` of a
    #      value into its own type is the identity - trusted, R-into)
    u.emit("impl SimpleExpr {\n")
    r_gen_bin = [make_r_sub("R-into", r"binary<O, R>\(self, op: O, right: R\)", "binary(self, op: BinOper, right: SimpleExpr)"),
                 make_r_sub("R-into", r"where\s+O: Into<BinOper>,\s+R: Into<SimpleExpr>,", ""),
                 make_r_sub("R-into", r"\.into\(\)", "", min_count=3)]
    u.fn(E, "impl<T> ExprTrait for T where T: Into<SimpleExpr>,", "binary", ret="r", rules=r_gen_bin, props=P, key="ExprTrait::binary[SimpleExpr]", vpath="SimpleExpr::binary",
         spec="ensures r == SimpleExpr::Binary(Box::new(self), op, Box::new(right)),")
    u.fn(E, "impl<T> ExprTrait for T where T: Into<SimpleExpr>,", "unary", ret="r", rules=[make_r_sub("R-into", r"\.into\(\)", "")], props=P,
         key="ExprTrait::unary[SimpleExpr]", vpath="SimpleExpr::unary", spec="ensures r == SimpleExpr::Unary(op, Box::new(self)),")
    for nm, op in [("and", "And"), ("or", "Or")]:
        u.fn(E, "trait ExprTrait", nm, ret="r", rename="etr_" + nm, props=P, key="ExprTrait::%s[default]" % nm, vpath="SimpleExpr::etr_" + nm,
             rules=[make_r_sub("R-into", r"%s<R>\(self, right: R\)" % nm, "%s(self, right: SimpleExpr)" % nm), make_r_sub("R-into", r"where\s+R: Into<SimpleExpr>,", ""),
                    make_r_sub("R-self2fn", r"(?:ExprTrait::binary\(self,|self\.binary\()", "Self::binary(self,")],
             spec="ensures r == SimpleExpr::Binary(Box::new(self), BinOper::%s, Box::new(right))," % op)
        u.fn(E, "impl SimpleExpr", nm, ret="r", props=P, key="SimpleExpr::" + nm,
             rules=[make_r_sub("R-self2fn", r"ExprTrait::%s\(self," % nm, "Self::etr_%s(self," % nm)],
             spec=ENS + "#[trigger] sem_expr(r, env) == %s3(sem_expr(self, env), sem_expr(right, env))," % nm)
    u.fn(E, "trait ExprTrait", "not", ret="r", rename="etr_not", props=P, key="ExprTrait::not[default]", vpath="SimpleExpr::etr_not",
         spec="ensures r == SimpleExpr::Unary(UnOper::Not, Box::new(self)),")
    u.fn(E, "impl SimpleExpr", "not", ret="r", props=P, key="SimpleExpr::not",
         rules=[make_r_sub("R-self2fn", r"ExprTrait::not\(self\)", "Self::etr_not(self)")],
         spec=ENS + "#[trigger] sem_expr(r, env) == not3(sem_expr(self, env)),")
    u.emit("}\n")

    # ---- conversions into ConditionExpression (R-into: the generic `C: Into<ConditionExpression>` of add/add_option) ----
    u.emit('''pub trait VIntoCE: Sized {
    spec fn ce(self) -> ConditionExpression;
    fn into_ce(self) -> (r: ConditionExpression) ensures r == self.ce();
}
''', kind="spec", key="cond::VIntoCE", props=P)
    for src_ty, var in [("Condition", "Condition"), ("SimpleExpr", "SimpleExpr")]:
        u.emit("impl VIntoCE for %s {\n    open spec fn ce(self) -> ConditionExpression { ConditionExpression::%s(self) }\n" % (src_ty, var), kind="spec", key="cond::VIntoCE", props=P)
        u.fn(C, "impl From<%s> for ConditionExpression" % src_ty, "from", rename="into_ce", props=P, key="From<%s> for ConditionExpression" % src_ty,
             vpath="%s::into_ce" % src_ty, no_canary=True,
             rules=[make_r_sub("R-into", r"fn from\(condition: %s\) -> Self" % src_ty, "fn from(self) -> ConditionExpression"),
                    make_r_sub("R-into", r"\(condition\)", "(self)")])
        u.emit("}\n")
    u.emit('''impl VIntoCE for ConditionExpression {
    open spec fn ce(self) -> ConditionExpression { self }
    fn into_ce(self) -> (r: ConditionExpression) { self }   // `impl<T> From<T> for T` (std): identity
}
''', kind="spec", key="cond::VIntoCE", props=P)

    # ---- Condition ---------------------------------------------------------------------------------------------------------
    u.emit("impl Condition {\n")
    for nm, ty in [("any", "Any"), ("all", "All")]:
        u.fn(C, "impl Condition", nm, ret="r", props=P,
             spec="ensures !r.negate, r.condition_type == ConditionType::%s, r.conditions@.len() == 0,\n    %s#[trigger] sem_cond(r, env) == unit_of(ConditionType::%s)," % (ty, ENV, ty))
    u.fn(C, "impl Condition", "not", ret="r", rules=[r_mutself, make_r_tailbind()], props=P,
         proofs={"before#1:r_\n": "proof { assert forall|env: Env| #[trigger] sem_cond(r_, env) == not3(sem_cond(self, env)) by { lemma_cond_seq(r_, env); lemma_cond_seq(self, env); } }"},
         spec="ensures r.negate == !self.negate, r.condition_type == self.condition_type, r.conditions == self.conditions,\n    " + ENV + "#[trigger] sem_cond(r, env) == not3(sem_cond(self, env)),")
    r_add = [make_r_sub("R-into", r"add<C>\(mut self, condition: C\)", "add<C: VIntoCE>(mut self, condition: C)"),
             make_r_sub("R-into", r"where\s+C: Into<ConditionExpression>,", ""),
             make_r_sub("R-into", r"condition\.into\(\)", "condition.into_ce()"), r_mutself, make_r_tailbind()]
    ADD_PROOFS = {
        "after#1:condition.into_ce();": "let ghost ce0 = expr;",
        "before#1:self_.conditions.push(expr);": '''let ghost e1 = expr;
proof {
    assert forall|env: Env| #[trigger] sem_ce(e1, env) == sem_ce(ce0, env) by {
        if let ConditionExpression::Condition(c0) = ce0 {
            if c0.conditions@.len() == 1 && !c0.negate {
                reveal_with_fuel(sem_members, 3);
                assert(sem_cond(c0, env) == sem_ce(c0.conditions@[0], env));
            }
        }
    }
}''',
        "before#1:r_\n": '''proof {
    assert(r_.conditions@.drop_last() =~= self.conditions@);
    assert(r_.conditions@.last() == e1);
    assert forall|env: Env| #[trigger] sem_cond(r_, env) == (if self.negate { not3(join(self.condition_type, sem_seq(self.conditions@, self.condition_type, env), sem_ce(ce0, env))) }
                                       else { join(self.condition_type, sem_seq(self.conditions@, self.condition_type, env), sem_ce(ce0, env)) }) by {
        lemma_cond_seq(r_, env);
    }
}'''}
    u.fn(C, "impl Condition", "add", ret="r", rules=r_add, props=P, proofs=ADD_PROOFS,
         spec="""ensures
    r.negate == self.negate, r.condition_type == self.condition_type,
    r.conditions@.len() == self.conditions@.len() + 1, r.conditions@.drop_last() == self.conditions@,
    // the member that is stored means what the member that was given means (single-member groups are unwrapped)
    %s#[trigger] sem_ce(r.conditions@.last(), env) == sem_ce(condition.ce(), env),
    // hence: the group means (old group) JOIN (new member)
    %s#[trigger] sem_cond(r, env) == (if self.negate { not3(join(self.condition_type, sem_seq(self.conditions@, self.condition_type, env), sem_ce(condition.ce(), env))) }
                                       else { join(self.condition_type, sem_seq(self.conditions@, self.condition_type, env), sem_ce(condition.ce(), env)) }),""" % (ENV, ENV))
    u.fn(C, "impl Condition", "add_option", ret="r", props=P,
         rules=[make_r_sub("R-into", r"add_option<C>\(self, other: Option<C>\)", "add_option<C: VIntoCE>(self, other: Option<C>)"),
                make_r_sub("R-into", r"where\s+C: Into<ConditionExpression>,", "")],
         spec="""ensures
    other is None ==> r == self,
    other is Some ==> r.negate == self.negate && r.condition_type == self.condition_type && r.conditions@.drop_last() == self.conditions@
        && (%s#[trigger] sem_ce(r.conditions@.last(), env) == sem_ce(other->Some_0.ce(), env)),""" % ENV)
    u.fn(C, "impl Condition", "to_simple_expr", ret="r", props=P,
         rules=[make_r_sub("R-forghost", r"for ce in &self\.conditions", "for ce in it: self.conditions.iter()"),
                make_r_sub("R-forghost", r"for e in inner_exprs_into_iter", "for e in it2: inner_exprs_into_iter"),
                make_r_sub("R-attr", r"e\.clone\(\)", "vclone_expr(e)"),
                make_r_sub("R-into", r"false\.into\(\)", "vvalue_from_bool(false)"), make_r_sub("R-into", r"true\.into\(\)", "vvalue_from_bool(true)"),
                make_r_tailbind()],
         spec="ensures " + ENV + "#[trigger] sem_expr(r, env) == sem_cond(*self, env),\ndecreases self,",
         loops=["""invariant
    it.index@ <= self.conditions@.len(), inner_exprs@.len() == it.index@,
    forall|k: int, env: Env| 0 <= k < it.index@ ==> #[trigger] sem_expr(inner_exprs@[k], env) == sem_ce(self.conditions@[k], env),""",
                """invariant
    it2.snapshot@.remaining() == rem, it2.index@ <= rem.len(), rem.len() + 1 == self.conditions@.len(),
    forall|k: int, env: Env| 0 <= k < rem.len() ==> #[trigger] sem_expr(rem[k], env) == sem_ce(self.conditions@[k + 1], env),
    forall|env: Env| #[trigger] sem_expr(out_expr, env) == sem_members(*self, (1 + it2.index@) as nat, env),"""],
         proofs={"before#1:let mut inner_exprs_into_iter": "let ghost all_exprs = inner_exprs@;",
                 "before#1:for e in it2": "let ghost rem = inner_exprs_into_iter.remaining();\nproof { assert(rem =~= all_exprs.drop_first()); assert forall|env: Env| #[trigger] sem_expr(out_expr, env) == sem_members(*self, 1nat, env) by { reveal_with_fuel(sem_members, 2); assert(out_expr == all_exprs[0]); } }",
                 "loop2-end": "proof { assert forall|env: Env| #[trigger] sem_expr(out_expr, env) == sem_members(*self, (2 + it2.index@) as nat, env) by { assert(e == rem[it2.index@ as int]); } }",
                 "before#1:r_\n": "proof { assert forall|env: Env| #[trigger] sem_expr(r_, env) == sem_cond(*self, env) by { if self.conditions@.len() == 0 { assert(all_exprs.len() == 0); } } }"})
    u.emit("}\n")
    # ---- IntoCondition -----------------------------------------------------------------------------------------------------------
    u.emit("pub trait IntoCondition: Sized {\n    spec fn cond_sem(self, env: Env) -> TV;\n    fn into_condition(self) -> (r: Condition) ensures " + ENV + "#[trigger] sem_cond(r, env) == self.cond_sem(env);\n}\n", kind="spec", key="cond::IntoCondition", props=P)
    u.emit("impl IntoCondition for SimpleExpr {\n    open spec fn cond_sem(self, env: Env) -> TV { sem_expr(self, env) }\n", kind="spec", key="cond::IntoCondition", props=P)
    u.fn(C, "impl IntoCondition for SimpleExpr", "into_condition", ret="r", props=P, key="IntoCondition for SimpleExpr", vpath="SimpleExpr::into_condition", no_canary=True,
         rules=[make_r_tailbind()], proofs={"before#1:r_\n": "proof { assert forall|env: Env| #[trigger] sem_cond(r_, env) == sem_expr(self, env) by { assert(r_.conditions@.drop_last().len() == 0); } }"})
    u.emit("}\nimpl IntoCondition for Condition {\n    open spec fn cond_sem(self, env: Env) -> TV { sem_cond(self, env) }\n", kind="spec", key="cond::IntoCondition", props=P)
    u.fn(C, "impl IntoCondition for Condition", "into_condition", ret="r", props=P, key="IntoCondition for Condition", vpath="Condition::into_condition", no_canary=True)
    u.emit("}\n")
    # ---- ConditionHolder ---------------------------------------------------------------------------------------------------------
    u.emit("impl ConditionHolder {\n")
    u.fn(C, "impl ConditionHolder", "new", ret="r", props=P,
         rules=[make_r_sub("R-attr", r"Self::default\(\)", "Self { contents: ConditionHolderContents::Empty }")],   # derive(Default) + #[default] Empty (trusted)
         spec="ensures r.contents is Empty,")
    u.fn(C, "impl ConditionHolder", "new_with_condition", ret="r", props=P + ["C08"], spec="ensures r.contents == ConditionHolderContents::Condition(condition),")
    u.fn(C, "impl ConditionHolder", "add_condition", props=P,
         rules=[make_r_sub("R-mem", r"std::mem::take\(&mut self\.contents\)", "vmem_take_contents(&mut self.contents)"),
                make_r_sub("R-into", r"\.add\((current|addition)\)", r".add(\1)", min_count=3)],
         spec="""requires !(old(self).contents is Chain),   // mixing the legacy and_or_where with cond_where panics
ensures
    final(self).contents is Condition,
    // the clause now means (what it meant) AND (the condition that was added); an empty holder means TRUE
    %s#[trigger] sem_holder(*final(self), env) == and3(sem_holder(*old(self), env), sem_cond(addition, env)),""" % ENV,
         proofs={"body-start": "let ghost add0 = addition; let ghost h0 = *self;",
                 "after#1:current.conditions.append(&mut addition.conditions);": "let ghost cur1 = current;",
                 "body-end": '''proof {
    assert forall|env: Env| #[trigger] sem_holder(*self, env) == and3(sem_holder(h0, env), sem_cond(add0, env)) by {
        lemma_cond_seq(add0, env);
        match h0.contents {
            ConditionHolderContents::Condition(cur0) => {
                lemma_cond_seq(cur0, env);
                if let ConditionHolderContents::Condition(c2) = self.contents {
                    lemma_cond_seq(c2, env);
                    if cur0.condition_type == ConditionType::All && !cur0.negate && add0.condition_type == ConditionType::All && !add0.negate {
                        assert(c2.conditions@ =~= cur0.conditions@ + add0.conditions@);
                        lemma_seq_concat(cur0.conditions@, add0.conditions@, ConditionType::All, env);
                    } else if !(cur0.condition_type == ConditionType::All && !cur0.negate) {
                        // Condition::all().add(current).add(addition)
                        assert(c2.conditions@.drop_last().drop_last().len() == 0);
                        reveal_with_fuel(sem_seq, 3);
                    }
                }
            }
            _ => {}
        }
    }
}'''})
    u.emit("}\n")
    # ---- statements: cond_where / and_where / cond_having / and_having -----------------------------------------------------
    HOLD = """requires !(old(self).%(f)s.contents is Chain),
ensures
    final(self).%(f)s.contents is Condition,
    %(env)s#[trigger] sem_holder(final(self).%(f)s, env) == and3(sem_holder(old(self).%(f)s, env), %(add)s),"""
    r_ic = [make_r_sub("R-into", r"<C>\(&mut self, condition: C\)", "<C: IntoCondition>(&mut self, condition: C)"),
            make_r_sub("R-into", r"where\s+C: IntoCondition,", ""), make_r_sub("R-inherent", r"^(\s*)pub fn", r"\1fn", flags=re.M, min_count=0), r_retself]
    for st, f, fields in [("SelectStatement", "src/query/select.rs", ["where", "having", "join"]), ("UpdateStatement", "src/query/update.rs", ["where"]), ("DeleteStatement", "src/query/delete.rs", ["where"]),
                          # the partial-index predicate of CREATE INDEX .. WHERE is built by the same calls
                          ("IndexCreateStatement", "src/index/create.rs", ["where"])]:
        u.type_item(f, "struct", st, props=P, keep_fields=fields)
        u.emit("impl %s {\n" % st)
        u.fn(f, "impl ConditionalStatement for %s" % st, "cond_where", props=P, rules=r_ic, key="%s::cond_where" % st, vpath="%s::cond_where" % st,
             spec=HOLD % {"f": "r#where", "env": ENV, "add": "condition.cond_sem(env)"})
        # ConditionalStatement::and_where / and_where_option are trait defaults (re-exported by #[inherent])
        u.fn(C, "trait ConditionalStatement", "and_where", props=P, rules=[r_retself],
             key="ConditionalStatement::and_where[%s]" % st, vpath="%s::and_where" % st,
             spec=HOLD % {"f": "r#where", "env": ENV, "add": "sem_expr(other, env)"})
        u.fn(C, "trait ConditionalStatement", "and_where_option", props=P, rules=[r_retself],
             key="ConditionalStatement::and_where_option[%s]" % st, vpath="%s::and_where_option" % st,
             spec="""requires !(old(self).r#where.contents is Chain),
ensures
    other is None ==> *final(self) == *old(self),
    other is Some ==> final(self).r#where.contents is Condition
        && (%s#[trigger] sem_holder(final(self).r#where, env) == and3(sem_holder(old(self).r#where, env), sem_expr(other->Some_0, env))),""" % ENV)
        if st == "SelectStatement":
            u.fn(f, "impl SelectStatement", "cond_having", props=P, rules=r_ic, key="SelectStatement::cond_having",
                 spec=HOLD % {"f": "having", "env": ENV, "add": "condition.cond_sem(env)"})
            u.fn(f, "impl SelectStatement", "and_having", props=P, rules=[r_retself],
                 key="SelectStatement::and_having", spec=HOLD % {"f": "having", "env": ENV, "add": "sem_expr(other, env)"})
        u.emit("}\n")
    # ---- ON CONFLICT: the conflict target's filter and the action's filter are two holders; each builder method feeds ITS OWN ----
    PU = ["C06", "C08", "C01"]
    u.type_item("src/query/on_conflict.rs", "struct", "OnConflict", props=PU, keep_fields=["target_where", "action_where"], rules=[r_vis])
    u.emit("impl OnConflict {\n")
    OC = """requires !(old(self).%(f)s.contents is Chain),
ensures
    // the filter given for the %(what)s lands in the %(what)s's holder, ANDed to what was there; the other filter is untouched
    final(self).%(f)s.contents is Condition, final(self).%(g)s == old(self).%(g)s,
    %(env)s#[trigger] sem_holder(final(self).%(f)s, env) == and3(sem_holder(old(self).%(f)s, env), %(add)s),"""
    OCO = """requires !(old(self).%(f)s.contents is Chain),
ensures
    other is None ==> *final(self) == *old(self),
    other is Some ==> final(self).%(f)s.contents is Condition && final(self).%(g)s == old(self).%(g)s
        && (%(env)s#[trigger] sem_holder(final(self).%(f)s, env) == and3(sem_holder(old(self).%(f)s, env), sem_expr(other->Some_0, env))),"""
    for pre, f, g, what in [("target", "target_where", "action_where", "conflict target"), ("action", "action_where", "target_where", "action")]:
        d = {"f": f, "g": g, "what": what, "env": ENV}
        u.fn("src/query/on_conflict.rs", "impl OnConflict", pre + "_cond_where", props=PU, rules=r_ic, key="OnConflict::%s_cond_where" % pre,
             spec=OC % dict(d, add="condition.cond_sem(env)"))
        u.fn("src/query/on_conflict.rs", "impl OnConflict", pre + "_and_where", props=PU, rules=[r_retself], key="OnConflict::%s_and_where" % pre,
             spec=OC % dict(d, add="sem_expr(other, env)"))
        u.fn("src/query/on_conflict.rs", "impl OnConflict", pre + "_and_where_option", props=PU, rules=[r_retself], key="OnConflict::%s_and_where_option" % pre,
             spec=OCO % d)
    u.emit("}\n")
    # ---- JOIN .. ON <condition> and CASE WHEN <condition> ---------------------------------------------------------------------------
    JOINP = """ensures
    // one join is appended; its ON predicate means exactly the condition that was given
    final(self).join@.len() == old(self).join@.len() + 1, final(self).join@.drop_last() == old(self).join@,
    final(self).join@.last().on matches Some(JoinOn::Condition(h)) && (%s#[trigger] sem_holder(*h, env) == condition.cond_sem(env)),
    final(self).r#where == old(self).r#where, final(self).having == old(self).having,""" % ENV
    # join_as / join_subquery / join_lateral differ from join() only in the table argument: checked syntactically on every run
    # (each constructs its ON clause by the same expression as the verified join())
    import glob, os
    want = "JoinOn::Condition(Box::new(ConditionHolder::new_with_condition(condition.into_condition(),)))"
    nj = 0
    for fp in sorted(glob.glob(os.path.join(u.repo, "src", "query", "*.rs"))):
        txt = open(fp).read()
        for m in re.finditer(r"JoinOn::Condition\(", txt):
            line = txt.count("\n", 0, m.start()) + 1
            if txt[:m.start()].rsplit("\n", 1)[-1].lstrip().startswith("//"):
                continue
            code = rl.code_toks(rl.lex(txt[m.end() - 1:]))
            close = rl.match_close(code, 0)
            got = "JoinOn::Condition" + "".join(t.text for t in code[:close + 1])
            nj += 1
            if got != want:
                raise rl.Unsupported("%s:%d: a JOIN's ON clause is built as `%s`, not as in the verified SelectStatement::join" % (os.path.relpath(fp, u.repo), line, got[:120]))
    if nj == 0:
        raise rl.LostAnchor("no JoinOn::Condition(..) construction found under src/query")
    u.emit("impl SelectStatement {\n")
    u.fn("src/query/select.rs", "impl SelectStatement", "join_join", props=P + ["C08"], rules=[r_retself], key="SelectStatement::join_join",
         spec="""ensures final(self).join@ == old(self).join@.push(JoinExpr { join, table: Box::new(table), on: Some(on), lateral }),
    final(self).r#where == old(self).r#where, final(self).having == old(self).having,""")
    r_tbl = [make_r_sub("R-into", r"where\s+R: IntoTableRef,\s+C: IntoCondition,", ""), make_r_sub("R-into", r"tbl_ref\.into_table_ref\(\)", "tbl_ref"), r_retself]
    u.fn("src/query/select.rs", "impl SelectStatement", "join", props=P + ["C08"], key="SelectStatement::join",
         rules=[make_r_sub("R-into", r"join<R, C>\(&mut self, join: JoinType, tbl_ref: R, condition: C\)", "join<C: IntoCondition>(&mut self, join: JoinType, tbl_ref: TableRef, condition: C)")] + r_tbl,
         spec=JOINP, proofs={"body-end": "proof { assert(self.join@.drop_last() =~= old(self).join@); }"})
    u.emit("}\n")
    u.emit("impl CaseStatement {\n")
    u.fn("src/query/case.rs", "impl CaseStatement", "case", ret="r", props=P, key="CaseStatement::case",
         rules=[make_r_sub("R-into", r"case<C, T>\(mut self, cond: C, then: T\)", "case<C: IntoCondition>(mut self, cond: C, then: SimpleExpr)"),
                make_r_sub("R-into", r"where\s+C: IntoCondition,\s+T: Into<SimpleExpr>,", ""), make_r_sub("R-into", r"then\.into\(\)", "then"), r_mutself, make_r_tailbind()],
         spec="""ensures
    // one WHEN branch is appended; its predicate means exactly the condition that was given, its result is the one given
    r.when@.len() == self.when@.len() + 1, r.when@.drop_last() == self.when@, r.r#else == self.r#else,
    r.when@.last().result == then, %s#[trigger] sem_cond(r.when@.last().condition, env) == cond.cond_sem(env),""" % ENV,
         proofs={"before#1:r_\n": "proof { assert(r_.when@.drop_last() =~= self.when@); }"})
    u.emit("}\n")
    # ---- rendering: an empty holder renders nothing; otherwise ` KEYWORD ` + the expression of the condition ------------------
    u.prelude_file("vlib/prelude/vfmt.rs")
    u.spec('''
pub struct AnyBackend;
pub uninterp spec fn expr_text(e: SimpleExpr) -> Seq<char>;
pub uninterp spec fn chain_text(c: Seq<LogicalChainOper>) -> Seq<char>;
impl AnyBackend {
    // abstract: the expression renderer (its parenthesisation is C05's subject)
    #[verifier::external_body]
    fn prepare_simple_expr<W: VWrite>(&self, simple_expr: &SimpleExpr, sql: &mut W)
        ensures final(sql).text() == old(sql).text() + expr_text(*simple_expr)
    { unimplemented!() }
''', "cond::AnyBackend", props=P)
    QB = "src/backend/query_builder.rs"
    u.fn(QB, "trait QueryBuilder", "prepare_condition_where", props=P, rules=[r_dynw], key="QueryBuilder::prepare_condition_where", vpath="AnyBackend::prepare_condition_where",
         spec="ensures exists|e: SimpleExpr| (%s#[trigger] sem_expr(e, env) == sem_cond(*condition, env)) && final(sql).text() == old(sql).text() + #[trigger] expr_text(e)," % ENV)
    u.fn(QB, "trait QueryBuilder", "prepare_condition", props=P, key="QueryBuilder::prepare_condition", vpath="AnyBackend::prepare_condition",
         rules=[r_dynw, make_r_fmt(wmap=lambda w: w),
                # R-arm: the legacy `Chain` representation (hidden and_or_where) is outside the property's call list: its loop is abstracted
                make_r_sub("R-arm", r"for \(i, log_chain_oper\) in conditions\.iter\(\)\.enumerate\(\) \{\s*self\.prepare_logical_chain_oper\(log_chain_oper, i, conditions\.len\(\), sql\);\s*\}", "vabstract_chain(conditions, sql);")],
         spec="""ensures
    // a statement that was given no condition renders no predicate at all
    condition.contents is Empty ==> final(sql).text() == old(sql).text(),
    // otherwise: ` KEYWORD ` followed by the rendering of an expression that means what the holder means
    condition.contents is Condition ==> exists|e: SimpleExpr| (%s#[trigger] sem_expr(e, env) == sem_holder(*condition, env))
        && final(sql).text() == old(sql).text() + seq![' '] + keyword@ + seq![' '] + #[trigger] expr_text(e),""" % ENV,
         proofs={"body-start": "let ghost t0 = sql.text();\nproof { reveal_strlit(\" \"); assert(\" \"@ =~= seq![' ']); }"})
    u.fn(QB, "trait QueryBuilder", "prepare_join_on", props=P + ["C08"], key="QueryBuilder::prepare_join_on", vpath="AnyBackend::prepare_join_on",
         rules=[r_dynw, make_r_sub("R-panic", r"JoinOn::Columns\(_c\) => unimplemented!\(\),", "JoinOn::Columns(_c) => { Self::vpanic(); }")],
         spec="""requires !(join_on is Columns),   // not implemented upstream (panics)
ensures
    // JOIN .. ON: same rule as WHERE / HAVING with the keyword ON
    *join_on matches JoinOn::Condition(c) ==> (c.contents is Empty ==> final(sql).text() == old(sql).text()),
    *join_on matches JoinOn::Condition(c) ==> (c.contents is Condition ==> exists|e: SimpleExpr| (%s#[trigger] sem_expr(e, env) == sem_holder(*c, env))
        && final(sql).text() == old(sql).text() + seq![' '] + "ON"@ + seq![' '] + #[trigger] expr_text(e)),""" % ENV)
    u.spec("""
    // R-panic (trusted): unimplemented!() / panic!() never return; reaching them is excluded by the precondition
    #[verifier::external_body]
    fn vpanic() requires false { unimplemented!() }
}
#[verifier::external_body]
fn vabstract_chain<W: VWrite>(conditions: &Vec<LogicalChainOper>, sql: &mut W)
    ensures final(sql).text() == old(sql).text() + chain_text(conditions@)
{ unimplemented!() }
""", "cond::AnyBackend-end", props=P)
    u.emit("} // verus!\nfn main() {}\n")
