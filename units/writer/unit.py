"""unit `writer`  ->  C01 (placeholders <-> values, numbering, order) and C02 (inline == parameterised, all entry points).

Under contract: SqlWriterValues::{new, into_parts}, fmt::Write::write_str for SqlWriterValues, SqlWriter::push_param for
String and for SqlWriterValues (src/prepare.rs); QueryBuilder::placeholder (default + Postgres), prepare_value x4;
QueryStatementBuilder::{build_any, build_collect_any}, QueryStatementWriter::{to_string, build, build_collect}
(src/query/traits.rs); the #[inherent] forwards build_collect_any_into / build_collect_into of select / insert /
update / delete / with; the value-pushing clause renderers prepare_select_limit_offset, prepare_update_limit,
prepare_delete_limit; prepare_values_list (nested folds) + values_list_tuple_prefix; prepare_field_order (C03 / C01).
"""
import re
from vlib import rustlex as rl
from vlib.gen import make_r_fmt, make_r_sub, make_r_dyn, r_unit_tail, make_r_tailbind, r_fold

PR = "src/prepare.rs"
TR = "src/query/traits.rs"
QB = "src/backend/query_builder.rs"
P = ["C01", "C02"]
BACKENDS = {"MysqlQueryBuilder": "src/backend/mysql/query.rs", "PostgresQueryBuilder": "src/backend/postgres/query.rs",
            "SqliteQueryBuilder": "src/backend/sqlite/query.rs"}
STMTS = [("SelectStatement", "src/query/select.rs", "prepare_select_statement", "select_ops"),
         ("InsertStatement", "src/query/insert.rs", "prepare_insert_statement", "insert_ops"),
         ("UpdateStatement", "src/query/update.rs", "prepare_update_statement", "update_ops"),
         ("DeleteStatement", "src/query/delete.rs", "prepare_delete_statement", "delete_ops"),
         ("WithQuery", "src/query/with.rs", "prepare_with_query", "with_ops")]

r_dyn = make_r_dyn({"SqlWriter": ("W", "SqlWriter"), "QueryBuilder": ("QB", "QueryBuilder")})
r_dyn_pp = make_r_dyn({"QueryBuilder": ("QB", "ValueRenderer")})   # push_param only needs value_to_string
r_sfmt = make_r_fmt(disp="sfmt_disp", lit="sfmt_lit", wmap=lambda w: "&mut " + w)   # write! into a String field
r_wfmt = make_r_fmt(wmap=lambda w: w, merge=True)                                               # write! into a SqlWriter
r_inh = make_r_sub("R-inherent", r"^(\s*)pub fn", r"\1fn", flags=re.M, min_count=0)   # #[inherent] lets a trait impl say `pub fn`
r_cap = make_r_sub("R-strfn", r"String::with_capacity\(256\)", "String::new()")

REL = "forall|t: Seq<Op>, c: Cfg| #[trigger] old(sql).rel(t, c) ==> final(sql).rel(%s, c),"


def resolve(u, ty, fn, impl_file):
    src = u.src(impl_file)
    hdr = "impl QueryBuilder for %s" % ty
    for h, it in rl.find_blocks(impl_file, src):
        if h == hdr:
            try:
                rl.find_fn(impl_file, src, it, fn)
                return impl_file, hdr, "override"
            except rl.LostAnchor:
                return QB, "trait QueryBuilder", "default"
    raise rl.LostAnchor("%s: `%s` not found" % (impl_file, hdr))


SHIMS = r'''
// string-level formatting shims (write! into a String field), same trust as vlib/prelude/vfmt.rs
fn sfmt_disp<T: VDisp>(w: &mut String, x: T) ensures final(w)@ == old(w)@ + x.disp() { let s = x.vdisp(); w.push_str(s.as_str()) }
fn sfmt_lit(w: &mut String, x: &str) ensures final(w)@ == old(w)@ + x@ { w.push_str(x) }
#[verifier::external_body]
fn vstr_to_owned(n: &str) -> (r: String) ensures r@ == n@ { n.to_owned() }

// identity of a backend at spec level (dialect) - the statement renderers are functions of (statement, backend)
pub struct QbSpec { pub dialect: int }
pub uninterp spec fn select_ops(qb: QbSpec, s: SelectStatement, t: Seq<Op>) -> Seq<Op>;
pub uninterp spec fn insert_ops(qb: QbSpec, s: InsertStatement, t: Seq<Op>) -> Seq<Op>;
pub uninterp spec fn update_ops(qb: QbSpec, s: UpdateStatement, t: Seq<Op>) -> Seq<Op>;
pub uninterp spec fn delete_ops(qb: QbSpec, s: DeleteStatement, t: Seq<Op>) -> Seq<Op>;
pub uninterp spec fn with_ops(qb: QbSpec, s: WithQuery, t: Seq<Op>) -> Seq<Op>;
#[verifier::external_body]
pub struct SimpleExpr { _opaque: u8 }
pub uninterp spec fn expr_ops(qb: QbSpec, e: SimpleExpr, t: Seq<Op>) -> Seq<Op>;
'''

STRING_WRITER = r'''
// fmt::Write for String (std, trusted): write_str appends
impl VWrite for String {
    open spec fn text(&self) -> Seq<char> { self@ }
    open spec fn aux(&self) -> WAux { WAux { values: Seq::<Value>::empty(), counter: 0, ph: Seq::<char>::empty(), numbered: false } }
    fn vpush(&mut self, s: &str) { self.push_str(s) }
}
'''


def build(u):
    u.emit("use vstd::prelude::*;\nverus! {\n")
    # VDisp from the common prelude, minus the text-level VWrite / vfmt_* (this unit defines trace-level ones)
    pre = open(__file__.replace("units/writer/unit.py", "vlib/prelude/vfmt.rs")).read()
    a = pre.index("pub trait VWrite {")
    b = pre.index("// {:02X}")
    u.spec(pre[:a] + pre[b:].replace("fn vfmt_hex2_upper<W: VWrite>", "fn vfmt_hex2_upper_unused<W: VWrite>"), "prelude:vfmt(VDisp only)")
    u.prelude_file("units/writer/spec.rs", props=P)
    u.type_item("src/value.rs", "struct", "Values", props=P)
    # frame argument for C01: the fields are private to src/prepare.rs, so new / write_str / push_param / into_parts are
    # the only code that can touch counter / values / string.  Checked here on every run; R-vis only widens visibility
    # inside the verified file so that contracts can mention the fields.
    raw = rl.find_type(PR, u.src(PR), "struct", "SqlWriterValues").text
    if re.search(r"\bpub(\([a-z]+\))?\s+(counter|placeholder|numbered|string|values)\b", raw):
        raise rl.Unsupported("SqlWriterValues has a public field: the frame argument of C01 no longer holds")
    other = re.sub(r"impl\s+(SqlWriterValues|Write for SqlWriterValues|SqlWriter for SqlWriterValues|std::fmt::Display for SqlWriterValues)\s*\{.*?\n\}\n", "", u.src(PR), flags=re.S)
    if re.search(r"\.(counter|values)\b(?!\()", other.split("#[cfg(test)]")[0]):
        raise rl.Unsupported("src/prepare.rs touches SqlWriterValues.counter / .values outside its own impls")
    # assumption of C01 / C02: a renderer never READS the writer (it only appends through the SqlWriter interface)
    import glob, os
    for fp in sorted(glob.glob(os.path.join(u.repo, "src", "backend", "**", "*.rs"), recursive=True)):
        txt = open(fp).read()
        m = re.search(r"\bsql\s*\.\s*(to_string|as_str|len|clone)\s*\(", txt)
        if m:
            raise rl.Unsupported("%s reads the writer (`sql.%s(..)`): renderers are assumed to be functions of (statement, builder) only" % (os.path.relpath(fp, u.repo), m.group(1)))
    u.type_item(PR, "struct", "SqlWriterValues", props=P, rules=[make_r_sub("R-vis", r"^(\s+)([a-z_]+: )", r"\1pub \2", flags=re.M)])
    u.type_item("src/query/select.rs", "struct", "SelectStatement", props=P, keep_fields=["limit", "offset"])
    u.type_item("src/query/update.rs", "struct", "UpdateStatement", props=P, keep_fields=["limit"])
    u.type_item("src/query/delete.rs", "struct", "DeleteStatement", props=P, keep_fields=["limit"])
    u.type_item("src/query/insert.rs", "struct", "InsertStatement", props=P, keep_fields=["replace"])
    u.type_item("src/query/with.rs", "struct", "WithQuery", props=P, keep_fields=[])
    u.type_item("src/types.rs", "struct", "OrderExpr", props=["C03", "C01"], keep_fields=["expr"])
    u.spec(SHIMS, "writer::shims", props=P)
    u.spec(STRING_WRITER, "writer::String-as-VWrite", props=P)

    # ---- SqlWriterValues --------------------------------------------------------------------------------------
    u.emit("impl SqlWriterValues {\n    pub open spec fn wf(&self) -> bool { self.counter == self.values@.len() }\n")
    u.fn(PR, "impl SqlWriterValues", "new", ret="r", props=P,
         rules=[make_r_sub("R-into", r"new<T>\(placeholder: T, numbered: bool\)", "new(placeholder: &str, numbered: bool)"),
                make_r_sub("R-into", r"where\s+T: Into<String>,", ""), make_r_sub("R-into", r"placeholder\.into\(\)", "vstr_to_owned(placeholder)"), r_cap],
         spec="ensures r.counter == 0, r.values@ == Seq::<Value>::empty(), r.string@ == Seq::<char>::empty(), r.placeholder@ == placeholder@, r.numbered == numbered, r.rel(Seq::<Op>::empty(), Cfg { ph: placeholder@, numbered }),")
    u.fn(PR, "impl SqlWriterValues", "into_parts", ret="r", props=P, spec="ensures r.0@ == self.string@, r.1.0@ == self.values@,")
    u.fn(PR, "impl Write for SqlWriterValues", "write_str", ret="r", props=P, rules=[r_sfmt], vpath="SqlWriterValues::write_str",
         spec="ensures final(self).string@ == old(self).string@ + s@, final(self).values == old(self).values, final(self).counter == old(self).counter,\n    final(self).placeholder == old(self).placeholder, final(self).numbered == old(self).numbered,")
    u.emit("}\n")
    u.spec('''
impl VWrite for SqlWriterValues {
    open spec fn text(&self) -> Seq<char> { self.string@ }
    open spec fn aux(&self) -> WAux { WAux { values: self.values@, counter: self.counter as int, ph: self.placeholder@, numbered: self.numbered } }
    // R-fmt (trusted): write!(w, ..) on a `W: fmt::Write` calls w.write_str with each piece
    fn vpush(&mut self, s: &str) { let _ = self.write_str(s); }
}
''', "writer::SqlWriterValues-as-VWrite", props=P)

    # ---- the two SqlWriter impls, against ONE trait contract -----------------------------------------------------
    u.emit('''impl SqlWriter for String {
    open spec fn rel(&self, t: Seq<Op>, c: Cfg) -> bool { self@ == render_inline(t) }
    proof fn lemma_text(o: &Self, n: &Self, t: Seq<Op>, c: Cfg, s: Seq<char>) { assert(t.push(Op::Text(s)).drop_last() == t); }
    fn to_string(&self) -> (r: String) { self.clone() }
''', kind="spec", key="writer::SqlWriter-for-String", props=P)
    u.fn(PR, "impl SqlWriter for String", "push_param", rules=[r_dyn_pp, r_unit_tail], props=P, key="String::push_param", vpath="String::push_param",
         proofs={"body-start": "let ghost o = *self;",
                 "body-end": "proof { assert forall|t: Seq<Op>, c: Cfg| #[trigger] o.rel(t, c) implies self.rel(t.push(Op::Param(value, query_builder.vts(value))), c) by { assert(t.push(Op::Param(value, query_builder.vts(value))).drop_last() == t); } }"},
         header_rules=[], no_canary=True)
    u.emit("}\n")
    u.emit('''impl SqlWriter for SqlWriterValues {
    open spec fn rel(&self, t: Seq<Op>, c: Cfg) -> bool {
        &&& self.placeholder@ == c.ph && self.numbered == c.numbered
        &&& self.string@ == render_ph(t, c.ph, c.numbered)
        &&& self.values@ == params_of(t)
        &&& self.wf()
    }
    proof fn lemma_text(o: &Self, n: &Self, t: Seq<Op>, c: Cfg, s: Seq<char>) { assert(t.push(Op::Text(s)).drop_last() == t); }
    #[verifier::external_body]
    fn to_string(&self) -> (r: String) { self.string.clone() }
''', kind="spec", key="writer::SqlWriter-for-SqlWriterValues", props=P)
    u.fn(PR, "impl SqlWriter for SqlWriterValues", "push_param", rules=[r_dyn_pp, r_sfmt, make_r_sub("R-dyn", r"_: &QB", "query_builder: &QB"), r_unit_tail], props=P,
         key="SqlWriterValues::push_param", vpath="SqlWriterValues::push_param", no_canary=True,
         proofs={"body-start": "let ghost o = *self;\nproof { assume(self.counter < usize::MAX); } // ASSUMED: a Vec<Value> cannot hold usize::MAX elements (allocation limit isize::MAX bytes)",
                 "body-end": '''proof {
    assert forall|t: Seq<Op>, c: Cfg| #[trigger] o.rel(t, c) implies self.rel(t.push(Op::Param(value, query_builder.vts(value))), c) by {
        let t2 = t.push(Op::Param(value, query_builder.vts(value)));
        assert(t2.drop_last() == t);
        assert(params_of(t2) == params_of(t).push(value));
        assert(self.string@ =~= o.string@ + ph_text(c.ph, c.numbered, self.counter as int));
    }
}'''})
    u.emit("}\n")

    # ---- backends: placeholder, prepare_value; clause renderers --------------------------------------------------------
    dialect = {"MysqlQueryBuilder": 1, "PostgresQueryBuilder": 2, "SqliteQueryBuilder": 3}
    for ty, f in BACKENDS.items():
        u.emit("pub struct %s;\n" % ty)
        u.emit('''impl ValueRenderer for %s {
    uninterp spec fn vts(&self, v: Value) -> Seq<char>;
    // abstract here; its text / binary literal arms are verified in unit `escape`
    #[verifier::external_body]
    fn value_to_string(&self, v: &Value) -> (r: String) { unimplemented!() }
}
impl QueryBuilder for %s {
    open spec fn ph(&self) -> Seq<char> { %s }
    open spec fn numbered(&self) -> bool { %s }
    open spec fn spec_id(&self) -> QbSpec { QbSpec { dialect: %d } }
    // grammar: MySQL 8 spells a row of a VALUES table `ROW(..)`; PostgreSQL and SQLite `(..)`
    open spec fn row_prefix(&self) -> Seq<char> { %s }
''' % (ty, ty, "seq!['$']" if ty == "PostgresQueryBuilder" else "seq!['?']", "true" if ty == "PostgresQueryBuilder" else "false", dialect[ty], "seq!['R', 'O', 'W']" if ty == "MysqlQueryBuilder" else "Seq::<char>::empty()"),
               kind="spec", key="writer::%s" % ty, props=P)
        path, blk, how = resolve(u, ty, "placeholder", f)
        u.fn(path, blk, "placeholder", ret="r", props=P, key="%s::placeholder[%s]" % (ty, how), vpath=ty + "::placeholder", no_canary=True,
             proofs={"body-start": 'proof { reveal_strlit("?"); reveal_strlit("$"); assert("?"@ =~= seq![\'?\']); assert("$"@ =~= seq![\'$\']); }'})
        path, blk, how = resolve(u, ty, "values_list_tuple_prefix", f)
        u.fn(path, blk, "values_list_tuple_prefix", ret="r", props=["C01", "C02"], key="%s::values_list_tuple_prefix[%s]" % (ty, how), vpath=ty + "::values_list_tuple_prefix", no_canary=True,
             proofs={"body-start": 'proof { reveal_strlit("ROW"); reveal_strlit(""); assert("ROW"@ =~= seq![\'R\', \'O\', \'W\']); assert(""@ =~= Seq::<char>::empty()); }'})
        path, blk, how = resolve(u, ty, "prepare_value", f)
        u.fn(path, blk, "prepare_value", props=P, rules=[r_dyn, r_unit_tail], key="%s::prepare_value[%s]" % (ty, how), vpath=ty + "::prepare_value", no_canary=True)
        for (st, sf, fn, ops) in STMTS:
            u.emit("    #[verifier::external_body]\n    fn %s<W: SqlWriter>(&self, s: &%s, sql: &mut W) { unimplemented!() }\n" % (fn, st), kind="spec", key="writer::abstract-renderer", props=P)
        u.emit("    #[verifier::external_body]\n    fn prepare_simple_expr<W: SqlWriter>(&self, simple_expr: &SimpleExpr, sql: &mut W) { unimplemented!() }\n", kind="spec", key="writer::abstract-renderer", props=P)
        u.emit("}\n")
        # clause renderers that push values (trait defaults unless overridden)
        u.emit("impl %s {\n" % ty)
        for fn, st, spec_t in [
            ("prepare_select_limit_offset", "select", '''{
        let t1 = if select.limit is Some { t.push(Op::Text(" LIMIT "@)).push(Op::Param(select.limit->Some_0, self.vts(select.limit->Some_0))) } else { t };
        if select.offset is Some { t1.push(Op::Text(" OFFSET "@)).push(Op::Param(select.offset->Some_0, self.vts(select.offset->Some_0))) } else { t1 }
    }'''),
            ("prepare_update_limit", "update", '(if update.limit is Some { t.push(Op::Text(" LIMIT "@)).push(Op::Param(update.limit->Some_0, self.vts(update.limit->Some_0))) } else { t })'),
            ("prepare_delete_limit", "delete", '(if delete.limit is Some { t.push(Op::Text(" LIMIT "@)).push(Op::Param(delete.limit->Some_0, self.vts(delete.limit->Some_0))) } else { t })'),
        ]:
            try:
                path, blk, how = resolve(u, ty, fn, f)
            except rl.LostAnchor:
                raise
            u.fn(path, blk, fn, props=["C01"], rules=[r_dyn, r_wfmt], key="%s::%s[%s]" % (ty, fn, how), vpath="%s::%s" % (ty, fn),
                 spec="ensures\n    // the clause's values are pushed once each, in this order, after their keyword\n    " + REL % spec_t)
        # VALUES list: every cell of every row is bound once, row-major, in call order; the row keyword is the dialect's
        path, blk, how = resolve(u, ty, "prepare_values_list", f)
        u.fn(path, blk, "prepare_values_list", props=["C01", "C02"], key="%s::prepare_values_list[%s]" % (ty, how), vpath="%s::prepare_values_list" % ty,
             rules=[r_dyn, make_r_sub("R-slice", r"value_tuples: &\[ValueTuple\]", "value_tuples: &Vec<ValueTuple>"),
                    make_r_sub("R-iterimpl", r"([ \t]*)value_tuple\.clone\(\)\.into_iter\(\)\.fold\(", r"\1let vt_vals = vtuple_values(value_tuple);\n\1vt_vals.iter().fold("),
                    make_r_sub("R-iterimpl", r"self\.prepare_value\(&value, sql\)", "self.prepare_value(value, sql)"),
                    r_fold, r_wfmt],
             spec="ensures\n    " + REL % "values_list_ops(self, value_tuples@, value_tuples@.len(), t)",
             loops=["""invariant
    it1.index@ <= value_tuples@.len(), first_o == (it1.index@ == 0),
    forall|t: Seq<Op>, c: Cfg| #[trigger] s0.rel(t, c) ==> sql.rel(values_list_ops(self, value_tuples@, it1.index@ as nat, t), c),""",
                    """invariant
    it2.index@ <= vt_vals@.len(), first == (it2.index@ == 0), vt_vals@ == tuple_values(*value_tuple),
    0 <= it1.index@ < value_tuples@.len(), *value_tuple == value_tuples@[it1.index@ as int],
    forall|t: Seq<Op>, c: Cfg| #[trigger] s0.rel(t, c) ==> sql.rel(row_ops(self, vt_vals@, it2.index@ as nat,
        (if it1.index@ == 0 { values_list_ops(self, value_tuples@, 0, t) } else { values_list_ops(self, value_tuples@, it1.index@ as nat, t).push(Op::Text(", "@)) }).push(Op::Text(self.row_prefix())).push(Op::Text("("@))), c),"""],
             proofs={"body-start": "let ghost s0 = *sql;"})
        # ORDER BY FIELD list: inline literals written through the backend's own value_to_string, nothing bound
        path, blk, how = resolve(u, ty, "prepare_field_order", f)
        u.fn(path, blk, "prepare_field_order", props=["C03", "C01"], rules=[r_dyn, r_wfmt, make_r_sub("R-forghost", r"for value in &values\.0", "for value in it: values.0.iter()")],
             key="%s::prepare_field_order[%s]" % (ty, how), vpath="%s::prepare_field_order" % ty,
             spec="ensures\n    // every list value is written inline as THIS backend's literal (vts), in list order; no parameter is pushed\n    "
                  + "forall|t: Seq<Op>, c: Cfg| #[trigger] old(sql).rel(t, c) ==> final(sql).rel(field_order_ops(self, order_expr.expr, values.0@, values.0@.len(), t).push(Op::Text(\"ELSE \"@)).push(Op::Text(num_text_int(values.0@.len() as int))).push(Op::Text(\" END\"@)), c),",
             loops=["""invariant
    i == it.index@, it.index@ <= values.0@.len(), values.0@.len() < i32::MAX,
    forall|t: Seq<Op>, c: Cfg| #[trigger] s0.rel(t, c) ==> sql.rel(field_order_ops(self, order_expr.expr, values.0@, it.index@ as nat, t), c),"""],
             proofs={"body-start": "let ghost s0 = *sql;\nproof { assume(values.0@.len() < i32::MAX); } // ASSUMED: an ORDER BY FIELD list has fewer than 2^31 values (the counter `i` is an i32)"})
        u.emit("}\n")

    # ---- public entry points --------------------------------------------------------------------------------------------------
    u.emit('''pub trait QueryStatementBuilder {
    // the statement's renderer as a trace transformer (a function of the statement and the backend only)
    spec fn ops(&self, qb: QbSpec, t: Seq<Op>) -> Seq<Op>;
    fn build_collect_any_into<W: SqlWriter, QB: QueryBuilder>(&self, query_builder: &QB, sql: &mut W)
        ensures forall|t: Seq<Op>, c: Cfg| #[trigger] old(sql).rel(t, c) ==> final(sql).rel(self.ops(query_builder.spec_id(), t), c);
''', kind="spec", key="writer::QueryStatementBuilder", props=["C02"])
    E = "Seq::<Op>::empty()"
    u.fn(TR, "trait QueryStatementBuilder", "build_any", ret="r", rules=[r_dyn], props=["C02", "C01"], key="QueryStatementBuilder::build_any",
         spec="ensures r.0@ == render_ph(self.ops(query_builder.spec_id(), %s), query_builder.ph(), query_builder.numbered()),\n    r.1.0@ == params_of(self.ops(query_builder.spec_id(), %s))," % (E, E))
    u.fn(TR, "trait QueryStatementBuilder", "build_collect_any", ret="r", rules=[r_dyn], props=["C02"], key="QueryStatementBuilder::build_collect_any",
         spec="ensures r@ == final(sql).text(), " + REL % "self.ops(query_builder.spec_id(), t)")
    u.emit("}\n")
    u.emit('''pub trait QueryStatementWriter: QueryStatementBuilder {
    fn build_collect_into<W: SqlWriter, T: QueryBuilder>(&self, query_builder: T, sql: &mut W)
        ensures forall|t: Seq<Op>, c: Cfg| #[trigger] old(sql).rel(t, c) ==> final(sql).rel(self.ops(query_builder.spec_id(), t), c);
''', kind="spec", key="writer::QueryStatementWriter", props=["C02"])
    u.fn(TR, "trait QueryStatementWriter", "to_string", ret="r", rules=[r_dyn, r_cap], props=["C02"], key="QueryStatementWriter::to_string",
         spec="ensures r@ == render_inline(self.ops(query_builder.spec_id(), %s))," % E,
         proofs={"before#1:self.build_collect_any_into": "proof { assert(sql.rel(%s, Cfg { ph: Seq::<char>::empty(), numbered: false })); }" % E})
    u.fn(TR, "trait QueryStatementWriter", "build", ret="r", rules=[r_dyn], props=["C02", "C01"], key="QueryStatementWriter::build",
         spec="ensures r.0@ == render_ph(self.ops(query_builder.spec_id(), %s), query_builder.ph(), query_builder.numbered()),\n    r.1.0@ == params_of(self.ops(query_builder.spec_id(), %s))," % (E, E))
    u.fn(TR, "trait QueryStatementWriter", "build_collect", ret="r", rules=[r_dyn], props=["C02"], key="QueryStatementWriter::build_collect",
         spec="ensures r@ == final(sql).text(), " + REL % "self.ops(query_builder.spec_id(), t)")
    u.emit("}\n")

    # ---- the #[inherent] forwards of the five statement types: both entry points call the SAME renderer --------------
    for (st, sf, fn, ops) in STMTS:
        u.emit("impl QueryStatementBuilder for %s {\n    open spec fn ops(&self, qb: QbSpec, t: Seq<Op>) -> Seq<Op> { %s(qb, *self, t) }\n" % (st, ops),
               kind="spec", key="writer::forward-%s" % st, props=["C02"])
        u.fn(sf, "impl QueryStatementBuilder for %s" % st, "build_collect_any_into", rules=[r_inh, r_dyn, r_unit_tail], props=["C02"],
             key="%s::build_collect_any_into" % st, vpath="%s::build_collect_any_into" % st, no_canary=True)
        u.emit("}\nimpl QueryStatementWriter for %s {\n" % st)
        u.fn(sf, "impl QueryStatementWriter for %s" % st, "build_collect_into", rules=[r_inh, r_dyn, r_unit_tail], props=["C02"],
             key="%s::build_collect_into" % st, vpath="%s::build_collect_into" % st, no_canary=True)
        u.emit("}\n")
    u.emit("} // verus!\nfn main() {}\n")
