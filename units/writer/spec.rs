// =============================================================================================
// unit `writer` - specification (hand-written) for C01 / C02.
// A build is a sequence of writer operations (the TRACE): Text(s) | Param(v, lit) where lit is the
// backend's inline literal for v.  The two SqlWriter impls are two renderings of one trace:
//    String           : concat( s | lit )                          (inline mode, to_string)
//    SqlWriterValues  : concat( s | placeholder[k] ), [v1..vn]      (parameterised mode, build)
// C01 is the closed form of the second rendering; C02 is "same trace, two renderings".
// =============================================================================================
#[verifier::external_body]
pub struct Value { _opaque: u8 }
// R-attr (trusted): #[derive(Clone)] on Value is a structural copy
impl Clone for Value {
    #[verifier::external_body]
    fn clone(&self) -> (r: Self) ensures r == *self { unimplemented!() }
}

pub enum Op { Text(Seq<char>), Param(Value, Seq<char>) }

pub open spec fn params_of(t: Seq<Op>) -> Seq<Value>
    decreases t.len()
{
    if t.len() == 0 { Seq::<Value>::empty() }
    else { match t.last() { Op::Text(_) => params_of(t.drop_last()), Op::Param(v, _) => params_of(t.drop_last()).push(v) } }
}
// the k-th parameter (1-based, in reading order) renders as `ph` (MySQL / SQLite) or `ph` ++ decimal(k) (Postgres)
pub open spec fn ph_text(ph: Seq<char>, numbered: bool, k: int) -> Seq<char> {
    if numbered { ph + num_text_int(k) } else { ph }
}
pub open spec fn render_ph(t: Seq<Op>, ph: Seq<char>, numbered: bool) -> Seq<char>
    decreases t.len()
{
    if t.len() == 0 { Seq::<char>::empty() }
    else {
        render_ph(t.drop_last(), ph, numbered) + (match t.last() {
            Op::Text(s) => s,
            Op::Param(_, _) => ph_text(ph, numbered, params_of(t).len() as int),
        })
    }
}
pub open spec fn render_inline(t: Seq<Op>) -> Seq<char>
    decreases t.len()
{
    if t.len() == 0 { Seq::<char>::empty() }
    else { render_inline(t.drop_last()) + (match t.last() { Op::Text(s) => s, Op::Param(_, lit) => lit }) }
}

// ---- C01, closed form: segment view of the parameterised rendering ---------------------------------------
pub enum Seg { Text(Seq<char>), Placeholder(int) }   // Placeholder(k): the k-th placeholder, bound to values[k-1]
pub open spec fn segs(t: Seq<Op>) -> Seq<Seg>
    decreases t.len()
{
    if t.len() == 0 { Seq::<Seg>::empty() }
    else { segs(t.drop_last()).push(match t.last() { Op::Text(s) => Seg::Text(s), Op::Param(_, _) => Seg::Placeholder(params_of(t).len() as int) }) }
}
pub open spec fn seg_text(s: Seg, ph: Seq<char>, numbered: bool) -> Seq<char> {
    match s { Seg::Text(x) => x, Seg::Placeholder(k) => ph_text(ph, numbered, k) }
}
pub open spec fn concat_segs(ss: Seq<Seg>, ph: Seq<char>, numbered: bool) -> Seq<char>
    decreases ss.len()
{ if ss.len() == 0 { Seq::<char>::empty() } else { concat_segs(ss.drop_last(), ph, numbered) + seg_text(ss.last(), ph, numbered) } }
pub open spec fn ph_numbers(ss: Seq<Seg>) -> Seq<int>
    decreases ss.len()
{
    if ss.len() == 0 { Seq::<int>::empty() }
    else { match ss.last() { Seg::Text(_) => ph_numbers(ss.drop_last()), Seg::Placeholder(k) => ph_numbers(ss.drop_last()).push(k) } }
}
// THEOREM (C01): the rendered text is the concatenation of its segments; the placeholder segments, in reading
// order, carry the numbers 1..n exactly once each, ascending, n == number of returned values; the k-th is bound to
// values[k-1] (by construction of params_of: the value of the k-th Param operation).
pub proof fn lemma_c01_closed_form(t: Seq<Op>, ph: Seq<char>, numbered: bool)
    ensures
        render_ph(t, ph, numbered) == concat_segs(segs(t), ph, numbered),
        ph_numbers(segs(t)).len() == params_of(t).len(),
        forall|i: int| 0 <= i < params_of(t).len() ==> #[trigger] ph_numbers(segs(t))[i] == i + 1,
    decreases t.len()
{
    if t.len() > 0 {
        lemma_c01_closed_form(t.drop_last(), ph, numbered);
        assert(segs(t).drop_last() == segs(t.drop_last()));
    }
}
// THEOREM (C02): the inline rendering is the parameterised rendering with every placeholder segment replaced by the
// backend's literal of the value bound to it.
pub open spec fn lits_of(t: Seq<Op>) -> Seq<Seq<char>>
    decreases t.len()
{
    if t.len() == 0 { Seq::<Seq<char>>::empty() }
    else { match t.last() { Op::Text(_) => lits_of(t.drop_last()), Op::Param(_, l) => lits_of(t.drop_last()).push(l) } }
}
pub open spec fn subst_segs(ss: Seq<Seg>, lits: Seq<Seq<char>>) -> Seq<char>
    decreases ss.len()
{
    if ss.len() == 0 { Seq::<char>::empty() }
    else { subst_segs(ss.drop_last(), lits) + (match ss.last() { Seg::Text(x) => x, Seg::Placeholder(k) => if 1 <= k <= lits.len() { lits[k - 1] } else { Seq::<char>::empty() } }) }
}
pub proof fn lemma_c02_same_statement(t: Seq<Op>)
    ensures render_inline(t) == subst_segs(segs(t), lits_of(t)), lits_of(t).len() == params_of(t).len(),
    decreases t.len()
{
    if t.len() > 0 {
        lemma_c02_same_statement(t.drop_last());
        assert(segs(t).drop_last() == segs(t.drop_last()));
        lemma_subst_prefix(segs(t.drop_last()), lits_of(t.drop_last()), lits_of(t), t.drop_last());
    }
}
// placeholders of a prefix only refer to literals of that prefix
pub proof fn lemma_subst_prefix(ss: Seq<Seg>, l1: Seq<Seq<char>>, l2: Seq<Seq<char>>, t: Seq<Op>)
    requires ss == segs(t), l1 == lits_of(t), l1.len() <= l2.len(), forall|i: int| 0 <= i < l1.len() ==> l1[i] == l2[i],
    ensures subst_segs(ss, l1) == subst_segs(ss, l2), lits_of(t).len() == params_of(t).len(),
    decreases t.len()
{
    if t.len() > 0 {
        assert(segs(t).drop_last() == segs(t.drop_last()));
        let l0 = lits_of(t.drop_last());
        lemma_subst_prefix(segs(t.drop_last()), l0, l1, t.drop_last());
        lemma_subst_prefix(segs(t.drop_last()), l0, l2, t.drop_last());
    }
}

// ---- writer traits ------------------------------------------------------------------------------------------
// what of a writer is NOT its text (frame for text-only operations)
pub struct Cfg { pub ph: Seq<char>, pub numbered: bool }
pub struct WAux { pub values: Seq<Value>, pub counter: int, pub ph: Seq<char>, pub numbered: bool }

pub trait VWrite {
    spec fn text(&self) -> Seq<char>;
    spec fn aux(&self) -> WAux;
    fn vpush(&mut self, s: &str) ensures final(self).text() == old(self).text() + s@, final(self).aux() == old(self).aux();
}
// the part of QueryBuilder that a SqlWriter needs (split off only to keep the two traits acyclic for Verus)
pub trait ValueRenderer {
    spec fn vts(&self, v: Value) -> Seq<char>;
    fn value_to_string(&self, v: &Value) -> (r: String) ensures r@ == self.vts(*v);
}
pub trait QueryBuilder: ValueRenderer {
    spec fn ph(&self) -> Seq<char>;
    spec fn numbered(&self) -> bool;
    fn placeholder(&self) -> (r: (&str, bool)) ensures r.0@ == self.ph(), r.1 == self.numbered();
    // row constructor keyword of a VALUES list: `ROW` on MySQL, nothing elsewhere
    spec fn row_prefix(&self) -> Seq<char>;
    fn values_list_tuple_prefix(&self) -> (r: &str) ensures r@ == self.row_prefix();
    spec fn spec_id(&self) -> QbSpec;
    // statement renderers: abstract here (their clause structure is C08's subject); each is a function of
    // (statement, backend) that only talks to the writer through the SqlWriter interface
    fn prepare_select_statement<W: SqlWriter>(&self, s: &SelectStatement, sql: &mut W)
        ensures forall|t: Seq<Op>, c: Cfg| #[trigger] old(sql).rel(t, c) ==> final(sql).rel(select_ops(self.spec_id(), *s, t), c);
    fn prepare_insert_statement<W: SqlWriter>(&self, s: &InsertStatement, sql: &mut W)
        ensures forall|t: Seq<Op>, c: Cfg| #[trigger] old(sql).rel(t, c) ==> final(sql).rel(insert_ops(self.spec_id(), *s, t), c);
    fn prepare_update_statement<W: SqlWriter>(&self, s: &UpdateStatement, sql: &mut W)
        ensures forall|t: Seq<Op>, c: Cfg| #[trigger] old(sql).rel(t, c) ==> final(sql).rel(update_ops(self.spec_id(), *s, t), c);
    fn prepare_delete_statement<W: SqlWriter>(&self, s: &DeleteStatement, sql: &mut W)
        ensures forall|t: Seq<Op>, c: Cfg| #[trigger] old(sql).rel(t, c) ==> final(sql).rel(delete_ops(self.spec_id(), *s, t), c);
    fn prepare_with_query<W: SqlWriter>(&self, s: &WithQuery, sql: &mut W)
        ensures forall|t: Seq<Op>, c: Cfg| #[trigger] old(sql).rel(t, c) ==> final(sql).rel(with_ops(self.spec_id(), *s, t), c);
    // expression renderer: abstract here (its arms are the subject of units prec / custom / cond); a function of (expr, backend)
    fn prepare_simple_expr<W: SqlWriter>(&self, simple_expr: &SimpleExpr, sql: &mut W)
        ensures forall|t: Seq<Op>, c: Cfg| #[trigger] old(sql).rel(t, c) ==> final(sql).rel(expr_ops(self.spec_id(), *simple_expr, t), c);
    // every backend's prepare_value is one push_param of (a copy of) the value
    fn prepare_value<W: SqlWriter>(&self, value: &Value, sql: &mut W)
        ensures forall|t: Seq<Op>, c: Cfg| #[trigger] old(sql).rel(t, c) ==> final(sql).rel(t.push(Op::Param(*value, self.vts(*value))), c);
}
pub trait SqlWriter: VWrite + Sized {
    // abstraction relation: this writer state is the rendering of trace t
    // (c = the placeholder configuration the writer was created with; it never changes)
    spec fn rel(&self, t: Seq<Op>, c: Cfg) -> bool;
    proof fn lemma_text(o: &Self, n: &Self, t: Seq<Op>, c: Cfg, s: Seq<char>)
        requires o.rel(t, c), n.text() == o.text() + s, n.aux() == o.aux(),
        ensures n.rel(t.push(Op::Text(s)), c);
    fn push_param<QB: ValueRenderer>(&mut self, value: Value, query_builder: &QB)
        ensures forall|t: Seq<Op>, c: Cfg| #[trigger] old(self).rel(t, c) ==> final(self).rel(t.push(Op::Param(value, query_builder.vts(value))), c);
    // ToString (trusted: `to_string` of a String is itself; Display of SqlWriterValues writes its text)
    fn to_string(&self) -> (r: String) ensures r@ == self.text();
}

// text operations on a SqlWriter extend the trace by a Text op (rule R-fmt routes write! here)
fn vfmt_lit<W: SqlWriter>(w: &mut W, x: &str)
    ensures forall|t: Seq<Op>, c: Cfg| #[trigger] old(w).rel(t, c) ==> final(w).rel(t.push(Op::Text(x@)), c),
            final(w).text() == old(w).text() + x@, final(w).aux() == old(w).aux(),
{
    let ghost o = *w;
    w.vpush(x);
    proof { assert forall|t: Seq<Op>, c: Cfg| #[trigger] o.rel(t, c) implies w.rel(t.push(Op::Text(x@)), c) by { W::lemma_text(&o, w, t, c, x@); } }
}

fn vfmt_disp<W: SqlWriter, T: VDisp>(w: &mut W, x: T)
    ensures forall|t: Seq<Op>, c: Cfg| #[trigger] old(w).rel(t, c) ==> final(w).rel(t.push(Op::Text(x.disp())), c),
            final(w).text() == old(w).text() + x.disp(), final(w).aux() == old(w).aux(),
{
    let ghost o = *w;
    let s = x.vdisp();
    w.vpush(s.as_str());
    proof { assert forall|t: Seq<Op>, c: Cfg| #[trigger] o.rel(t, c) implies w.rel(t.push(Op::Text(x.disp())), c) by { W::lemma_text(&o, w, t, c, x.disp()); } }
}

// ---- ORDER BY FIELD(..) emulation: CASE WHEN <expr>=<literal> THEN k .. ELSE n END --------------------------------
// The values of the list are INLINE literals in both rendering modes (no parameter is pushed): C03 requires each to be
// the backend's own literal `vts(v)` (whose shape is verified in unit `escape`), C01 that no value is bound for them.
pub open spec fn field_order_ops<QB: QueryBuilder>(qb: &QB, e: SimpleExpr, vs: Seq<Value>, k: nat, t: Seq<Op>) -> Seq<Op>
    decreases k
{
    if k == 0 { t.push(Op::Text("CASE "@)) }
    else {
        expr_ops(qb.spec_id(), e, field_order_ops(qb, e, vs, (k - 1) as nat, t).push(Op::Text("WHEN "@)))
            .push(Op::Text("="@)).push(Op::Text(qb.vts(vs[k - 1])))
            .push(Op::Text(" THEN "@)).push(Op::Text(num_text_int(k - 1))).push(Op::Text(" "@))
    }
}

// ---- VALUES lists (SELECT .. FROM (VALUES ..)): one parameter per cell, row-major, rows and cells in call order ---------------
#[verifier::external_body]
pub struct ValueTuple { _opaque: u8 }
// R-iterimpl (trusted here): `value_tuple.clone().into_iter()` yields the tuple's values in order (ValueTuple::into_iter is
// C12's subject: Kani harnesses full_tuple_* check arity and order)
pub uninterp spec fn tuple_values(t: ValueTuple) -> Seq<Value>;
#[verifier::external_body]
fn vtuple_values(t: &ValueTuple) -> (r: Vec<Value>) ensures r@ == tuple_values(*t) { unimplemented!() }

pub open spec fn row_ops<QB: QueryBuilder>(qb: &QB, vs: Seq<Value>, j: nat, t: Seq<Op>) -> Seq<Op>
    decreases j
{
    if j == 0 { t }
    else if j == 1 { row_ops(qb, vs, 0, t).push(Op::Param(vs[0], qb.vts(vs[0]))) }
    else { row_ops(qb, vs, (j - 1) as nat, t).push(Op::Text(", "@)).push(Op::Param(vs[j - 1], qb.vts(vs[j - 1]))) }
}
pub open spec fn values_list_ops<QB: QueryBuilder>(qb: &QB, rows: Seq<ValueTuple>, k: nat, t: Seq<Op>) -> Seq<Op>
    decreases k
{
    if k == 0 { t.push(Op::Text("VALUES "@)) }
    else {
        let before = values_list_ops(qb, rows, (k - 1) as nat, t);
        let sep = if k == 1 { before } else { before.push(Op::Text(", "@)) };
        let vs = tuple_values(rows[k - 1]);
        row_ops(qb, vs, vs.len(), sep.push(Op::Text(qb.row_prefix())).push(Op::Text("("@))).push(Op::Text(")"@))
    }
}
