"""unit `derive`  ->  C19 (the naming half that is ordinary Rust): WHICH name a derived identifier spells.

sea-query-derive is a proc-macro crate: the macro entry points assemble token streams with syn / quote and are out of a deductive
verifier's reach.  The functions that CHOOSE the name are ordinary Rust over (identifier text, attribute) and are extracted here:
  IdenVariant::table_or_snake_case   the `Table` variant spells the table name, every other variant the snake_case of its own name
  IdenVariant::write_variant_name    rename / method attributes override it (the name token handed to the match arm)
  IdenVariant::must_be_valid_iden    the quoting fast path is decided on exactly the name that is written
  get_table_name                     the table name is the container's rename attribute, else the snake_case of the type name
`heck`'s to_snake_case is an uninterpreted function `snake` (a dependency: its word-splitting is exercised by the bounded stand-in);
syn's Ident / Attribute / TokenStream are opaque; `quote!{ #name }` / `quote!{ self.#method() }` are uninterpreted token constructors."""
import re
from vlib import rustlex as rl
from vlib.gen import make_r_sub

P = ["C19"]
W = "sea-query-derive/src/iden/write_arm.rs"
L = "sea-query-derive/src/lib.rs"
A = "sea-query-derive/src/iden/attr.rs"

SPEC = r'''
// ---- opaque syn / proc_macro2 types ------------------------------------------------------------------------------------------------
#[verifier::external_body] pub struct Ident { _o: u8 }
#[verifier::external_body] pub struct TokenStream { _o: u8 }
#[verifier::external_body] pub struct Attribute { _o: u8 }
#[verifier::external_body] pub struct SynError { _o: u8 }
pub uninterp spec fn ident_text(i: Ident) -> Seq<char>;                       // Ident::to_string
pub uninterp spec fn snake(s: Seq<char>) -> Seq<char>;                        // heck::ToSnakeCase::to_snake_case
pub uninterp spec fn mbvi(name: Seq<char>) -> bool;                           // crate::must_be_valid_iden (its own contract: unit ident)
pub uninterp spec fn tok_str(name: Seq<char>) -> TokenStream;                 // quote! { #name }  (a string literal token)
pub uninterp spec fn tok_method(m: Ident) -> TokenStream;                     // quote! { self.#method() }
pub uninterp spec fn arm_of(variant: TokenStream, name: TokenStream) -> TokenStream;   // T::variant(variant, name): the match arm writing `name`
pub uninterp spec fn found_attr(attrs: Seq<Attribute>) -> Option<Attribute>;  // find_attr: the first #[iden ..] / #[method ..] attribute
pub uninterp spec fn parsed_attr(a: Attribute) -> Result<IdenAttr, SynError>; // IdenAttr::try_from(&Attribute)

// ---- the property, as specification ------------------------------------------------------------------------------------------------
// "each variant's identifier is the snake_case of its name, the `Table` variant is the snake_case of the type name [= the table name
//  get_table_name computed], and rename / method attributes override it"
pub open spec fn default_name(v: IdenVariant) -> Seq<char> {
    if ident_text(*v.ident) == "Table"@ { v.table_name@ } else { snake(ident_text(*v.ident)) }
}
pub open spec fn name_tokens(v: IdenVariant) -> TokenStream {
    match v.attr {
        Some(IdenAttr::Rename(n)) => tok_str(n@),
        Some(IdenAttr::Method(m)) => tok_method(m),
        _ => tok_str(default_name(v)),
    }
}
// the name a variant spells when it is known at compile time (a method's result is not)
pub open spec fn static_name(v: IdenVariant) -> Option<Seq<char>> {
    match v.attr {
        Some(IdenAttr::Rename(n)) => Some(n@),
        Some(IdenAttr::Method(_)) => None,
        Some(IdenAttr::Flatten) => None,
        None => Some(default_name(v)),
    }
}
pub open spec fn table_name_of(ident: Ident, attrs: Seq<Attribute>) -> Option<Seq<char>> {
    match found_attr(attrs) {
        Some(a) => match parsed_attr(a) { Ok(IdenAttr::Rename(lit)) => Some(lit@), _ => None },
        None => Some(snake(ident_text(ident))),
    }
}
// ---- shims (trusted: std / syn / heck calls named by the rewrite rules) --------------------------------------------------------------
#[verifier::external_body] fn vident_is(i: &Ident, s: &str) -> (r: bool) ensures r == (ident_text(*i) == s@) { unimplemented!() }
#[verifier::external_body] fn vsnake_ident(i: &Ident) -> (r: String) ensures r@ == snake(ident_text(*i)) { unimplemented!() }
#[verifier::external_body] fn vstr_owned(s: &str) -> (r: String) ensures r@ == s@ { unimplemented!() }
#[verifier::external_body] fn vstring_clone(s: &String) -> (r: String) ensures r@ == s@ { unimplemented!() }
#[verifier::external_body] fn must_be_valid_iden(name: &String) -> (r: bool) ensures r == mbvi(name@) { unimplemented!() }
#[verifier::external_body] fn vtok_str(name: &String) -> (r: TokenStream) ensures r == tok_str(name@) { unimplemented!() }
#[verifier::external_body] fn vtok_method(m: &Ident) -> (r: TokenStream) ensures r == tok_method(*m) { unimplemented!() }
#[verifier::external_body] fn vvariant(variant: TokenStream, name: TokenStream) -> (r: TokenStream) ensures r == arm_of(variant, name) { unimplemented!() }
#[verifier::external_body] fn find_attr(attrs: &Vec<Attribute>) -> (r: Option<&Attribute>) ensures (match r { Some(a) => Some(*a), None => None }) == found_attr(attrs@) { unimplemented!() }
#[verifier::external_body] fn vparse_attr(a: &Attribute) -> (r: Result<IdenAttr, SynError>) ensures r == parsed_attr(*a) { unimplemented!() }
#[verifier::external_body] fn verr_container(a: &Attribute) -> (r: SynError) { unimplemented!() }
#[verifier::external_body] fn vunreachable() ensures false { unimplemented!() }
'''


def r_optmap(text, ctx):
    """R-optmap: `X.as_ref().map(|a| BODY1).unwrap_or_else(|| BODY2)`  ->  `match X.as_ref() { Some(a) => BODY1, None => BODY2 }`
    (trusted: Option::map / unwrap_or_else of std)"""
    m = re.search(r"let name = self\s*\.attr\s*\.as_ref\(\)\s*\.map\(\|a\| ", text)
    if not m:
        raise rl.LostAnchor(ctx.key + ": R-optmap: `.as_ref().map(|a| ..)` chain not found")
    toks = rl.code_toks(rl.lex(text[m.end():]))
    if toks[0].text != "match":
        raise rl.Unsupported(ctx.key + ": R-optmap: the map closure is not a match")
    k = next(i for i, t in enumerate(toks) if t.text == "{")
    c1 = rl.match_close(toks, k)
    body1 = text[m.end():m.end() + toks[c1].end]
    rest = text[m.end() + toks[c1].end:]
    m2 = re.match(r"\s*\)\s*\.unwrap_or_else\(\|\| ", rest)
    if not m2:
        raise rl.LostAnchor(ctx.key + ": R-optmap: `.unwrap_or_else(|| ..)` not found")
    toks2 = rl.code_toks(rl.lex(rest[m2.end():]))
    if toks2[0].text != "{":
        raise rl.Unsupported(ctx.key + ": R-optmap: the unwrap_or_else closure is not a block")
    c2 = rl.match_close(toks2, 0)
    body2 = rest[m2.end():m2.end() + toks2[c2].end]
    tail = rest[m2.end() + toks2[c2].end:]
    m3 = re.match(r"\s*\)\s*;", tail)
    if not m3:
        raise rl.Unsupported(ctx.key + ": R-optmap: unexpected text after the chain")
    ctx.app("R-optmap", "self.attr.as_ref().map(|a| ..).unwrap_or_else(|| ..)", "match self.attr.as_ref() { Some(a) => .., None => .. }")
    return text[:m.start()] + "let name = match self.attr.as_ref() { Some(a) => " + body1 + ", None => " + body2 + " };" + tail[m3.end():]


def build(u):
    u.emit("use vstd::prelude::*;\nverus! {\n")
    # the attribute a variant / container carries: extracted verbatim
    u.type_item(A, "enum", "IdenAttr", props=P, rules=[make_r_sub("R-vis", r"pub\(crate\) enum", "pub enum")])
    # the variant record: projected on the fields the naming functions read (R-fields); the write-arm type parameter is dropped
    u.type_item(W, "struct", "IdenVariant", props=P, keep_fields=["ident", "table_name", "attr"],
                rules=[make_r_sub("R-vis", r"pub\(crate\) struct IdenVariant<'a, T>", "pub struct IdenVariant<'a>")])
    u.spec(SPEC, "derive::spec", props=P)
    u.emit("impl<'a> IdenVariant<'a> {\n")
    B = "impl<'a, T> IdenVariant<'a, T> where T: WriteArm,"
    def r_is(text, ctx):
        new, n = re.subn(r'self\.ident == "Table"', 'vident_is(self.ident, "Table")', text)
        new, n2 = re.subn(r'self\.ident != "Table"', '!vident_is(self.ident, "Table")', new)
        if n + n2 < 1:
            raise rl.LostAnchor(ctx.key + ': R-strfn: no comparison of the identifier with "Table"')
        ctx.app("R-strfn", 'self.ident ==|!= "Table"', "[!]vident_is(self.ident, \"Table\")")
        return new
    r_own = make_r_sub("R-strfn", r"self\.table_name\.to_owned\(\)", "vstr_owned(self.table_name)")
    r_snake = make_r_sub("R-strfn", r"self\.ident\.to_string\(\)\.to_snake_case\(\)", "vsnake_ident(self.ident)")
    u.fn(W, B, "table_or_snake_case", ret="r", props=P, key="IdenVariant::table_or_snake_case", vpath="IdenVariant::table_or_snake_case",
         rules=[r_is, r_own, r_snake],
         spec="ensures\n    // the `Table` variant spells the table name, every other variant the snake_case of its own name\n    r@ == default_name(*self),")
    u.fn(W, B, "write_variant_name", ret="r", props=P, key="IdenVariant::write_variant_name", vpath="IdenVariant::write_variant_name",
         rules=[r_optmap, make_r_sub("R-quote", r"quote! \{ #name \}", "vtok_str(name)", min_count=2), make_r_sub("R-quote", r"quote! \{ self\.#method\(\) \}", "vtok_method(method)"),
                make_r_sub("R-panic", r"unreachable!\(\)", "({ vunreachable(); vtok_str(&vstr_owned(\"\")) })"),
                make_r_sub("R-strfn", r"let name = self\.table_or_snake_case\(\);\s*vtok_str\(name\)", "let name = self.table_or_snake_case();\n                vtok_str(&name)"),
                make_r_sub("R-path", r"T::variant\(variant, name\)", "vvariant(variant, name)")],
         spec="requires\n    // from the call sites: a flattened variant delegates to its field and never reaches this function (unreachable!())\n    !(self.attr == Some(IdenAttr::Flatten)),\n"
              "ensures\n    // the arm writes: the rename, the method's result, else the Table / snake_case name\n    r == arm_of(variant, name_tokens(*self)),")
    u.fn(W, B, "must_be_valid_iden", ret="r", props=P, key="IdenVariant::must_be_valid_iden", vpath="IdenVariant::must_be_valid_iden",
         rules=[make_r_sub("R-strfn", r"\b(\w+)\.(?:to_owned|clone|to_string)\(\)", r"vstring_clone(\1)", min_count=0)],
         spec="ensures\n    // the fast path is decided on exactly the name the variant spells; a name only known at run time (method, flatten) never takes it\n    r == (static_name(*self) is Some && mbvi(static_name(*self)->Some_0)),")
    u.emit("}\n")
    u.fn(L, None, "get_table_name", ret="r", props=P, key="derive::get_table_name", vpath="get_table_name",
         rules=[make_r_sub("R-path", r"ident: &proc_macro2::Ident, attrs: Vec<Attribute>\) -> Result<String, syn::Error>", "ident: &Ident, attrs: Vec<Attribute>) -> Result<String, SynError>"),
                make_r_sub("R-into", r"\b(\w+)\.try_into\(\)\?", r"vparse_attr(\1)?"),
                make_r_sub("R-path", r"syn::Error::new_spanned\(\s*(\w+),\s*ErrorMsg::ContainerAttr,?\s*\)", r"verr_container(\1)"),
                make_r_sub("R-strfn", r"ident\.to_string\(\)\.to_snake_case\(\)", "vsnake_ident(ident)")],
         spec="ensures\n    // the container's rename attribute, else the snake_case of the type name; any other container attribute is an error\n    r is Ok <==> table_name_of(*ident, attrs@) is Some,\n    r is Ok ==> r->Ok_0@ == table_name_of(*ident, attrs@)->Some_0,")
    # per-run syntactic check (token assembly is not under contract): the enum-wide fast-path flag starts true and is only ever AND-ed with a
    # variant's own test - `is_all_valid = ..` (an assignment) or another operator would let one variant decide for all
    src = u.src(L)
    assigns = re.findall(r"is_all_valid\s*([&|^+\-*/]?=)(?!=)\s*([^;]*);", src)
    ok = bool(assigns) and all((op == "=" and rhs.strip() == "true") or (op == "&=" and re.fullmatch(r"\w+\.must_be_valid_iden\(\)", rhs.strip())) for op, rhs in assigns) \
        and any(op == "&=" for op, _ in assigns)
    if not ok:
        u.stubbed["derive::impl_iden_for_enum[is_all_valid accumulation]"] = {"reason": "Unsupported: `is_all_valid` is not `let mut is_all_valid = true` + `is_all_valid &= v.must_be_valid_iden()`: %r" % (assigns,), "props": list(P), "fname": "impl_iden_for_enum"}
    u.emit("} // verus!\nfn main() {}\n")
