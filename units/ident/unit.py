"""unit `ident`  ->  C04: every identifier position emits one quoted-identifier token that the engine's
identifier lexer decodes to exactly the supplied name.

Under contract: Quote::{new,left,right}, the three backends' QUOTE constants and quote(), Iden::{prepare, quoted,
to_string} (trait defaults, `unquoted` abstract), and EVERY raw quoting site: any `write!` in src/backend whose
arguments mention `.left()` is discovered on each run, wrapped as a function of its free variables (rule R-arm)
and must satisfy the same contract as `prepare`.  TableRefBuilder::prepare_table_ref_iden (all identifier-only
table references) is verified against prepare's contract.
"""
import glob
import os
import re
from vlib import rustlex as rl
from vlib.gen import make_r_fmt, make_r_sub, make_r_tailbind, r_unit_tail, r_dynw, split_top, parse_fmt, Ctx
from vlib.rustlex import Unsupported, LostAnchor
from vlib.gen import split_top as gen_split_top

T = "src/types.rs"
P = ["C04"]
r_fmt = make_r_fmt(wmap=lambda w: w)

APP = "final(%(w)s).text().len() >= old(%(w)s).text().len(), final(%(w)s).text().subrange(0, old(%(w)s).text().len() as int) == old(%(w)s).text(),"
NEW = "final(%(w)s).text().subrange(old(%(w)s).text().len() as int, final(%(w)s).text().len() as int)"


def raw_sites(u):
    """every write!(..) under src/backend whose arguments mention `.left()`: (path, fn name, ordinal, text)"""
    sites = []
    root = os.path.join(u.repo, "src", "backend")
    for p in sorted(glob.glob(os.path.join(root, "**", "*.rs"), recursive=True)):
        rel = os.path.relpath(p, u.repo)
        src = u.src(rel)
        code = rl.code_toks(rl.lex(src))
        for k, t in enumerate(code):
            if t.kind == "ident" and t.text == "write" and k + 2 < len(code) and code[k + 1].text == "!" and code[k + 2].text == "(":
                close = rl.match_close(code, k + 2)
                inner = src[code[k + 2].end:code[close].start]
                if ".left()" not in inner:
                    continue
                end = code[close].end
                if close + 4 < len(code) and code[close + 1].text == "." and code[close + 2].text == "unwrap":
                    end = code[close + 4].end
                # enclosing fn name
                fname = "?"
                for m in re.finditer(r"\bfn\s+([A-Za-z_0-9]+)", src[:t.start]):
                    fname = m.group(1)
                line = src.count("\n", 0, t.start) + 1
                sites.append((rel, fname, line, src[t.start:end]))
    return sites


def emit_site(u, idx, rel, fname, line, text):
    """R-arm: wrap one raw `write!` as a function of its free variables and give it prepare's contract."""
    m = re.match(r"write!\s*\((.*)\)\s*\.unwrap\(\)\s*$", text, re.S)
    if not m:
        raise Unsupported("raw quote site %s:%d is not write!(..).unwrap()" % (rel, line))
    args = [a.strip() for a in split_top(m.group(1)) if a.strip()]
    w, fmt, rest = args[0], args[1], args[2:]
    segs = parse_fmt(fmt)
    # classify arguments
    pre, mid, post, sfx = "", None, "", None
    post_parts, post_lits, extra_params = [], [], []
    state, ai = 0, 0
    for s in segs:
        if s[0] == "lit":
            if state == 0:
                pre += s[1]
            elif state == 1:
                mid = ("lit", s[1])
            elif state >= 2:
                post_parts.append('"%s"@' % s[1])
                post_lits.append(s[1])
        else:
            e = rest[ai] if s[1] is None else s[1]
            ai += 1
            if e.endswith(".left()"):
                state = 1
            elif e.endswith(".right()"):
                state = 2
            elif state == 1:
                mid = ("arg", e)
            elif state >= 2:
                if not re.match(r"^[a-z_]+$", e):
                    raise Unsupported("raw quote site %s:%d: trailing argument `%s`" % (rel, line, e))
                post_parts.append("%s@" % e)
                extra_params.append("%s: &str" % e)
            else:
                raise Unsupported("raw quote site %s:%d: unexpected argument `%s`" % (rel, line, e))
    if mid is None:
        raise Unsupported("raw quote site %s:%d: nothing between the quotes" % (rel, line))
    params = ["&self", "%s: &mut W" % w]
    name_spec = None
    quoted_form = False
    if mid[0] == "arg":
        v = mid[1]
        mq = re.match(r"^Alias::new\(([a-z_]+)\)\.quoted\((self\.quote\(\)|q)\)$", v)
        if mq:
            # the name goes through Iden::quoted (verified above): doubled closing quote
            quoted_form = True
            v = mq.group(1)
        elif re.match(r"^Alias::new\(([a-z_]+)\)\.to_string\(\)$", v):
            # the name's own text, written VERBATIM (Alias::new / Iden::to_string are under contract above): correct only if the name
            # cannot contain the closing quote - which nothing guarantees, so the site's obligation fails
            v = re.match(r"^Alias::new\(([a-z_]+)\)\.to_string\(\)$", v).group(1)
        elif not re.match(r"^[a-z_]+$", v):
            raise Unsupported("raw quote site %s:%d: name expression `%s`" % (rel, line, v))
        params.append("%s: &str" % v)
        name_spec = "%s@" % v
    else:
        name_spec = '"%s"@' % mid[1]
    params.extend(extra_params)
    uses_q = bool(re.search(r"\bq\.left\(\)", text))
    qexpr = "q" if uses_q else "self.q"
    if uses_q:
        params.append("q: Quote")
    key = "raw-site:%s:%s@%d" % (rel, fname, line)
    fn_name = "raw_site_%d_%s" % (idx, fname)
    ctx = Ctx(u, key)
    body = r_fmt(text + ";", ctx)
    ctx.app("R-arm", "statement `write!` at %s:%d in fn %s" % (rel, line, fname), "fn %s(%s)" % (fn_name, ", ".join(params)))
    pre_s = '"%s"@' % pre
    post_s = " + ".join(post_parts) if post_parts else "Seq::<char>::empty()"
    spec = """requires is_backend_quote(%(q)s),
ensures %(app)s
    // the segment between the literal prefix and suffix is ONE identifier token decoding to the name
    exists|tok: Seq<char>| %(new)s == %(pre)s + tok + (%(post)s) && #[trigger] is_ident_tok(tok, %(name)s, %(q)s.0 as char, %(q)s.1 as char),""" % {
        "q": qexpr, "app": APP % {"w": w}, "new": NEW % {"w": w}, "pre": pre_s, "post": post_s, "name": name_spec}
    lits = set([pre] + post_lits + ([mid[1]] if mid[0] == "lit" else []))
    reveal = " ".join('reveal_strlit("%s");' % l for l in sorted(lits))
    no_q = ""
    if mid[0] == "lit":
        chars = ", ".join("'%s'" % c for c in mid[1])
        no_q = 'assert("%s"@ =~= seq![%s]);' % (mid[1], chars)
    proof = """proof {
    %(reveal)s %(no_q)s
    %(tokproof)s
    assert(%(w)s.text() =~= t0 + (%(pre)s + tok + (%(post)s)));
    assert(%(w)s.text().subrange(t0.len() as int, %(w)s.text().len() as int) =~= %(pre)s + tok + (%(post)s));
    assert(%(w)s.text().subrange(0, t0.len() as int) =~= t0);
}""" % {"reveal": reveal, "no_q": no_q, "q": qexpr, "name": name_spec, "w": w, "pre": pre_s, "post": post_s,
       "tokproof": ("""let ghost tok = seq![%(q)s.0 as char] + dblq(%(name)s, %(q)s.1 as char) + seq![%(q)s.1 as char];
    lemma_is_ident_tok(%(name)s, %(q)s.0 as char, %(q)s.1 as char);""" if quoted_form else
                    """let ghost tok = seq![%(q)s.0 as char] + %(name)s + seq![%(q)s.1 as char];
    // a name written verbatim between the quotes is a correct token only if it cannot contain the closing quote
    lemma_raw_is_ident_tok(%(name)s, %(q)s.0 as char, %(q)s.1 as char);""") % {"q": qexpr, "name": name_spec}}
    from vlib.gen import indent
    meta = {"kind": "code", "key": key, "props": P, "src": rel, "src_line": line, "gid": 100000 + idx, "fname": fn_name, "canary_ok": True}
    u.chunks.append(("    fn %s<W: VWrite>(%s)\n" % (fn_name, ", ".join(params)), dict(meta, kind="header")))
    u.chunks.append((indent(spec, 8) + "\n", dict(meta, kind="contract")))
    u.chunks.append(("    {\n        let ghost t0 = %s.text();\n        " % w, dict(meta)))
    u.chunks.append((body.replace("self.quote()", "self.quote_()") + "\n", dict(meta)))
    u.chunks.append((indent(proof, 8) + "\n", dict(meta, kind="proof:site")))
    u.chunks.append(("    }\n\n", dict(meta)))
    import hashlib
    u.functions.append({"item": key, "file": rel, "line": line, "vpath": "AnyBackend::" + fn_name,
                        "sha256": hashlib.sha256(text.encode()).hexdigest(), "rules": ctx.apps, "kind": "fn",
                        "has_contract": True, "props": P, "no_canary": False})
    u.expected.append(fn_name)



DERIVE = "sea-query-derive/src/lib.rs"
DERIVE_SPEC = r"""
// ---- #[derive(Iden)] / #[derive(IdenStatic)]: the FAST PATH the macro generates for plain names (sea-query-derive) ----------------------
// For a name accepted by must_be_valid_iden the generated impl OVERRIDES Iden::prepare: left quote, the name verbatim, right quote.
// That is the token the general path writes only if the name contains no quote character: must_be_valid_iden must guarantee it.
pub open spec fn is_quote_char(c: char) -> bool { c == '`' || c == '"' }
pub open spec fn quote_free(s: Seq<char>) -> bool { forall|i: int| 0 <= i < s.len() ==> !is_quote_char(#[trigger] s[i]) }
// a PLAIN name: ASCII letters, digits and `_` only - no character any quote pair could be made of (also user-made pairs such as `[` `]`)
pub open spec fn is_plain(c: char) -> bool { ('a' <= c && c <= 'z') || ('A' <= c && c <= 'Z') || ('0' <= c && c <= '9') || c == '_' }
pub open spec fn all_plain(s: Seq<char>) -> bool { forall|i: int| 0 <= i < s.len() ==> is_plain(#[trigger] s[i]) }
pub proof fn lemma_plain_is_quote_free(s: Seq<char>) requires all_plain(s) ensures quote_free(s)
{ assert forall|i: int| 0 <= i < s.len() implies !is_quote_char(#[trigger] s[i]) by { assert(is_plain(s[i])); } }
pub proof fn lemma_plain_raw(name: Seq<char>, q: Quote)
    requires all_plain(name), !is_plain(q.1 as char)
    ensures dblq(name, q.1 as char) == name, tokq(name, q) == seq![q.0 as char] + name + seq![q.1 as char]
{
    assert(!name.contains(q.1 as char)) by { if name.contains(q.1 as char) { let k = choose|k: int| 0 <= k < name.len() && name[k] == q.1 as char; assert(is_plain(name[k])); } }
    lemma_rc_absent_i(name, q.1 as char, seq![q.1 as char, q.1 as char]);
}
// R-charfn (trusted, std documentation): the ASCII classes
#[verifier::external_body]
fn vis_ascii_alphabetic(c: char) -> (r: bool) ensures r == (('a' <= c && c <= 'z') || ('A' <= c && c <= 'Z')) { c.is_ascii_alphabetic() }
#[verifier::external_body]
fn vis_ascii_alphanumeric(c: char) -> (r: bool) ensures r == (('a' <= c && c <= 'z') || ('A' <= c && c <= 'Z') || ('0' <= c && c <= '9')) { c.is_ascii_alphanumeric() }
pub proof fn lemma_quote_free_raw(name: Seq<char>, q: Quote)
    requires quote_free(name), is_backend_quote(q)
    ensures dblq(name, q.1 as char) == name, tokq(name, q) == seq![q.0 as char] + name + seq![q.1 as char]
{
    assert(!name.contains(q.1 as char)) by { if name.contains(q.1 as char) { let k = choose|k: int| 0 <= k < name.len() && name[k] == q.1 as char; assert(is_quote_char(name[k])); } }
    lemma_rc_absent_i(name, q.1 as char, seq![q.1 as char, q.1 as char]);
}
"""


def derive_fast_path(u):
    """must_be_valid_iden (extracted; R-all: `s.chars().all(|c| P)` is the loop over the characters, `.take(1).all(..)` looks at the first
    character only) and the `fn prepare` the macro generates inside quote!{..} for names that pass it (R-quote: the tokens between the braces
    are the function generated; `#sea_query_path::Quote` is Quote, `&mut dyn ::std::fmt::Write` a generic writer)."""
    src = u.src(DERIVE)
    it = rl.find_fn(DERIVE, src, None, "must_be_valid_iden")
    body = it.text
    code = rl.code_toks(rl.lex(body))
    preds = []
    for k, t in enumerate(code):
        if t.kind == "ident" and t.text == "all" and code[k - 1].text == "." and code[k + 1].text == "(":
            close = rl.match_close(code, k + 1)
            inner = body[code[k + 1].end:code[close].start].strip()
            m = re.match(r"\|(\w+)\|\s*(.*)$", inner, re.S)
            if not m:
                raise Unsupported("must_be_valid_iden: `.all(..)` without a closure |c| ..")
            # R-param: the closure's parameter is brought to the name `c` (a renamed parameter is no reason to lose the proof)
            preds.append(re.sub(r"\b%s\b" % re.escape(m.group(1)), "c", m.group(2).strip()))
    norm = rl.norm_ws(body)
    if len(preds) != 2 or not re.search(r"name\s*\.chars\(\)\s*\.take\(1\)\s*\.all\(.*\)\s*&&\s*name\s*\.chars\(\)\s*\.all\(", norm):
        raise LostAnchor("must_be_valid_iden is no longer `name.chars().take(1).all(P1) && name.chars().all(P2)`")
    u.spec(DERIVE_SPEC, "ident::derive-fast-path-spec", props=P)

    def pred_fn(nm, ptxt):
        ptxt = ptxt.replace("c.is_ascii_alphabetic()", "vis_ascii_alphabetic(c)").replace("c.is_ascii_alphanumeric()", "vis_ascii_alphanumeric(c)")
        if re.search(r"\bc\.[a-z_]+\(", ptxt):
            raise Unsupported("must_be_valid_iden: character test `%s` has no specification here" % ptxt)
        return "fn %s(c: char) -> (r: bool)\n    // a character accepted in a plain name is an ASCII letter, digit or `_`: no quote character of any backend, nor of a user-made quote pair\n    ensures r ==> is_plain(c),\n{ %s }\n" % (nm, ptxt)
    import hashlib
    from vlib.gen import indent
    meta = {"kind": "code", "key": "derive::must_be_valid_iden", "props": P, "src": DERIVE, "src_line": it.line, "gid": 200000, "fname": "must_be_valid_iden", "canary_ok": True}
    text = (pred_fn("mbvi_first", preds[0]) + pred_fn("mbvi_every", preds[1]) + """// R-all: `name.chars().all(|c| P)` as the loop it abbreviates
fn mbvi_all(name: &str) -> (r: bool)
    ensures r ==> all_plain(name@),
{
    for c in it: name.chars()
        invariant it.index@ <= name@.len(), forall|i: int| 0 <= i < it.index@ ==> is_plain(#[trigger] name@[i]),
    {
        if !mbvi_every(c) { return false; }
    }
    true
}
// R-all: `name.chars().take(1).all(|c| P)`: the first character, if there is one (trusted shape; no claim rests on it)
#[verifier::external_body]
fn mbvi_take1_all(name: &str) -> (r: bool) { name.chars().take(1).all(mbvi_first) }
""")
    u.spec(text, "ident::derive-mbvi-helpers(R-all)", props=P)
    u.chunks.append(("fn must_be_valid_iden(name: &str) -> (r: bool)\n", dict(meta, kind="header")))
    u.chunks.append((indent("ensures\n    // a name that takes the fast path is plain: ASCII letters, digits, `_` (hence free of every quote character)\n    r ==> all_plain(name@) && quote_free(name@),", 4) + "\n", dict(meta, kind="contract")))
    u.chunks.append(("{\n    let r_ = mbvi_take1_all(name) && mbvi_all(name);\n    proof { if r_ { lemma_plain_is_quote_free(name@); } }\n    r_\n}\n\n", dict(meta)))
    u.functions.append({"item": "derive::must_be_valid_iden", "file": DERIVE, "line": it.line, "vpath": "must_be_valid_iden", "sha256": hashlib.sha256(body.encode()).hexdigest(),
                        "rules": [{"rule": "R-all", "before": "name.chars().take(1).all(P1) && name.chars().all(P2)", "after": "mbvi_take1_all(name) && mbvi_all(name), P1 / P2 as functions"}],
                        "kind": "fn", "has_contract": True, "props": P, "no_canary": False})
    u.expected.append("must_be_valid_iden")
    # ---- the generated prepare: every quote!{ fn prepare .. } of the derive crate must be the same three statements
    gens = re.findall(r"quote!\s*\{\s*(fn prepare\(&self, s: &mut dyn ::std::fmt::Write, q: #sea_query_path::Quote\)\s*\{.*?\n\s*\})\s*\}", src, re.S)
    if not gens:
        raise LostAnchor("sea-query-derive: no generated `fn prepare` found inside quote!{..}")
    guards = len(re.findall(r"let prepare = if (must_be_valid_iden\(table_name\)|is_all_valid) \{\s*quote!", src))
    if guards != len(gens):
        raise Unsupported("sea-query-derive: a generated `fn prepare` is not guarded by must_be_valid_iden / is_all_valid")
    u.spec("pub struct DerivedIden { pub n: String }\nimpl DerivedIden {\n    pub open spec fn name(&self) -> Seq<char> { self.n@ }\n    // `unquoted` of a derived implementor writes the name the macro computed (write!(s, #name))\n    #[verifier::external_body]\n    fn unquoted<W: VWrite>(&self, s: &mut W) ensures final(s).text() == old(s).text() + self.name() { unimplemented!() }\n", "ident::DerivedIden", props=P)
    distinct = []
    for gtxt in gens:
        if rl.norm_ws(gtxt) not in [rl.norm_ws(x) for x in distinct]:
            distinct.append(gtxt)
    for gi, gtxt in enumerate(distinct):
        fname = "prepare" if gi == 0 else "prepare_%d" % gi
        key = "derive::generated-prepare" + ("" if gi == 0 else "[%d]" % gi)
        ctx = Ctx(u, key)
        g = gtxt.replace("#sea_query_path::Quote", "Quote").replace("s: &mut dyn ::std::fmt::Write", "s: &mut W").replace("fn prepare(", "fn %s<W: VWrite>(" % fname)
        g = r_unit_tail(r_fmt(g, ctx), ctx)
        ctx.app("R-quote", "quote!{ fn prepare(..) { .. } } (%d occurrence(s), %d distinct)" % (len(gens), len(distinct)), "the function the macro generates")
        header, fbody = g[:g.index("{")], g[g.index("{"):]
        meta2 = {"kind": "code", "key": key, "props": P, "src": DERIVE, "src_line": src[:src.index(gtxt)].count("\n") + 1, "gid": 200001 + gi, "fname": fname, "canary_ok": True}
        u.chunks.append(("    " + header.strip() + "\n", dict(meta2, kind="header")))
        spec = ("requires\n    // the macro emits this override only for names accepted by must_be_valid_iden (guard checked syntactically above): plain names;\n"
                "    // a quote character is not a letter, digit or `_` (the backends' pairs, and any user-made pair such as `[` `]`)\n    all_plain(self.name()), !is_plain(q.1 as char),\n"
                "ensures " + APP % {"w": "s"} + "\n    // exactly the token the general Iden::prepare writes, hence ONE identifier token decoding to the name\n    " + NEW % {"w": "s"} + " == tokq(self.name(), q),\n    is_ident_tok(" + NEW % {"w": "s"} + ", self.name(), q.0 as char, q.1 as char),")
        u.chunks.append((indent(spec, 8) + "\n", dict(meta2, kind="contract")))
        proof = """proof {
    lemma_plain_raw(self.name(), q);
    lemma_is_ident_tok(self.name(), q.0 as char, q.1 as char);
    assert(s.text() =~= t0 + (seq![q.0 as char] + self.name() + seq![q.1 as char]));
    assert(s.text().subrange(t0.len() as int, s.text().len() as int) =~= seq![q.0 as char] + self.name() + seq![q.1 as char]);
    assert(s.text().subrange(0, t0.len() as int) =~= t0);
}"""
        close = fbody.rstrip().rfind("}")
        u.chunks.append(("    {\n        let ghost t0 = s.text();\n" + fbody[1:close].rstrip() + "\n", dict(meta2)))
        u.chunks.append((indent(proof, 8) + "\n", dict(meta2, kind="proof:derive")))
        u.chunks.append(("    }\n\n", dict(meta2)))
        u.functions.append({"item": key, "file": DERIVE, "line": meta2["src_line"], "vpath": "DerivedIden::" + fname, "sha256": hashlib.sha256(gtxt.encode()).hexdigest(),
                            "rules": ctx.apps, "kind": "fn", "has_contract": True, "props": P, "no_canary": False})
        u.expected.append(fname)
    u.emit("}\n")

PREPARE_PROOF = '''proof {
    lemma_is_ident_tok(self.name(), q.0 as char, q.1 as char);
    assert(s.text() =~= t0 + (seq![q.0 as char] + dblq(self.name(), q.1 as char) + seq![q.1 as char]));
    assert(s.text().subrange(t0.len() as int, s.text().len() as int) =~= seq![q.0 as char] + dblq(self.name(), q.1 as char) + seq![q.1 as char]);
    assert(s.text().subrange(0, t0.len() as int) =~= t0);
}'''


def check_quoted_flows(u):
    """Call-graph fact used by C04 (checked syntactically on every run): the text returned by Iden::quoted(q) - the name with
    its quote characters doubled - goes straight into a write!(..) between q.left() and q.right().  If it is stored anywhere
    else (e.g. handed to a builder that quotes it again) the contracts of this unit no longer describe what reaches the
    engine: UNDECIDED, and the bounded search over identifier positions decides."""
    for p in sorted(glob.glob(os.path.join(u.repo, "src", "**", "*.rs"), recursive=True)):
        rel = os.path.relpath(p, u.repo)
        src = u.src(rel)
        if ".quoted(" not in src:
            continue
        code = rl.code_toks(rl.lex(src))
        spans = []
        for k, t in enumerate(code):
            if t.kind == "ident" and t.text in ("write", "format") and k + 2 < len(code) and code[k + 1].text == "!" and code[k + 2].text == "(":
                spans.append((code[k + 2].start, code[rl.match_close(code, k + 2)].end))
        for k, t in enumerate(code):
            if t.kind == "ident" and t.text == "quoted" and k > 0 and code[k - 1].text == "." and k + 2 < len(code) and code[k + 1].text == "(" and code[k + 2].text != ")":
                if not any(a <= t.start < b for a, b in spans):
                    line = src.count("\n", 0, t.start) + 1
                    raise Unsupported("%s:%d: the result of `.quoted(..)` is not written directly by write!(..) - an escaped name may be escaped again or stored" % (rel, line))


def check_no_format_sites(u):
    """Third syntactic fact: outside Iden::prepare (src/types.rs, under contract) and the raw write! sites of src/backend (each
    verified), nothing assembles a quoted identifier by hand: no `format!` / `write!` elsewhere under src/ mentions `.left()`."""
    for p in sorted(glob.glob(os.path.join(u.repo, "src", "**", "*.rs"), recursive=True)):
        rel = os.path.relpath(p, u.repo)
        src = u.src(rel)
        if ".left()" not in src or rel == "src/types.rs":
            continue
        code = rl.code_toks(rl.lex(src.split("#[cfg(test)]")[0]))
        for k, t in enumerate(code):
            if t.kind == "ident" and t.text in ("format", "write", "writeln", "print", "println") and k + 2 < len(code) and code[k + 1].text == "!" and code[k + 2].text in "([":
                close = rl.match_close(code, k + 2)
                inner = src[code[k + 2].end:code[close].start]
                if ".left()" in inner and not (t.text == "write" and rel.startswith("src/backend/")):
                    line = src.count("\n", 0, t.start) + 1
                    raise Unsupported("%s:%d: a quoted identifier is assembled by hand with %s!(.. .left() ..) outside the verified quoting sites" % (rel, line, t.text))


def check_prepare_quote_arg(u):
    """Second call-graph fact used by C04 (syntactic, every run): inside the backends every `x.prepare(writer, q)` passes the
    backend's own quote, `self.quote()`, whose value is verified below per backend.  Anything else (a constant quote, another
    backend's) leaves this unit's reach: UNDECIDED, the bounded search over identifier positions decides."""
    n = 0
    for sub in ("backend", "extension"):
        for p in sorted(glob.glob(os.path.join(u.repo, "src", sub, "**", "*.rs"), recursive=True)):
            rel = os.path.relpath(p, u.repo)
            src = u.src(rel)
            if ".prepare(" not in src:
                continue
            code = rl.code_toks(rl.lex(src))
            for k, t in enumerate(code):
                if t.kind == "ident" and t.text == "prepare" and k > 0 and code[k - 1].text == "." and k + 1 < len(code) and code[k + 1].text == "(":
                    close = rl.match_close(code, k + 1)
                    args = gen_split_top(src[code[k + 1].end:code[close].start])
                    if len(args) != 2:
                        continue   # not Iden::prepare(writer, quote)
                    n += 1
                    if rl.norm_ws(args[1]) != "self.quote()":
                        line = src.count("\n", 0, t.start) + 1
                        raise Unsupported("%s:%d: Iden::prepare is called with quote `%s`, not `self.quote()`" % (rel, line, rl.norm_ws(args[1])))
    if n == 0:
        raise LostAnchor("no Iden::prepare(writer, quote) call found under src/backend - the call-graph check lost its anchor")
    return n


def build(u):
    check_quoted_flows(u)
    check_no_format_sites(u)
    check_prepare_quote_arg(u)
    u.emit("use vstd::prelude::*;\nverus! {\n")
    u.prelude_file("vlib/prelude/vfmt.rs")
    u.prelude_file("vlib/prelude/vstr.rs")
    u.type_item(T, "struct", "Quote", props=P, keep_derive=("Clone", "Copy"), rules=[make_r_sub("R-vis", r"pub\(crate\) ", "pub ", min_count=0)])
    u.prelude_file("units/ident/spec.rs", props=P)

    u.emit("impl Quote {\n")
    u.fn(T, "impl Quote", "new", ret="r", props=P, spec="ensures r.0 == c, r.1 == c,")
    u.fn(T, "impl Quote", "left", ret="r", props=P, rules=[make_r_sub("R-charfn", r"char::from\(", "vchar_from_u8(")], spec="ensures r == self.0 as char,")
    u.fn(T, "impl Quote", "right", ret="r", props=P, rules=[make_r_sub("R-charfn", r"char::from\(", "vchar_from_u8(")], spec="ensures r == self.1 as char,")
    u.emit("}\n")

    # the three backends' quote constants
    for ty, d in [("MysqlQueryBuilder", "mysql"), ("PostgresQueryBuilder", "postgres"), ("SqliteQueryBuilder", "sqlite")]:
        path = "src/backend/%s/mod.rs" % d
        u.emit("pub struct %s;\n" % ty)
        src = u.src(path)
        m = re.search(r"^const QUOTE: Quote = [^;]*;", src, re.M)
        if not m:
            raise LostAnchor("%s: const QUOTE not found" % path)
        u.emit("impl %s {\n    %s\n" % (ty, m.group(0).replace("const QUOTE", "pub const QUOTE")), kind="code", key=ty + "::QUOTE", props=P)
        u.fn(path, "impl QuotedBuilder for %s" % ty, "quote", ret="r", props=P, key=ty + "::quote", vpath=ty + "::quote",
             rules=[make_r_sub("R-const", r"\bQUOTE\b", ty + "::QUOTE")],
             spec="ensures is_backend_quote(r), " + ("r.1 == 0x60" if d == "mysql" else "r.1 == 0x22") + ",")
        u.emit("}\n")

    # ---- Iden (trait defaults), over an abstract implementor whose unquoted() writes its name -------------------
    u.spec('''
pub struct VIden { pub n: String }
impl VIden {
    pub open spec fn name(&self) -> Seq<char> { self.n@ }
    // abstract: `unquoted` of any Iden implementor writes the identifier's name (its own definition of it)
    #[verifier::external_body]
    fn unquoted<W: VWrite>(&self, s: &mut W)
        ensures final(s).text() == old(s).text() + self.name()
    { unimplemented!() }
''', "ident::VIden", props=P)
    B = "trait Iden"
    u.fn(T, B, "to_string", ret="r", props=P, key="Iden::to_string", vpath="VIden::to_string",
         spec="ensures r@ == self.name(),", proofs={"before#1:s\n": "proof { assert(Seq::<char>::empty() + self.name() =~= self.name()); }"})
    u.fn(T, B, "quoted", ret="r", props=P, key="Iden::quoted", vpath="VIden::quoted",
         rules=[make_r_sub("R-strfn", r"let (\w+): &str = std::str::from_utf8\(&(\w+)\)\.unwrap\(\);",
                           r"let \1_s = vstr_from_utf8_arr1(&\2); let \1: &str = \1_s.as_str();"),
                make_r_sub("R-strfn", r"\b(\w+)\.repeat\(2\)", r"\1.vrepeat2()"), make_r_sub("R-strfn", r"\.replace\((\w+), ", r".vreplace_s1(\1, "),
                make_r_tailbind()],
         spec="requires q.1 < 0x80,\nensures r@ == dblq(self.name(), q.1 as char),",
         proofs={"before#1:r_\n": "proof { assert(seq![q.1 as char] + seq![q.1 as char] =~= seq![q.1 as char, q.1 as char]); }"})
    u.fn(T, B, "prepare", props=P, key="Iden::prepare", vpath="VIden::prepare",
         rules=[r_dynw, r_fmt, r_unit_tail],
         spec="requires q.1 < 0x80,\nensures " + APP % {"w": "s"} + "\n    is_ident_tok(" + NEW % {"w": "s"} + ", self.name(), q.0 as char, q.1 as char),\n    // explicit form of the token (used by the renderers of qualified names below)\n    final(s).text() == old(s).text() + tokq(self.name(), q),",
         proofs={"body-start": "let ghost t0 = s.text();", "body-end": PREPARE_PROOF})
    u.emit("}\n")

    # ---- Alias: the concrete implementor used by the quoting sites; `unquoted` is its real body -------------------
    u.type_item(T, "struct", "Alias", props=P, rules=[make_r_sub("R-vis", r"struct Alias\(String\)", "struct Alias(pub String)")])
    u.emit("impl Alias {\n    pub open spec fn name(&self) -> Seq<char> { self.0@ }\n")
    u.fn(T, "impl Alias", "new", ret="r", props=P, key="Alias::new",
         rules=[make_r_sub("R-into", r"new<T>\(n: T\)", "new(n: &str)"), make_r_sub("R-into", r"where\s+T: Into<String>,", ""),
                make_r_sub("R-into", r"n\.into\(\)", "vstr_to_owned(n)")],
         spec="ensures r.name() == n@,")
    u.fn(T, "impl Iden for Alias", "unquoted", props=P, key="Alias::unquoted", vpath="Alias::unquoted",
         rules=[r_dynw, r_fmt, r_unit_tail], spec="ensures final(s).text() == old(s).text() + self.name(),")
    u.fn(T, B, "to_string", ret="r", props=P, key="Iden::to_string[Alias]", vpath="Alias::to_string",
         spec="ensures r@ == self.name(),", proofs={"before#1:s\n": "proof { assert(Seq::<char>::empty() + self.name() =~= self.name()); }"})
    u.fn(T, B, "quoted", ret="r", props=P, key="Iden::quoted[Alias]", vpath="Alias::quoted",
         rules=[make_r_sub("R-strfn", r"let (\w+): &str = std::str::from_utf8\(&(\w+)\)\.unwrap\(\);",
                           r"let \1_s = vstr_from_utf8_arr1(&\2); let \1: &str = \1_s.as_str();"),
                make_r_sub("R-strfn", r"\b(\w+)\.repeat\(2\)", r"\1.vrepeat2()"), make_r_sub("R-strfn", r"\.replace\((\w+), ", r".vreplace_s1(\1, "),
                make_r_tailbind()],
         spec="requires q.1 < 0x80,\nensures r@ == dblq(self.name(), q.1 as char),",
         proofs={"before#1:r_\n": "proof { assert(seq![q.1 as char] + seq![q.1 as char] =~= seq![q.1 as char, q.1 as char]); }"})
    u.emit("}\n")

    # ---- qualified names: table references and column references --------------------------------------------------------------
    # Every table / schema / database / alias / column name of a query statement reaches the writer through these two
    # functions.  Contract: the text written is the sequence of the names' identifier tokens (each `tokq(name, quote)`, which
    # lemma_is_ident_tok shows to decode to exactly the name), joined by `.` / ` AS ` as the grammar requires.
    u.spec('''
pub type DynIden = VIden;   // R-dyn: SeaRc<dyn Iden> is the abstract implementor above
#[verifier::external_body] pub struct SelectStatement { _o: u8 }
#[verifier::external_body] pub struct ValueTuple { _o: u8 }
#[verifier::external_body] pub struct FunctionCall { _o: u8 }
pub proof fn lemma_tokq_is_ident_tok(name: Seq<char>, q: Quote)
    ensures is_ident_tok(tokq(name, q), name, q.0 as char, q.1 as char)
{ lemma_is_ident_tok(name, q.0 as char, q.1 as char); }
// R-panic (trusted): panic!(..) never returns; reaching it is excluded by the function's precondition
#[verifier::external_body]
fn vpanic() requires false { unimplemented!() }
''', "ident::qualified-names-spec", props=P)
    u.type_item(T, "enum", "TableRef", props=P)
    u.type_item(T, "enum", "ColumnRef", props=P)
    u.emit("pub struct QBackend { pub q: Quote }\nimpl QBackend {\n    fn quote(&self) -> (r: Quote) ensures r == self.q { self.q }\n", kind="spec", key="ident::QBackend", props=P)
    r_prep = make_r_sub("R-dyn", r"\b([a-z_]+)\.prepare\(sql, self\.quote\(\)\)", r"\1.prepare(sql, self.quote())", min_count=1)
    DOT, AS = "seq!['.']", "seq![' ', 'A', 'S', ' ']"
    tq = lambda n: "tokq(%s.name(), self.q)" % n
    u.fn("src/backend/table_ref_builder.rs", "trait TableRefBuilder", "prepare_table_ref_iden", props=P, key="TableRefBuilder::prepare_table_ref_iden", vpath="QBackend::prepare_table_ref_iden",
         rules=[r_dynw, r_fmt, make_r_sub("R-panic", r'panic!\("TableRef with values is not support"\)', "vpanic()")],
         spec="""requires is_backend_quote(self.q), !(table_ref is SubQuery) && !(table_ref is ValuesList) && !(table_ref is FunctionCall),
ensures
    // [database.][schema.]table [AS alias] - one identifier token per name, in this order
    final(sql).text() == old(sql).text() + (match *table_ref {
        TableRef::Table(t) => %s,
        TableRef::SchemaTable(s, t) => %s + %s + %s,
        TableRef::DatabaseSchemaTable(d, s, t) => %s + %s + %s + %s + %s,
        TableRef::TableAlias(t, a) => %s + %s + %s,
        TableRef::SchemaTableAlias(s, t, a) => %s + %s + %s + %s + %s,
        TableRef::DatabaseSchemaTableAlias(d, s, t, a) => %s + %s + %s + %s + %s + %s + %s,
        _ => Seq::<char>::empty(),
    }),""" % (tq("t"), tq("s"), DOT, tq("t"), tq("d"), DOT, tq("s"), DOT, tq("t"), tq("t"), AS, tq("a"), tq("s"), DOT, tq("t"), AS, tq("a"),
              tq("d"), DOT, tq("s"), DOT, tq("t"), AS, tq("a")),
         proofs={"body-start": 'let ghost t0 = sql.text();\nproof { reveal_strlit("."); reveal_strlit(" AS "); assert("."@ =~= seq![\'.\']); assert(" AS "@ =~= seq![\' \', \'A\', \'S\', \' \']); }',
                 "body-end": """let ghost tr_ = *table_ref;
proof {
    match tr_ {
        TableRef::Table(t) => { assert(sql.text() =~= t0 + %s); }
        TableRef::SchemaTable(s, t) => { assert(sql.text() =~= t0 + (%s + %s + %s)); }
        TableRef::DatabaseSchemaTable(d, s, t) => { assert(sql.text() =~= t0 + (%s + %s + %s + %s + %s)); }
        TableRef::TableAlias(t, a) => { assert(sql.text() =~= t0 + (%s + %s + %s)); }
        TableRef::SchemaTableAlias(s, t, a) => { assert(sql.text() =~= t0 + (%s + %s + %s + %s + %s)); }
        TableRef::DatabaseSchemaTableAlias(d, s, t, a) => { assert(sql.text() =~= t0 + (%s + %s + %s + %s + %s + %s + %s)); }
        _ => {}
    }
}""" % (tq("t"), tq("s"), DOT, tq("t"), tq("d"), DOT, tq("s"), DOT, tq("t"), tq("t"), AS, tq("a"), tq("s"), DOT, tq("t"), AS, tq("a"),
        tq("d"), DOT, tq("s"), DOT, tq("t"), AS, tq("a"))})
    STAR, DOTSTAR = "seq!['*']", "seq!['.', '*']"
    u.fn("src/backend/query_builder.rs", "trait QueryBuilder", "prepare_column_ref", props=P, key="QueryBuilder::prepare_column_ref", vpath="QBackend::prepare_column_ref",
         rules=[r_dynw, r_fmt],
         spec="""requires is_backend_quote(self.q),
ensures
    // [schema.][table.]column | * | table.*
    final(sql).text() == old(sql).text() + (match *column_ref {
        ColumnRef::Column(c) => %s,
        ColumnRef::TableColumn(t, c) => %s + %s + %s,
        ColumnRef::SchemaTableColumn(s, t, c) => %s + %s + %s + %s + %s,
        ColumnRef::Asterisk => %s,
        ColumnRef::TableAsterisk(t) => %s + %s,
    }),""" % (tq("c"), tq("t"), DOT, tq("c"), tq("s"), DOT, tq("t"), DOT, tq("c"), STAR, tq("t"), DOTSTAR),
         proofs={"body-start": 'let ghost t0 = sql.text();\nproof { reveal_strlit("."); reveal_strlit("*"); reveal_strlit(".*"); assert("."@ =~= seq![\'.\']); assert("*"@ =~= seq![\'*\']); assert(".*"@ =~= seq![\'.\', \'*\']); }',
                 "body-end": """let ghost cr_ = *column_ref;
proof {
    match cr_ {
        ColumnRef::Column(c) => { assert(sql.text() =~= t0 + %s); }
        ColumnRef::TableColumn(t, c) => { assert(sql.text() =~= t0 + (%s + %s + %s)); }
        ColumnRef::SchemaTableColumn(s, t, c) => { assert(sql.text() =~= t0 + (%s + %s + %s + %s + %s)); }
        ColumnRef::Asterisk => { assert(sql.text() =~= t0 + %s); }
        ColumnRef::TableAsterisk(t) => { assert(sql.text() =~= t0 + (%s + %s)); }
    }
}""" % (tq("c"), tq("t"), DOT, tq("c"), tq("s"), DOT, tq("t"), DOT, tq("c"), STAR, tq("t"), DOTSTAR)})
    u.emit("}\n")

    # ---- raw quoting sites, discovered on every run --------------------------------------------------------------------
    sites = raw_sites(u)
    u.spec('''
pub struct AnyBackend { pub q: Quote }
impl AnyBackend {
    fn quote_(&self) -> (r: Quote) ensures r == self.q { self.q }
''', "ident::AnyBackend", props=P)
    for i, (rel, fname, line, text) in enumerate(sites):
        try:
            emit_site(u, i, rel, fname, line, text)
        except (LostAnchor, Unsupported) as e:
            # this site leaves the rule set: only IT is undecided (the bounded search over identifier positions decides); the other sites and
            # the rest of the unit are still verified
            u.stubbed["raw-site:%s:%s@%d" % (rel, fname, line)] = {"reason": "%s: %s" % (type(e).__name__, e), "props": list(P), "fname": "raw_site_%d_%s" % (i, fname)}
    u.emit("}\n")
    u.site_count = len(sites)
    try:
        derive_fast_path(u)
    except (LostAnchor, Unsupported) as e:
        # the derive crate left the annotations' reach: only this part is undecided (an ASSUMED stub records it)
        u.stubbed["derive::fast-path"] = {"reason": "%s: %s" % (type(e).__name__, e), "props": list(P), "fname": "must_be_valid_iden"}
    u.emit("} // verus!\nfn main() {}\n")
