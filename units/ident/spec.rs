// =============================================================================================
// unit `ident` - specification (hand-written).  Oracle: the quoted-identifier lexer shared by
// MySQL (`..`, 9.2 Schema Object Names: "`` inside is one `"), PostgreSQL ("..", 4.1.1: "" is one ")
// and SQLite ("..", same rule): after the opening quote, a doubled closing quote is one quote
// character, a single closing quote ends the identifier; nothing else is special.
// =============================================================================================
pub open spec fn ident_body(t: Seq<char>, i: int, qr: char, acc: Seq<char>) -> Option<(Seq<char>, int)>
    decreases t.len() - i
{
    if i < 0 || i >= t.len() { None }
    else if t[i] == qr { if i + 1 < t.len() && t[i + 1] == qr { ident_body(t, i + 2, qr, acc.push(qr)) } else { Some((acc, i + 1)) } }
    else { ident_body(t, i + 1, qr, acc.push(t[i])) }
}
pub open spec fn quoted_ident(t: Seq<char>, ql: char, qr: char) -> Option<(Seq<char>, int)> {
    if t.len() > 0 && t[0] == ql { ident_body(t, 1, qr, Seq::<char>::empty()) } else { None }
}
// `tok` is ONE quoted-identifier token decoding to exactly `name`, whatever follows (unless the quote follows)
pub open spec fn is_ident_tok(tok: Seq<char>, name: Seq<char>, ql: char, qr: char) -> bool {
    forall|rest: Seq<char>| (rest.len() == 0 || rest[0] != qr) ==> #[trigger] quoted_ident(tok + rest, ql, qr) == Some((name, tok.len() as int))
}
pub open spec fn dblq(s: Seq<char>, q: char) -> Seq<char> { replace_char(s, q, seq![q, q]) }
// the identifier token for `name` under quote q: left quote, the name with the right quote doubled, right quote
pub open spec fn tokq(name: Seq<char>, q: Quote) -> Seq<char> { seq![q.0 as char] + dblq(name, q.1 as char) + seq![q.1 as char] }

pub proof fn lemma_ident_body_dbl(pre: Seq<char>, s: Seq<char>, rest: Seq<char>, acc: Seq<char>, q: char)
    requires rest.len() == 0 || rest[0] != q,
    ensures ident_body(pre + dblq(s, q) + seq![q] + rest, pre.len() as int, q, acc) == Some((acc + s, (pre.len() + dblq(s, q).len() + 1) as int))
    decreases s.len()
{
    let t = pre + dblq(s, q) + seq![q] + rest;
    let p = pre.len() as int;
    if s.len() == 0 {
        assert(acc + s == acc);
        assert(t[p] == q);
        if rest.len() > 0 { assert(t[p + 1] == rest[0]); }
    } else {
        let c = s[0];
        let e = rep1(c, q, seq![q, q]);
        let pre2 = pre + e;
        assert(dblq(s, q) == e + dblq(s.drop_first(), q));
        assert(pre2 + dblq(s.drop_first(), q) + seq![q] + rest == t);
        assert(forall|k: int| 0 <= k < e.len() ==> t[p + k] == e[k]);
        assert(acc.push(c) + s.drop_first() == acc + s);
        lemma_ident_body_dbl(pre2, s.drop_first(), rest, acc.push(c), q);
        if c == q { assert(t[p] == q && t[p + 1] == q); } else { assert(t[p] == c); }
    }
}
pub proof fn lemma_is_ident_tok(name: Seq<char>, ql: char, qr: char)
    ensures is_ident_tok(seq![ql] + dblq(name, qr) + seq![qr], name, ql, qr)
{
    let tok = seq![ql] + dblq(name, qr) + seq![qr];
    assert forall|rest: Seq<char>| (rest.len() == 0 || rest[0] != qr) implies #[trigger] quoted_ident(tok + rest, ql, qr) == Some((name, tok.len() as int)) by {
        lemma_ident_body_dbl(seq![ql], name, rest, Seq::<char>::empty(), qr);
        assert(seq![ql] + dblq(name, qr) + seq![qr] + rest == tok + rest);
        assert(Seq::<char>::empty() + name == name);
        assert((tok + rest)[0] == ql);
    }
}
// a name without the closing quote character may be written verbatim between the quotes
pub proof fn lemma_raw_is_ident_tok(name: Seq<char>, ql: char, qr: char)
    requires !name.contains(qr)
    ensures is_ident_tok(seq![ql] + name + seq![qr], name, ql, qr)
{
    lemma_rc_absent_i(name, qr, seq![qr, qr]);
    lemma_is_ident_tok(name, ql, qr);
}
pub proof fn lemma_rc_absent_i(s: Seq<char>, from: char, to: Seq<char>)
    requires !s.contains(from)
    ensures replace_char(s, from, to) == s
    decreases s.len()
{
    if s.len() > 0 {
        assert(s.contains(s[0]));
        assert forall|x: char| s.drop_first().contains(x) implies s.contains(x) by {
            let k = choose|k: int| 0 <= k < s.drop_first().len() && s.drop_first()[k] == x;
            assert(s[k + 1] == x);
        }
        lemma_rc_absent_i(s.drop_first(), from, to);
        assert(seq![s[0]] + s.drop_first() == s);
    }
}

// the three backends' quote pairs
pub open spec fn is_backend_quote(q: Quote) -> bool { (q.0 == 0x60 && q.1 == 0x60) || (q.0 == 0x22 && q.1 == 0x22) }

// ---- trusted shims for this unit (R-strfn / R-charfn) ------------------------------------------------
// std::str::from_utf8(&[b]).unwrap(): the one-character string of an ASCII byte; panics for b >= 0x80
#[verifier::external_body]
fn vstr_from_utf8_arr1(byte: &[u8; 1]) -> (r: String)
    requires byte[0] < 0x80,
    ensures r@ == seq![byte[0] as char],
{ std::str::from_utf8(byte).unwrap().to_owned() }
// char::from(u8): the code point with that number (Latin-1)
#[verifier::external_body]
fn vchar_from_u8(b: u8) -> (r: char)
    ensures r == b as char,
{ char::from(b) }
pub trait VStrExt2 {
    spec fn sv2(&self) -> Seq<char>;
    // str::replace with a one-character pattern == replace of that char
    fn vreplace_s1(&self, from: &str, to: &str) -> (r: String)
        requires from@.len() == 1
        ensures r@ == replace_char(self.sv2(), from@[0], to@);
    fn vrepeat2(&self) -> (r: String) ensures r@ == self.sv2() + self.sv2();
}
impl VStrExt2 for str {
    open spec fn sv2(&self) -> Seq<char> { self@ }
    #[verifier::external_body] fn vreplace_s1(&self, from: &str, to: &str) -> (r: String) { self.replace(from, to) }
    #[verifier::external_body] fn vrepeat2(&self) -> (r: String) { self.repeat(2) }
}
impl VStrExt2 for String {
    open spec fn sv2(&self) -> Seq<char> { self@ }
    #[verifier::external_body] fn vreplace_s1(&self, from: &str, to: &str) -> (r: String) { self.replace(from, to) }
    #[verifier::external_body] fn vrepeat2(&self) -> (r: String) { self.repeat(2) }
}

// R-into (trusted): `n.into()` for n: &str / &String producing a String is a copy of the text
#[verifier::external_body]
fn vstr_to_owned(n: &str) -> (r: String) ensures r@ == n@ { n.to_owned() }
