// =============================================================================================
// unit `render` - specification (hand-written) for C08, at CLAUSE granularity.
// The writer is replaced by a ghost event trace: one `Lit` per keyword / separator written, one
// event per sub-renderer call.  The oracle is each statement's clause order in the dialect's
// grammar (MySQL 8.0 manual 15.2.x SELECT / INSERT / UPDATE / DELETE syntax; PostgreSQL 16
// SQL commands SELECT / INSERT / UPDATE / DELETE; SQLite lang_select / lang_update / ...):
//   SELECT: [WITH] SELECT [DISTINCT] list [FROM tables [hints]] [JOIN..] [WHERE] [GROUP BY] [HAVING]
//           [WINDOW] [UNION ..] [ORDER BY] [LIMIT/OFFSET] [FOR UPDATE ..]
// every clause that was given appears exactly once, in this order, list items in call order.
// =============================================================================================
pub enum Ev {
    Lit(Seq<char>),
    With(WithClause), Distinct(SelectDistinct), SelExpr(SelectExpr), TRef(TableRef), IndexHints, TableSample, Join(JoinExpr),
    Cond(Seq<char>, ConditionHolder), Expr(SimpleExpr), Union(UnionType, SelectStatement), Order(OrderExpr), FieldOrder(OrderExpr), LimitOffset,
    Lock(LockClause), Iden(DynIden), Window(WindowStatement), DefaultKw,
    Output(Option<ReturningClause>), Returning(Option<ReturningClause>), JoinTy(JoinType), JoinOnEv(JoinOn), ValuesList(Vec<ValueTuple>), FuncName(FunctionCall), FuncArgs(FunctionCall), TRefIden(TableRef), Query(SubQueryStatement), WithOpts(WithClause), WithStart(WithClause), Cte(CommonTableExpression), CteList(WithClause), Materialization(CommonTableExpression), U32Value(u32), F64Text(f64), HintScope(IndexHintScope), FrameEv(Frame), OcKeywords, DoUpdateKw, Excluded(DynIden), OcTarget(Vec<OnConflictTarget>), OcAction(Option<OnConflictAction>), ColRef(ColumnRef), InsertKw(bool), DefaultValues(u32), OnConflict(Option<OnConflict>), Select(SelectStatement), UpdJoin, UpdFrom, UpdCond, UpdColumn(DynIden), UpdOrderBy, UpdLimit, DelOrderBy, DelLimit,
}
pub trait VWrite {
    spec fn tr(&self) -> Seq<Ev>;
    fn vpush(&mut self, s: &str) ensures final(self).tr() == old(self).tr().push(Ev::Lit(s@));
}
fn vfmt_lit<W: VWrite>(w: &mut W, x: &str) ensures final(w).tr() == old(w).tr().push(Ev::Lit(x@)) { w.vpush(x) }
// R-fmt `{}` of an f64 (TABLESAMPLE percentage / seed): the std Display text of that number, one event
#[verifier::external_body]
fn vfmt_f64<W: VWrite>(w: &mut W, x: &f64) ensures final(w).tr() == old(w).tr().push(Ev::F64Text(*x)) { unimplemented!() }

pub open spec fn lit(s: &str) -> Ev { Ev::Lit(s@) }
pub proof fn lemma_assoc(a: Seq<Ev>, b: Seq<Ev>, c: Seq<Ev>)
    ensures (a + b) + c == a + (b + c)
{
    assert((a + b) + c =~= a + (b + c));
}

// one assignment of an upsert's update list: `col = <the inserted value of col>` (dialect form: Ev::Excluded) or `col = expr`
pub open spec fn upd_item(u: OnConflictUpdate) -> Seq<Ev> {
    match u { OnConflictUpdate::Column(c) => seq![Ev::Iden(c), lit(" = "), Ev::Excluded(c)], OnConflictUpdate::Expr(c, e) => seq![Ev::Iden(c), lit(" = "), Ev::Expr(e)] }
}

// TRUSTED (std): a Vec's length is a usize
#[verifier::external_body]
pub proof fn axiom_vec_len_fits<T>(v: &Vec<T>) ensures v@.len() <= usize::MAX {}
