"""unit `render`  ->  C08 (clause granularity): every clause given appears once, in grammar order, items in call order.

Under contract: QueryBuilder::prepare_select_statement (more to follow).  Sub-renderers are abstract event producers.
"""
import re
from vlib import rustlex as rl
from vlib.gen import make_r_fmt, make_r_sub, make_r_dyn, r_fold, r_dynw

QB = "src/backend/query_builder.rs"
P = ["C08"]
OPAQUE = ["WithClause", "SelectDistinct", "SelectExpr", "TableRef", "JoinExpr", "ConditionHolder", "SimpleExpr", "OrderExpr", "LockClause", "DynIden",
          "WindowStatement", "Value", "ReturningClause", "IndexHint", "TableSample"]
r_fmt = make_r_fmt(wmap=lambda w: w)


def abstract(name, params, ev):
    return "    #[verifier::external_body]\n    fn %s<W: VWrite>(&self, %s, sql: &mut W) ensures final(sql).tr() == old(sql).tr().push(%s) { unimplemented!() }\n" % (name, params, ev)


def fold_inv(it, coll, mk, t):
    return """invariant
    %(it)s.index@ <= %(c)s@.len(), first == (%(it)s.index@ == 0),
    sql.tr() == %(t)s + %(mk)s(%(c)s@.subrange(0, %(it)s.index@ as int)),""" % {"it": it, "c": coll, "mk": mk, "t": t}


# ---- statements as ordered lists of clause parts (grammar order).  select_events = concatenation of the parts, in this order.
# (name, the clause as a sum of events [the SPECIFICATION], how the code builds it from the trace `pre` it starts with [shape])
SELECT_PARTS = [
    ("with", "(match s.with { Some(w) => seq![Ev::With(w)], None => Seq::<Ev>::empty() })",
     "(match s.with { Some(w) => pre.push(Ev::With(w)), None => pre })"),
    ("kw", 'seq![lit("SELECT ")]', 'pre.push(lit("SELECT "))'),
    ("distinct", '(match s.distinct { Some(d) => seq![Ev::Distinct(d), lit(" ")], None => Seq::<Ev>::empty() })',
     '(match s.distinct { Some(d) => pre.push(Ev::Distinct(d)).push(lit(" ")), None => pre })'),
    ("list", "l_selexprs(s.selects@)", "pre + l_selexprs(s.selects@)"),
    ("from", '(if s.from@.len() > 0 { seq![lit(" FROM ")] + l_trefs(s.from@) + seq![Ev::IndexHints, Ev::TableSample] } else { Seq::<Ev>::empty() })',
     '(if s.from@.len() > 0 { (pre.push(lit(" FROM ")) + l_trefs(s.from@)).push(Ev::IndexHints).push(Ev::TableSample) } else { pre })'),
    ("join", "l_joins(s.join@)", "pre + l_joins(s.join@)"),
    ("where", 'seq![Ev::Cond("WHERE"@, s.r#where)]', 'pre.push(Ev::Cond("WHERE"@, s.r#where))'),
    ("group", '(if s.groups@.len() > 0 { seq![lit(" GROUP BY ")] + l_exprs(s.groups@) } else { Seq::<Ev>::empty() })',
     '(if s.groups@.len() > 0 { pre.push(lit(" GROUP BY ")) + l_exprs(s.groups@) } else { pre })'),
    ("having", 'seq![Ev::Cond("HAVING"@, s.having)]', 'pre.push(Ev::Cond("HAVING"@, s.having))'),
    # the named WINDOW clause belongs to the query specification: after HAVING, before set operations / ORDER BY / LIMIT
    ("window", '(match s.window { Some(w) => seq![lit(" WINDOW "), Ev::Iden(w.0), lit(" AS "), Ev::Window(w.1)], None => Seq::<Ev>::empty() })',
     '(match s.window { Some(w) => pre.push(lit(" WINDOW ")).push(Ev::Iden(w.0)).push(lit(" AS ")).push(Ev::Window(w.1)), None => pre })'),
    ("union", "l_unions(s.unions@)", "pre + l_unions(s.unions@)"),
    ("order", '(if s.orders@.len() > 0 { seq![lit(" ORDER BY ")] + l_orders(s.orders@) } else { Seq::<Ev>::empty() })',
     '(if s.orders@.len() > 0 { pre.push(lit(" ORDER BY ")) + l_orders(s.orders@) } else { pre })'),
    ("limit", "seq![Ev::LimitOffset]", "pre.push(Ev::LimitOffset)"),
    ("lock", '(match s.lock { Some(l) => seq![lit(" "), Ev::Lock(l)], None => Seq::<Ev>::empty() })',
     '(match s.lock { Some(l) => pre.push(lit(" ")).push(Ev::Lock(l)), None => pre })'),
]


DELETE_PARTS = [
    ("with", "(match s.with { Some(w) => seq![Ev::With(w)], None => Seq::<Ev>::empty() })", "(match s.with { Some(w) => pre.push(Ev::With(w)), None => pre })"),
    ("kw", 'seq![lit("DELETE ")]', 'pre.push(lit("DELETE "))'),
    ("table", '(match s.table { Some(t) => seq![lit("FROM "), Ev::TRef(*t)], None => Seq::<Ev>::empty() })', '(match s.table { Some(t) => pre.push(lit("FROM ")).push(Ev::TRef(*t)), None => pre })'),
    ("output", "seq![Ev::Output(s.returning)]", "pre.push(Ev::Output(s.returning))"),
    ("where", 'seq![Ev::Cond("WHERE"@, s.r#where)]', 'pre.push(Ev::Cond("WHERE"@, s.r#where))'),
    ("order", "seq![Ev::DelOrderBy]", "pre.push(Ev::DelOrderBy)"),
    ("limit", "seq![Ev::DelLimit]", "pre.push(Ev::DelLimit)"),
    ("returning", "seq![Ev::Returning(s.returning)]", "pre.push(Ev::Returning(s.returning))"),
]
# UPDATE: MySQL `UPDATE t [JOIN ..] SET ..  [WHERE] [ORDER BY] [LIMIT]`; Postgres / SQLite `UPDATE t SET .. [FROM ..] [WHERE] [RETURNING]`.
# The dialect-only pieces are hooks (UpdJoin: MySQL; UpdFrom / Returning: Postgres, SQLite); the default renderer fixes their order.
UPDATE_PARTS = [
    ("with", "(match s.with { Some(w) => seq![Ev::With(w)], None => Seq::<Ev>::empty() })", "(match s.with { Some(w) => pre.push(Ev::With(w)), None => pre })"),
    ("kw", 'seq![lit("UPDATE ")]', 'pre.push(lit("UPDATE "))'),
    ("table", "(match s.table { Some(t) => seq![Ev::TRef(*t)], None => Seq::<Ev>::empty() })", "(match s.table { Some(t) => pre.push(Ev::TRef(*t)), None => pre })"),
    ("join", "seq![Ev::UpdJoin]", "pre.push(Ev::UpdJoin)"),
    ("set", 'seq![lit(" SET ")]', 'pre.push(lit(" SET "))'),
    ("values", "l_updvalues(s.values@)", "pre + l_updvalues(s.values@)"),
    ("from", "seq![Ev::UpdFrom]", "pre.push(Ev::UpdFrom)"),
    ("output", "seq![Ev::Output(s.returning)]", "pre.push(Ev::Output(s.returning))"),
    ("where", "seq![Ev::UpdCond]", "pre.push(Ev::UpdCond)"),
    ("order", "seq![Ev::UpdOrderBy]", "pre.push(Ev::UpdOrderBy)"),
    ("limit", "seq![Ev::UpdLimit]", "pre.push(Ev::UpdLimit)"),
    ("returning", "seq![Ev::Returning(s.returning)]", "pre.push(Ev::Returning(s.returning))"),
]


def list_fns(name, ty, mk, kind):
    """first-order list renderers (no closures): kind `sep`: x1, x2, ..  |  `pre`: each item preceded by ` `  |  `each`: items only"""
    class M(str):
        def __mod__(self, x):
            return self.replace("%s", x)
    mk = M(mk)
    if kind == "sep":
        body = "if xs.len() == 0 { Seq::<Ev>::empty() } else if xs.len() == 1 { seq![%s] } else { %s(xs.drop_last()).push(lit(\", \")).push(%s) }" % (mk % "xs[0]", name, mk % "xs.last()")
        step = "(if i == 0 { seq![%s] } else { %s(xs.subrange(0, i)).push(lit(\", \")).push(%s) })" % (mk % "xs[0]", name, mk % "xs[i]")
    elif kind == "pre":
        body = "if xs.len() == 0 { Seq::<Ev>::empty() } else { %s(xs.drop_last()).push(lit(\" \")).push(%s) }" % (name, mk % "xs.last()")
        step = "%s(xs.subrange(0, i)).push(lit(\" \")).push(%s)" % (name, mk % "xs[i]")
    elif kind == "upd":
        item = "push(Ev::UpdColumn(%s.0)).push(lit(\" = \")).push(Ev::Expr(*%s.1))"
        body = "if xs.len() == 0 { Seq::<Ev>::empty() } else if xs.len() == 1 { Seq::<Ev>::empty().%s } else { %s(xs.drop_last()).push(lit(\", \")).%s }" % (item.replace("%s", "xs[0]"), name, item.replace("%s", "xs.last()"))
        step = "(if i == 0 { Seq::<Ev>::empty().%s } else { %s(xs.subrange(0, i)).push(lit(\", \")).%s })" % (item.replace("%s", "xs[0]"), name, item.replace("%s", "xs[i]"))
    else:
        body = "if xs.len() == 0 { Seq::<Ev>::empty() } else { %s(xs.drop_last()).push(%s) }" % (name, mk % "xs.last()")
        step = "%s(xs.subrange(0, i)).push(%s)" % (name, mk % "xs[i]")
    return """pub open spec fn %(n)s(xs: Seq<%(t)s>) -> Seq<Ev>
    decreases xs.len()
{ %(b)s }
pub proof fn lemma_%(n)s_step(xs: Seq<%(t)s>, i: int)
    requires 0 <= i < xs.len()
    ensures %(n)s(xs.subrange(0, i + 1)) == %(s)s
{
    assert(xs.subrange(0, i + 1).drop_last() =~= xs.subrange(0, i));
    assert(xs.subrange(0, i + 1).last() == xs[i]);
    if i == 0 { assert(xs.subrange(0, 1)[0] == xs[0]); }
}
pub proof fn lemma_%(n)s_empty(xs: Seq<%(t)s>)
    ensures %(n)s(xs.subrange(0, 0)) == Seq::<Ev>::empty(), xs.subrange(0, xs.len() as int) == xs
{
    assert(xs.subrange(0, 0) =~= Seq::<%(t)s>::empty());
    assert(xs.subrange(0, xs.len() as int) =~= xs);
}
""" % {"n": name, "t": ty, "b": body, "s": step}


LISTS = [("l_selexprs", "SelectExpr", "Ev::SelExpr(%s)", "sep"), ("l_trefs", "TableRef", "Ev::TRef(%s)", "sep"), ("l_exprs", "SimpleExpr", "Ev::Expr(%s)", "sep"),
         ("l_orders", "OrderExpr", "Ev::Order(%s)", "sep"), ("l_joins", "JoinExpr", "Ev::Join(%s)", "pre"), ("l_unions", "(UnionType, SelectStatement)", "Ev::Union(%s.0, %s.1)", "each"),
         ("l_updvalues", "(DynIden, Box<SimpleExpr>)", "", "upd")]


def parts_spec(prefix, ty, parts):
    """spec fns  <prefix>_p_<name>(s)  (opaque) and cumulative  <prefix>_upto_<name>(s); <prefix>_events = the last cumulative;
    and one stage lemma per part, proved in ISOLATION: if the trace before the part was t0 + upto_prev and the code built the
    part in its `shape`, the trace is t0 + upto_this.  The renderer's body only calls these lemmas (its own Z3 query stays small)."""
    out, prev = [], None
    for name, expr, shape in parts:
        out.append("#[verifier::opaque]\npub open spec fn %s_p_%s(s: %s) -> Seq<Ev> { %s }" % (prefix, name, ty, expr))
        if prev is None:
            out.append("#[verifier::opaque]\npub open spec fn %s_upto_%s(s: %s) -> Seq<Ev> { %s_p_%s(s) }" % (prefix, name, ty, prefix, name))
        else:
            out.append("#[verifier::opaque]\npub open spec fn %s_upto_%s(s: %s) -> Seq<Ev> { %s_upto_%s(s) + %s_p_%s(s) }" % (prefix, name, ty, prefix, prev, prefix, name))
        d = {"p": prefix, "n": name, "t": ty, "shape": shape, "prev": prev}
        pre_req = "pre == t0" if prev is None else "pre == t0 + %(p)s_upto_%(prev)s(s)" % d
        body = ("reveal(%(p)s_p_%(n)s); reveal(%(p)s_upto_%(n)s); assert(tr =~= pre + %(p)s_p_%(n)s(s));" % d) + \
               ("" if prev is None else " assert((t0 + %(p)s_upto_%(prev)s(s)) + %(p)s_p_%(n)s(s) =~= t0 + (%(p)s_upto_%(prev)s(s) + %(p)s_p_%(n)s(s)));" % d)
        out.append("""pub proof fn lemma_%(p)s_stage_%(n)s(t0: Seq<Ev>, pre: Seq<Ev>, tr: Seq<Ev>, s: %(t)s)
    requires %(req)s, tr == %(shape)s,
    ensures tr == t0 + %(p)s_upto_%(n)s(s),
{ %(body)s }""" % dict(d, req=pre_req, body=body))
        prev = name
    out.append("// the whole statement: all parts, in grammar order\npub open spec fn %s_events(s: %s) -> Seq<Ev> { %s_upto_%s(s) }" % (prefix, ty, prefix, prev))
    return "\n".join(out) + "\n"


def stage(prefix, var, name, prev, extra="", nxt=None):
    """proof hint placed after the code that renders part `name`: one call of the part's stage lemma; then the snapshot for the next part"""
    txt = "proof { %s lemma_%s_stage_%s(t0, s_%s, sql.tr(), *%s); %s }" % (extra, prefix, name, name, var, ("s_%s = sql.tr();" % nxt) if nxt else "")
    return txt


def snapshots(parts):
    """all stage snapshots are declared up front (so that a re-ordered body fails a stage lemma's precondition - a named
    obligation - instead of leaving the annotations' scope)"""
    return "let ghost t0 = sql.tr(); " + " ".join("let ghost mut s_%s = sql.tr();" % p[0] for p in parts)


def build(u):
    u.emit("use vstd::prelude::*;\nverus! {\n")
    for n in OPAQUE:
        u.emit("#[verifier::external_body]\npub struct %s { _opaque: u8 }\n" % n, kind="spec", key="R-opaque:" + n, props=P)
    u.emit("#[verifier::external_body]\n#[derive(Clone, Copy)]\npub struct UnionType { _opaque: u8 }\n", kind="spec", key="R-opaque:UnionType", props=P)
    u.type_item("src/query/select.rs", "struct", "SelectStatement", props=P,
                keep_fields=["with", "distinct", "selects", "from", "join", "where", "groups", "having", "unions", "orders", "limit", "offset", "lock", "window"])
    u.prelude_file("units/render/spec.rs", props=P)
    u.spec("".join(list_fns(*l) for l in LISTS), "render::list-fns", props=P)
    u.spec(parts_spec("select", "SelectStatement", SELECT_PARTS), "render::select_events", props=P)
    u.type_item("src/query/delete.rs", "struct", "DeleteStatement", props=P, keep_fields=["table", "where", "returning", "with"])
    u.type_item("src/query/update.rs", "struct", "UpdateStatement", props=P, keep_fields=["table", "values", "where", "returning", "with", "from"])
    u.spec(parts_spec("delete", "DeleteStatement", DELETE_PARTS), "render::delete_events", props=P)
    u.spec(parts_spec("update", "UpdateStatement", UPDATE_PARTS), "render::update_events", props=P)
    u.emit("pub struct Dflt;\nimpl Dflt {\n")
    u.spec(abstract("prepare_with_clause", "x: &WithClause", "Ev::With(*x)") + abstract("prepare_select_distinct", "x: &SelectDistinct", "Ev::Distinct(*x)")
           + abstract("prepare_select_expr", "x: &SelectExpr", "Ev::SelExpr(*x)") + abstract("prepare_table_ref", "x: &TableRef", "Ev::TRef(*x)")
           + abstract("prepare_index_hints", "x: &SelectStatement", "Ev::IndexHints") + abstract("prepare_table_sample", "x: &SelectStatement", "Ev::TableSample")
           + abstract("prepare_join_expr", "x: &JoinExpr", "Ev::Join(*x)") + abstract("prepare_condition", "x: &ConditionHolder, kw: &str", "Ev::Cond(kw@, *x)")
           + abstract("prepare_simple_expr", "x: &SimpleExpr", "Ev::Expr(*x)") + abstract("prepare_union_statement", "t: UnionType, q: &SelectStatement", "Ev::Union(t, *q)")
           + abstract("prepare_order_expr", "x: &OrderExpr", "Ev::Order(*x)") + abstract("prepare_select_limit_offset", "x: &SelectStatement", "Ev::LimitOffset")
           + abstract("prepare_select_lock", "x: &LockClause", "Ev::Lock(*x)") + abstract("prepare_iden", "x: &DynIden", "Ev::Iden(*x)")
           + abstract("prepare_window_statement", "x: &WindowStatement", "Ev::Window(*x)"), "render::abstract-sub-renderers", props=P)
    MK = {"selects": "l_selexprs", "from": "l_trefs", "groups": "l_exprs", "orders": "l_orders"}

    def sep_end(it, coll, mk):
        return "proof { lemma_%s_step(%s@, %s.index@ as int); }" % (mk, coll, it)

    def full(coll):
        return "assert(%s@.subrange(0, %s@.len() as int) =~= %s@);" % (coll, coll, coll)

    def start(t, coll, mk):
        return "let ghost %s = sql.tr();\nproof { lemma_%s_empty(%s@); assert(%s + Seq::<Ev>::empty() =~= %s); }" % (t, mk, coll, t, t)
    u.fn(QB, "trait QueryBuilder", "prepare_select_statement", props=P, key="QueryBuilder::prepare_select_statement", vpath="Dflt::prepare_select_statement", prefix="#[verifier::rlimit(80)]\n    ",
         rules=[r_dynw, r_fold, r_fmt,
                make_r_sub("R-opaque", r"name\.prepare\(sql, self\.quote\(\)\)", "self.prepare_iden(name, sql)"),
                make_r_sub("R-forghost", r"for expr in select\.join\.iter\(\)", "for expr in itj: select.join.iter()")],
         spec="ensures\n    // every clause that was given, exactly once, in the order the grammar requires, list items in call order\n    final(sql).tr() == old(sql).tr() + select_events(*select),",
         loops=[fold_inv("it1", "select.selects", MK["selects"], "t1"),
                fold_inv("it2", "select.from", MK["from"], "t2"),
                "invariant itj.index@ <= select.join@.len(), sql.tr() == tj + l_joins(select.join@.subrange(0, itj.index@ as int)),",
                fold_inv("it3", "select.groups", MK["groups"], "t3"),
                "invariant it4.index@ <= select.unions@.len(), sql.tr() == tu + l_unions(select.unions@.subrange(0, it4.index@ as int)),",
                fold_inv("it5", "select.orders", MK["orders"], "t5")],
         proofs={"body-start": snapshots(SELECT_PARTS),
                 'before#1:vfmt_lit(sql, "SELECT ")': stage("select", "select", "with", None, nxt="kw"),
                 "before#1:if let Some(distinct)": stage("select", "select", "kw", "with", nxt="distinct"),
                 "before#1:let mut first = true;": stage("select", "select", "distinct", "kw", nxt="list") + "\n" + start("t1", "select.selects", "l_selexprs"),
                 "loop1-end": sep_end("it1", "select.selects", MK["selects"]),
                 "before#1:if !select.from.is_empty()": "proof { " + full("select.selects") + " }\n" + stage("select", "select", "list", "distinct", nxt="from"),
                 "before#2:let mut first = true;": start("t2", "select.from", "l_trefs"),
                 "loop2-end": sep_end("it2", "select.from", MK["from"]),
                 "before#1:self.prepare_index_hints": "proof { " + full("select.from") + " }",
                 "before#1:if !select.join.is_empty()": stage("select", "select", "from", "list", nxt="join") + "\n" + start("tj", "select.join", "l_joins"),
                 "loop3-end": "proof { lemma_l_joins_step(select.join@, itj.index@ as int); }",
                 'before#1:self.prepare_condition(&select.r#where': "proof { " + full("select.join") + " }\n" + stage("select", "select", "join", "from", nxt="where"),
                 "before#1:if !select.groups.is_empty()": stage("select", "select", "where", "join", nxt="group"),
                 "before#3:let mut first = true;": start("t3", "select.groups", "l_exprs"),
                 "loop4-end": sep_end("it3", "select.groups", MK["groups"]),
                 'before#1:self.prepare_condition(&select.having': "proof { " + full("select.groups") + " }\n" + stage("select", "select", "group", "where", nxt="having"),
                 "before#1:if let Some((name, query)) = &select.window": stage("select", "select", "having", "group", nxt="window"),
                 "before#1:if !select.unions.is_empty()": stage("select", "select", "window", "having", nxt="union") + "\n" + start("tu", "select.unions", "l_unions"),
                 "loop5-end": "proof { lemma_l_unions_step(select.unions@, it4.index@ as int); }",
                 "before#1:if !select.orders.is_empty()": "proof { " + full("select.unions") + " }\n" + stage("select", "select", "union", "window", nxt="order"),
                 "before#4:let mut first = true;": start("t5", "select.orders", "l_orders"),
                 "loop6-end": sep_end("it5", "select.orders", MK["orders"]),
                 "before#1:self.prepare_select_limit_offset": "proof { " + full("select.orders") + " }\n" + stage("select", "select", "order", "union", nxt="limit"),
                 "before#1:if let Some(lock) = &select.lock": stage("select", "select", "limit", "order", nxt="lock"),
                 "body-end": stage("select", "select", "lock", "limit", nxt=None),
                 })
    # ---- DELETE ------------------------------------------------------------------------------------------------------------
    u.spec(abstract("prepare_output", "x: &Option<ReturningClause>", "Ev::Output(*x)") + abstract("prepare_returning", "x: &Option<ReturningClause>", "Ev::Returning(*x)")
           + abstract("prepare_delete_order_by", "x: &DeleteStatement", "Ev::DelOrderBy") + abstract("prepare_delete_limit", "x: &DeleteStatement", "Ev::DelLimit")
           + abstract("prepare_update_join", "f: &Vec<TableRef>, c: &ConditionHolder", "Ev::UpdJoin") + abstract("prepare_update_from", "f: &Vec<TableRef>", "Ev::UpdFrom")
           + abstract("prepare_update_column", "t: &Option<Box<TableRef>>, f: &Vec<TableRef>, c: &DynIden", "Ev::UpdColumn(*c)")
           + abstract("prepare_update_condition", "f: &Vec<TableRef>, c: &ConditionHolder", "Ev::UpdCond") + abstract("prepare_update_order_by", "x: &UpdateStatement", "Ev::UpdOrderBy")
           + abstract("prepare_update_limit", "x: &UpdateStatement", "Ev::UpdLimit"), "render::abstract-hooks", props=P)

    def anchors(prefix, var, parts, marks):
        """proof hints: marks[i] = anchor text located right AFTER part i's code (i.e. before the next part's code); the last part uses body-end"""
        pr = {"body-start": snapshots(parts)}
        for i, (name, _, _) in enumerate(parts):
            prev = parts[i - 1][0] if i > 0 else None
            nxt = parts[i + 1][0] if i + 1 < len(parts) else None
            a = marks[i] if i < len(marks) else "body-end"
            pr[a] = pr.get(a, "") + ("\n" if a in pr else "") + stage(prefix, var, name, prev, nxt=nxt)
        return pr
    u.fn(QB, "trait QueryBuilder", "prepare_delete_statement", props=P, key="QueryBuilder::prepare_delete_statement", vpath="Dflt::prepare_delete_statement",
         rules=[r_dynw, r_fmt],
         spec="ensures final(sql).tr() == old(sql).tr() + delete_events(*delete),",
         proofs=anchors("delete", "delete", DELETE_PARTS, ['before#1:vfmt_lit(sql, "DELETE ")', "before#1:if let Some(table) = &delete.table", "before#1:self.prepare_output", "before#1:self.prepare_condition",
                                                           "before#1:self.prepare_delete_order_by", "before#1:self.prepare_delete_limit", "before#1:self.prepare_returning"]))
    # ---- UPDATE ------------------------------------------------------------------------------------------------------------
    upd = anchors("update", "update", UPDATE_PARTS, ['before#1:vfmt_lit(sql, "UPDATE ")', "before#1:if let Some(table) = &update.table", "before#1:self.prepare_update_join", 'before#1:vfmt_lit(sql, " SET ")',
                                                      "before#1:let mut first = true;", "before#1:self.prepare_update_from", "before#1:self.prepare_output", "before#1:self.prepare_update_condition",
                                                      "before#1:self.prepare_update_order_by", "before#1:self.prepare_update_limit", "before#1:self.prepare_returning"])
    upd["before#1:let mut first = true;"] += "\n" + "let ghost tv = sql.tr();\nproof { lemma_l_updvalues_empty(update.values@); assert(tv + Seq::<Ev>::empty() =~= tv); }"
    upd["loop1-end"] = "proof { lemma_l_updvalues_step(update.values@, it1.index@ as int); }"
    upd["before#1:self.prepare_update_from"] = "proof { lemma_l_updvalues_empty(update.values@); }\n" + upd["before#1:self.prepare_update_from"]
    u.fn(QB, "trait QueryBuilder", "prepare_update_statement", props=P, key="QueryBuilder::prepare_update_statement", vpath="Dflt::prepare_update_statement",
         rules=[r_dynw, r_fold, r_fmt],
         spec="ensures final(sql).tr() == old(sql).tr() + update_events(*update),",
         loops=["""invariant
    it1.index@ <= update.values@.len(), first == (it1.index@ == 0),
    sql.tr() == tv + l_updvalues(update.values@.subrange(0, it1.index@ as int)),"""],
         proofs=upd)
    # ---- default hooks -------------------------------------------------------------------------------------------------------
    u.type_item("src/query/update.rs", "struct", "UpdateStatement", props=P, keep_fields=["orders"], key="UpdateStatement(orders)",
                rules=[make_r_sub("R-fields", r"struct UpdateStatement", "struct UpdateStatementO")]) if False else None
    u.fn(QB, "trait QueryBuilder", "prepare_update_from", rename="prepare_update_from_dflt", props=P, key="QueryBuilder::prepare_update_from[default]", vpath="Dflt::prepare_update_from_dflt",
         rules=[r_dynw, r_fold, r_fmt, make_r_sub("R-slice", r"from: &\[TableRef\]", "from: &Vec<TableRef>")],
         spec="ensures\n    // UPDATE .. FROM t1, t2 (Postgres / SQLite): every table given, in call order; nothing when none was given\n    final(sql).tr() == old(sql).tr() + (if from@.len() == 0 { Seq::<Ev>::empty() } else { seq![lit(\" FROM \")] + l_trefs(from@) }),",
         loops=["invariant it1.index@ <= from@.len(), first == (it1.index@ == 0), sql.tr() == tf + l_trefs(from@.subrange(0, it1.index@ as int)),"],
         proofs={"body-start": "let ghost t0 = sql.tr();\nproof { assert(t0 + Seq::<Ev>::empty() =~= t0); }",
                 "before#1:let mut first = true;": "let ghost tf = sql.tr();\nproof { lemma_l_trefs_empty(from@); assert(tf + Seq::<Ev>::empty() =~= tf); }",
                 "loop1-end": "proof { lemma_l_trefs_step(from@, it1.index@ as int); }",
                 "body-end": "proof { lemma_l_trefs_empty(from@); assert(sql.tr() =~= t0 + (seq![lit(\" FROM \")] + l_trefs(from@))); }"})
    u.fn(QB, "trait QueryBuilder", "prepare_update_condition", rename="prepare_update_condition_dflt", props=P, key="QueryBuilder::prepare_update_condition[default]", vpath="Dflt::prepare_update_condition_dflt",
         rules=[r_dynw, make_r_sub("R-slice", r"_: &\[TableRef\]", "_from: &Vec<TableRef>"), make_r_sub("R-str", r'self\.prepare_condition\(condition, "WHERE", sql\)', 'self.prepare_condition(condition, "WHERE", sql)')],
         spec="ensures final(sql).tr() == old(sql).tr().push(Ev::Cond(\"WHERE\"@, *condition)),")
    u.emit("}\n")
    # ---- MySQL overrides: UPDATE t JOIN .. ON .. SET ..  (no FROM, the condition moves into ON) -------------------------------------
    u.emit("pub struct MysqlQueryBuilder;\nimpl MysqlQueryBuilder {\n")
    u.spec(abstract("prepare_table_ref", "x: &TableRef", "Ev::TRef(*x)") + abstract("prepare_condition", "x: &ConditionHolder, kw: &str", "Ev::Cond(kw@, *x)"), "render::abstract-sub-renderers(mysql)", props=P)
    MY = "src/backend/mysql/query.rs"
    u.fn(MY, "impl QueryBuilder for MysqlQueryBuilder", "prepare_update_join", props=P, key="MysqlQueryBuilder::prepare_update_join", vpath="MysqlQueryBuilder::prepare_update_join",
         rules=[r_dynw, r_fmt, make_r_sub("R-slice", r"from: &\[TableRef\]", "from: &Vec<TableRef>")],
         spec=[("""ensures
    // MySQL form: nothing without extra tables, otherwise ` JOIN <table> ON <the statement's condition>` (the condition moves here)
    from@.len() == 0 ==> final(sql).tr() == old(sql).tr(),
    from@.len() > 0 ==> final(sql).tr().len() >= old(sql).tr().len() + 3 && final(sql).tr().subrange(0, old(sql).tr().len() as int) == old(sql).tr()
        && final(sql).tr()[old(sql).tr().len() as int] == lit(" JOIN ") && final(sql).tr().last() == Ev::Cond("ON"@, *condition),""", P),
               ("    // C08: EVERY table that was given is rendered\n    forall|i: int| 0 <= i < from@.len() ==> final(sql).tr().contains(Ev::TRef(#[trigger] from@[i])),", P)],
         proofs={"body-start": "let ghost t0 = sql.tr();", "body-end": "proof { assert(sql.tr().subrange(0, t0.len() as int) =~= t0); assert(sql.tr()[t0.len() as int + 1] == Ev::TRef(from@[0])); }"})
    u.fn(MY, "impl QueryBuilder for MysqlQueryBuilder", "prepare_update_from", props=P, key="MysqlQueryBuilder::prepare_update_from", vpath="MysqlQueryBuilder::prepare_update_from",
         rules=[r_dynw, make_r_sub("R-slice", r"_: &\[TableRef\], _: &mut W", "_from: &Vec<TableRef>, sql: &mut W")],
         spec="ensures\n    // UPDATE .. FROM is not MySQL syntax: it must not appear\n    final(sql).tr() == old(sql).tr(),")
    u.fn(MY, "impl QueryBuilder for MysqlQueryBuilder", "prepare_update_condition", props=P, key="MysqlQueryBuilder::prepare_update_condition", vpath="MysqlQueryBuilder::prepare_update_condition",
         rules=[r_dynw, make_r_sub("R-slice", r"from: &\[TableRef\]", "from: &Vec<TableRef>")],
         spec="ensures\n    // the condition is rendered exactly once: in JOIN .. ON when there are extra tables, as WHERE otherwise\n    final(sql).tr() == (if from@.len() > 0 { old(sql).tr() } else { old(sql).tr().push(Ev::Cond(\"WHERE\"@, *condition)) }),")
    u.emit("}\n")
    u.emit("} // verus!\nfn main() {}\n")
