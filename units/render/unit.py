"""unit `render`  ->  C08 (clause granularity): every clause given appears once, in grammar order, items in call order.

Under contract: QueryBuilder::prepare_select_statement (more to follow).  Sub-renderers are abstract event producers.
"""
import re
from vlib import rustlex as rl
from vlib.gen import make_r_fmt, make_r_sub, make_r_dyn, r_fold, r_dynw, r_unit_tail

QB = "src/backend/query_builder.rs"
# every statement / clause renderer carries C08 (clause order) AND C01 (no value given to a rendered clause is lost, duplicated or moved: each clause event once, in order);
# items that only pin a TEXT FORM (the WINDOW parentheses, ON DUPLICATE KEY UPDATE) carry C08 alone
P = ["C08", "C01"]
PT = ["C08"]
OPAQUE = ["ValueTuple", "FunctionCall", "OnConflictTarget", "JoinType", "JoinOn", "ConditionHolder", "SimpleExpr", "DynIden",
          "Value"]
r_fmt = make_r_fmt(wmap=lambda w: w, merge=True)


def abstract(name, params, ev):
    return "    #[verifier::external_body]\n    fn %s<W: VWrite>(&self, %s, sql: &mut W) ensures final(sql).tr() == old(sql).tr().push(%s) { unimplemented!() }\n" % (name, params, ev)


def fold_inv(it, coll, mk, t):
    return """invariant
    %(it)s.index@ <= %(c)s@.len(), first == (%(it)s.index@ == 0),
    sql.tr() == %(t)s + %(mk)s(%(c)s@.subrange(0, %(it)s.index@ as int)),""" % {"it": it, "c": coll, "mk": mk, "t": t}


# ---- statements as ordered lists of clause parts (grammar order).  select_events = concatenation of the parts, in this order.
# (name, the clause as a sum of events [the SPECIFICATION], how the code builds it from the trace `pre` it starts with [shape])
SELECT_PARTS = [
    ("with", "(match s.with { Some(w) => seq![Ev::With(w)], None => Seq::<Ev>::empty() })",
     "(match s.with { Some(w) => pre.push(Ev::With(w)), None => pre })"),
    ("kw", 'seq![lit("SELECT ")]', 'pre.push(lit("SELECT "))'),
    ("distinct", '(match s.distinct { Some(d) => seq![Ev::Distinct(d), lit(" ")], None => Seq::<Ev>::empty() })',
     '(match s.distinct { Some(d) => pre.push(Ev::Distinct(d)).push(lit(" ")), None => pre })'),
    ("list", "l_selexprs(s.selects@)", "pre + l_selexprs(s.selects@)"),
    ("from", '(if s.from@.len() > 0 { seq![lit(" FROM ")] + l_trefs(s.from@) + seq![Ev::IndexHints, Ev::TableSample] } else { Seq::<Ev>::empty() })',
     '(if s.from@.len() > 0 { (pre.push(lit(" FROM ")) + l_trefs(s.from@)).push(Ev::IndexHints).push(Ev::TableSample) } else { pre })'),
    ("join", "l_joins(s.join@)", "pre + l_joins(s.join@)"),
    ("where", 'seq![Ev::Cond("WHERE"@, s.r#where)]', 'pre.push(Ev::Cond("WHERE"@, s.r#where))'),
    ("group", '(if s.groups@.len() > 0 { seq![lit(" GROUP BY ")] + l_exprs(s.groups@) } else { Seq::<Ev>::empty() })',
     '(if s.groups@.len() > 0 { pre.push(lit(" GROUP BY ")) + l_exprs(s.groups@) } else { pre })'),
    ("having", 'seq![Ev::Cond("HAVING"@, s.having)]', 'pre.push(Ev::Cond("HAVING"@, s.having))'),
    # the named WINDOW clause belongs to the query specification: after HAVING, before set operations / ORDER BY / LIMIT
    # grammar (MySQL, PostgreSQL, SQLite alike):  WINDOW window_name AS ( window_spec )
    ("window", '(match s.window { Some(w) => seq![lit(" WINDOW "), Ev::Iden(w.0), lit(" AS ("), Ev::Window(w.1), lit(")")], None => Seq::<Ev>::empty() })',
     '(match s.window { Some(w) => pre.push(lit(" WINDOW ")).push(Ev::Iden(w.0)).push(lit(" AS ")).push(Ev::Window(w.1)), None => pre })'),
    ("union", "l_unions(s.unions@)", "pre + l_unions(s.unions@)"),
    ("order", '(if s.orders@.len() > 0 { seq![lit(" ORDER BY ")] + l_orders(s.orders@) } else { Seq::<Ev>::empty() })',
     '(if s.orders@.len() > 0 { pre.push(lit(" ORDER BY ")) + l_orders(s.orders@) } else { pre })'),
    ("limit", "seq![Ev::LimitOffset]", "pre.push(Ev::LimitOffset)"),
    ("lock", '(match s.lock { Some(l) => seq![lit(" "), Ev::Lock(l)], None => Seq::<Ev>::empty() })',
     '(match s.lock { Some(l) => pre.push(lit(" ")).push(Ev::Lock(l)), None => pre })'),
]


DELETE_PARTS = [
    ("with", "(match s.with { Some(w) => seq![Ev::With(w)], None => Seq::<Ev>::empty() })", "(match s.with { Some(w) => pre.push(Ev::With(w)), None => pre })"),
    ("kw", 'seq![lit("DELETE ")]', 'pre.push(lit("DELETE "))'),
    ("table", '(match s.table { Some(t) => seq![lit("FROM "), Ev::TRef(*t)], None => Seq::<Ev>::empty() })', '(match s.table { Some(t) => pre.push(lit("FROM ")).push(Ev::TRef(*t)), None => pre })'),
    ("output", "seq![Ev::Output(s.returning)]", "pre.push(Ev::Output(s.returning))"),
    ("where", 'seq![Ev::Cond("WHERE"@, s.r#where)]', 'pre.push(Ev::Cond("WHERE"@, s.r#where))'),
    # RETURNING precedes ORDER BY / LIMIT: SQLite's delete-stmt-limited (MySQL writes no RETURNING, Postgres has no ORDER BY / LIMIT here)
    ("returning", "seq![Ev::Returning(s.returning)]", "pre.push(Ev::Returning(s.returning))"),
    ("order", "seq![Ev::DelOrderBy]", "pre.push(Ev::DelOrderBy)"),
    ("limit", "seq![Ev::DelLimit]", "pre.push(Ev::DelLimit)"),
]
# UPDATE: MySQL `UPDATE t [JOIN ..] SET ..  [WHERE] [ORDER BY] [LIMIT]`; Postgres / SQLite `UPDATE t SET .. [FROM ..] [WHERE] [RETURNING]`.
# The dialect-only pieces are hooks (UpdJoin: MySQL; UpdFrom / Returning: Postgres, SQLite); the default renderer fixes their order.
UPDATE_PARTS = [
    ("with", "(match s.with { Some(w) => seq![Ev::With(w)], None => Seq::<Ev>::empty() })", "(match s.with { Some(w) => pre.push(Ev::With(w)), None => pre })"),
    ("kw", 'seq![lit("UPDATE ")]', 'pre.push(lit("UPDATE "))'),
    ("table", "(match s.table { Some(t) => seq![Ev::TRef(*t)], None => Seq::<Ev>::empty() })", "(match s.table { Some(t) => pre.push(Ev::TRef(*t)), None => pre })"),
    ("join", "seq![Ev::UpdJoin]", "pre.push(Ev::UpdJoin)"),
    ("set", 'seq![lit(" SET ")]', 'pre.push(lit(" SET "))'),
    ("values", "l_updvalues(s.values@)", "pre + l_updvalues(s.values@)"),
    ("from", "seq![Ev::UpdFrom]", "pre.push(Ev::UpdFrom)"),
    ("output", "seq![Ev::Output(s.returning)]", "pre.push(Ev::Output(s.returning))"),
    ("where", "seq![Ev::UpdCond]", "pre.push(Ev::UpdCond)"),
    # RETURNING precedes ORDER BY / LIMIT: SQLite's update-stmt-limited
    ("returning", "seq![Ev::Returning(s.returning)]", "pre.push(Ev::Returning(s.returning))"),
    ("order", "seq![Ev::UpdOrderBy]", "pre.push(Ev::UpdOrderBy)"),
    ("limit", "seq![Ev::UpdLimit]", "pre.push(Ev::UpdLimit)"),
]


# INSERT (MySQL: INSERT [INTO] t [(cols)] {VALUES rows | SELECT ..} [ON DUPLICATE KEY UPDATE ..];  PostgreSQL: [WITH ..] INSERT INTO t
# [(cols)] {DEFAULT VALUES | VALUES rows | query} [ON CONFLICT ..] [RETURNING ..]): rows in call order, each row's cells in column order
INSERT_BODY = """(if s.default_values is Some && s.columns@.len() == 0 && s.source is None {
        seq![Ev::Output(s.returning), lit(" "), Ev::DefaultValues(s.default_values->Some_0)]
    } else {
        seq![lit(" (")] + l_idens(s.columns@) + seq![lit(")"), Ev::Output(s.returning)]
            + (match s.source { None => Seq::<Ev>::empty(), Some(InsertValueSource::Values(v)) => seq![lit(" "), lit("VALUES ")] + l_rows(v@), Some(InsertValueSource::Select(q)) => seq![lit(" "), Ev::Select(*q)] })
    })"""
INSERT_BODY_PUSHED = """(if s.default_values is Some && s.columns@.len() == 0 && s.source is None {
        pre.push(Ev::Output(s.returning)).push(lit(" ")).push(Ev::DefaultValues(s.default_values->Some_0))
    } else {
        match s.source {
            None => (pre.push(lit(" (")) + l_idens(s.columns@)).push(lit(")")).push(Ev::Output(s.returning)),
            Some(InsertValueSource::Values(v)) => (pre.push(lit(" (")) + l_idens(s.columns@)).push(lit(")")).push(Ev::Output(s.returning)).push(lit(" ")).push(lit("VALUES ")) + l_rows(v@),
            Some(InsertValueSource::Select(q)) => (pre.push(lit(" (")) + l_idens(s.columns@)).push(lit(")")).push(Ev::Output(s.returning)).push(lit(" ")).push(Ev::Select(*q)),
        }
    })"""
INSERT_PARTS = [
    ("with", "(match s.with { Some(w) => seq![Ev::With(w)], None => Seq::<Ev>::empty() })", "(match s.with { Some(w) => pre.push(Ev::With(w)), None => pre })"),
    ("kw", "seq![Ev::InsertKw(s.replace)]", "pre.push(Ev::InsertKw(s.replace))"),
    ("into", '(match s.table { Some(t) => seq![lit(" INTO "), Ev::TRef(*t)], None => Seq::<Ev>::empty() })', '(match s.table { Some(t) => pre.push(lit(" INTO ")).push(Ev::TRef(*t)), None => pre })'),
    # (shape in PUSH form, one push per write: the renderer's own query only follows its writes; that this equals `pre + body` is the stage
    # lemma's business, proved in isolation)
    ("body", INSERT_BODY, INSERT_BODY_PUSHED),
    ("conflict", "seq![Ev::OnConflict(s.on_conflict)]", "pre.push(Ev::OnConflict(s.on_conflict))"),
    ("returning", "seq![Ev::Returning(s.returning)]", "pre.push(Ev::Returning(s.returning))"),
]


def list_fns(name, ty, mk, kind):
    """first-order list renderers (no closures): kind `sep`: x1, x2, ..  |  `pre`: each item preceded by ` `  |  `each`: items only"""
    class M(str):
        def __mod__(self, x):
            return self.replace("%s", x)
    mk = M(mk)
    if kind == "sep":
        body = "if xs.len() == 0 { Seq::<Ev>::empty() } else if xs.len() == 1 { seq![%s] } else { %s(xs.drop_last()).push(lit(\", \")).push(%s) }" % (mk % "xs[0]", name, mk % "xs.last()")
        step = "(if i == 0 { seq![%s] } else { %s(xs.subrange(0, i)).push(lit(\", \")).push(%s) })" % (mk % "xs[0]", name, mk % "xs[i]")
    elif kind == "pre":
        body = "if xs.len() == 0 { Seq::<Ev>::empty() } else { %s(xs.drop_last()).push(lit(\" \")).push(%s) }" % (name, mk % "xs.last()")
        step = "%s(xs.subrange(0, i)).push(lit(\" \")).push(%s)" % (name, mk % "xs[i]")
    elif kind == "upd":
        item = "push(Ev::UpdColumn(%s.0)).push(lit(\" = \")).push(Ev::Expr(*%s.1))"
        body = "if xs.len() == 0 { Seq::<Ev>::empty() } else if xs.len() == 1 { Seq::<Ev>::empty().%s } else { %s(xs.drop_last()).push(lit(\", \")).%s }" % (item.replace("%s", "xs[0]"), name, item.replace("%s", "xs.last()"))
        step = "(if i == 0 { Seq::<Ev>::empty().%s } else { %s(xs.subrange(0, i)).push(lit(\", \")).%s })" % (item.replace("%s", "xs[0]"), name, item.replace("%s", "xs[i]"))
    elif kind == "multi":
        body = "if xs.len() == 0 { Seq::<Ev>::empty() } else if xs.len() == 1 { %s } else { %s(xs.drop_last()).push(lit(\", \")) + %s }" % (mk % "xs[0]", name, mk % "xs.last()")
        step = "(if i == 0 { %s } else { %s(xs.subrange(0, i)).push(lit(\", \")) + %s })" % (mk % "xs[0]", name, mk % "xs[i]")
    elif kind == "rows":
        row = "(seq![lit(\"(\")] + l_exprs(%s@) + seq![lit(\")\")])"
        body = "if xs.len() == 0 { Seq::<Ev>::empty() } else if xs.len() == 1 { %s } else { %s(xs.drop_last()).push(lit(\", \")) + %s }" % (row % "xs[0]", name, row % "xs.last()")
        step = "(if i == 0 { %s } else { %s(xs.subrange(0, i)).push(lit(\", \")) + %s })" % (row % "xs[0]", name, row % "xs[i]")
    else:
        body = "if xs.len() == 0 { Seq::<Ev>::empty() } else { %s(xs.drop_last()).push(%s) }" % (name, mk % "xs.last()")
        step = "%s(xs.subrange(0, i)).push(%s)" % (name, mk % "xs[i]")
    return """pub open spec fn %(n)s(xs: Seq<%(t)s>) -> Seq<Ev>
    decreases xs.len()
{ %(b)s }
pub proof fn lemma_%(n)s_step(xs: Seq<%(t)s>, i: int)
    requires 0 <= i < xs.len()
    ensures %(n)s(xs.subrange(0, i + 1)) == %(s)s
{
    assert(xs.subrange(0, i + 1).drop_last() =~= xs.subrange(0, i));
    assert(xs.subrange(0, i + 1).last() == xs[i]);
    if i == 0 { assert(xs.subrange(0, 1)[0] == xs[0]); }
}
pub proof fn lemma_%(n)s_empty(xs: Seq<%(t)s>)
    ensures %(n)s(xs.subrange(0, 0)) == Seq::<Ev>::empty(), xs.subrange(0, xs.len() as int) == xs
{
    assert(xs.subrange(0, 0) =~= Seq::<%(t)s>::empty());
    assert(xs.subrange(0, xs.len() as int) =~= xs);
}
""" % {"n": name, "t": ty, "b": body, "s": step}


LISTS = [("l_selexprs", "SelectExpr", "Ev::SelExpr(%s)", "sep"), ("l_trefs", "TableRef", "Ev::TRef(%s)", "sep"), ("l_exprs", "SimpleExpr", "Ev::Expr(%s)", "sep"),
         ("l_orders", "OrderExpr", "Ev::Order(%s)", "sep"), ("l_joins", "JoinExpr", "Ev::Join(%s)", "pre"), ("l_unions", "(UnionType, SelectStatement)", "Ev::Union(%s.0, %s.1)", "each"),
         ("l_updvalues", "(DynIden, Box<SimpleExpr>)", "", "upd"), ("l_idens", "DynIden", "Ev::Iden(%s)", "sep"), ("l_colrefs", "ColumnRef", "Ev::ColRef(%s)", "sep"),
         ("l_ctes2", "CommonTableExpression", "Ev::Cte(%s)", "sep"),
         ("l_updstrats", "OnConflictUpdate", "upd_item(%s)", "multi"), ("l_pkassign", "DynIden", "seq![Ev::Iden(%s), lit(\" = \"), Ev::Iden(%s)]", "multi"), ("l_rows", "Vec<SimpleExpr>", "", "rows")]


def parts_spec(u, prefix, ty, parts):
    """spec fns  <prefix>_p_<name>(s)  (opaque) and cumulative  <prefix>_upto_<name>(s); <prefix>_events = the last cumulative;
    and one stage lemma per part, proved in ISOLATION: if the trace before the part was t0 + upto_prev and the code built the
    part in its `shape`, the trace is t0 + upto_this.  The renderer's body only calls these lemmas (its own Z3 query stays small).
    Each stage lemma is its own item (`lemma_<prefix>_stage_<name>`): a clause rendered in another form than the grammar's fails
    exactly that lemma."""
    prev = None
    for name, expr, shape in parts:
        out = []
        out.append("#[verifier::opaque]\npub open spec fn %s_p_%s(s: %s) -> Seq<Ev> { %s }" % (prefix, name, ty, expr))
        if prev is None:
            out.append("#[verifier::opaque]\npub open spec fn %s_upto_%s(s: %s) -> Seq<Ev> { %s_p_%s(s) }" % (prefix, name, ty, prefix, name))
        else:
            out.append("#[verifier::opaque]\npub open spec fn %s_upto_%s(s: %s) -> Seq<Ev> { %s_upto_%s(s) + %s_p_%s(s) }" % (prefix, name, ty, prefix, prev, prefix, name))
        u.spec("\n".join(out) + "\n", "render::%s_events" % prefix, props=P)
        d = {"p": prefix, "n": name, "t": ty, "shape": shape, "prev": prev}
        pre_req = "pre == t0" if prev is None else "pre == t0 + %(p)s_upto_%(prev)s(s)" % d
        body = ("reveal(%(p)s_p_%(n)s); reveal(%(p)s_upto_%(n)s); assert(tr =~= pre + %(p)s_p_%(n)s(s));" % d) + \
               ("" if prev is None else " assert((t0 + %(p)s_upto_%(prev)s(s)) + %(p)s_p_%(n)s(s) =~= t0 + (%(p)s_upto_%(prev)s(s) + %(p)s_p_%(n)s(s)));" % d)
        u.spec("""pub proof fn lemma_%(p)s_stage_%(n)s(t0: Seq<Ev>, pre: Seq<Ev>, tr: Seq<Ev>, s: %(t)s)
    requires %(req)s, tr == %(shape)s,
    ensures tr == t0 + %(p)s_upto_%(n)s(s),
{ %(body)s }
""" % dict(d, req=pre_req, body=body), "lemma_%s_stage_%s" % (prefix, name), props=(PT if name == "window" else P))
        prev = name
    u.spec("// the whole statement: all parts, in grammar order\npub open spec fn %s_events(s: %s) -> Seq<Ev> { %s_upto_%s(s) }\n" % (prefix, ty, prefix, prev), "render::%s_events" % prefix, props=P)


def stage(prefix, var, name, prev, extra="", nxt=None):
    """proof hint placed after the code that renders part `name`: one call of the part's stage lemma; then the snapshot for the next part"""
    txt = "proof { %s lemma_%s_stage_%s(t0, s_%s, sql.tr(), *%s); %s }" % (extra, prefix, name, name, var, ("s_%s = sql.tr();" % nxt) if nxt else "")
    return txt


def snapshots(parts):
    """all stage snapshots are declared up front (so that a re-ordered body fails a stage lemma's precondition - a named
    obligation - instead of leaving the annotations' scope)"""
    return "let ghost t0 = sql.tr(); " + " ".join("let ghost mut s_%s = sql.tr();" % p[0] for p in parts)


def build(u, variant=None):
    # two halves so that they verify in parallel: `statements` (SELECT / INSERT / UPDATE / DELETE renderers and their hooks) and
    # `clauses` (the clause renderers those call); both start from the same types and specification
    u.emit("use vstd::prelude::*;\nverus! {\n")
    for n in OPAQUE:
        u.emit("#[verifier::external_body]\npub struct %s { _opaque: u8 }\n" % n, kind="spec", key="R-opaque:" + n, props=P)
    u.type_item("src/query/select.rs", "enum", "UnionType", props=P, keep_derive=("Clone", "Copy"))
    u.type_item("src/types.rs", "enum", "ColumnRef", props=P)
    u.type_item("src/types.rs", "enum", "TableRef", props=P)
    u.type_item("src/query/select.rs", "enum", "LockType", props=P, keep_derive=("Clone", "Copy"))
    u.type_item("src/query/select.rs", "enum", "LockBehavior", props=P, keep_derive=("Clone", "Copy"))
    u.type_item("src/query/select.rs", "struct", "LockClause", props=P, rules=[make_r_sub("R-vis", r"pub\(crate\) ", "pub ", min_count=0)])
    u.type_item("src/query/select.rs", "struct", "JoinExpr", props=P)
    u.type_item("src/query/select.rs", "enum", "WindowSelectType", props=P)
    # window specifications: real types
    u.type_item("src/query/window.rs", "enum", "Frame", props=P)
    u.type_item("src/query/window.rs", "enum", "FrameType", props=P)
    u.type_item("src/query/window.rs", "struct", "FrameClause", props=P, rules=[make_r_sub("R-vis", r"pub\(crate\) ", "pub ", min_count=0)])
    u.type_item("src/query/window.rs", "struct", "WindowStatement", props=P, rules=[make_r_sub("R-vis", r"pub\(crate\) ", "pub ", min_count=0)])
    # upsert / RETURNING: real types (their renderers are under contract)
    u.type_item("src/query/on_conflict.rs", "enum", "OnConflictUpdate", props=P)
    u.type_item("src/query/on_conflict.rs", "enum", "OnConflictAction", props=P)
    u.type_item("src/query/on_conflict.rs", "struct", "OnConflict", props=P, rules=[make_r_sub("R-vis", r"pub\(crate\) ", "pub ", min_count=0)])
    u.type_item("src/query/returning.rs", "enum", "ReturningClause", props=P)
    # WITH clause options (SEARCH / CYCLE) are decided on the clause's fields
    u.type_item("src/query/select.rs", "struct", "SelectExpr", props=P)
    u.type_item("src/query/with.rs", "enum", "SearchOrder", props=P)
    u.type_item("src/query/with.rs", "struct", "Search", props=P, rules=[make_r_sub("R-vis", r"pub\(crate\) ", "pub ", min_count=0)])
    u.type_item("src/query/with.rs", "struct", "Cycle", props=P, rules=[make_r_sub("R-vis", r"pub\(crate\) ", "pub ", min_count=0)])
    u.emit("#[verifier::external_body]\npub struct SubQueryStatement { _opaque: u8 }\n", kind="spec", key="R-opaque:SubQueryStatement", props=P)
    u.type_item("src/query/with.rs", "struct", "CommonTableExpression", props=P, rules=[make_r_sub("R-vis", r"pub\(crate\) ", "pub ", min_count=0)])
    u.type_item("src/query/with.rs", "struct", "WithClause", props=P, rules=[make_r_sub("R-vis", r"pub\(crate\) ", "pub ", min_count=0)])
    u.type_item("src/query/with.rs", "struct", "WithQuery", props=P, rules=[make_r_sub("R-vis", r"pub\(crate\) ", "pub ", min_count=0)])
    # ORDER BY items are real types here: the per-dialect NULLS form is decided on their fields
    u.type_item("src/value.rs", "struct", "Values", props=P)
    u.type_item("src/types.rs", "enum", "NullOrdering", props=P)
    u.type_item("src/types.rs", "enum", "Order", props=P)
    u.type_item("src/types.rs", "struct", "OrderExpr", props=P, rules=[make_r_sub("R-vis", r"pub\(crate\) ", "pub ", min_count=0)])
    # dialect-specific select constructs: real types
    u.type_item("src/extension/mysql/index.rs", "enum", "IndexHintType", props=P, keep_derive=("Clone", "Copy"))
    u.type_item("src/extension/mysql/index.rs", "enum", "IndexHintScope", props=P, keep_derive=("Clone", "Copy"))
    u.type_item("src/extension/mysql/index.rs", "struct", "IndexHint", props=P)
    u.type_item("src/extension/postgres/select.rs", "enum", "SampleMethod", props=P, keep_derive=("Clone", "Copy"))
    u.type_item("src/extension/postgres/select.rs", "struct", "TableSample", props=P, keep_derive=("Clone", "Copy"))
    u.type_item("src/query/select.rs", "enum", "SelectDistinct", props=P)
    u.type_item("src/query/select.rs", "struct", "SelectStatement", props=P,
                keep_fields=["with", "distinct", "selects", "from", "join", "where", "groups", "having", "unions", "orders", "limit", "offset", "lock", "window", "table_sample", "index_hints"],
                rules=[make_r_sub("R-path", r"crate::extension::postgres::TableSample", "TableSample"), make_r_sub("R-path", r"crate::extension::mysql::IndexHint", "IndexHint")])
    u.prelude_file("units/render/spec.rs", props=P)
    u.spec("".join(list_fns(*l) for l in LISTS), "render::list-fns", props=P)
    if variant != "clauses":
        parts_spec(u, "select", "SelectStatement", SELECT_PARTS)
    u.type_item("src/query/delete.rs", "struct", "DeleteStatement", props=P, keep_fields=["table", "where", "returning", "with"])
    u.type_item("src/query/update.rs", "struct", "UpdateStatement", props=P, keep_fields=["table", "values", "where", "returning", "with", "from"])
    if variant != "clauses":
        parts_spec(u, "delete", "DeleteStatement", DELETE_PARTS)
    if variant != "clauses":
        parts_spec(u, "update", "UpdateStatement", UPDATE_PARTS)
    u.type_item("src/query/insert.rs", "enum", "InsertValueSource", props=P, rules=[make_r_sub("R-vis", r"pub\(crate\) enum", "pub enum")])
    u.type_item("src/query/insert.rs", "struct", "InsertStatement", props=P, keep_fields=["replace", "table", "columns", "source", "on_conflict", "returning", "default_values", "with"])
    if variant != "clauses":
        parts_spec(u, "insert", "InsertStatement", INSERT_PARTS)
    if variant in (None, "statements"):
        u.emit("pub struct Dflt;\nimpl Dflt {\n")
        u.spec(abstract("prepare_with_clause", "x: &WithClause", "Ev::With(*x)") + abstract("prepare_select_distinct", "x: &SelectDistinct", "Ev::Distinct(*x)")
               + abstract("prepare_select_expr", "x: &SelectExpr", "Ev::SelExpr(*x)") + abstract("prepare_table_ref", "x: &TableRef", "Ev::TRef(*x)")
               + abstract("prepare_index_hints", "x: &SelectStatement", "Ev::IndexHints") + abstract("prepare_table_sample", "x: &SelectStatement", "Ev::TableSample")
               + abstract("prepare_join_expr", "x: &JoinExpr", "Ev::Join(*x)") + abstract("prepare_condition", "x: &ConditionHolder, kw: &str", "Ev::Cond(kw@, *x)")
               + abstract("prepare_simple_expr", "x: &SimpleExpr", "Ev::Expr(*x)") + abstract("prepare_union_statement", "t: UnionType, q: &SelectStatement", "Ev::Union(t, *q)")
               + abstract("prepare_order_expr", "x: &OrderExpr", "Ev::Order(*x)") + abstract("prepare_select_limit_offset", "x: &SelectStatement", "Ev::LimitOffset")
               + abstract("prepare_select_lock", "x: &LockClause", "Ev::Lock(*x)") + abstract("prepare_iden", "x: &DynIden", "Ev::Iden(*x)")
               + abstract("prepare_window_statement", "x: &WindowStatement", "Ev::Window(*x)"), "render::abstract-sub-renderers", props=P)
        MK = {"selects": "l_selexprs", "from": "l_trefs", "groups": "l_exprs", "orders": "l_orders"}

        def sep_end(it, coll, mk):
            return "proof { lemma_%s_step(%s@, %s.index@ as int); }" % (mk, coll, it)

        def full(coll):
            return "assert(%s@.subrange(0, %s@.len() as int) =~= %s@);" % (coll, coll, coll)

        def start(t, coll, mk):
            return "let ghost %s = sql.tr();\nproof { lemma_%s_empty(%s@); assert(%s + Seq::<Ev>::empty() =~= %s); }" % (t, mk, coll, t, t)
        u.fn(QB, "trait QueryBuilder", "prepare_select_statement", props=P, key="QueryBuilder::prepare_select_statement", vpath="Dflt::prepare_select_statement", prefix="#[verifier::rlimit(80)]\n    ",
             rules=[r_dynw, r_fold, r_fmt,
                    make_r_sub("R-opaque", r"name\.prepare\(sql, self\.quote\(\)\)", "self.prepare_iden(name, sql)"),
                    make_r_sub("R-forghost", r"for expr in select\.join\.iter\(\)", "for expr in itj: select.join.iter()")],
             spec="ensures\n    // every clause that was given, exactly once, in the order the grammar requires, list items in call order\n    final(sql).tr() == old(sql).tr() + select_events(*select),",
             loops=[fold_inv("it1", "select.selects", MK["selects"], "t1"),
                    fold_inv("it2", "select.from", MK["from"], "t2"),
                    "invariant itj.index@ <= select.join@.len(), sql.tr() == tj + l_joins(select.join@.subrange(0, itj.index@ as int)),",
                    fold_inv("it3", "select.groups", MK["groups"], "t3"),
                    "invariant it4.index@ <= select.unions@.len(), sql.tr() == tu + l_unions(select.unions@.subrange(0, it4.index@ as int)),",
                    fold_inv("it5", "select.orders", MK["orders"], "t5")],
             proofs={"body-start": snapshots(SELECT_PARTS),
                     'before#1:vfmt_lit(sql, "SELECT ")': stage("select", "select", "with", None, nxt="kw"),
                     "before#1:if let Some(distinct)": stage("select", "select", "kw", "with", nxt="distinct"),
                     "before#1:let mut first = true;": stage("select", "select", "distinct", "kw", nxt="list") + "\n" + start("t1", "select.selects", "l_selexprs"),
                     "loop1-end": sep_end("it1", "select.selects", MK["selects"]),
                     "before#1:if !select.from.is_empty()": "proof { " + full("select.selects") + " }\n" + stage("select", "select", "list", "distinct", nxt="from"),
                     "before#2:let mut first = true;": start("t2", "select.from", "l_trefs"),
                     "loop2-end": sep_end("it2", "select.from", MK["from"]),
                     "before#1:self.prepare_index_hints": "proof { " + full("select.from") + " }",
                     "before#1:if !select.join.is_empty()": stage("select", "select", "from", "list", nxt="join") + "\n" + start("tj", "select.join", "l_joins"),
                     "loop3-end": "proof { lemma_l_joins_step(select.join@, itj.index@ as int); }",
                     'before#1:self.prepare_condition(&select.r#where': "proof { " + full("select.join") + " }\n" + stage("select", "select", "join", "from", nxt="where"),
                     "before#1:if !select.groups.is_empty()": stage("select", "select", "where", "join", nxt="group"),
                     "before#3:let mut first = true;": start("t3", "select.groups", "l_exprs"),
                     "loop4-end": sep_end("it3", "select.groups", MK["groups"]),
                     'before#1:self.prepare_condition(&select.having': "proof { " + full("select.groups") + " }\n" + stage("select", "select", "group", "where", nxt="having"),
                     "before#1:if let Some((name, query)) = &select.window": stage("select", "select", "having", "group", nxt="window"),
                     "before#1:if !select.unions.is_empty()": stage("select", "select", "window", "having", nxt="union") + "\n" + start("tu", "select.unions", "l_unions"),
                     "loop5-end": "proof { lemma_l_unions_step(select.unions@, it4.index@ as int); }",
                     "before#1:if !select.orders.is_empty()": "proof { " + full("select.unions") + " }\n" + stage("select", "select", "union", "window", nxt="order"),
                     "before#4:let mut first = true;": start("t5", "select.orders", "l_orders"),
                     "loop6-end": sep_end("it5", "select.orders", MK["orders"]),
                     "before#1:self.prepare_select_limit_offset": "proof { " + full("select.orders") + " }\n" + stage("select", "select", "order", "union", nxt="limit"),
                     "before#1:if let Some(lock) = &select.lock": stage("select", "select", "limit", "order", nxt="lock"),
                     "body-end": stage("select", "select", "lock", "limit", nxt=None),
                     })
        # ---- DELETE ------------------------------------------------------------------------------------------------------------
        u.spec(abstract("prepare_output", "x: &Option<ReturningClause>", "Ev::Output(*x)") + abstract("prepare_returning", "x: &Option<ReturningClause>", "Ev::Returning(*x)")
               + abstract("prepare_delete_order_by", "x: &DeleteStatement", "Ev::DelOrderBy") + abstract("prepare_delete_limit", "x: &DeleteStatement", "Ev::DelLimit")
               + abstract("prepare_update_join", "f: &Vec<TableRef>, c: &ConditionHolder", "Ev::UpdJoin") + abstract("prepare_update_from", "f: &Vec<TableRef>", "Ev::UpdFrom")
               + abstract("prepare_update_column", "t: &Option<Box<TableRef>>, f: &Vec<TableRef>, c: &DynIden", "Ev::UpdColumn(*c)")
               + abstract("prepare_update_condition", "f: &Vec<TableRef>, c: &ConditionHolder", "Ev::UpdCond") + abstract("prepare_update_order_by", "x: &UpdateStatement", "Ev::UpdOrderBy")
               + abstract("prepare_update_limit", "x: &UpdateStatement", "Ev::UpdLimit"), "render::abstract-hooks", props=P)

        def anchors(prefix, var, parts, marks):
            """proof hints: marks[i] = anchor text located right AFTER part i's code (i.e. before the next part's code); the last part uses body-end"""
            pr = {"body-start": snapshots(parts)}
            for i, (name, _, _) in enumerate(parts):
                prev = parts[i - 1][0] if i > 0 else None
                nxt = parts[i + 1][0] if i + 1 < len(parts) else None
                a = marks[i] if i < len(marks) else "body-end"
                pr[a] = pr.get(a, "") + ("\n" if a in pr else "") + stage(prefix, var, name, prev, nxt=nxt)
            return pr
        u.fn(QB, "trait QueryBuilder", "prepare_delete_statement", props=P, key="QueryBuilder::prepare_delete_statement", vpath="Dflt::prepare_delete_statement",
             rules=[r_dynw, r_fmt],
             spec="ensures final(sql).tr() == old(sql).tr() + delete_events(*delete),",
             proofs=anchors("delete", "delete", DELETE_PARTS, ['before#1:vfmt_lit(sql, "DELETE ")', "before#1:if let Some(table) = &delete.table", "before#1:self.prepare_output", "before#1:self.prepare_condition",
                                                               "before#1:self.prepare_returning", "before#1:self.prepare_delete_order_by", "before#1:self.prepare_delete_limit"]))
        # ---- UPDATE ------------------------------------------------------------------------------------------------------------
        upd = anchors("update", "update", UPDATE_PARTS, ['before#1:vfmt_lit(sql, "UPDATE ")', "before#1:if let Some(table) = &update.table", "before#1:self.prepare_update_join", 'before#1:vfmt_lit(sql, " SET ")',
                                                          "before#1:let mut first = true;", "before#1:self.prepare_update_from", "before#1:self.prepare_output", "before#1:self.prepare_update_condition",
                                                          "before#1:self.prepare_returning", "before#1:self.prepare_update_order_by", "before#1:self.prepare_update_limit"])
        upd["before#1:let mut first = true;"] += "\n" + "let ghost tv = sql.tr();\nproof { lemma_l_updvalues_empty(update.values@); assert(tv + Seq::<Ev>::empty() =~= tv); }"
        upd["loop1-end"] = "proof { lemma_l_updvalues_step(update.values@, it1.index@ as int); }"
        upd["before#1:self.prepare_update_from"] = "proof { lemma_l_updvalues_empty(update.values@); }\n" + upd["before#1:self.prepare_update_from"]
        u.fn(QB, "trait QueryBuilder", "prepare_update_statement", props=P, key="QueryBuilder::prepare_update_statement", vpath="Dflt::prepare_update_statement",
             rules=[r_dynw, r_fold, r_fmt],
             spec="ensures final(sql).tr() == old(sql).tr() + update_events(*update),",
             loops=["""invariant
        it1.index@ <= update.values@.len(), first == (it1.index@ == 0),
        sql.tr() == tv + l_updvalues(update.values@.subrange(0, it1.index@ as int)),"""],
             proofs=upd)
        # ---- INSERT ------------------------------------------------------------------------------------------------------------
        u.spec(abstract("prepare_insert", "replace: bool", "Ev::InsertKw(replace)") + abstract("insert_default_values", "n: u32", "Ev::DefaultValues(n)")
               + abstract("prepare_on_conflict", "x: &Option<OnConflict>", "Ev::OnConflict(*x)") + abstract("prepare_select_statement_sub", "x: &SelectStatement", "Ev::Select(*x)")
               + "    fn vbox_ref<T>(b: &Box<T>) -> (r: &T) ensures *r == **b { &**b }\n", "render::abstract-hooks(insert)", props=P)
        ins = anchors("insert", "insert", INSERT_PARTS, ["before#1:self.prepare_insert(", "before#1:if let Some(table) = &insert.table", "before#1:if insert.default_values.is_some()",
                                                          "before#1:self.prepare_on_conflict", "before#1:self.prepare_returning"])
        BODY_ELSE = "((tb.push(lit(\" (\")) + l_idens(insert.columns@)).push(lit(\")\")).push(Ev::Output(insert.returning)))"
        ins["before#1:if insert.default_values.is_some()"] += "\nlet ghost tb = sql.tr();"
        ins["before#1:let mut first = true;"] = "let ghost tc = sql.tr();\nproof { lemma_l_idens_empty(insert.columns@); assert(tc + Seq::<Ev>::empty() =~= tc); }"
        ins["loop1-end"] = "proof { lemma_l_idens_step(insert.columns@, it1.index@ as int); }"
        ins["before#2:self.prepare_output(&insert.returning, sql);"] = "proof { lemma_l_idens_empty(insert.columns@); }"
        ins["before#1:let mut first_o = true;"] = "let ghost tv = sql.tr();\nproof { lemma_l_rows_empty(values@); assert(tv + Seq::<Ev>::empty() =~= tv); }"
        ins["before#2:let mut first = true;"] = "let ghost trow = sql.tr();\nproof { lemma_l_exprs_empty(row@); assert(trow + Seq::<Ev>::empty() =~= trow); }"
        ins["loop3-end"] = "proof { lemma_l_exprs_step(row@, it3.index@ as int); }"
        ins["loop2-end"] = "proof { lemma_l_exprs_empty(row@); lemma_l_rows_step(values@, it2.index@ as int); assert(sql.tr() =~= tv + l_rows(values@.subrange(0, it2.index@ + 1))); }"
        ins["before#1:self.prepare_on_conflict"] = ("proof { assert(insert.columns@.subrange(0, insert.columns@.len() as int) =~= insert.columns@); if insert.source is Some && insert.source->Some_0 is Values { let v = insert.source->Some_0->Values_0; lemma_l_rows_empty(v@); assert(v@.subrange(0, v@.len() as int) =~= v@); }"
                                                  " assert(sql.tr() == " + INSERT_BODY_PUSHED.replace("s.", "insert.").replace("pre", "tb") + "); }\n" + ins["before#1:self.prepare_on_conflict"])
        u.fn(QB, "trait QueryBuilder", "prepare_insert_statement", props=P, key="QueryBuilder::prepare_insert_statement", vpath="Dflt::prepare_insert_statement", prefix="#[verifier::rlimit(60)]\n    ",
             rules=[r_dynw, r_fold, r_fmt, make_r_sub("R-opaque", r"\b([a-z_]+)\.prepare\(sql, self\.quote\(\)\)", r"self.prepare_iden(\1, sql)"),
                    make_r_sub("R-path", r"self\.prepare_select_statement\(select_query\.deref\(\), sql\)", "self.prepare_select_statement_sub(Self::vbox_ref(select_query), sql)")],
             spec="ensures\n    // every clause given, once, in grammar order; columns, rows and cells in call order\n    final(sql).tr() == old(sql).tr() + insert_events(*insert),",
             loops=["invariant it1.index@ <= insert.columns@.len(), first == (it1.index@ == 0), sql.tr() == tc + l_idens(insert.columns@.subrange(0, it1.index@ as int)),",
                    "invariant it2.index@ <= values@.len(), first_o == (it2.index@ == 0), sql.tr() == tv + l_rows(values@.subrange(0, it2.index@ as int)),",
                    """invariant it3.index@ <= row@.len(), first == (it3.index@ == 0), sql.tr() == trow + l_exprs(row@.subrange(0, it3.index@ as int)),
        0 <= it2.index@ < values@.len(), row == values@[it2.index@ as int],
        trow == (if it2.index@ == 0 { tv.push(lit("(")) } else { (tv + l_rows(values@.subrange(0, it2.index@ as int))).push(lit(", ")).push(lit("(")) }),"""],
             proofs=ins)
        # ---- default hooks -------------------------------------------------------------------------------------------------------
        u.type_item("src/query/update.rs", "struct", "UpdateStatement", props=P, keep_fields=["orders"], key="UpdateStatement(orders)",
                    rules=[make_r_sub("R-fields", r"struct UpdateStatement", "struct UpdateStatementO")]) if False else None
        u.fn(QB, "trait QueryBuilder", "prepare_update_from", rename="prepare_update_from_dflt", props=P, key="QueryBuilder::prepare_update_from[default]", vpath="Dflt::prepare_update_from_dflt",
             rules=[r_dynw, r_fold, r_fmt, make_r_sub("R-slice", r"from: &\[TableRef\]", "from: &Vec<TableRef>")],
             spec="ensures\n    // UPDATE .. FROM t1, t2 (Postgres / SQLite): every table given, in call order; nothing when none was given\n    final(sql).tr() == old(sql).tr() + (if from@.len() == 0 { Seq::<Ev>::empty() } else { seq![lit(\" FROM \")] + l_trefs(from@) }),",
             loops=["invariant it1.index@ <= from@.len(), first == (it1.index@ == 0), sql.tr() == tf + l_trefs(from@.subrange(0, it1.index@ as int)),"],
             proofs={"body-start": "let ghost t0 = sql.tr();\nproof { assert(t0 + Seq::<Ev>::empty() =~= t0); }",
                     "before#1:let mut first = true;": "let ghost tf = sql.tr();\nproof { lemma_l_trefs_empty(from@); assert(tf + Seq::<Ev>::empty() =~= tf); }",
                     "loop1-end": "proof { lemma_l_trefs_step(from@, it1.index@ as int); }",
                     "body-end": "proof { lemma_l_trefs_empty(from@); assert(sql.tr() =~= t0 + (seq![lit(\" FROM \")] + l_trefs(from@))); }"})
        u.fn(QB, "trait QueryBuilder", "prepare_update_condition", rename="prepare_update_condition_dflt", props=P, key="QueryBuilder::prepare_update_condition[default]", vpath="Dflt::prepare_update_condition_dflt",
             rules=[r_dynw, make_r_sub("R-slice", r"_: &\[TableRef\]", "_from: &Vec<TableRef>"), make_r_sub("R-str", r'self\.prepare_condition\(condition, "WHERE", sql\)', 'self.prepare_condition(condition, "WHERE", sql)')],
             spec="ensures final(sql).tr() == old(sql).tr().push(Ev::Cond(\"WHERE\"@, *condition)),")
        u.emit("}\n")
        # ---- MySQL overrides: UPDATE t JOIN .. ON .. SET ..  (no FROM, the condition moves into ON) -------------------------------------
        u.emit("pub struct MysqlQueryBuilder;\nimpl MysqlQueryBuilder {\n")
        u.spec(abstract("prepare_table_ref", "x: &TableRef", "Ev::TRef(*x)") + abstract("prepare_condition", "x: &ConditionHolder, kw: &str", "Ev::Cond(kw@, *x)"), "render::abstract-sub-renderers(mysql)", props=P)
        MY = "src/backend/mysql/query.rs"
        u.fn(MY, "impl QueryBuilder for MysqlQueryBuilder", "prepare_update_join", props=P + ["C06"], key="MysqlQueryBuilder::prepare_update_join", vpath="MysqlQueryBuilder::prepare_update_join",
             rules=[r_dynw, r_fmt, make_r_sub("R-slice", r"from: &\[TableRef\]", "from: &Vec<TableRef>")],
             spec=[("""ensures
        // MySQL form: nothing without extra tables, otherwise ` JOIN <table> ON <the statement's condition>` (the condition moves here)
        from@.len() == 0 ==> final(sql).tr() == old(sql).tr(),
        from@.len() > 0 ==> final(sql).tr().len() >= old(sql).tr().len() + 3 && final(sql).tr().subrange(0, old(sql).tr().len() as int) == old(sql).tr()
            && final(sql).tr()[old(sql).tr().len() as int] == lit(" JOIN ") && final(sql).tr().last() == Ev::Cond("ON"@, *condition),""", P + ["C06"]),
                   ("    // C08: EVERY table that was given is rendered\n    forall|i: int| 0 <= i < from@.len() ==> final(sql).tr().contains(Ev::TRef(#[trigger] from@[i])),", P)],
             proofs={"body-start": "let ghost t0 = sql.tr();", "body-end": "proof { assert(sql.tr().subrange(0, t0.len() as int) =~= t0); assert(sql.tr()[t0.len() as int + 1] == Ev::TRef(from@[0])); }"})
        u.fn(MY, "impl QueryBuilder for MysqlQueryBuilder", "prepare_update_from", props=P, key="MysqlQueryBuilder::prepare_update_from", vpath="MysqlQueryBuilder::prepare_update_from",
             rules=[r_dynw, make_r_sub("R-slice", r"_: &\[TableRef\], _: &mut W", "_from: &Vec<TableRef>, sql: &mut W")],
             spec="ensures\n    // UPDATE .. FROM is not MySQL syntax: it must not appear\n    final(sql).tr() == old(sql).tr(),")
        u.fn(MY, "impl QueryBuilder for MysqlQueryBuilder", "prepare_update_condition", props=P + ["C06"], key="MysqlQueryBuilder::prepare_update_condition", vpath="MysqlQueryBuilder::prepare_update_condition",
             rules=[r_dynw, make_r_sub("R-slice", r"from: &\[TableRef\]", "from: &Vec<TableRef>")],
             spec="ensures\n    // the condition is rendered exactly once: in JOIN .. ON when there are extra tables, as WHERE otherwise\n    final(sql).tr() == (if from@.len() > 0 { old(sql).tr() } else { old(sql).tr().push(Ev::Cond(\"WHERE\"@, *condition)) }),")
        u.spec(abstract("prepare_iden", "x: &DynIden", "Ev::Iden(*x)") + abstract("prepare_column_ref", "x: &ColumnRef", "Ev::ColRef(*x)")
               + "    // SeaRc<dyn Iden>::clone (trusted): the same identifier\n    #[verifier::external_body]\n    fn vclone_iden(x: &DynIden) -> (r: DynIden) ensures r == *x { unimplemented!() }\n"
               + "    fn vbox_tref(b: &Box<TableRef>) -> (r: &TableRef) ensures *r == **b { &**b }\n", "render::abstract-sub-renderers(mysql update column)", props=P)
        u.fn(MY, "impl QueryBuilder for MysqlQueryBuilder", "prepare_update_column", rename="prepare_update_column_impl", props=P, key="MysqlQueryBuilder::prepare_update_column", vpath="MysqlQueryBuilder::prepare_update_column_impl",
             rules=[r_dynw, make_r_sub("R-slice", r"from: &\[TableRef\]", "from: &Vec<TableRef>"), make_r_sub("R-path", r"use std::ops::Deref;", ""), make_r_sub("R-path", r"table\.deref\(\)", "Self::vbox_tref(table)"),
                    make_r_sub("R-attr", r"table\.clone\(\), column\.clone\(\)", "Self::vclone_iden(table), Self::vclone_iden(column)"),
                    make_r_sub("R-opaque", r"column\.prepare\(sql, self\.quote\(\)\)", "self.prepare_iden(column, sql)", min_count=2)],
             spec="""ensures
    // UPDATE t JOIN .. SET `t`.`col` = ..: with extra tables the assigned column is qualified by the updated table (when that is a plain table name); the column itself is always written, once
    final(sql).tr() == old(sql).tr().push(if from@.len() > 0 && *table is Some && ((*(*table)->Some_0) is Table) { Ev::ColRef(ColumnRef::TableColumn((*(*table)->Some_0)->Table_0, *column)) } else { Ev::Iden(*column) }),""")
        u.emit("}\n")
        u.emit("impl Dflt {\n")
        u.fn(QB, "trait QueryBuilder", "prepare_update_column", rename="prepare_update_column_dflt", props=P, key="QueryBuilder::prepare_update_column[default]", vpath="Dflt::prepare_update_column_dflt",
             rules=[r_dynw, make_r_sub("R-slice", r"_: &Option<Box<TableRef>>,\s*_: &\[TableRef\],", "_t: &Option<Box<TableRef>>, _f: &Vec<TableRef>,"),
                    make_r_sub("R-opaque", r"column\.prepare\(sql, self\.quote\(\)\)", "self.prepare_iden(column, sql)")],
             spec="ensures final(sql).tr() == old(sql).tr().push(Ev::Iden(*column)),")
        u.emit("}\n")
    if variant == "statements":
        u.emit("} // verus!\nfn main() {}\n")
        return
    # ---- ORDER BY items: the dialect's NULLS-ordering form ---------------------------------------------------------------------
    # grammar: MySQL has no NULLS FIRST / LAST - the documented emulation is an extra sort key `<expr> IS NULL ASC|DESC, ` in front;
    # PostgreSQL / SQLite: `<expr> [ASC|DESC] [NULLS FIRST|LAST]`.  An Order::Field item has no plain key: prepare_order renders
    # the CASE expression itself (Ev::FieldOrder).  The NULLS form must be rendered whatever the kind of the item.
    u.spec('''
pub open spec fn ord_key(x: OrderExpr) -> Seq<Ev> { if x.order is Field { Seq::<Ev>::empty() } else { seq![Ev::Expr(x.expr)] } }
pub open spec fn ord_dir(x: OrderExpr) -> Seq<Ev> {
    match x.order { Order::Asc => seq![lit(" ASC")], Order::Desc => seq![lit(" DESC")], Order::Field(v) => seq![Ev::FieldOrder(x)] }
}
pub open spec fn ord_nulls_std(x: OrderExpr) -> Seq<Ev> {
    match x.nulls { None => Seq::<Ev>::empty(), Some(NullOrdering::Last) => seq![lit(" NULLS LAST")], Some(NullOrdering::First) => seq![lit(" NULLS FIRST")] }
}
// MySQL's emulation: an extra leading sort key `<expr> IS NULL <d>`; its direction is mysql_isnull_desc (NULLS LAST -> ASC, NULLS FIRST -> DESC)
pub open spec fn mysql_isnull_desc(n: NullOrdering) -> bool { n is First }
pub open spec fn ord_nulls_mysql(x: OrderExpr) -> Seq<Ev> {
    match x.nulls { None => Seq::<Ev>::empty(), Some(n) => seq![Ev::Expr(x.expr), lit(if mysql_isnull_desc(n) { " IS NULL DESC, " } else { " IS NULL ASC, " })] }
}
// ---- C09: the emulation is EQUIVALENT to the native form ------------------------------------------------------------------------------
// a sort key's value is NULL (None) or a number.  Native (SQL:2003 / PostgreSQL 7.5 / SQLite lang_select): `x <dir> NULLS FIRST|LAST` puts the
// NULLs first / last whatever the direction and orders the other values by the direction.  MySQL (manual, "Working with NULL Values"):
// `ORDER BY x <dir>` treats NULL as lower than every value (first in ASC, last in DESC); `x IS NULL` is 1 for NULL and 0 otherwise.
pub enum Cmp3 { Lt, Eq, Gt }
pub open spec fn cmp_int(a: int, b: int) -> Cmp3 { if a < b { Cmp3::Lt } else if a == b { Cmp3::Eq } else { Cmp3::Gt } }
pub open spec fn flip(c: Cmp3, desc: bool) -> Cmp3 { if !desc { c } else { match c { Cmp3::Lt => Cmp3::Gt, Cmp3::Eq => Cmp3::Eq, Cmp3::Gt => Cmp3::Lt } } }
pub open spec fn cmp_native(a: Option<int>, b: Option<int>, desc: bool, nulls_first: bool) -> Cmp3 {
    match (a, b) {
        (None, None) => Cmp3::Eq,
        (None, Some(_)) => if nulls_first { Cmp3::Lt } else { Cmp3::Gt },
        (Some(_), None) => if nulls_first { Cmp3::Gt } else { Cmp3::Lt },
        (Some(x), Some(y)) => flip(cmp_int(x, y), desc),
    }
}
pub open spec fn cmp_mysql_key(a: Option<int>, b: Option<int>, desc: bool) -> Cmp3 {
    flip(match (a, b) { (None, None) => Cmp3::Eq, (None, Some(_)) => Cmp3::Lt, (Some(_), None) => Cmp3::Gt, (Some(x), Some(y)) => cmp_int(x, y) }, desc)
}
pub open spec fn is_null_num(a: Option<int>) -> int { if a is None { 1 } else { 0 } }
// ORDER BY (x IS NULL) <d0>, x <dir>: lexicographic
pub open spec fn cmp_emulated(a: Option<int>, b: Option<int>, desc: bool, isnull_desc: bool) -> Cmp3 {
    let c0 = flip(cmp_int(is_null_num(a), is_null_num(b)), isnull_desc);
    if c0 != Cmp3::Eq { c0 } else { cmp_mysql_key(a, b, desc) }
}
// for every pair of rows, both directions and both NULLS orderings: the emulated key list orders the rows exactly as the native form does
pub proof fn lemma_mysql_nulls_emulation(a: Option<int>, b: Option<int>, desc: bool, n: NullOrdering)
    ensures cmp_emulated(a, b, desc, mysql_isnull_desc(n)) == cmp_native(a, b, desc, n is First)
{}
''', "render::order-item-spec", props=P)
    # ORDER BY FIELD(..) items: the sort key is the item's RANK in the list (a CASE expression that is never NULL: NULL ranks with ELSE).  The native
    # NULLS FIRST | LAST suffix therefore has no effect on such a key, while MySQL's emulation still sorts on `x IS NULL` first: the two are NOT
    # equivalent - this lemma states the equivalence the property asks for and FAILS (recorded finding C09-order-field-nulls-diverges)
    u.spec("""pub open spec fn field_rank(a: Option<int>, else_rank: int) -> int { match a { Some(x) => if 0 <= x < else_rank { x } else { else_rank }, None => else_rank } }
pub proof fn lemma_mysql_nulls_emulation_field(a: Option<int>, b: Option<int>, else_rank: int, n: NullOrdering)
    requires else_rank >= 0
    ensures
        // MySQL: ORDER BY (x IS NULL) <d>, CASE .. END      vs      PostgreSQL / SQLite: ORDER BY CASE .. END NULLS FIRST | LAST (the CASE value is never NULL)
        ({ let c0 = flip(cmp_int(is_null_num(a), is_null_num(b)), mysql_isnull_desc(n)); if c0 != Cmp3::Eq { c0 } else { cmp_int(field_rank(a, else_rank), field_rank(b, else_rank)) } })
            == cmp_int(field_rank(a, else_rank), field_rank(b, else_rank))
{}
""", "lemma_mysql_nulls_emulation_field", props=["C09"])
    for ty, d, sp in [("MysqlQueryBuilder", "mysql", "ord_nulls_mysql(*order_expr) + ord_key(*order_expr) + ord_dir(*order_expr)"),
                      ("PostgresQueryBuilder", "postgres", "ord_key(*order_expr) + ord_dir(*order_expr) + ord_nulls_std(*order_expr)"),
                      ("SqliteQueryBuilder", "sqlite", "ord_key(*order_expr) + ord_dir(*order_expr) + ord_nulls_std(*order_expr)")]:
        u.emit("pub struct %sO;\nimpl %sO {\n" % (ty, ty))
        u.spec(abstract("prepare_simple_expr", "x: &SimpleExpr", "Ev::Expr(*x)") + abstract("prepare_field_order", "x: &OrderExpr, v: &Values", "Ev::FieldOrder(*x)"), "render::abstract-sub-renderers(order,%s)" % d, props=P)
        u.fn(QB, "trait QueryBuilder", "prepare_order", props=P, key="%s::prepare_order[default]" % ty, vpath="%sO::prepare_order" % ty, rules=[r_dynw, r_fmt],
             spec="ensures final(sql).tr() == old(sql).tr() + ord_dir(*order_expr),",
             proofs={"body-start": "let ghost t0 = sql.tr();", "body-end": "proof { assert(sql.tr() =~= t0 + ord_dir(*order_expr)); }"})
        path = "src/backend/%s/query.rs" % d
        u.fn(path, "impl QueryBuilder for %s" % ty, "prepare_order_expr", props=P, key="%s::prepare_order_expr" % ty, vpath="%sO::prepare_order_expr" % ty, rules=[r_dynw, r_fmt],
             spec="ensures\n    // the sort key, its direction and the dialect's NULLS-ordering form: each exactly once, in the dialect's order\n    final(sql).tr() == old(sql).tr() + (%s)," % sp,
             proofs={"body-start": "let ghost t0 = sql.tr();", "body-end": "proof { assert(sql.tr() =~= t0 + (%s)); }" % sp})
        u.emit("}\n")
    # ---- joins, set operations, locks, select items, table references ------------------------------------------------------------
    u.spec('''
// grammar: join_type [LATERAL] table_ref [ON predicate]
pub open spec fn join_events(j: JoinExpr) -> Seq<Ev> {
    seq![Ev::JoinTy(j.join), lit(" ")] + (if j.lateral { seq![lit("LATERAL ")] } else { Seq::<Ev>::empty() }) + seq![Ev::TRef(*j.table)]
        + (match j.on { Some(on) => seq![Ev::JoinOnEv(on)], None => Seq::<Ev>::empty() })
}
// grammar: { UNION [ALL] | INTERSECT | EXCEPT } ( query )      (MySQL 8.0.31+, PostgreSQL)
pub open spec fn union_kw_sqlite(t: UnionType) -> Ev {
    match t { UnionType::Intersect => lit(" INTERSECT "), UnionType::Distinct => lit(" UNION "), UnionType::Except => lit(" EXCEPT "), UnionType::All => lit(" UNION ALL ") }
}
pub open spec fn union_kw(t: UnionType) -> Ev {
    match t { UnionType::Intersect => lit(" INTERSECT ("), UnionType::Distinct => lit(" UNION ("), UnionType::Except => lit(" EXCEPT ("), UnionType::All => lit(" UNION ALL (") }
}
// grammar: FOR { UPDATE | NO KEY UPDATE | SHARE | KEY SHARE } [OF table, ..] [NOWAIT | SKIP LOCKED]
pub open spec fn lock_events(l: LockClause) -> Seq<Ev> {
    seq![lit("FOR "), lit(match l.r#type { LockType::Update => "UPDATE", LockType::NoKeyUpdate => "NO KEY UPDATE", LockType::Share => "SHARE", LockType::KeyShare => "KEY SHARE" })]
        + (if l.tables@.len() > 0 { seq![lit(" OF ")] + l_trefs(l.tables@) } else { Seq::<Ev>::empty() })
        + (match l.behavior { Some(LockBehavior::Nowait) => seq![lit(" NOWAIT")], Some(LockBehavior::SkipLocked) => seq![lit(" SKIP LOCKED")], None => Seq::<Ev>::empty() })
}
// grammar: expr [OVER { window_name | ( window_spec ) }] [AS alias]
pub open spec fn select_expr_events(x: SelectExpr) -> Seq<Ev> {
    seq![Ev::Expr(x.expr)]
        + (match x.window { Some(WindowSelectType::Name(n)) => seq![lit(" OVER "), Ev::Iden(n)], Some(WindowSelectType::Query(w)) => seq![lit(" OVER ( "), Ev::Window(w), lit(" )")], None => Seq::<Ev>::empty() })
        + (match x.alias { Some(a) => seq![lit(" AS "), Ev::Iden(a)], None => Seq::<Ev>::empty() })
}
''', "render::join-union-lock-spec", props=P)
    u.emit("pub struct DfltJ;\nimpl DfltJ {\n")
    u.spec(abstract("prepare_join_type", "x: &JoinType", "Ev::JoinTy(*x)") + abstract("prepare_table_ref", "x: &TableRef", "Ev::TRef(*x)") + abstract("prepare_join_on", "x: &JoinOn", "Ev::JoinOnEv(*x)")
           + abstract("prepare_select_statement", "x: &SelectStatement", "Ev::Select(*x)") + abstract("prepare_simple_expr", "x: &SimpleExpr", "Ev::Expr(*x)")
           + abstract("prepare_iden", "x: &DynIden", "Ev::Iden(*x)") + abstract("prepare_window_statement", "x: &WindowStatement", "Ev::Window(*x)"), "render::abstract-sub-renderers(join)", props=P)
    u.fn(QB, "trait QueryBuilder", "prepare_join_table_ref", props=P, key="QueryBuilder::prepare_join_table_ref", vpath="DfltJ::prepare_join_table_ref", rules=[r_dynw, r_fmt],
         spec="ensures final(sql).tr() == old(sql).tr() + (if join_expr.lateral { seq![lit(\"LATERAL \")] } else { Seq::<Ev>::empty() }) + seq![Ev::TRef(*join_expr.table)],",
         proofs={"body-start": "let ghost t0 = sql.tr();", "body-end": "proof { assert(sql.tr() =~= t0 + (if join_expr.lateral { seq![lit(\"LATERAL \")] } else { Seq::<Ev>::empty() }) + seq![Ev::TRef(*join_expr.table)]); }"})
    u.fn(QB, "trait QueryBuilder", "prepare_join_expr", props=P, key="QueryBuilder::prepare_join_expr", vpath="DfltJ::prepare_join_expr", rules=[r_dynw, r_fmt],
         spec="ensures\n    // join type, [LATERAL], the table, then its ON predicate\n    final(sql).tr() == old(sql).tr() + join_events(*join_expr),",
         proofs={"body-start": "let ghost t0 = sql.tr();", "body-end": "proof { assert(sql.tr() =~= t0 + join_events(*join_expr)); }"})
    u.fn(QB, "trait QueryBuilder", "prepare_union_statement", props=P, key="QueryBuilder::prepare_union_statement", vpath="DfltJ::prepare_union_statement", rules=[r_dynw, r_fmt],
         spec="ensures\n    // the set operator of this union, then the operand in parentheses\n    final(sql).tr() == old(sql).tr().push(union_kw(union_type)).push(Ev::Select(*select_statement)).push(lit(\")\")),")
    u.fn(QB, "trait QueryBuilder", "prepare_select_lock", props=P, key="QueryBuilder::prepare_select_lock", vpath="DfltJ::prepare_select_lock", rules=[r_dynw, r_fold, r_fmt],
         spec="ensures final(sql).tr() == old(sql).tr() + lock_events(*lock),",
         loops=["invariant it1.index@ <= lock.tables@.len(), first == (it1.index@ == 0), sql.tr() == tl + l_trefs(lock.tables@.subrange(0, it1.index@ as int)),"],
         proofs={"body-start": "let ghost t0 = sql.tr();",
                 "before#1:let mut first = true;": "let ghost tl = sql.tr();\nproof { lemma_l_trefs_empty(lock.tables@); assert(tl + Seq::<Ev>::empty() =~= tl); }",
                 "loop1-end": "proof { lemma_l_trefs_step(lock.tables@, it1.index@ as int); }",
                 "body-end": "proof { lemma_l_trefs_empty(lock.tables@); assert(sql.tr() =~= t0 + lock_events(*lock)); }"})
    u.fn(QB, "trait QueryBuilder", "prepare_select_expr", props=P, key="QueryBuilder::prepare_select_expr", vpath="DfltJ::prepare_select_expr",
         rules=[r_dynw, r_fmt, make_r_sub("R-opaque", r"\b(name|alias)\.prepare\(sql, self\.quote\(\)\)", r"self.prepare_iden(\1, sql)", min_count=2)],
         spec="ensures\n    // the expression, its OVER clause, its alias\n    final(sql).tr() == old(sql).tr() + select_expr_events(*select_expr),",
         proofs={"body-start": "let ghost t0 = sql.tr();", "body-end": "proof { assert(sql.tr() =~= t0 + select_expr_events(*select_expr)); }"})
    u.emit("}\n")
    u.emit("pub struct SqliteQueryBuilderJ;\nimpl SqliteQueryBuilderJ {\n")
    u.fn("src/backend/sqlite/query.rs", "impl QueryBuilder for SqliteQueryBuilder", "prepare_select_lock", props=P, key="SqliteQueryBuilder::prepare_select_lock", vpath="SqliteQueryBuilderJ::prepare_select_lock",
         rules=[r_dynw, make_r_sub("R-slice", r"_sql: &mut W", "sql: &mut W")], spec="ensures\n    // SQLite has no row locks: nothing is written\n    final(sql).tr() == old(sql).tr(),")
    # SQLite's compound-select grammar takes the operands WITHOUT parentheses (lang_select.html: select-core compound-operator select-core)
    u.spec(abstract("prepare_select_statement", "x: &SelectStatement", "Ev::Select(*x)"), "render::abstract-sub-renderers(sqlite union)", props=P)
    u.fn("src/backend/sqlite/query.rs", "impl QueryBuilder for SqliteQueryBuilder", "prepare_union_statement", props=P, key="SqliteQueryBuilder::prepare_union_statement", vpath="SqliteQueryBuilderJ::prepare_union_statement",
         rules=[r_dynw, r_fmt], spec="ensures\n    // the set operator, then the operand - bare: SQLite's compound select has no parenthesised operands\n    final(sql).tr() == old(sql).tr().push(union_kw_sqlite(union_type)).push(Ev::Select(*select_statement)),")
    u.fn("src/backend/sqlite/query.rs", "impl QueryBuilder for SqliteQueryBuilder", "insert_default_values", props=P, key="SqliteQueryBuilder::insert_default_values", vpath="SqliteQueryBuilderJ::insert_default_values",
         rules=[r_dynw, make_r_sub("R-param", r"\(&self, _: u32, sql: &mut W\)", "(&self, n_: u32, sql: &mut W)"), r_fmt, r_unit_tail], spec="ensures\n    // INSERT INTO t DEFAULT VALUES: SQLite's only form (one row)\n    final(sql).tr() == old(sql).tr().push(lit(\"DEFAULT VALUES\")),")
    u.emit("}\n")
    # ---- INSERT .. VALUES (DEFAULT), (DEFAULT) ..: the shared default (MySQL / Postgres; SQLite overrides it above) ----------------------------
    # R-rangefold: `(0..n).fold(true, |first, _| { if !first { SEP } BODY; false });` is the counting loop `k = 0; while k < n { .. k += 1 }`
    def r_rangefold(text, ctx):
        m = re.search(r"\(0\.\.(\w+)\)\.fold\(true, \|first, _\| \{", text)
        if not m:
            raise rl.LostAnchor(ctx.key + ": R-rangefold: `(0..n).fold(true, |first, _| {` not found")
        toks = rl.code_toks(rl.lex(text[m.end() - 1:]))
        close = rl.match_close(toks, 0)
        body = text[m.end():m.end() - 1 + toks[close].start]
        tail = text[m.end() - 1 + toks[close].end:]
        m2 = re.match(r"\s*\)\s*;", tail)
        mb = re.search(r"false\s*$", body.rstrip())
        if not m2 or not mb:
            raise rl.Unsupported(ctx.key + ": R-rangefold: unexpected closure shape")
        body = body.rstrip()[:mb.start()]
        ctx.app("R-rangefold", "(0..%s).fold(true, |first, _| { .. false })" % m.group(1), "let mut first = true; let mut k_ = 0; while k_ < %s { ..; first = false; k_ += 1; }" % m.group(1))
        return text[:m.start()] + "let mut first = true;\n        let mut k_: u32 = 0;\n        while k_ < %s {%s first = false;\n            k_ += 1;\n        }" % (m.group(1), body) + tail[m2.end():]
    u.spec("""// n default rows, comma separated: `(DEFAULT), (DEFAULT)` (PostgreSQL INSERT: VALUES ( DEFAULT ) [, ...]; MySQL: `(), ()`)
pub open spec fn default_rows(n: nat) -> Seq<Ev>
    decreases n
{ if n == 0 { Seq::<Ev>::empty() } else if n == 1 { seq![Ev::DefaultKw] } else { default_rows((n - 1) as nat).push(lit(", ")).push(Ev::DefaultKw) } }
""", "render::default-rows-spec", props=P)
    u.emit("pub struct DfltDV;\nimpl DfltDV {\n")
    u.spec(abstract("prepare_default_kw", "", "Ev::DefaultKw").replace("(&self, , sql", "(&self, sql"), "render::abstract-sub-renderers(default rows)", props=P)
    u.fn(QB, "trait QueryBuilder", "insert_default_values", props=P, key="QueryBuilder::insert_default_values[default: MySQL, Postgres]", vpath="DfltDV::insert_default_values",
         rules=[r_dynw, make_r_sub("R-opaque", r'write!\(sql, "\{\}", self\.insert_default_keyword\(\)\)\.unwrap\(\);', "self.prepare_default_kw(sql);"), r_rangefold, r_fmt],
         spec="ensures\n    // VALUES, then one default row per requested row, comma separated\n    final(sql).tr() == old(sql).tr().push(lit(\"VALUES \")) + default_rows(num_rows as nat),",
         loops=["invariant k_ <= num_rows, first == (k_ == 0), sql.tr() == tv + default_rows(k_ as nat),\n        decreases num_rows - k_,"],
         proofs={"before#1:let mut first = true;": "let ghost tv = sql.tr();\nproof { assert(tv + Seq::<Ev>::empty() =~= tv); }"})
    u.emit("}\n")
    for ty, d, kw in [("MysqlQueryBuilder", "mysql", "()"), ("PostgresQueryBuilder", "postgres", "(DEFAULT)")]:
        ovr = "fn insert_default_keyword" in u.src("src/backend/%s/query.rs" % d)
        u.emit("pub struct %sDV;\nimpl %sDV {\n" % (ty, ty))
        u.fn("src/backend/%s/query.rs" % d if ovr else QB, ("impl QueryBuilder for %s" % ty) if ovr else "trait QueryBuilder", "insert_default_keyword", ret="r", props=P,
             key="%s::insert_default_keyword[%s]" % (ty, "override" if ovr else "default"), vpath="%sDV::insert_default_keyword" % ty,
             spec="ensures\n    // %s: a row of defaults is written `%s`\n    r@ == \"%s\"@," % ("MySQL 15.2.7 (an empty value list)" if d == "mysql" else "PostgreSQL INSERT (DEFAULT per column)", kw, kw))
        u.emit("}\n")
    # ---- table references: a plain / qualified / aliased name (unit ident), or a parenthesised sub-query / VALUES list / a function call, each with its alias
    u.spec('''
pub open spec fn table_ref_events(t: TableRef) -> Seq<Ev> {
    match t {
        TableRef::SubQuery(q, a) => seq![lit("("), Ev::Select(q), lit(") AS "), Ev::Iden(a)],
        TableRef::ValuesList(v, a) => seq![lit("("), Ev::ValuesList(v), lit(") AS "), Ev::Iden(a)],
        TableRef::FunctionCall(f, a) => seq![Ev::FuncName(f), Ev::FuncArgs(f), lit(" AS "), Ev::Iden(a)],
        _ => seq![Ev::TRefIden(t)],
    }
}
''', "render::table-ref-spec", props=P)
    u.emit("pub struct DfltT;\nimpl DfltT {\n")
    u.spec(abstract("prepare_select_statement", "x: &SelectStatement", "Ev::Select(*x)") + abstract("prepare_values_list", "x: &Vec<ValueTuple>", "Ev::ValuesList(*x)")
           + abstract("prepare_function_name_of", "x: &FunctionCall", "Ev::FuncName(*x)") + abstract("prepare_function_arguments", "x: &FunctionCall", "Ev::FuncArgs(*x)")
           + abstract("prepare_table_ref_iden", "x: &TableRef", "Ev::TRefIden(*x)") + abstract("prepare_iden", "x: &DynIden", "Ev::Iden(*x)"), "render::abstract-sub-renderers(table ref)", props=P)
    u.fn(QB, "trait QueryBuilder", "prepare_table_ref", props=P, key="QueryBuilder::prepare_table_ref", vpath="DfltT::prepare_table_ref",
         rules=[r_dynw, make_r_sub("R-opaque", r"\balias\.prepare\(sql, self\.quote\(\)\)", "self.prepare_iden(alias, sql)", min_count=3),
                make_r_sub("R-path", r"self\.prepare_function_name\(&func\.func, sql\)", "self.prepare_function_name_of(func, sql)"), r_fmt],
         spec="ensures\n    // ( sub-query | VALUES list ) AS alias, function(args) AS alias, or the (qualified, aliased) table name\n    final(sql).tr() == old(sql).tr() + table_ref_events(*table_ref),",
         proofs={"body-start": "let ghost t0 = sql.tr(); let ghost tr_ = *table_ref;", "body-end": "proof { assert(sql.tr() =~= t0 + table_ref_events(tr_)); }"})
    u.emit("}\n")
    # ---- dialect-specific SELECT constructs: each only in its own dialect, in that dialect's form ---------------------------------------
    u.spec('''
// MySQL index hints, after the FROM list:  {USE | IGNORE | FORCE} INDEX [FOR {JOIN | ORDER BY | GROUP BY}] (index)  - space separated
pub open spec fn hint_events(h: IndexHint) -> Seq<Ev> {
    seq![lit(match h.r#type { IndexHintType::Use => "USE INDEX ", IndexHintType::Ignore => "IGNORE INDEX ", IndexHintType::Force => "FORCE INDEX " }), Ev::HintScope(h.scope), lit("("), Ev::Iden(h.index), lit(")")]
}
pub open spec fn hints_events(hs: Seq<IndexHint>, n: nat) -> Seq<Ev>
    decreases n
{
    if n == 0 || n > hs.len() { Seq::<Ev>::empty() }
    else if n == 1 { seq![lit(" ")] + hint_events(hs[0]) }
    else { hints_events(hs, (n - 1) as nat).push(lit(" ")) + hint_events(hs[n - 1]) }
}
// PostgreSQL:  TABLESAMPLE {BERNOULLI | SYSTEM} (percentage) [REPEATABLE (seed)]
pub open spec fn sample_events(t: Option<TableSample>) -> Seq<Ev> {
    match t {
        None => Seq::<Ev>::empty(),
        Some(ts) => seq![lit(match ts.method { SampleMethod::BERNOULLI => " TABLESAMPLE BERNOULLI", SampleMethod::SYSTEM => " TABLESAMPLE SYSTEM" }), lit(" ("), Ev::F64Text(ts.percentage), lit(")")]
            + (match ts.repeatable { Some(r) => seq![lit(" REPEATABLE ("), Ev::F64Text(r), lit(")")], None => Seq::<Ev>::empty() }),
    }
}
''', "render::dialect-constructs-spec", props=P)
    NOTHING = "final(sql).tr() == old(sql).tr(),"
    u.emit("pub struct DfltD;\nimpl DfltD {\n")
    u.fn(QB, "trait QueryBuilder", "prepare_index_hints", props=P, key="QueryBuilder::prepare_index_hints[default: Postgres, SQLite]", vpath="DfltD::prepare_index_hints",
         rules=[r_dynw, make_r_sub("R-slice", r"_sql: &mut W", "sql: &mut W")], spec="ensures\n    // index hints are MySQL syntax: nothing elsewhere\n    " + NOTHING)
    u.fn(QB, "trait QueryBuilder", "prepare_table_sample", props=P, key="QueryBuilder::prepare_table_sample[default: MySQL, SQLite]", vpath="DfltD::prepare_table_sample",
         rules=[r_dynw, make_r_sub("R-slice", r"_sql: &mut W", "sql: &mut W")], spec="ensures\n    // TABLESAMPLE is not rendered outside Postgres\n    " + NOTHING)
    u.fn(QB, "trait QueryBuilder", "prepare_select_distinct", props=P, key="QueryBuilder::prepare_select_distinct[default: SQLite]", vpath="DfltD::prepare_select_distinct", rules=[r_dynw, r_fmt],
         spec="ensures final(sql).tr() == old(sql).tr() + (match *select_distinct { SelectDistinct::All => seq![lit(\"ALL\")], SelectDistinct::Distinct => seq![lit(\"DISTINCT\")], _ => Seq::<Ev>::empty() }),",
         proofs={"body-start": "let ghost t0 = sql.tr(); let ghost d_ = *select_distinct;", "body-end": "proof { assert(sql.tr() =~= t0 + (match d_ { SelectDistinct::All => seq![lit(\"ALL\")], SelectDistinct::Distinct => seq![lit(\"DISTINCT\")], _ => Seq::<Ev>::empty() })); }"})
    u.emit("}\n")
    u.emit("pub struct MysqlQueryBuilderD;\nimpl MysqlQueryBuilderD {\n")
    u.spec(abstract("prepare_index_hint_scope", "x: &IndexHintScope", "Ev::HintScope(*x)") + abstract("prepare_iden", "x: &DynIden", "Ev::Iden(*x)"), "render::abstract-sub-renderers(mysql hints)", props=P)
    MYQ2 = "src/backend/mysql/query.rs"
    from vlib.gen import r_enumerate
    u.fn(MYQ2, "impl QueryBuilder for MysqlQueryBuilder", "prepare_select_distinct", props=P, key="MysqlQueryBuilder::prepare_select_distinct", vpath="MysqlQueryBuilderD::prepare_select_distinct", rules=[r_dynw, r_fmt],
         spec="ensures\n    // DISTINCTROW is MySQL's; DISTINCT ON is not MySQL syntax: nothing\n    final(sql).tr() == old(sql).tr() + (match *select_distinct { SelectDistinct::All => seq![lit(\"ALL\")], SelectDistinct::Distinct => seq![lit(\"DISTINCT\")], SelectDistinct::DistinctRow => seq![lit(\"DISTINCTROW\")], _ => Seq::<Ev>::empty() }),",
         proofs={"body-start": "let ghost t0 = sql.tr(); let ghost d_ = *select_distinct;", "body-end": "proof { assert(sql.tr() =~= t0 + (match d_ { SelectDistinct::All => seq![lit(\"ALL\")], SelectDistinct::Distinct => seq![lit(\"DISTINCT\")], SelectDistinct::DistinctRow => seq![lit(\"DISTINCTROW\")], _ => Seq::<Ev>::empty() })); }"})
    u.fn(MYQ2, "impl QueryBuilder for MysqlQueryBuilder", "prepare_index_hints", props=P, key="MysqlQueryBuilder::prepare_index_hints", vpath="MysqlQueryBuilderD::prepare_index_hints",
         rules=[r_dynw, r_enumerate, r_fmt, make_r_sub("R-opaque", r"hint\.index\.prepare\(sql, self\.quote\(\)\)", "self.prepare_iden(&hint.index, sql)", min_count=3)],
         spec="ensures\n    // every hint that was given, in call order, in MySQL's form\n    final(sql).tr() == old(sql).tr() + hints_events(select.index_hints@, select.index_hints@.len()),",
         loops=["invariant i == ite1.index@, ite1.index@ <= select.index_hints@.len(), select.index_hints@.len() <= usize::MAX, sql.tr() == (if select.index_hints@.len() == 0 { t0 } else if ite1.index@ == 0 { t0.push(lit(\" \")) } else { t0 + hints_events(select.index_hints@, ite1.index@ as nat) }),"],
         proofs={"body-start": "let ghost t0 = sql.tr();\nproof { axiom_vec_len_fits(&select.index_hints); assert(t0 + Seq::<Ev>::empty() =~= t0); }",
                 "loop1-end": "proof { assert(sql.tr() =~= t0 + hints_events(select.index_hints@, (ite1.index@ + 1) as nat)); }"})
    u.emit("}\n")
    u.emit("pub struct PostgresQueryBuilderD;\nimpl PostgresQueryBuilderD {\n")
    u.spec(abstract("prepare_column_ref", "x: &ColumnRef", "Ev::ColRef(*x)"), "render::abstract-sub-renderers(pg distinct)", props=P)
    PGQ = "src/backend/postgres/query.rs"
    u.fn(PGQ, "impl QueryBuilder for PostgresQueryBuilder", "prepare_select_distinct", props=P, key="PostgresQueryBuilder::prepare_select_distinct", vpath="PostgresQueryBuilderD::prepare_select_distinct",
         rules=[r_dynw, r_fold, r_fmt],
         spec="ensures\n    // DISTINCT ON (cols) is Postgres'; DISTINCTROW is not: nothing\n    final(sql).tr() == old(sql).tr() + (match *select_distinct { SelectDistinct::All => seq![lit(\"ALL\")], SelectDistinct::Distinct => seq![lit(\"DISTINCT\")], SelectDistinct::DistinctOn(cols) => seq![lit(\"DISTINCT ON (\")] + l_colrefs(cols@) + seq![lit(\")\")], _ => Seq::<Ev>::empty() }),",
         loops=["invariant it1.index@ <= cols@.len(), first == (it1.index@ == 0), sql.tr() == td + l_colrefs(cols@.subrange(0, it1.index@ as int)),"],
         proofs={"body-start": "let ghost t0 = sql.tr(); let ghost d_ = *select_distinct;",
                 "before#1:let mut first = true;": "let ghost td = sql.tr();\nproof { lemma_l_colrefs_empty(cols@); assert(td + Seq::<Ev>::empty() =~= td); }",
                 "loop1-end": "proof { lemma_l_colrefs_step(cols@, it1.index@ as int); }",
                 "body-end": "proof { match d_ { SelectDistinct::DistinctOn(c) => { lemma_l_colrefs_empty(c@); } _ => {} } assert(sql.tr() =~= t0 + (match d_ { SelectDistinct::All => seq![lit(\"ALL\")], SelectDistinct::Distinct => seq![lit(\"DISTINCT\")], SelectDistinct::DistinctOn(cols) => seq![lit(\"DISTINCT ON (\")] + l_colrefs(cols@) + seq![lit(\")\")], _ => Seq::<Ev>::empty() })); }"})
    u.fn(PGQ, "impl QueryBuilder for PostgresQueryBuilder", "prepare_table_sample", props=P, key="PostgresQueryBuilder::prepare_table_sample", vpath="PostgresQueryBuilderD::prepare_table_sample",
         rules=[r_dynw,
                # R-letelse: `let Some(x) = e else { return; };`  ->  `if e.is_none() { return; } let x = e.unwrap();`
                make_r_sub("R-letelse", r"let Some\(table_sample\) = select\.table_sample else \{\s*return;\s*\};", "if select.table_sample.is_none() { return; }\n        let table_sample = select.table_sample.unwrap();"),
                make_r_sub("R-fmt", r'write!\(sql, " \(\{\}\)", table_sample\.percentage\)\.unwrap\(\);', 'vfmt_lit(sql, " ("); vfmt_f64(sql, &table_sample.percentage); vfmt_lit(sql, ")");'),
                make_r_sub("R-fmt", r'write!\(sql, " REPEATABLE \(\{repeatable\}\)"\)\.unwrap\(\);', 'vfmt_lit(sql, " REPEATABLE ("); vfmt_f64(sql, &repeatable); vfmt_lit(sql, ")");'),
                r_fmt],
         spec="ensures final(sql).tr() == old(sql).tr() + sample_events(select.table_sample),",
         proofs={"body-start": "let ghost t0 = sql.tr();\nproof { assert(t0 + Seq::<Ev>::empty() =~= t0); }", "body-end": "proof { assert(sql.tr() =~= t0 + sample_events(select.table_sample)); }"})
    u.emit("}\n")
    # ---- window specifications -------------------------------------------------------------------------------------------------------
    # grammar (all three dialects): [PARTITION BY expr, ..] [ORDER BY item, ..] [{ROWS | RANGE} {frame_start | BETWEEN frame_start AND frame_end}]
    # frame_start / frame_end: UNBOUNDED PRECEDING | <n> PRECEDING | CURRENT ROW | <n> FOLLOWING | UNBOUNDED FOLLOWING  - the offset and the
    # keyword are two tokens
    u.spec('''
pub open spec fn frame_events(f: Frame) -> Seq<Ev> {
    match f {
        Frame::UnboundedPreceding => seq![lit("UNBOUNDED PRECEDING")], Frame::Preceding(v) => seq![Ev::U32Value(v), lit(" PRECEDING")],
        Frame::CurrentRow => seq![lit("CURRENT ROW")], Frame::Following(v) => seq![Ev::U32Value(v), lit(" FOLLOWING")],
        Frame::UnboundedFollowing => seq![lit("UNBOUNDED FOLLOWING")],
    }
}
#[verifier::opaque]
pub open spec fn win_partition(w: WindowStatement) -> Seq<Ev> { if w.partition_by@.len() > 0 { seq![lit("PARTITION BY ")] + l_exprs(w.partition_by@) } else { Seq::<Ev>::empty() } }
#[verifier::opaque]
pub open spec fn win_order(w: WindowStatement) -> Seq<Ev> { if w.order_by@.len() > 0 { seq![lit(" ORDER BY ")] + l_orders(w.order_by@) } else { Seq::<Ev>::empty() } }
#[verifier::opaque]
pub open spec fn win_frame(w: WindowStatement) -> Seq<Ev> {
    match w.frame {
        Some(fc) => seq![lit(match fc.r#type { FrameType::Range => " RANGE ", FrameType::Rows => " ROWS " })]
            + (match fc.end { Some(e) => seq![lit("BETWEEN "), Ev::FrameEv(fc.start), lit(" AND "), Ev::FrameEv(e)], None => seq![Ev::FrameEv(fc.start)] }),
        None => Seq::<Ev>::empty() }
}
pub open spec fn window_events(w: WindowStatement) -> Seq<Ev> { win_partition(w) + win_order(w) + win_frame(w) }
// sequence bookkeeping as lemmas: the renderer's own query then needs equalities only, no extensional reasoning over an unknown prefix
pub proof fn lemma_push2(t: Seq<Ev>, a: Ev, b: Ev) ensures t.push(a).push(b) == t + seq![a, b] { assert(t.push(a).push(b) =~= t + seq![a, b]); }
pub proof fn lemma_push5(t: Seq<Ev>, a: Ev, b: Ev, c: Ev, d: Ev, e: Ev) ensures t.push(a).push(b).push(c).push(d).push(e) == t + seq![a, b, c, d, e]
{ assert(t.push(a).push(b).push(c).push(d).push(e) =~= t + seq![a, b, c, d, e]); }
pub proof fn lemma_assoc3(t: Seq<Ev>, a: Seq<Ev>, b: Seq<Ev>, c: Seq<Ev>) ensures t + a + b + c == t + (a + b + c) { assert(t + a + b + c =~= t + (a + b + c)); }
// the frame clause as the renderer writes it: one push per write (the renderer's own query only unfolds this); that it equals `+ win_frame`
// and that the three pieces compose is proved once, here
pub open spec fn win_frame_pushed(t: Seq<Ev>, w: WindowStatement) -> Seq<Ev> {
    match w.frame {
        Some(fc) => {
            let t3 = t.push(lit(match fc.r#type { FrameType::Range => " RANGE ", FrameType::Rows => " ROWS " }));
            match fc.end { Some(e) => t3.push(lit("BETWEEN ")).push(Ev::FrameEv(fc.start)).push(lit(" AND ")).push(Ev::FrameEv(e)), None => t3.push(Ev::FrameEv(fc.start)) }
        }
        None => t,
    }
}
pub proof fn lemma_window_tail(w: WindowStatement, t0: Seq<Ev>, t1: Seq<Ev>, t2: Seq<Ev>, tr: Seq<Ev>)
    requires t1 == t0 + win_partition(w), t2 == t1 + win_order(w), tr == win_frame_pushed(t2, w)
    ensures tr == t0 + window_events(w)
{
    reveal(win_frame);
    if w.frame is Some {
        let fc = w.frame->Some_0;
        let k = lit(match fc.r#type { FrameType::Range => " RANGE ", FrameType::Rows => " ROWS " });
        if fc.end is Some { lemma_push5(t2, k, lit("BETWEEN "), Ev::FrameEv(fc.start), lit(" AND "), Ev::FrameEv(fc.end->Some_0)); }
        else { lemma_push2(t2, k, Ev::FrameEv(fc.start)); }
    } else {
        assert(t2 + Seq::<Ev>::empty() =~= t2);
    }
    assert(tr == t2 + win_frame(w));
    lemma_assoc3(t0, win_partition(w), win_order(w), win_frame(w));
}
''', "render::window-spec", props=P)
    u.emit("pub struct DfltWin;\nimpl DfltWin {\n")
    u.spec(abstract("prepare_simple_expr", "x: &SimpleExpr", "Ev::Expr(*x)") + abstract("prepare_order_expr", "x: &OrderExpr", "Ev::Order(*x)")
           + abstract("prepare_frame_", "x: &Frame", "Ev::FrameEv(*x)")
           + "    // prepare_value(&v.into()) of a u32 offset: one bound value (unit writer: prepare_value is one push_param)\n"
           + abstract("prepare_u32_value", "v: u32", "Ev::U32Value(v)"), "render::abstract-sub-renderers(window)", props=P)
    u.fn(QB, "trait QueryBuilder", "prepare_frame", props=P, key="QueryBuilder::prepare_frame", vpath="DfltWin::prepare_frame",
         rules=[r_dynw, r_fmt, make_r_sub("R-into", r"self\.prepare_value\(&v\.into\(\), sql\)", "self.prepare_u32_value(v, sql)", min_count=2)],
         spec="ensures\n    // the bound's keyword(s); a numeric offset is a value followed by the keyword as a separate token\n    final(sql).tr() == old(sql).tr() + frame_events(*frame),",
         proofs={"body-start": "let ghost t0 = sql.tr();", "body-end": "proof { assert(sql.tr() =~= t0 + frame_events(*frame)); }"})
    u.fn(QB, "trait QueryBuilder", "prepare_window_statement", props=P, key="QueryBuilder::prepare_window_statement", vpath="DfltWin::prepare_window_statement", prefix="#[verifier::rlimit(40)]\n    ",
         rules=[r_dynw, r_fold, r_fmt, make_r_sub("R-path", r"self\.prepare_frame\(", "self.prepare_frame_(", min_count=3)],
         spec="ensures\n    // PARTITION BY list, ORDER BY list, frame clause - each once, in this order, lists in call order\n    final(sql).tr() == old(sql).tr() + window_events(*window),",
         loops=["invariant it1.index@ <= window.partition_by@.len(), first == (it1.index@ == 0), sql.tr() == tp + l_exprs(window.partition_by@.subrange(0, it1.index@ as int)),",
                "invariant it2.index@ <= window.order_by@.len(), first == (it2.index@ == 0), sql.tr() == to + l_orders(window.order_by@.subrange(0, it2.index@ as int)),"],
         proofs={"body-start": "let ghost t0 = sql.tr();",
                 "before#1:let mut first = true;": "let ghost tp = sql.tr();\nproof { lemma_l_exprs_empty(window.partition_by@); assert(tp + Seq::<Ev>::empty() =~= tp); }",
                 "loop1-end": "proof { lemma_l_exprs_step(window.partition_by@, it1.index@ as int); }",
                 "before#1:if !window.order_by.is_empty()": "let ghost t1 = sql.tr();\nproof { assert(t1 =~= t0 + win_partition(*window)) by { reveal(win_partition); lemma_l_exprs_empty(window.partition_by@); } }",
                 "before#2:let mut first = true;": "let ghost to = sql.tr();\nproof { lemma_l_orders_empty(window.order_by@); assert(to + Seq::<Ev>::empty() =~= to); }",
                 "loop2-end": "proof { lemma_l_orders_step(window.order_by@, it2.index@ as int); }",
                 "before#1:if let Some(frame) = &window.frame": "let ghost t2 = sql.tr();\nproof { assert(t2 =~= t1 + win_order(*window)) by { reveal(win_order); lemma_l_orders_empty(window.order_by@); } }",
                 # (case by case: the single `=~=` over all frame shapes was the unit's most expensive and least stable query)
                 "body-end": """proof {
    assert(sql.tr() == win_frame_pushed(t2, *window));
    lemma_window_tail(*window, t0, t1, t2, sql.tr());
}"""})
    u.emit("}\n")
    # ---- upsert and RETURNING ---------------------------------------------------------------------------------------------------
    # grammar: PostgreSQL / SQLite  ON CONFLICT [ (target) [WHERE ..] ] action [WHERE ..]  - the target filter BEFORE the action, the
    # action filter AFTER it; MySQL  ON DUPLICATE KEY UPDATE ..  has neither target nor filters.  RETURNING: PostgreSQL / SQLite only.
    u.spec('''
pub open spec fn on_conflict_events(oc: Option<OnConflict>) -> Seq<Ev> {
    match oc {
        Some(c) => seq![Ev::OcKeywords, Ev::OcTarget(c.targets), Ev::Cond("WHERE"@, c.target_where), Ev::OcAction(c.action), Ev::Cond("WHERE"@, c.action_where)],
        None => Seq::<Ev>::empty(),
    }
}
pub open spec fn returning_events(r: Option<ReturningClause>) -> Seq<Ev> {
    match r {
        None => Seq::<Ev>::empty(),
        Some(ReturningClause::All) => seq![lit(" RETURNING "), lit("*")],
        Some(ReturningClause::Columns(cols)) => seq![lit(" RETURNING ")] + l_colrefs(cols@),
        Some(ReturningClause::Exprs(exprs)) => seq![lit(" RETURNING ")] + l_exprs(exprs@),
    }
}
''', "render::upsert-returning-spec", props=P)
    u.emit("pub struct DfltU;\nimpl DfltU {\n")
    u.spec(abstract("prepare_on_conflict_keywords", "", "Ev::OcKeywords").replace("&self, , sql", "&self, sql")
           + abstract("prepare_on_conflict_target", "x: &Vec<OnConflictTarget>", "Ev::OcTarget(*x)")
           + abstract("prepare_on_conflict_action", "x: &Option<OnConflictAction>", "Ev::OcAction(*x)")
           + abstract("prepare_condition", "x: &ConditionHolder, kw: &str", "Ev::Cond(kw@, *x)")
           + abstract("prepare_column_ref", "x: &ColumnRef", "Ev::ColRef(*x)") + abstract("prepare_simple_expr", "x: &SimpleExpr", "Ev::Expr(*x)"), "render::abstract-sub-renderers(upsert)", props=P)
    u.fn(QB, "trait QueryBuilder", "prepare_on_conflict_condition", props=P, key="QueryBuilder::prepare_on_conflict_condition[default]", vpath="DfltU::prepare_on_conflict_condition", rules=[r_dynw],
         spec="ensures final(sql).tr() == old(sql).tr().push(Ev::Cond(\"WHERE\"@, *on_conflict_condition)),")
    u.fn(QB, "trait QueryBuilder", "prepare_on_conflict", props=P, key="QueryBuilder::prepare_on_conflict", vpath="DfltU::prepare_on_conflict", rules=[r_dynw],
         spec="ensures\n    // keywords, conflict target, the TARGET's filter, the action, the ACTION's filter - each once, in this order\n    final(sql).tr() == old(sql).tr() + on_conflict_events(*on_conflict),",
         proofs={"body-start": "let ghost t0 = sql.tr();", "body-end": "proof { assert(sql.tr() =~= t0 + on_conflict_events(*on_conflict)); }"})
    u.fn(QB, "trait QueryBuilder", "prepare_returning", props=P, key="QueryBuilder::prepare_returning[default]", vpath="DfltU::prepare_returning", rules=[r_dynw, r_fold, r_fmt],
         spec="ensures\n    // RETURNING *, or the columns / expressions in call order; nothing when none was asked for\n    final(sql).tr() == old(sql).tr() + returning_events(*returning),",
         loops=["invariant it1.index@ <= cols@.len(), first == (it1.index@ == 0), sql.tr() == tr0 + l_colrefs(cols@.subrange(0, it1.index@ as int)),",
                "invariant it2.index@ <= exprs@.len(), first == (it2.index@ == 0), sql.tr() == tr0 + l_exprs(exprs@.subrange(0, it2.index@ as int)),"],
         proofs={"body-start": "let ghost t0 = sql.tr();",
                 "before#1:match &returning": "let ghost tr0 = sql.tr();",
                 "before#1:let mut first = true;": "proof { lemma_l_colrefs_empty(cols@); assert(tr0 + Seq::<Ev>::empty() =~= tr0); }",
                 "loop1-end": "proof { lemma_l_colrefs_step(cols@, it1.index@ as int); }",
                 "before#2:let mut first = true;": "proof { lemma_l_exprs_empty(exprs@); assert(tr0 + Seq::<Ev>::empty() =~= tr0); }",
                 "loop2-end": "proof { lemma_l_exprs_step(exprs@, it2.index@ as int); }",
                 "body-end": "proof { if returning is Some { match returning->Some_0 { ReturningClause::Columns(c) => { lemma_l_colrefs_empty(c@); } ReturningClause::Exprs(e) => { lemma_l_exprs_empty(e@); } _ => {} } } assert(sql.tr() =~= t0 + returning_events(*returning)); }"})
    u.spec('''
    // PostgreSQL / SQLite: DO NOTHING | DO UPDATE SET col = .. [, ..]
    pub open spec fn action_events_common(a: Option<OnConflictAction>) -> Seq<Ev> {
        match a { None => Seq::<Ev>::empty(), Some(OnConflictAction::DoNothing(_)) => seq![lit(" DO NOTHING")], Some(OnConflictAction::Update(us)) => seq![Ev::DoUpdateKw] + l_updstrats(us@) }
    }
''' + abstract("prepare_on_conflict_do_update_keywords", "", "Ev::DoUpdateKw").replace("&self, , sql", "&self, sql") + abstract("prepare_iden", "x: &DynIden", "Ev::Iden(*x)")
           + abstract("prepare_on_conflict_excluded_table", "x: &DynIden", "Ev::Excluded(*x)"), "render::upsert-action-spec", props=P)
    ACT_PROOFS = {"body-start": "let ghost t0 = sql.tr();",
                  "before#1:let mut first = true;": "let ghost ta = sql.tr();\nproof { lemma_l_updstrats_empty(update_strats@); assert(ta + Seq::<Ev>::empty() =~= ta); }",
                  "loop1-end": "proof { lemma_l_updstrats_step(update_strats@, it1.index@ as int); assert(sql.tr() =~= ta + l_updstrats(update_strats@.subrange(0, it1.index@ + 1))); }",
                  "body-end": "let ghost a_ = *on_conflict_action;\nproof { match a_ { Some(OnConflictAction::Update(us)) => { lemma_l_updstrats_empty(us@); } _ => {} } assert(sql.tr() =~= t0 + Self::action_events_common(*on_conflict_action)); }"}
    r_col = make_r_sub("R-opaque", r"\b([a-z_]+)\.prepare\(sql, self\.quote\(\)\)", r"self.prepare_iden(\1, sql)", min_count=2)
    u.fn(QB, "trait QueryBuilder", "prepare_on_conflict_action_common", props=P, key="QueryBuilder::prepare_on_conflict_action_common", vpath="DfltU::prepare_on_conflict_action_common",
         rules=[r_dynw, r_fold, r_fmt, r_col],
         spec="ensures\n    // the action keyword(s), then the assignments in call order\n    final(sql).tr() == old(sql).tr() + Self::action_events_common(*on_conflict_action),",
         loops=["invariant it1.index@ <= update_strats@.len(), first == (it1.index@ == 0), sql.tr() == ta + l_updstrats(update_strats@.subrange(0, it1.index@ as int)),"],
         proofs=ACT_PROOFS)
    u.emit("}\n")
    u.emit("pub struct MysqlQueryBuilderU;\nimpl MysqlQueryBuilderU {\n")
    u.spec(abstract("prepare_iden", "x: &DynIden", "Ev::Iden(*x)")
           + "    #[verifier::external_body]\n    fn prepare_on_conflict_action_common<W: VWrite>(&self, a: &Option<OnConflictAction>, sql: &mut W) ensures final(sql).tr() == old(sql).tr() + DfltU::action_events_common(*a) { unimplemented!() }\n",
           "render::abstract-sub-renderers(mysql upsert)", props=P)
    MYQ = "src/backend/mysql/query.rs"
    u.fn(MYQ, "impl QueryBuilder for MysqlQueryBuilder", "prepare_on_conflict_target", props=P, key="MysqlQueryBuilder::prepare_on_conflict_target", vpath="MysqlQueryBuilderU::prepare_on_conflict_target",
         rules=[r_dynw, make_r_sub("R-slice", r"_: &\[OnConflictTarget\], _: &mut W", "_t: &Vec<OnConflictTarget>, sql: &mut W")],
         spec="ensures\n    // ON DUPLICATE KEY has no conflict target\n    final(sql).tr() == old(sql).tr(),")
    u.fn(MYQ, "impl QueryBuilder for MysqlQueryBuilder", "prepare_on_conflict_condition", props=P, key="MysqlQueryBuilder::prepare_on_conflict_condition", vpath="MysqlQueryBuilderU::prepare_on_conflict_condition",
         rules=[r_dynw, make_r_sub("R-slice", r"_: &ConditionHolder, _: &mut W", "_c: &ConditionHolder, sql: &mut W")],
         spec="ensures\n    // ON DUPLICATE KEY UPDATE takes no WHERE\n    final(sql).tr() == old(sql).tr(),")
    u.fn(MYQ, "impl QueryBuilder for MysqlQueryBuilder", "prepare_on_conflict_keywords", props=P, key="MysqlQueryBuilder::prepare_on_conflict_keywords", vpath="MysqlQueryBuilderU::prepare_on_conflict_keywords",
         rules=[r_dynw, r_fmt], spec="ensures final(sql).tr() == old(sql).tr().push(lit(\" ON DUPLICATE KEY\")),")
    u.fn(MYQ, "impl QueryBuilder for MysqlQueryBuilder", "prepare_on_conflict_do_update_keywords", props=P, key="MysqlQueryBuilder::prepare_on_conflict_do_update_keywords", vpath="MysqlQueryBuilderU::prepare_on_conflict_do_update_keywords",
         rules=[r_dynw, r_fmt], spec="ensures final(sql).tr() == old(sql).tr().push(lit(\" UPDATE \")),")
    u.fn(MYQ, "impl QueryBuilder for MysqlQueryBuilder", "prepare_on_conflict_action", props=P, key="MysqlQueryBuilder::prepare_on_conflict_action", vpath="MysqlQueryBuilderU::prepare_on_conflict_action",
         rules=[r_dynw, r_fold, r_fmt, make_r_sub("R-opaque", r"\b([a-z_]+)\.prepare\(sql, self\.quote\(\)\)", r"self.prepare_iden(\1, sql)", min_count=2)],
         spec=[("""ensures
    // every action other than a key-less DO NOTHING: the common form; DO NOTHING with key columns is the no-op `UPDATE k = k, ..`
    !(*on_conflict_action matches Some(OnConflictAction::DoNothing(pks)) && pks@.len() == 0) ==> final(sql).tr() == old(sql).tr() + (match *on_conflict_action {
        Some(OnConflictAction::DoNothing(pks)) => seq![lit(" UPDATE ")] + l_pkassign(pks@),
        a => DfltU::action_events_common(a) }),""", P),
               ("    // grammar: ON DUPLICATE KEY is always followed by UPDATE assignment_list (there is no `ON DUPLICATE KEY IGNORE`)\n    *on_conflict_action matches Some(OnConflictAction::DoNothing(pks)) ==> (pks@.len() == 0 ==> final(sql).tr().len() > old(sql).tr().len() && final(sql).tr()[old(sql).tr().len() as int] == lit(\" UPDATE \")),", PT)],
         loops=["invariant it1.index@ <= pk_cols@.len(), first == (it1.index@ == 0), sql.tr() == tp + l_pkassign(pk_cols@.subrange(0, it1.index@ as int)),"],
         proofs={"body-start": "let ghost t0 = sql.tr();",
                 "before#1:let mut first = true;": "let ghost tp = sql.tr();\nproof { lemma_l_pkassign_empty(pk_cols@); assert(tp + Seq::<Ev>::empty() =~= tp); }",
                 "loop1-end": "proof { lemma_l_pkassign_step(pk_cols@, it1.index@ as int); assert(sql.tr() =~= tp + l_pkassign(pk_cols@.subrange(0, it1.index@ + 1))); }",
                 "body-end": "let ghost a_ = *on_conflict_action;\nproof { match a_ { Some(OnConflictAction::DoNothing(pks)) => { lemma_l_pkassign_empty(pks@); if pks@.len() > 0 { assert(sql.tr() =~= t0 + (seq![lit(\" UPDATE \")] + l_pkassign(pks@))); } } _ => {} } }"})
    u.fn(MYQ, "impl QueryBuilder for MysqlQueryBuilder", "prepare_returning", props=P, key="MysqlQueryBuilder::prepare_returning", vpath="MysqlQueryBuilderU::prepare_returning",
         rules=[r_dynw, make_r_sub("R-slice", r"_sql: &mut W", "sql: &mut W")],
         spec="ensures\n    // MySQL has no RETURNING\n    final(sql).tr() == old(sql).tr(),")
    u.emit("}\n")
    # ---- WITH clause: WITH [RECURSIVE] name [(cols)] AS [[NOT] MATERIALIZED] (query) [, ..] [options] ------------------------------------
    u.spec('''
// builder's own requirement (CommonTableExpression docs: "mandatory to set table_name and query"; the renderer unwraps them;
// a WITH clause without any CTE is rejected by an assertion)
pub open spec fn cte_complete(c: CommonTableExpression) -> bool { c.table_name is Some && c.query is Some }
pub open spec fn with_complete(w: WithClause) -> bool { w.cte_expressions@.len() > 0 && forall|i: int| 0 <= i < w.cte_expressions@.len() ==> cte_complete(#[trigger] w.cte_expressions@[i]) }
pub open spec fn materialization_events(c: CommonTableExpression) -> Seq<Ev> {
    match c.materialized { Some(m) => seq![lit(if m { "" } else { "NOT" }), lit(" MATERIALIZED ")], None => Seq::<Ev>::empty() }
}
pub open spec fn cte_events_with(c: CommonTableExpression, mat: Seq<Ev>) -> Seq<Ev> {
    seq![Ev::Iden(c.table_name->Some_0)] + (if c.cols@.len() == 0 { seq![lit(" ")] } else { seq![lit(" (")] + l_idens(c.cols@) + seq![lit(") ")] })
        + seq![lit("AS ")] + mat + seq![lit("("), Ev::Query(*c.query->Some_0), lit(") ")]
}
pub open spec fn cte_events(c: CommonTableExpression) -> Seq<Ev> { cte_events_with(c, seq![Ev::Materialization(c)]) }
''', "render::with-clause-spec", props=P)
    u.emit("pub struct DfltC;\nimpl DfltC {\n")
    u.spec(abstract("prepare_iden", "x: &DynIden", "Ev::Iden(*x)") + abstract("prepare_query_statement", "x: &SubQueryStatement", "Ev::Query(*x)")
           + abstract("prepare_with_query_clause_materialization_", "x: &CommonTableExpression", "Ev::Materialization(*x)")
           + abstract("prepare_with_clause_recursive_options", "x: &WithClause", "Ev::WithOpts(*x)")
           + "    fn vbox_ref<T>(b: &Box<T>) -> (r: &T) ensures *r == **b { &**b }\n"
           + "    // R-panic (trusted): a failed assert_ne! never returns\n    #[verifier::external_body]\n    fn vassert_ne(a: usize, b: usize) requires a != b { unimplemented!() }\n", "render::abstract-sub-renderers(cte)", props=P)
    u.fn(QB, "trait QueryBuilder", "prepare_with_clause_start", props=P, key="QueryBuilder::prepare_with_clause_start", vpath="DfltC::prepare_with_clause_start", rules=[r_dynw, r_fmt],
         spec="ensures final(sql).tr() == old(sql).tr() + (if with_clause.recursive { seq![lit(\"WITH \"), lit(\"RECURSIVE \")] } else { seq![lit(\"WITH \")] }),",
         proofs={"body-start": "let ghost t0 = sql.tr();", "body-end": "proof { assert(sql.tr() =~= t0 + (if with_clause.recursive { seq![lit(\"WITH \"), lit(\"RECURSIVE \")] } else { seq![lit(\"WITH \")] })); }"})
    u.fn(QB, "trait QueryBuilder", "prepare_with_query_clause_materialization", props=P, key="QueryBuilder::prepare_with_query_clause_materialization[default]", vpath="DfltC::prepare_with_query_clause_materialization",
         rules=[r_dynw, r_fmt], spec="ensures final(sql).tr() == old(sql).tr() + materialization_events(*cte),",
         proofs={"body-start": "let ghost t0 = sql.tr();", "body-end": "proof { assert(sql.tr() =~= t0 + materialization_events(*cte)); }"})
    u.fn(QB, "trait QueryBuilder", "prepare_with_query_clause_common_table", props=P, key="QueryBuilder::prepare_with_query_clause_common_table", vpath="DfltC::prepare_with_query_clause_common_table",
         rules=[r_dynw, r_fmt,
                make_r_sub("R-opaque", r"cte\.table_name\s*\.as_ref\(\)\s*\.unwrap\(\)\s*\.prepare\(sql, self\.quote\(\)\);", "self.prepare_iden(cte.table_name.as_ref().unwrap(), sql);"),
                make_r_sub("R-opaque", r"\b([a-z_]+)\.prepare\(sql, self\.quote\(\)\)", r"self.prepare_iden(\1, sql)"),
                make_r_sub("R-forghost", r"for col in &cte\.cols", "for col in itc: cte.cols.iter()"),
                make_r_sub("R-path", r"self\.prepare_with_query_clause_materialization\(cte, sql\)", "self.prepare_with_query_clause_materialization_(cte, sql)"),
                make_r_sub("R-path", r"cte\.query\.as_ref\(\)\.unwrap\(\)\.deref\(\)", "Self::vbox_ref(cte.query.as_ref().unwrap())")],
         spec="requires cte_complete(*cte),\nensures\n    // name [(columns in call order)] AS [materialization] (query)\n    final(sql).tr() == old(sql).tr() + cte_events(*cte),",
         loops=["invariant itc.index@ <= cte.cols@.len(), col_first == (itc.index@ == 0), sql.tr() == tcl + l_idens(cte.cols@.subrange(0, itc.index@ as int)),"],
         proofs={"body-start": "let ghost t0 = sql.tr();",
                 "before#1:let mut col_first = true;": "let ghost tcl = sql.tr();\nproof { lemma_l_idens_empty(cte.cols@); assert(tcl + Seq::<Ev>::empty() =~= tcl); }",
                 "loop1-end": "proof { lemma_l_idens_step(cte.cols@, itc.index@ as int); }",
                 "body-end": "proof { lemma_l_idens_empty(cte.cols@); assert(sql.tr() =~= t0 + cte_events(*cte)); }"})
    u.emit("}\n")
    u.emit("pub struct DfltC2;\nimpl DfltC2 {\n")
    u.spec(abstract("prepare_with_query_clause_common_table", "x: &CommonTableExpression", "Ev::Cte(*x)") + abstract("prepare_with_clause_start", "x: &WithClause", "Ev::WithStart(*x)")
           + abstract("prepare_with_clause_recursive_options", "x: &WithClause", "Ev::WithOpts(*x)") + abstract("prepare_query_statement", "x: &SubQueryStatement", "Ev::Query(*x)")
           + "    fn vbox_ref<T>(b: &Box<T>) -> (r: &T) ensures *r == **b { &**b }\n"
           + "    #[verifier::external_body]\n    fn vassert_ne(a: usize, b: usize) requires a != b { unimplemented!() }\n", "render::abstract-sub-renderers(with)", props=P)
    u.fn(QB, "trait QueryBuilder", "prepare_with_clause_common_tables", props=P, key="QueryBuilder::prepare_with_clause_common_tables", vpath="DfltC2::prepare_with_clause_common_tables",
         rules=[r_dynw, r_fmt, make_r_sub("R-panic", r"assert_ne!\(\s*with_clause\.cte_expressions\.len\(\),\s*0,\s*\"[^\"]*\"\s*\);", "Self::vassert_ne(with_clause.cte_expressions.len(), 0);"),
                make_r_sub("R-forghost", r"for cte in &with_clause\.cte_expressions", "for cte in itt: with_clause.cte_expressions.iter()")],
         spec="requires with_clause.cte_expressions@.len() > 0,\nensures\n    // every common table expression, in call order, separated by `, `\n    final(sql).tr() == old(sql).tr() + l_ctes2(with_clause.cte_expressions@),",
         loops=["invariant itt.index@ <= with_clause.cte_expressions@.len(), cte_first == (itt.index@ == 0), sql.tr() == t0 + l_ctes2(with_clause.cte_expressions@.subrange(0, itt.index@ as int)),"],
         proofs={"body-start": "let ghost t0 = sql.tr();\nproof { lemma_l_ctes2_empty(with_clause.cte_expressions@); assert(t0 + Seq::<Ev>::empty() =~= t0); }",
                 "loop1-end": "proof { lemma_l_ctes2_step(with_clause.cte_expressions@, itt.index@ as int); }",
                 "body-end": "proof { lemma_l_ctes2_empty(with_clause.cte_expressions@); }"})
    WC = "old(sql).tr().push(Ev::WithStart(*with_clause)) + l_ctes2(with_clause.cte_expressions@) + (if with_clause.recursive { seq![Ev::WithOpts(*with_clause)] } else { Seq::<Ev>::empty() })"
    u.fn(QB, "trait QueryBuilder", "prepare_with_clause", props=P, key="QueryBuilder::prepare_with_clause", vpath="DfltC2::prepare_with_clause", rules=[r_dynw],
         spec="requires with_clause.cte_expressions@.len() > 0,\nensures\n    // WITH [RECURSIVE], the tables, then the recursive options (only for a recursive clause)\n    final(sql).tr() == " + WC + ",",
         proofs={"body-start": "let ghost t0 = sql.tr();", "body-end": "proof { assert(sql.tr() =~= " + WC.replace("old(sql).tr()", "t0") + "); }"})
    u.emit("}\n")
    # ---- recursive WITH options: SEARCH .. / CYCLE .. are Postgres syntax (default renderer); MySQL and SQLite must not emit them ----
    u.spec('''
fn vfmt_disp<W: VWrite>(w: &mut W, x: &&str) ensures final(w).tr() == old(w).tr().push(Ev::Lit((*x)@)) { w.vpush(*x) }
// the builder's own requirement (Search / Cycle docs: "setting .. is mandatory"; the renderer unwraps them)
pub open spec fn with_opts_complete(w: WithClause) -> bool {
    &&& (w.search matches Some(s) ==> s.order is Some && s.expr is Some && s.expr->Some_0.alias is Some)
    &&& (w.cycle matches Some(c) ==> c.expr is Some && c.set_as is Some && c.using is Some)
}
// grammar (PostgreSQL WITH): [ SEARCH { BREADTH | DEPTH } FIRST BY col SET search_seq_col ] [ CYCLE col SET mark USING path ], in this order
pub open spec fn with_search_events(w: WithClause) -> Seq<Ev> {
    match w.search {
        Some(s) => seq![lit("SEARCH "), lit(match s.order->Some_0 { SearchOrder::BREADTH => "BREADTH", SearchOrder::DEPTH => "DEPTH" }), lit(" FIRST BY "),
                        Ev::Expr(s.expr->Some_0.expr), lit(" SET "), Ev::Iden(s.expr->Some_0.alias->Some_0), lit(" ")],
        None => Seq::<Ev>::empty(),
    }
}
pub open spec fn with_cycle_events(w: WithClause) -> Seq<Ev> {
    match w.cycle {
        Some(c) => seq![lit("CYCLE "), Ev::Expr(c.expr->Some_0), lit(" SET "), Ev::Iden(c.set_as->Some_0), lit(" USING "), Ev::Iden(c.using->Some_0), lit(" ")],
        None => Seq::<Ev>::empty(),
    }
}
''', "render::with-options-spec", props=P)
    u.emit("pub struct DfltW;\nimpl DfltW {\n")
    u.spec(abstract("prepare_simple_expr", "x: &SimpleExpr", "Ev::Expr(*x)") + abstract("prepare_iden", "x: &DynIden", "Ev::Iden(*x)"), "render::abstract-sub-renderers(with)", props=P)
    r_prep = make_r_sub("R-opaque", r"^(\s*)([a-z_]+(?:\s*\.\s*[a-z_]+(?:\(\))?)*)\s*\.prepare\(sql, self\.quote\(\)\);", r"\1self.prepare_iden(\2, sql);", flags=re.M, min_count=3)
    u.fn(QB, "trait QueryBuilder", "prepare_with_clause_recursive_options", props=P, key="QueryBuilder::prepare_with_clause_recursive_options[default, Postgres]", vpath="DfltW::prepare_with_clause_recursive_options",
         rules=[r_dynw, r_prep, make_r_sub("R-refpat", r"match &search\.order\.as_ref\(\)\.unwrap\(\)", "match search.order.as_ref().unwrap()"), r_fmt],
         spec="requires with_opts_complete(*with_clause),\nensures\n    // both options when both were given, SEARCH before CYCLE, nothing for a non-recursive clause\n    final(sql).tr() == old(sql).tr() + (if with_clause.recursive { with_search_events(*with_clause) + with_cycle_events(*with_clause) } else { Seq::<Ev>::empty() }),",
         proofs={"body-start": "let ghost t0 = sql.tr();",
                 "body-end": "proof { assert(sql.tr() =~= t0 + (if with_clause.recursive { with_search_events(*with_clause) + with_cycle_events(*with_clause) } else { Seq::<Ev>::empty() })); }"})
    u.emit("}\n")
    for ty, d in [("MysqlQueryBuilder", "mysql"), ("SqliteQueryBuilder", "sqlite")]:
        u.emit("pub struct %sW;\nimpl %sW {\n" % (ty, ty))
        u.fn("src/backend/%s/query.rs" % d, "impl QueryBuilder for %s" % ty, "prepare_with_clause_recursive_options", props=P, key="%s::prepare_with_clause_recursive_options" % ty,
             vpath="%sW::prepare_with_clause_recursive_options" % ty, rules=[r_dynw, make_r_sub("R-slice", r"_: &WithClause, _: &mut W", "_w: &WithClause, sql: &mut W")],
             spec="ensures\n    // SEARCH / CYCLE are not %s syntax: they must not appear\n    final(sql).tr() == old(sql).tr()," % d, no_canary=False)
        u.emit("}\n")
    u.emit("} // verus!\nfn main() {}\n")
