"""unit `exprvals`  ->  C01 at expression level: rendering an expression binds exactly its Value leaves, in reading order.

Under contract (writer abstracted to the sequence of bound values): QueryBuilder::prepare_simple_expr_common (every arm; the
CustomWithExpr arm's loop is replaced by its contract from unit `custom`), prepare_tuple, prepare_function_arguments, binary_expr,
prepare_between_bound, prepare_case_statement, prepare_constant (trait defaults) and the three backends' prepare_simple_expr.
Recursion goes through the dispatching entry point `prepare_simple_expr`, whose contract is the induction hypothesis
(partial correctness: termination of the mutual recursion is not proved).
"""
import re
from vlib import rustlex as rl
from vlib.gen import make_r_fmt, make_r_sub, r_dynw, r_fold, r_enumerate, r_mutself, LostAnchor, Unsupported

QB = "src/backend/query_builder.rs"
P = ["C01"]
OPAQUE = ["Value", "ColumnRef", "Function", "SubQueryOper", "SubQueryStatement", "Keyword", "DynIden", "Condition", "OrderExpr"]
r_fmt = make_r_fmt(wmap=lambda w: w)
r_vis = make_r_sub("R-vis", r"pub\(crate\) ", "pub ", min_count=0)
V = "final(sql).vals() == old(sql).vals()"


def abstract(name, params, post, ret=""):
    return "    #[verifier::external_body]\n    fn %s<W: VWrite>(&self, %s, sql: &mut W)%s ensures %s { unimplemented!() }\n" % (name, params, ret, post)


def r_custom_arm_out(text, ctx):
    """R-arm-out: the block of the `SimpleExpr::CustomWithExpr(expr, values)` arm (the template loop, verified on its own in unit
    `custom`) is replaced by a call of a function carrying that arm's contract at this unit's level of abstraction."""
    pat = "SimpleExpr::CustomWithExpr(expr, values) =>"
    i = text.find(pat)
    if i < 0:
        raise LostAnchor(ctx.key + ": R-arm-out: CustomWithExpr arm not found")
    rest = text[i + len(pat):]
    code = rl.code_toks(rl.lex(rest))
    if not code or code[0].text != "{":
        raise Unsupported(ctx.key + ": R-arm-out: arm is not a block")
    close = rl.match_close(code, 0)
    ctx.app("R-arm-out", "CustomWithExpr arm block (%d chars)" % (code[close].end - code[0].start), "self.custom_with_expr_arm(expr, values, sql)")
    return text[:i + len(pat)] + " { self.custom_with_expr_arm(expr, values, sql); }" + rest[code[close].end:]


def r_text_tail_out(text, ctx):
    """R-text-out: in the Postgres AsEnum arm, the statements from `let q = self.quote();` to the end of the arm only compute and
    write TEXT (checked here: the removed text contains no `prepare_` / `push_param` call, i.e. nothing that could bind a value);
    they are replaced by one call of a text-only function.  What they write is C04's subject (raw quoting site in unit `ident`)."""
    a = text.find("let q = self.quote();")
    if a < 0:
        raise LostAnchor(ctx.key + ": R-text-out: `let q = self.quote();` not found")
    b = text.find(".unwrap();", a)
    m = re.search(r"\.unwrap\(\);\s*\}", text[a:])
    if not m:
        raise LostAnchor(ctx.key + ": R-text-out: end of the arm not found")
    seg = text[a:a + m.end() - 1]
    seg_end = a + text[a:].index(seg) + len(seg.rstrip())
    body = text[a:a + m.start() + len(".unwrap();")]
    if re.search(r"prepare_|push_param", body):
        raise Unsupported(ctx.key + ": R-text-out: the text-only tail calls a renderer")
    ctx.app("R-text-out", rl.norm_ws(body)[:120], "self.pg_enum_cast_suffix(type_name, sql);")
    return text[:a] + "self.pg_enum_cast_suffix(type_name, sql);" + text[a + len(body):]


def build(u):
    u.emit("use vstd::prelude::*;\nverus! {\n")
    for n in OPAQUE:
        u.emit("#[verifier::external_body]\npub struct %s { _opaque: u8 }\n" % n, kind="spec", key="R-opaque:" + n, props=P)
    u.type_item("src/types.rs", "enum", "UnOper", props=P, keep_derive=("Clone", "Copy"))
    u.type_item("src/extension/postgres/mod.rs", "enum", "PgBinOper", props=P, keep_derive=("Clone", "Copy"))
    u.type_item("src/extension/sqlite/mod.rs", "enum", "SqliteBinOper", props=P, keep_derive=("Clone", "Copy"))
    u.type_item("src/types.rs", "enum", "BinOper", props=P, keep_derive=("Clone", "Copy"))
    u.type_item("src/func.rs", "struct", "FuncArgMod", props=P, keep_derive=("Clone", "Copy"))
    u.type_item("src/func.rs", "struct", "FunctionCall", props=P, rules=[r_vis])
    u.type_item("src/query/case.rs", "struct", "CaseStatementCondition", props=P, rules=[r_vis])
    u.type_item("src/query/case.rs", "struct", "CaseStatement", props=P, rules=[r_vis])
    u.type_item("src/expr.rs", "enum", "SimpleExpr", props=P)
    u.type_item("src/backend/mod.rs", "enum", "Oper", props=P)
    u.type_item("src/query/window.rs", "enum", "Frame", props=P)
    u.type_item("src/query/window.rs", "enum", "FrameType", props=P)
    u.type_item("src/query/window.rs", "struct", "FrameClause", props=P, rules=[r_vis])
    u.type_item("src/query/window.rs", "struct", "WindowStatement", props=P, rules=[r_vis])
    u.prelude_file("units/exprvals/spec.rs", props=P)
    u.emit("impl SimpleExpr {\n")
    u.fn("src/expr.rs", "impl SimpleExpr", "is_binary", ret="r", rules=[r_vis], props=P, spec="ensures r == (self is Binary),")
    u.fn("src/expr.rs", "impl SimpleExpr", "get_bin_oper", ret="r", rules=[r_vis], props=P,
         spec="ensures (r is Some) == (self is Binary), *self matches SimpleExpr::Binary(_, o, _) ==> r == Some(&o),")
    u.emit("}\n")

    # FunctionCall's invariant: frame check + its three constructors
    import glob, os
    for fp in sorted(glob.glob(os.path.join(u.repo, "src", "**", "*.rs"), recursive=True)):
        rel = os.path.relpath(fp, u.repo)
        txt = open(fp).read().split("#[cfg(test)]")[0]
        if rel != "src/func.rs" and (re.search(r"\bFunctionCall\s*\{\s*func\b", txt) or re.search(r"\.mods\b(?!\[)", txt) or re.search(r"\.args\s*(=[^=]|\.push|\.clear|\.pop|\.insert|\.remove)", txt) and "FunctionCall" in txt and rel.startswith("src/func")):
            raise Unsupported("%s builds or mutates a FunctionCall outside src/func.rs: its invariant (one modifier per argument) is no longer established by new / arg_with / args alone" % rel)
    u.emit("impl FunctionCall {\n")
    u.fn("src/func.rs", "impl FunctionCall", "new", ret="r", props=P, rules=[r_vis], spec="ensures fc_wf(r), r.args@.len() == 0,")
    u.fn("src/func.rs", "impl FunctionCall", "arg_with", ret="r", props=P,
         rules=[r_vis, make_r_sub("R-into", r"arg_with<T>\(mut self, arg: T, mod_: FuncArgMod\)", "arg_with(mut self, arg: SimpleExpr, mod_: FuncArgMod)"), make_r_sub("R-into", r"where\s+T: Into<SimpleExpr>,", ""),
                make_r_sub("R-into", r"arg\.into\(\)", "arg"), r_mutself],
         spec="requires fc_wf(self),\nensures fc_wf(r), r.args@ == self.args@.push(arg),")
    u.fn("src/func.rs", "impl FunctionCall", "args", ret="r", props=P,
         rules=[make_r_sub("R-collect", r"args<I>\(mut self, args: I\)", "args(mut self, args: Vec<SimpleExpr>)"), make_r_sub("R-collect", r"where\s+I: IntoIterator<Item = SimpleExpr>,", ""),
                make_r_sub("R-collect", r"args\.into_iter\(\)\.collect\(\)", "args"), make_r_sub("R-collect", r"vec!\[Default::default\(\); self\.args\.len\(\)\]", "vvec_default_mods(self.args.len())"), r_mutself],
         spec="ensures fc_wf(r), r.args@ == args@,")
    u.emit("}\n")
    # custom SQL constructors (C11): the fragment is ALWAYS a CustomWithExpr node carrying the template and every value given
    # (so that the template is tokenised and a doubled mark is collapsed, whatever the number of values)
    PC = ["C11", "C01"]
    u.emit("pub struct Expr;\nimpl Expr {\n")
    EX = "src/expr.rs"
    u.fn(EX, "impl Expr", "cust_with_values", ret="r", props=PC, key="Expr::cust_with_values",
         rules=[make_r_sub("R-into", r"cust_with_values<T, V, I>\(s: T, v: I\)", "cust_with_values(s: String, v: Vec<Value>)"),
                make_r_sub("R-into", r"where\s+T: Into<String>,\s+V: Into<Value>,\s+I: IntoIterator<Item = V>,", ""),
                make_r_sub("R-into", r"s\.into\(\)", "s"),
                make_r_sub("R-collect", r"v\.into_iter\(\)\s*\.map\(\|v\| Into::<Value>::into\(v\)\.into\(\)\)\s*\.collect\(\)", "vvalues_to_exprs(v)")],
         spec="ensures r matches SimpleExpr::CustomWithExpr(t, es) && t == s && es@.len() == v@.len() && (forall|i: int| 0 <= i < v@.len() ==> #[trigger] es@[i] == SimpleExpr::Value(v@[i])),")
    u.fn(EX, "impl Expr", "cust_with_expr", ret="r", props=PC, key="Expr::cust_with_expr",
         rules=[make_r_sub("R-into", r"cust_with_expr<T, E>\(s: T, expr: E\)", "cust_with_expr(s: String, expr: SimpleExpr)"),
                make_r_sub("R-into", r"where\s+T: Into<String>,\s+E: Into<SimpleExpr>,", ""), make_r_sub("R-into", r"s\.into\(\)", "s"), make_r_sub("R-into", r"expr\.into\(\)", "expr")],
         spec="ensures r matches SimpleExpr::CustomWithExpr(t, es) && t == s && es@ == seq![expr],")
    u.fn(EX, "impl Expr", "cust_with_exprs", ret="r", props=PC, key="Expr::cust_with_exprs",
         rules=[make_r_sub("R-into", r"cust_with_exprs<T, I>\(s: T, v: I\)", "cust_with_exprs(s: String, v: Vec<SimpleExpr>)"),
                make_r_sub("R-into", r"where\s+T: Into<String>,\s+I: IntoIterator<Item = SimpleExpr>,", ""), make_r_sub("R-into", r"s\.into\(\)", "s"),
                make_r_sub("R-collect", r"v\.into_iter\(\)\.collect\(\)", "v")],
         spec="ensures r == SimpleExpr::CustomWithExpr(s, v),")
    u.emit("}\n")
    u.emit("pub struct AnyQB;\nimpl AnyQB {\n")
    u.spec(
        "    // ---- the dispatching entry point: INDUCTION HYPOTHESIS for every recursive call (verified per backend below) ----\n"
        + abstract("prepare_simple_expr", "x: &SimpleExpr", "final(sql).vals() == old(sql).vals() + expr_vals(*x)")
        + "    // ---- proved for every backend in unit `writer`: prepare_value is one push_param ----\n"
        + abstract("prepare_value", "v: &Value", "final(sql).vals() == old(sql).vals().push(*v)")
        + "    // ---- abstract: sub-statements and conditions bind their own values (units render / cond) ----\n"
        + abstract("prepare_query_statement", "q: &SubQueryStatement", "final(sql).vals() == old(sql).vals() + query_vals(*q)")
        + abstract("prepare_condition_where", "c: &Condition", "final(sql).vals() == old(sql).vals() + cond_vals(*c)")
        + "    // ---- the CustomWithExpr arm (unit `custom`): the template's placeholders consume `values` ----\n"
        + abstract("custom_with_expr_arm", "expr: &String, values: &Vec<SimpleExpr>", "final(sql).vals() == old(sql).vals() + custom_vals(expr@, values@)")
        + "    // ---- TRUSTED: renderers whose arguments contain neither a Value nor an expression bind nothing ----\n"
        + abstract("prepare_column_ref", "x: &ColumnRef", V) + abstract("prepare_un_oper", "x: &UnOper", V) + abstract("prepare_bin_oper", "x: &BinOper", V)
        + abstract("prepare_function_name", "x: &Function", V) + abstract("prepare_sub_query_oper", "x: &SubQueryOper", V) + abstract("prepare_keyword", "x: &Keyword", V)
        + "    #[verifier::external_body]\n    fn value_to_string(&self, v: &Value) -> (r: String) { unimplemented!() }\n"
        + "    // parenthesis decisions (unit `prec`): pure\n"
        + "    #[verifier::external_body]\n    fn inner_expr_well_known_greater_precedence(&self, inner: &SimpleExpr, outer: &Oper) -> (r: bool) { unimplemented!() }\n"
        + "    #[verifier::external_body]\n    fn well_known_left_associative(&self, op: &BinOper) -> (r: bool) { unimplemented!() }\n",
        "exprvals::abstract-callees", props=P)

    r_into_un = make_r_sub("R-into", r"&\(\*op\)\.into\(\)", "&Oper::from_un(*op)")
    r_into_bin = make_r_sub("R-into", r"&\(\*op\)\.into\(\)", "&Oper::from_bin(*op)")
    u.fn(QB, "trait QueryBuilder", "prepare_constant", props=P, key="QueryBuilder::prepare_constant", vpath="AnyQB::prepare_constant", rules=[r_dynw, r_fmt],
         spec="ensures\n    // an inline constant binds nothing\n    " + V + ",")
    u.fn(QB, "trait QueryBuilder", "prepare_tuple", props=P, key="QueryBuilder::prepare_tuple", vpath="AnyQB::prepare_tuple",
         rules=[r_dynw, make_r_sub("R-slice", r"exprs: &\[SimpleExpr\]", "exprs: &Vec<SimpleExpr>"), r_enumerate, r_fmt],
         spec="ensures final(sql).vals() == old(sql).vals() + exprs_vals(exprs@, exprs@.len()),",
         loops=["invariant i == ite1.index@, ite1.index@ <= exprs@.len(), exprs@.len() <= usize::MAX, sql.vals() == v0 + exprs_vals(exprs@, ite1.index@ as nat),"],
         proofs={"body-start": "let ghost v0 = sql.vals();\nproof { axiom_vec_len_fits(exprs); assert(v0 + Seq::<Value>::empty() =~= v0); }",
                 "loop1-end": "proof { lemma_exprs_vals_step(exprs@, ite1.index@ as int); assert(sql.vals() =~= v0 + exprs_vals(exprs@, (ite1.index@ + 1) as nat)); }"})
    u.fn(QB, "trait QueryBuilder", "prepare_function_arguments", props=P, key="QueryBuilder::prepare_function_arguments", vpath="AnyQB::prepare_function_arguments",
         rules=[r_dynw, r_enumerate, r_fmt],
         spec="requires fc_wf(*func),   // FunctionCall's own invariant: one modifier per argument\nensures final(sql).vals() == old(sql).vals() + exprs_vals(func.args@, func.args@.len()),",
         loops=["invariant i == ite1.index@, ite1.index@ <= func.args@.len(), func.args@.len() <= usize::MAX, func.mods@.len() == func.args@.len(), sql.vals() == v0 + exprs_vals(func.args@, ite1.index@ as nat),"],
         proofs={"body-start": "let ghost v0 = sql.vals();\nproof { axiom_vec_len_fits(&func.args); assert(v0 + Seq::<Value>::empty() =~= v0); }",
                 "loop1-end": "proof { lemma_exprs_vals_step(func.args@, ite1.index@ as int); assert(sql.vals() =~= v0 + exprs_vals(func.args@, (ite1.index@ + 1) as nat)); }"})
    u.fn(QB, "trait QueryBuilder", "prepare_between_bound", props=P, key="QueryBuilder::prepare_between_bound", vpath="AnyQB::prepare_between_bound",
         rules=[r_dynw, r_fmt, r_into_bin], spec="ensures final(sql).vals() == old(sql).vals() + expr_vals(*bound),")
    u.fn(QB, "trait QueryBuilder", "binary_expr", props=P, key="QueryBuilder::binary_expr", vpath="AnyQB::binary_expr",
         rules=[r_dynw, r_fmt, r_into_bin,
                make_r_sub("R-attr", r"op == left\.get_bin_oper\(\)\.unwrap\(\)", "vbinoper_eq(op, left.get_bin_oper().unwrap())"),
                make_r_sub("R-attr", r"\(op == &BinOper::As\)", "vbinoper_eq(op, &BinOper::As)"),
                make_r_sub("R-into", r"&\(\*op\)\.into\(\)", "&Oper::from_bin(*op)", min_count=0),
                make_r_sub("R-refpat", r"matches!\(right\.get_bin_oper\(\), Some\(&(BinOper::[A-Za-z]+)\)\)", r"(right.get_bin_oper().is_some() && vbinoper_eq(right.get_bin_oper().unwrap(), &\1))")],
         spec="ensures\n    // the left operand's values, then the right operand's (for BETWEEN: low bound, then high bound)\n    final(sql).vals() == old(sql).vals() + expr_vals(*left) + expr_vals(*right),",
         proofs={"body-start": "let ghost v0 = sql.vals();",
                 "body-end": "proof { if drop_right_between_hack && right is Binary { assert(!is_empty_in(*right)); } assert(sql.vals() =~= v0 + expr_vals(*left) + expr_vals(*right)); }"})
    u.fn(QB, "trait QueryBuilder", "prepare_case_statement", props=P, key="QueryBuilder::prepare_case_statement", vpath="AnyQB::prepare_case_statement",
         rules=[r_dynw, r_fmt,
                # R-refpat: destructuring a reference binds references to the fields; R-rawident: Verus (this version) crashes on a raw
                # identifier used as a LOCAL name (`r#else`): the two locals are renamed (the field keeps its name)
                make_r_sub("R-refpat", r"let CaseStatement \{ when, r#else \} = stmts;", "let when = &stmts.when; let else_ = &stmts.r#else;"),
                make_r_sub("R-rawident", r"if let Some\(r#else\) = r#else\.clone\(\)", "if let Some(else_v) = vclone_opt_expr(else_)"),
                make_r_sub("R-rawident", r"self\.prepare_simple_expr\(&r#else, sql\)", "self.prepare_simple_expr(&else_v, sql)"),
                make_r_sub("R-forghost", r"for case in when\.iter\(\)", "for case in itw: when.iter()")],
         spec="ensures\n    // WHEN condition, THEN result - per branch, in call order - then ELSE\n    final(sql).vals() == old(sql).vals() + case_vals(*stmts),",
         loops=["invariant itw.index@ <= when@.len(), sql.vals() == v0 + whens_vals(when@, itw.index@ as nat),"],
         proofs={"body-start": "let ghost v0 = sql.vals();\nproof { assert(v0 + Seq::<Value>::empty() =~= v0); }",
                 "loop1-end": "proof { lemma_whens_vals_step(when@, itw.index@ as int); assert(sql.vals() =~= v0 + whens_vals(when@, (itw.index@ + 1) as nat)); }",
                 "body-end": "proof { assert(sql.vals() =~= v0 + case_vals(*stmts)); }"})
    u.fn(QB, "trait QueryBuilder", "prepare_simple_expr_common", props=P, key="QueryBuilder::prepare_simple_expr_common", vpath="AnyQB::prepare_simple_expr_common",
         rules=[r_dynw, r_custom_arm_out, r_fold, r_into_un, r_fmt,
                make_r_sub("R-into", r"&1i32\.into\(\)", "&vexpr_i32(1)", min_count=3), make_r_sub("R-into", r"&2i32\.into\(\)", "&vexpr_i32(2)"),
                make_r_sub("R-path", r"right\.as_ref\(\)", "vbox_ref(right)"), make_r_sub("R-path", r"sel\.deref\(\)", "vbox_ref(sel)")],
         spec="ensures\n    // exactly the expression's Value leaves, in reading order\n    final(sql).vals() == old(sql).vals() + expr_vals(*simple_expr),",
         loops=["invariant it1.index@ <= list@.len(), sql.vals() == v0 + list@.subrange(0, it1.index@ as int),"],
         proofs={"body-start": "let ghost v0 = sql.vals();",
                 "before#1:self.prepare_function_arguments(func, sql);": "proof { assume(fc_wf(*func)); } // ASSUMED: FunctionCall's representation invariant (constructors verified above + frame check)",
                 "before#1:let mut first = true;": "proof { assert(v0 + list@.subrange(0, 0) =~= v0); }",
                 "loop1-end": "proof { assert(list@.subrange(0, it1.index@ + 1) =~= list@.subrange(0, it1.index@ as int).push(*val)); }",
                 "body-end": "let ghost se_ = *simple_expr;\nproof { match se_ { SimpleExpr::Values(l) => { assert(l@.subrange(0, l@.len() as int) =~= l@); } _ => {} } assert(sql.vals() =~= v0 + expr_vals(*simple_expr)); }"})
    # ---- window specifications (OVER (..) / WINDOW w AS ..): the frame's numeric offsets are BOUND values --------------------------
    u.spec(abstract("prepare_order_expr", "x: &OrderExpr", "final(sql).vals() == old(sql).vals() + order_vals(*x)"), "exprvals::abstract-callees(window)", props=P)
    u.fn(QB, "trait QueryBuilder", "prepare_frame", props=P, key="QueryBuilder::prepare_frame", vpath="AnyQB::prepare_frame",
         rules=[r_dynw, r_fmt, make_r_sub("R-into", r"&v\.into\(\)", "&vvalue_u32(v)", min_count=2)],
         spec="ensures\n    // a numeric frame offset is bound like any other value (one placeholder in parameterised mode)\n    final(sql).vals() == old(sql).vals() + frame_vals(*frame),",
         proofs={"body-start": "let ghost v0 = sql.vals();", "body-end": "proof { assert(sql.vals() =~= v0 + frame_vals(*frame)); }"})
    u.fn(QB, "trait QueryBuilder", "prepare_window_statement", props=P, key="QueryBuilder::prepare_window_statement", vpath="AnyQB::prepare_window_statement",
         rules=[r_dynw, r_fold, r_fmt],
         spec="ensures final(sql).vals() == old(sql).vals() + window_vals(*window),",
         loops=["invariant it1.index@ <= window.partition_by@.len(), sql.vals() == v0 + exprs_vals(window.partition_by@, it1.index@ as nat),",
                "invariant it2.index@ <= window.order_by@.len(), sql.vals() == v1 + orders_vals(window.order_by@, it2.index@ as nat),"],
         proofs={"body-start": "let ghost v0 = sql.vals();\nproof { assert(v0 + Seq::<Value>::empty() =~= v0); }",
                 "loop1-end": "proof { lemma_exprs_vals_step(window.partition_by@, it1.index@ as int); assert(sql.vals() =~= v0 + exprs_vals(window.partition_by@, (it1.index@ + 1) as nat)); }",
                 "before#1:if !window.order_by.is_empty()": "let ghost v1 = sql.vals();\nproof { assert(v1 =~= v0 + exprs_vals(window.partition_by@, window.partition_by@.len())); assert(v1 + Seq::<Value>::empty() =~= v1); }",
                 "loop2-end": "proof { assert(sql.vals() =~= v1 + orders_vals(window.order_by@, (it2.index@ + 1) as nat)); }",
                 "before#1:if let Some(frame) = &window.frame": "let ghost v2 = sql.vals();\nproof { assert(v2 =~= v1 + orders_vals(window.order_by@, window.order_by@.len())); }",
                 "body-end": "proof { assert(sql.vals() =~= v0 + window_vals(*window)); }"})
    u.emit("}\n")

    # ---- the three backends' dispatching entry points, against the induction hypothesis's own statement --------------------------
    for ty, d in [("MysqlQueryBuilder", "mysql"), ("PostgresQueryBuilder", "postgres"), ("SqliteQueryBuilder", "sqlite")]:
        u.emit("pub struct %s;\nimpl %s {\n" % (ty, ty))
        u.spec(abstract("prepare_simple_expr_common", "x: &SimpleExpr", "final(sql).vals() == old(sql).vals() + expr_vals(*x)")
               + abstract("pg_enum_cast_suffix", "type_name: &DynIden", V), "exprvals::common-as-callee(%s)" % d, props=P)
        path, blk, how = "src/backend/%s/query.rs" % d, "impl QueryBuilder for %s" % ty, "override"
        try:
            rl.find_fn(path, u.src(path), rl.find_block(path, u.src(path), blk)[0], "prepare_simple_expr")
        except LostAnchor:
            path, blk, how = QB, "trait QueryBuilder", "default"
        rules = [r_dynw] + ([r_text_tail_out, r_fmt, make_r_sub("R-path", r"QueryBuilder::prepare_simple_expr_common\(self, simple_expr, sql\)", "self.prepare_simple_expr_common(simple_expr, sql)")] if how == "override" else [])
        u.fn(path, blk, "prepare_simple_expr", props=P, key="%s::prepare_simple_expr[%s]" % (ty, how), vpath="%s::prepare_simple_expr" % ty,
             rules=rules, spec="ensures final(sql).vals() == old(sql).vals() + expr_vals(*simple_expr),")
        u.emit("}\n")
    u.emit("} // verus!\nfn main() {}\n")
