// =============================================================================================
// unit `exprvals` - specification (hand-written) for C01 at EXPRESSION level.
// The writer is abstracted to the sequence of values bound so far (`vals`); text operations do not
// change it, `prepare_value(v)` appends v (proved for every backend in unit `writer`).
// THEOREM (per function): rendering an expression binds exactly the values of its Value leaves, in
// READING ORDER of the rendered SQL (left operand before right operand, WHEN before THEN before ELSE,
// arguments / tuple members / list members in call order) - none lost, none duplicated, none moved.
// Inline-only positions (Constant, custom text, keywords, identifiers) bind nothing.
// =============================================================================================
pub trait VWrite {
    spec fn vals(&self) -> Seq<Value>;
    // fmt::Write::write_str (both writers, proved in unit `writer`): text only
    fn vpush(&mut self, s: &str) ensures final(self).vals() == old(self).vals();
}
fn vfmt_lit<W: VWrite>(w: &mut W, x: &str) ensures final(w).vals() == old(w).vals() { w.vpush(x) }
fn vfmt_disp<W: VWrite, T>(w: &mut W, x: &T) ensures final(w).vals() == old(w).vals() { w.vpush("") }

// sub-statements / conditions: abstract here (statement level is unit `render`, conditions unit `cond`)
pub uninterp spec fn query_vals(q: SubQueryStatement) -> Seq<Value>;
pub uninterp spec fn cond_vals(c: Condition) -> Seq<Value>;
// custom SQL with values: which values a template consumes, in template order (the arm itself is verified in unit `custom`)
pub uninterp spec fn custom_vals(template: Seq<char>, values: Seq<SimpleExpr>) -> Seq<Value>;
// the two literals of the `x IN ()` / `x NOT IN ()` rewrite (`1 = 2` / `1 = 1`)
pub uninterp spec fn int_value(i: int) -> Value;

pub open spec fn exprs_vals(es: Seq<SimpleExpr>, n: nat) -> Seq<Value>
    decreases es, n
{
    if n == 0 || n > es.len() { Seq::<Value>::empty() } else { exprs_vals(es, (n - 1) as nat) + expr_vals(es[n - 1]) }
}
pub open spec fn whens_vals(ws: Seq<CaseStatementCondition>, n: nat) -> Seq<Value>
    decreases ws, n
{
    if n == 0 || n > ws.len() { Seq::<Value>::empty() } else { whens_vals(ws, (n - 1) as nat) + cond_vals(ws[n - 1].condition) + expr_vals(ws[n - 1].result) }
}
pub open spec fn case_vals(c: CaseStatement) -> Seq<Value>
    decreases c
{
    whens_vals(c.when@, c.when@.len()) + (match c.r#else { Some(x) => expr_vals(x), None => Seq::<Value>::empty() })
}
pub open spec fn is_empty_in(e: SimpleExpr) -> bool {
    e matches SimpleExpr::Binary(_, op, r) && (op == BinOper::In || op == BinOper::NotIn) && (*r matches SimpleExpr::Tuple(t) && t@.len() == 0)
}
pub open spec fn expr_vals(e: SimpleExpr) -> Seq<Value>
    decreases e
{
    match e {
        SimpleExpr::Column(_) => Seq::<Value>::empty(),
        SimpleExpr::Tuple(es) => exprs_vals(es@, es@.len()),
        SimpleExpr::Unary(_, x) => expr_vals(*x),
        SimpleExpr::FunctionCall(f) => exprs_vals(f.args@, f.args@.len()),
        SimpleExpr::Binary(l, op, r) =>
            // `x IN ()` is rendered as the constant predicate `1 = 2` (`x NOT IN ()` as `1 = 1`): x is not rendered at all,
            // the two literals are bound instead (by design: the empty list has no SQL spelling)
            if is_empty_in(e) { seq![int_value(1), int_value(if op == BinOper::In { 2int } else { 1int })] }
            else { expr_vals(*l) + expr_vals(*r) },
        SimpleExpr::SubQuery(_, q) => query_vals(*q),
        SimpleExpr::Value(v) => seq![v],
        SimpleExpr::Values(vs) => vs@,
        SimpleExpr::Custom(_) => Seq::<Value>::empty(),
        SimpleExpr::CustomWithExpr(t, vs) => custom_vals(t@, vs@),
        SimpleExpr::Keyword(_) => Seq::<Value>::empty(),
        SimpleExpr::AsEnum(_, x) => expr_vals(*x),
        SimpleExpr::Case(c) => case_vals(*c),
        SimpleExpr::Constant(_) => Seq::<Value>::empty(),
    }
}
pub proof fn lemma_exprs_vals_step(es: Seq<SimpleExpr>, i: int)
    requires 0 <= i < es.len()
    ensures exprs_vals(es, (i + 1) as nat) == exprs_vals(es, i as nat) + expr_vals(es[i])
{}
pub proof fn lemma_whens_vals_step(ws: Seq<CaseStatementCondition>, i: int)
    requires 0 <= i < ws.len()
    ensures whens_vals(ws, (i + 1) as nat) == whens_vals(ws, i as nat) + cond_vals(ws[i].condition) + expr_vals(ws[i].result)
{}

// ---- window specifications: partition expressions, order items, then the frame's numeric offsets (start before end) ----
pub uninterp spec fn u32_value(v: u32) -> Value;
pub uninterp spec fn order_vals(o: OrderExpr) -> Seq<Value>;
pub open spec fn orders_vals(os: Seq<OrderExpr>, n: nat) -> Seq<Value>
    decreases n
{ if n == 0 || n > os.len() { Seq::<Value>::empty() } else { orders_vals(os, (n - 1) as nat) + order_vals(os[n - 1]) } }
pub open spec fn frame_vals(f: Frame) -> Seq<Value> {
    match f { Frame::Preceding(v) => seq![u32_value(v)], Frame::Following(v) => seq![u32_value(v)], _ => Seq::<Value>::empty() }
}
pub open spec fn window_vals(w: WindowStatement) -> Seq<Value> {
    exprs_vals(w.partition_by@, w.partition_by@.len()) + orders_vals(w.order_by@, w.order_by@.len())
        + (match w.frame { Some(fc) => frame_vals(fc.start) + (match fc.end { Some(e) => frame_vals(e), None => Seq::<Value>::empty() }), None => Seq::<Value>::empty() })
}
// R-into (trusted): `v.into()` of a u32 is the Value of that u32 (macro-generated From<u32>, Kani harness full_rt_u32)
#[verifier::external_body]
fn vvalue_u32(v: u32) -> (r: Value) ensures r == u32_value(v) { unimplemented!() }

// ---- shims --------------------------------------------------------------------------------------------------------
// R-attr (trusted): #[derive(PartialEq)] on BinOper is structural equality
#[verifier::external_body]
fn vbinoper_eq(a: &BinOper, b: &BinOper) -> (r: bool) ensures r == (*a == *b) { unimplemented!() }
// R-into (trusted): `1i32.into()` is SimpleExpr::Value of the i32
#[verifier::external_body]
fn vexpr_i32(i: i32) -> (r: SimpleExpr) ensures r == SimpleExpr::Value(int_value(i as int)) { unimplemented!() }
// R-attr (trusted): #[derive(Clone)] is a structural copy
#[verifier::external_body]
fn vclone_opt_expr(x: &Option<SimpleExpr>) -> (r: Option<SimpleExpr>) ensures r == *x { unimplemented!() }
fn vbox_ref<T>(b: &Box<T>) -> (r: &T) ensures *r == **b { &**b }
// TRUSTED (std): a Vec's length is a usize (Vec::len returns one)
#[verifier::external_body]
pub proof fn axiom_vec_len_fits<T>(v: &Vec<T>) ensures v@.len() <= usize::MAX {}
impl Oper {
    // operator classes only decide parentheses (unit `prec`); nothing here depends on their value
    #[verifier::external_body] fn is_between(&self) -> (r: bool) { unimplemented!() }
    #[verifier::external_body] fn is_like(&self) -> (r: bool) { unimplemented!() }
    fn from_un(o: UnOper) -> (r: Oper) { Oper::UnOper(o) }
    fn from_bin(o: BinOper) -> (r: Oper) { Oper::BinOper(o) }
}

// FunctionCall's representation invariant: one modifier per argument (established by its only constructors new / arg_with /
// args, verified below; the fields are pub(crate) and written nowhere else - checked syntactically on every run)
pub open spec fn fc_wf(f: FunctionCall) -> bool { f.mods@.len() == f.args@.len() }
// R-collect / vec! (trusted): `iter.into_iter().collect()` of a Vec is that Vec; `vec![d; n]` has n elements
#[verifier::external_body]
fn vvec_default_mods(n: usize) -> (r: Vec<FuncArgMod>) ensures r@.len() == n { unimplemented!() }

// R-collect (trusted): `v.into_iter().map(|v| Into::<Value>::into(v).into()).collect()` of values is the list of their
// SimpleExpr::Value wrappers, in order
#[verifier::external_body]
fn vvalues_to_exprs(v: Vec<Value>) -> (r: Vec<SimpleExpr>)
    ensures r@.len() == v@.len(), forall|i: int| 0 <= i < v@.len() ==> #[trigger] r@[i] == SimpleExpr::Value(v@[i])
{ unimplemented!() }
