"""unit `take`  ->  C15: take / clear / reset behave as value operations on builders.

Under contract: the 12 take() functions (SelectStatement, WindowStatement, IndexCreateStatement, TableIndex,
ForeignKeyCreateStatement, TableForeignKey, ColumnDef, TableAlterStatement, TableCreateStatement, TableRenameStatement,
TableTruncateStatement, TableDropStatement) and SelectStatement::{new, clear_selects, from_clear, reset_limit,
reset_offset, clear_order_by}.  Struct definitions are extracted verbatim; every type a struct mentions that is not
itself extracted is made opaque (R-opaque) - the extracted code only moves such values.
The `all fields are at their default` predicate is GENERATED from the extracted struct on every run, so a field that
is added later and forgotten in take() (or cloned instead of moved) fails.
"""
import re
from vlib import rustlex as rl
from vlib.gen import make_r_sub, r_retself, split_top

P = ["C15"]
STD = {"Vec", "Option", "Box", "String", "bool", "u8", "u16", "u32", "u64", "usize", "i32", "i64", "str", "Self", "crate", "extension", "postgres", "mysql"}
r_vis = make_r_sub("R-vis", r"pub\(crate\) ", "pub ", min_count=0)
r_path = make_r_sub("R-path", r"crate::extension::(postgres|mysql)::", "", min_count=0)

TAKES = [("src/query/select.rs", "SelectStatement", True), ("src/query/window.rs", "WindowStatement", True),
         ("src/index/common.rs", "TableIndex", False), ("src/index/create.rs", "IndexCreateStatement", False),
         ("src/foreign_key/common.rs", "TableForeignKey", False), ("src/foreign_key/create.rs", "ForeignKeyCreateStatement", False),
         ("src/table/column.rs", "ColumnDef", False), ("src/table/alter.rs", "TableAlterStatement", False),
         ("src/table/create.rs", "TableCreateStatement", False), ("src/table/rename.rs", "TableRenameStatement", False),
         ("src/table/truncate.rs", "TableTruncateStatement", False), ("src/table/drop.rs", "TableDropStatement", False)]

SHIMS = r'''
// ---- trusted shims (R-mem, R-attr) ------------------------------------------------------------------------------
// std::mem::take(x) returns the old value and leaves Default::default() (an empty Vec / None)
pub trait VTake: Sized {
    spec fn is_dflt(&self) -> bool;
    fn vtake(&mut self) -> (r: Self) ensures r == *old(self), final(self).is_dflt();
}
impl<T> VTake for Vec<T> {
    open spec fn is_dflt(&self) -> bool { self@.len() == 0 }
    #[verifier::external_body] fn vtake(&mut self) -> (r: Self) { std::mem::take(self) }
}
impl<T> VTake for Option<T> {
    open spec fn is_dflt(&self) -> bool { *self is None }
    #[verifier::external_body] fn vtake(&mut self) -> (r: Self) { std::mem::take(self) }
}
// std::mem::replace(x, v) returns the old value and leaves v
#[verifier::external_body]
fn vmem_replace<T>(x: &mut T, v: T) -> (r: T) ensures r == *old(x), *final(x) == v { std::mem::replace(x, v) }
// #[derive(Clone)]: a structural copy
#[verifier::external_body]
fn vclone<T>(x: &T) -> (r: T) ensures r == *x { unimplemented!() }
// SeaRc::new(NullAlias::new()): the placeholder identifier ColumnDef::take leaves behind
#[verifier::external_body]
fn vnull_iden() -> (r: DynIden) { unimplemented!() }
pub struct ConditionHolder { pub contents: ConditionHolderContents }
pub enum ConditionHolderContents { Empty, Chain(Vec<LogicalChainOper>), Condition(Condition) }
// #[derive(Default)] on ConditionHolder: contents Empty (#[default]); std::mem::take leaves it
impl VTake for ConditionHolder {
    open spec fn is_dflt(&self) -> bool { self.contents is Empty }
    #[verifier::external_body] fn vtake(&mut self) -> (r: Self) { unimplemented!() }
}
impl ConditionHolder {
    // ConditionHolder::new() == Self::default(): contents Empty (verified in unit `cond`)
    #[verifier::external_body]
    pub fn new() -> (r: Self) ensures r.contents is Empty { unimplemented!() }
}
'''


def fields_of(text):
    o, c = text.index("{"), text.rindex("}")
    out = []
    for f in split_top(text[o + 1:c]):
        m = re.match(r"\s*(?:pub(?:\([a-z]+\))?\s+)?(r#)?([a-z_0-9]+)\s*:\s*(.*)$", f.strip(), re.S)
        if m:
            out.append(((m.group(1) or "") + m.group(2), m.group(3).strip()))
    return out


def dflt_pred(fields):
    cl = []
    for name, ty in fields:
        if ty.startswith("Vec<"):
            cl.append("s.%s@.len() == 0" % name)
        elif ty.startswith("Option<"):
            cl.append("s.%s is None" % name)
        elif ty == "ConditionHolder":
            cl.append("s.%s.contents is Empty" % name)
        elif ty == "bool":
            cl.append("!s.%s" % name)
        else:
            raise rl.Unsupported("no default rule for field %s: %s" % (name, ty))
    return " && ".join(cl) if cl else "true"


APPENDER_SHIMS = """// Vec::extend(iter) (trusted, R-collect): appends the items in order
#[verifier::external_body]
fn vextend<T>(v: &mut Vec<T>, items: Vec<T>) ensures final(v)@ == old(v)@ + items@ { unimplemented!() }
// R-collect (trusted): `v.into_iter().collect()` / `.map(|c| c.into())` into the same type is the list itself, in order
#[verifier::external_body]
fn vcollect<T>(v: Vec<T>) -> (r: Vec<T>) ensures r@ == v@ { unimplemented!() }
// u64 -> Value (macro-generated From, checked by the Kani harnesses / unit value): some value of the number
#[verifier::external_body]
fn vvalue_u64(x: u64) -> (r: Value) { unimplemented!() }
"""


def select_appenders(u, fl, PB, generic=False):
    """the APPENDERS every other builder method of a SELECT funnels through (C08: items in call order; C01: nothing given is lost): each
    appends to exactly one list (or sets one field) and leaves every other field alone (frame over the GENERATED field list).
    Emitted inside an open `impl SelectStatement {` (also used by unit builders, whose wrappers call them)."""
    allf = [n for n, _ in fl]
    S = "src/query/select.rs"

    def frame(changed):
        return ", ".join("final(self).%s == old(self).%s" % (n, n) for n in allf if n != changed)
    r_inh = make_r_sub("R-inherent", r"^(\s*)pub fn", r"\1fn", flags=re.M, min_count=0)
    if generic:
        # unit builders: generic in the contracted conversion interface VInto<SelectExpr> (a conversion is a function of its argument)
        r_vinto = make_r_sub("R-into", r"\bInto<SelectExpr>", "VInto<SelectExpr>")
        u.fn(S, "impl SelectStatement", "expr", props=PB, key="SelectStatement::expr", vpath="SelectStatement::expr", rules=[r_retself, r_vinto],
             spec="ensures final(self).selects@ == old(self).selects@.push(expr.sp_into()), %s," % frame("selects"))
        u.fn(S, "impl SelectStatement", "exprs", props=PB, key="SelectStatement::exprs", vpath="SelectStatement::exprs",
             rules=[r_retself, r_vinto, make_r_sub("R-collect", r"exprs<T, I>\(&mut self, exprs: I\)", "exprs<T>(&mut self, exprs: Vec<T>)"), make_r_sub("R-collect", r"\s+I: IntoIterator<Item = T>,", ""),
                    make_r_sub("R-collect", r"exprs\.into_iter\(\)\.map\(\|c\| c\.into\(\)\)\.collect\(\)", "vmap_into(exprs)")],
             spec="ensures final(self).selects@ == old(self).selects@ + exprs@.map_values(|e: T| e.sp_into()), %s," % frame("selects"))
    else:
        u.fn(S, "impl SelectStatement", "expr", props=PB, key="SelectStatement::expr", vpath="SelectStatement::expr",
             rules=[r_retself, make_r_sub("R-into", r"expr<T>\(&mut self, expr: T\)", "expr(&mut self, expr: SelectExpr)"), make_r_sub("R-into", r"where\s+T: Into<SelectExpr>,", ""), make_r_sub("R-into", r"expr\.into\(\)", "expr")],
             spec="ensures final(self).selects@ == old(self).selects@.push(expr), %s," % frame("selects"))
        u.fn(S, "impl SelectStatement", "exprs", props=PB, key="SelectStatement::exprs", vpath="SelectStatement::exprs",
             rules=[r_retself, make_r_sub("R-collect", r"exprs<T, I>\(&mut self, exprs: I\)", "exprs(&mut self, exprs: Vec<SelectExpr>)"), make_r_sub("R-collect", r"where\s+T: Into<SelectExpr>,\s+I: IntoIterator<Item = T>,", ""),
                    make_r_sub("R-collect", r"exprs\.into_iter\(\)\.map\(\|c\| c\.into\(\)\)\.collect\(\)", "vcollect(exprs)")],
             spec="ensures final(self).selects@ == old(self).selects@ + exprs@, %s," % frame("selects"))
    u.fn(S, "impl SelectStatement", "from_from", props=PB, key="SelectStatement::from_from", vpath="SelectStatement::from_from", rules=[r_retself],
         spec="ensures final(self).from@ == old(self).from@.push(select), %s," % frame("from"))
    u.fn(S, "impl SelectStatement", "add_group_by", props=PB, key="SelectStatement::add_group_by", vpath="SelectStatement::add_group_by",
         rules=[r_retself, make_r_sub("R-collect", r"add_group_by<I>\(&mut self, expr: I\)", "add_group_by(&mut self, expr: Vec<SimpleExpr>)"), make_r_sub("R-collect", r"where\s+I: IntoIterator<Item = SimpleExpr>,", ""),
                make_r_sub("R-collect", r"expr\.into_iter\(\)\.collect\(\)", "vcollect(expr)")],
         spec="ensures final(self).groups@ == old(self).groups@ + expr@, %s," % frame("groups"))
    u.fn(S, "impl OrderedStatement for SelectStatement", "add_order_by", props=PB, key="SelectStatement::add_order_by", vpath="SelectStatement::add_order_by", rules=[r_retself, r_inh],
         spec="ensures final(self).orders@ == old(self).orders@.push(order), %s," % frame("orders"))
    u.fn(S, "impl SelectStatement", "union", props=PB, key="SelectStatement::union", vpath="SelectStatement::union", rules=[r_retself],
         spec="ensures final(self).unions@ == old(self).unions@.push((union_type, query)), %s," % frame("unions"))
    u.fn(S, "impl SelectStatement", "unions", props=PB, key="SelectStatement::unions", vpath="SelectStatement::unions",
         rules=[r_retself, make_r_sub("R-collect", r"unions<T: IntoIterator<Item = \(UnionType, SelectStatement\)>>\(\s*&mut self,\s*unions: T,\s*\)", "unions(&mut self, unions: Vec<(UnionType, SelectStatement)>)"),
                # the argument is a Vec here (rule above): extending by it appends its elements; collecting it gives the Vec itself
                make_r_sub("R-collect", r"self\.unions\.extend\(unions\);", "vextend(&mut self.unions, unions);", min_count=0),
                make_r_sub("R-collect", r"self\.unions = unions\.into_iter\(\)\.collect\(\);", "self.unions = unions;", min_count=0)],
         spec="ensures final(self).unions@ == old(self).unions@ + unions@, %s," % frame("unions"))
    for nm in ["limit", "offset"]:
        u.fn(S, "impl SelectStatement", nm, props=PB, key="SelectStatement::" + nm, vpath="SelectStatement::" + nm,
             rules=[r_retself, make_r_sub("R-into", r"Some\(%s\.into\(\)\)" % nm, "Some(vvalue_u64(%s))" % nm)],
             spec="ensures final(self).%s is Some, %s," % (nm, frame(nm)))


def check_no_interior_mutability(u):
    """C15 `later changes to either never show in the other` / C02 `rendering never modifies the statement` rest on ownership: a clone owns
    its fields and `&self` cannot mutate.  That holds unless a type uses interior mutability or global mutable state - checked syntactically
    on every run over src/ (outside #[cfg(test)]): none of RefCell / Cell / Mutex / RwLock / Atomic* / UnsafeCell / static mut / thread_local."""
    import glob, os
    pat = re.compile(r"\b(RefCell|Cell\s*<|OnceCell|Mutex|RwLock|Atomic[A-Z][A-Za-z0-9]*|UnsafeCell|static\s+mut|thread_local!|lazy_static!|OnceLock)\b")
    for p in sorted(glob.glob(os.path.join(u.repo, "src", "**", "*.rs"), recursive=True)):
        rel = os.path.relpath(p, u.repo)
        code = u.src(rel).split("#[cfg(test)]")[0]
        code = re.sub(r"//[^\n]*", "", code)
        m = pat.search(code)
        if m:
            raise rl.Unsupported("%s uses `%s`: interior mutability / global mutable state - independence of a clone and purity of rendering are no longer consequences of ownership" % (rel, m.group(1)))


def build(u):
    check_no_interior_mutability(u)
    u.emit("use vstd::prelude::*;\nverus! {\n")
    structs, texts = {}, {}
    known = set(t for _, t, _ in TAKES) | {"ConditionHolder", "ConditionHolderContents"}
    for f, name, is_query in TAKES:
        it = rl.find_type(f, u.src(f), "struct", name)
        texts[name] = it.text
    # structs that only have a clear_* function under contract (their field types take part in the opaque-type scan)
    for f, name in [("src/query/delete.rs", "DeleteStatement"), ("src/query/update.rs", "UpdateStatement")]:
        texts[name] = rl.find_type(f, u.src(f), "struct", name).text
        known.add(name)
    # opaque declarations for every other type mentioned in the struct bodies
    mentioned = set()
    for name, t in texts.items():
        body = t[t.index("{"):]
        from vlib.gen import Ctx, r_attr, r_cfg
        body2 = r_cfg(r_attr(body, Ctx(u, name)), Ctx(u, name))
        for m in re.finditer(r"\b([A-Z][A-Za-z0-9_]*)\b", body2):
            mentioned.add(m.group(1))
    opaque = sorted(mentioned - known - STD | {"LogicalChainOper", "Condition"})
    for n in opaque:
        u.emit("#[verifier::external_body]\npub struct %s { _opaque: u8 }\n" % n, kind="spec", key="R-opaque:" + n, props=P)
    u.spec(SHIMS, "take::shims", props=P)
    r_take = [make_r_sub("R-mem", r"std::mem::take\(&mut (self\.[a-z_#0-9]+)\)", r"VTake::vtake(&mut \1)", min_count=0),
              make_r_sub("R-mem", r"std::mem::replace\(", "vmem_replace(", min_count=0),
              make_r_sub("R-attr", r"(self\.[a-z_#0-9]+)\.clone\(\)", r"vclone(&\1)", min_count=0),
              make_r_sub("R-opaque", r"SeaRc::new\(NullAlias::new\(\)\)", "vnull_iden()", min_count=0)]
    for f, name, is_query in TAKES:
        text = u.type_item(f, "struct", name, props=P, rules=[r_vis, r_path])
        fl = fields_of(text)
        structs[name] = fl
        u.emit("impl %s {\n" % name)
        if is_query:
            u.emit("    // GENERATED from the extracted struct: every field is at its Default value\n    pub open spec fn is_new(s: %s) -> bool { %s }\n" % (name, dflt_pred(fl)),
                   kind="spec", key="take::is_new[%s]" % name, props=P)
        spec = "ensures\n    // the taken statement holds ALL the state the builder had\n    r == *old(self),"
        if is_query:
            spec += "\n    // and a newly constructed statement is left behind\n    %s::is_new(*final(self))," % name
        # a statement finished with .take() must still carry every clause it was given (C08), dialect-specific ones included; the schema
        # statements' take() (table.index(&mut idx) / .col(&mut def) / .foreign_key(&mut fk) hand the element over with it) carries C14
        u.fn(f, "impl %s" % name, "take", ret="r", rules=r_take, props=P + (["C08", "C01"] if name in ("SelectStatement", "InsertStatement", "UpdateStatement", "DeleteStatement", "WindowStatement") else ["C14"]), key="%s::take" % name, spec=spec)
        if name == "SelectStatement":
            u.fn(f, "impl SelectStatement", "new", ret="r", props=P, rules=[make_r_sub("R-attr", r"Self::default\(\)", "vdefault_select()")],
                 spec="ensures SelectStatement::is_new(r),")
            allf = [n for n, _ in fl]

            def frame(changed):
                return ", ".join("final(self).%s == old(self).%s" % (n, n) for n in allf if n != changed)
            for fn, fld, post, blk in [("clear_selects", "selects", "final(self).selects@.len() == 0", "impl SelectStatement"),
                                       ("from_clear", "from", "final(self).from@.len() == 0", "impl SelectStatement"),
                                       ("reset_limit", "limit", "final(self).limit is None", "impl SelectStatement"),
                                       ("reset_offset", "offset", "final(self).offset is None", "impl SelectStatement"),
                                       ("clear_order_by", "orders", "final(self).orders@.len() == 0", "impl OrderedStatement for SelectStatement")]:
                # removing a clause must not take ANOTHER clause (or its values) with it: carried by C08 / C01 as well
                u.fn(f, blk, fn, props=P + ["C08", "C01"], rules=[r_retself, make_r_sub("R-inherent", r"^(\s*)pub fn", r"\1fn", flags=re.M, min_count=0)], key="SelectStatement::" + fn, vpath="SelectStatement::" + fn,
                     spec="ensures\n    // removes exactly that clause\n    %s,\n    // and nothing else (frame over every other field of the GENERATED field list)\n    %s," % (post, frame(fld)))
        u.emit("}\n")
    # clear_order_by of the other ordered statements: removes exactly the ordering (whole-struct frame over the GENERATED field list)
    for f, name, fld in [("src/query/delete.rs", "DeleteStatement", "orders"), ("src/query/update.rs", "UpdateStatement", "orders"), ("src/query/window.rs", "WindowStatement", "order_by")]:
        if name in structs:
            fl = structs[name]
            u.emit("impl %s {\n" % name)
        else:
            text = u.type_item(f, "struct", name, props=P, rules=[r_vis, r_path])
            fl = fields_of(text)
            u.emit("impl %s {\n" % name)
        allf = [n for n, _ in fl]
        u.fn(f, "impl OrderedStatement for %s" % name, "clear_order_by", props=P + ["C08", "C01"], rules=[r_retself, make_r_sub("R-inherent", r"^(\s*)pub fn", r"\1fn", flags=re.M, min_count=0)],
             key="%s::clear_order_by" % name, vpath="%s::clear_order_by" % name,
             spec="ensures\n    // removes exactly that clause\n    final(self).%s@.len() == 0,\n    // and nothing else\n    %s," % (fld, ", ".join("final(self).%s == old(self).%s" % (n, n) for n in allf if n != fld)))
        u.emit("}\n")
    # ---- the APPENDERS every other builder method of a SELECT funnels through (see select_appenders)
    PB = ["C08", "C01"]
    u.spec(APPENDER_SHIMS, "take::appender-shims", props=PB)
    u.emit("impl SelectStatement {\n")
    select_appenders(u, structs["SelectStatement"], PB)
    u.emit("}\n")
    u.spec("// #[derive(Default)] on SelectStatement: every field Default (trusted)\n#[verifier::external_body]\nfn vdefault_select() -> (r: SelectStatement) ensures SelectStatement::is_new(r) { unimplemented!() }\n", "take::default", props=P)
    u.emit("} // verus!\nfn main() {}\n")
