"""unit `value`  ->  C12 (conversions, parametric in the payload type) and C18 (Value::eq / Value::hash, every variant).

Complements the Kani harnesses (which decide the scalar variants over every bit pattern on the compiled crate): here the
conversion MACROS `type_to_value!` / `type_to_box_value!` are expanded mechanically (R-macro: `$type`, `$name`, `$col_type`
substituted into the macro body found in /repo/src/value.rs, once per invocation found there) and every instantiation - heap
and feature-gated payload types included (String, Vec<u8>, Json, chrono, time, Decimal, BigDecimal, Uuid, IpNetwork, MacAddress) -
is verified with the payload type OPAQUE: the proof holds for every value of every payload type.  The generic
`Option<T>` conversions are verified once, against the trait-level laws each instantiation is proved to satisfy.
`Value::eq` / `Value::hash` (feature hashable-value) are verified for every variant of the enum found in /repo, the
payload types' own `==` / `Hash` being abstract equivalence / key functions (trusted: std and the third-party crates).
The specification functions tag / is_null / eqv / hash_events are GENERATED from the extracted enum's variant list on every
run, so a variant added later and forgotten in eq / hash / as_null fails.
"""
import re
from vlib import rustlex as rl
from vlib.gen import make_r_sub, split_top, Ctx, r_attr, r_cfg

F = "src/value.rs"
P12, P18 = ["C12"], ["C18"]
# C15 (a clone is EQUAL to its source, a taken statement equal to the statement before): needs == to be reflexive on every value a statement
# can hold - under hashable-value Value::eq is hand-written, so its contract and lemma_eqv_reflexive carry C15 too
P15 = ["C15"]
ALL = {"derive", "backend-mysql", "backend-postgres", "backend-sqlite", "hashable-value", "postgres-array", "postgres-vector", "postgres-interval",
       "with-chrono", "with-json", "with-rust_decimal", "with-bigdecimal", "with-uuid", "with-time", "with-ipnetwork", "with-mac_address"}

# R-path: payload type paths -> the opaque type's name inside the verified file
RENAMES = [(r"DateTime<Utc>", "DateTimeUtc"), (r"DateTime<Local>", "DateTimeLocal"), (r"DateTime<FixedOffset>", "DateTimeFixedOffset"),
           (r"time::Date\b", "TimeDate_"), (r"time::Time\b", "TimeTime_"), (r"pgvector::Vector", "PgVector")]
OPAQUE = ["Json", "NaiveDate", "NaiveTime", "NaiveDateTime", "DateTimeUtc", "DateTimeLocal", "DateTimeFixedOffset", "TimeDate_", "TimeTime_",
          "PrimitiveDateTime", "OffsetDateTime", "Uuid", "Decimal", "BigDecimal", "PgVector", "IpNetwork", "MacAddress"]


def r_path(text, ctx):
    n = 0
    for pat, rep in RENAMES:
        text, k = re.subn(pat, rep, text)
        n += k
    if n:
        ctx.app("R-path", "%d payload type path(s)" % n, "opaque type names")
    return text


TRAITS = r'''
// ---- the conversion interface (Verus traits mirroring From<T> for Value / Nullable / ValueType; the spec functions are the
// ---- abstract view of each implementation, the LAWS are the property C12, proved per instantiation) ---------------------------
pub trait VFrom: Sized { spec fn from_spec(x: Self) -> Value; fn from(x: Self) -> (r: Value) ensures r == Self::from_spec(x); }
pub trait VNullable { spec fn null_spec() -> Value; fn null() -> (r: Value) ensures r == Self::null_spec(); }
pub trait VValueType: Sized {
    spec fn try_from_spec(v: Value) -> Result<Self, ValueTypeErr>;
    fn try_from(v: Value) -> (r: Result<Self, ValueTypeErr>) ensures r == Self::try_from_spec(v);
    // the element type an array of Self is tagged with (one constant per type)
    spec fn array_type_spec() -> ArrayType;
    fn array_type() -> (r: ArrayType) ensures r == Self::array_type_spec();
@@UNWRAP@@
}
pub trait Laws: VFrom + VNullable + VValueType {
    proof fn law(x: Self, v: Value)
        ensures
            // C12: converting x into a Value and extracting it again as Self returns x
            Self::try_from_spec(Self::from_spec(x)) == Ok::<Self, ValueTypeErr>(x),
            // the NULL of Self is a null, of the variant Self converts into; a present value is never a null
            is_null(Self::null_spec()), !is_null(Self::from_spec(x)), tag(Self::from_spec(x)) == tag(Self::null_spec()),
            // extracting as a different type fails instead of returning a wrong value; a null does not extract as a present value
            tag(v) != tag(Self::null_spec()) ==> Self::try_from_spec(v) is Err,
            is_null(v) ==> Self::try_from_spec(v) is Err;
}
// `v == T::null()` in Option<T>::try_from: Value's PartialEq.  Default features: #[derive(PartialEq)] (structural, trusted);
// feature hashable-value: the hand-written eq verified below against eqv, for which lemma_eqv_null proves this very fact.
pub uninterp spec fn value_eq(a: Value, b: Value) -> bool;
#[verifier::external_body]
fn veq(a: &Value, b: &Value) -> (r: bool) ensures r == value_eq(*a, *b) { unimplemented!() }
pub broadcast axiom fn ax_value_eq_null(a: Value, b: Value) requires is_null(b) ensures #[trigger] value_eq(a, b) == (a == b);
'''

OPTION_THEOREMS = r'''
// ---- C12 for Option<T>, as verified compositions of the extracted functions (callers see only the contracts above) ------------
fn c12_roundtrip<T: Laws>(x: T) -> (r: Result<T, ValueTypeErr>)
    ensures r == Ok::<T, ValueTypeErr>(x)
{ proof { T::law(x, arbitrary()); } T::try_from(T::from(x)) }
fn c12_roundtrip_option<T: Laws>(x: Option<T>) -> (r: Result<Option<T>, ValueTypeErr>)
    ensures r == Ok::<Option<T>, ValueTypeErr>(x)      // absent -> NULL of T's variant -> absent; present never extracts as absent
{
    proof { if x is Some { T::law(x->Some_0, arbitrary()); } else { T::law(arbitrary(), arbitrary()); } }
    opt_try_from::<T>(opt_from(x))
}
fn c12_absent_is_null_of_variant<T: Laws>() -> (r: Value)
    ensures is_null(r), r == T::null_spec()
{ proof { T::law(arbitrary(), arbitrary()); } opt_from::<T>(None) }
fn c12_option_mismatch<T: Laws>(v: Value) -> (r: Result<Option<T>, ValueTypeErr>)
    requires tag(v) != tag(T::null_spec())
    ensures r is Err
{ proof { T::law(arbitrary(), v); } opt_try_from::<T>(v) }
'''

ARRAY_SHIMS = r'''
// ---- Vec<T> <-> Value::Array ----------------------------------------------------------------------------------------------------------
pub open spec fn is_array_of<T: Laws>(r: Value, xs: Seq<T>) -> bool {
    r matches Value::Array(ty, Some(b)) && ty == T::array_type_spec() && b@.len() == xs.len() && forall|i: int| 0 <= i < xs.len() ==> #[trigger] b@[i] == T::from_spec(xs[i])
}
// R-collect (trusted: Iterator::map / collect of std): `x.into_iter().map(|e| e.into()).collect()` is the list of the elements' conversions, in order
#[verifier::external_body]
fn vmap_from<T: Laws>(x: Vec<T>) -> (r: Vec<Value>)
    ensures r@.len() == x@.len(), forall|i: int| 0 <= i < x@.len() ==> #[trigger] r@[i] == T::from_spec(x@[i])
{ unimplemented!() }
// `v.into_iter().map(|e| e.unwrap()).collect()`: ValueType::unwrap of every element (its contract: returns only if the element extracts), in order
#[verifier::external_body]
fn vmap_unwrap<T: Laws>(v: Box<Vec<Value>>) -> (r: Vec<T>)
    ensures r@.len() == v@.len(), forall|i: int| 0 <= i < v@.len() ==> T::try_from_spec(#[trigger] v@[i]) == Ok::<T, ValueTypeErr>(r@[i])
{ unimplemented!() }
// #[derive(PartialEq)] on the fieldless enum ArrayType: structural (trusted)
#[verifier::external_body]
fn varraytype_eq(a: &ArrayType, b: &ArrayType) -> (r: bool) ensures r == (*a == *b) { unimplemented!() }
'''

ARRAY_THEOREMS = r'''
// C12 for arrays, as verified compositions: a list of T converted into a Value and extracted again as Vec<T> is the same list;
// an array of ANOTHER element type, a NULL array and every other variant fail
fn c12_roundtrip_vec<T: Laws>(x: Vec<T>) -> (r: Result<Vec<T>, ValueTypeErr>)
    ensures r is Ok && r->Ok_0@ =~= x@
{
    let ghost xs = x@;
    let v = vec_from::<T>(x);
    let r = vec_try_from::<T>(v);
    proof {
        assert(r is Ok);
        assert forall|i: int| 0 <= i < xs.len() implies r->Ok_0@[i] == xs[i] by {
            T::law(xs[i], arbitrary());
            match v { Value::Array(_, Some(b)) => { assert(b@[i] == T::from_spec(xs[i])); assert(T::try_from_spec(b@[i]) == Ok::<T, ValueTypeErr>(r->Ok_0@[i])); } _ => {} }
        }
    }
    r
}
fn c12_vec_mismatch<T: Laws>(v: Value) -> (r: Result<Vec<T>, ValueTypeErr>)
    requires !(v matches Value::Array(ty, Some(_)) && ty == T::array_type_spec())
    ensures r is Err
{ vec_try_from::<T>(v) }
'''

EQ_SHIMS = r'''
// ---- C18: payload equality / hashing are abstract (R-eq): `l == r` on a payload is peq, `v.hash(state)` feeds hkey(v) ---------
pub uninterp spec fn peq<T>(a: T, b: T) -> bool;
pub uninterp spec fn hkey<T>(a: T) -> int;
// trusted: every payload type's own PartialEq is an equivalence relation and its Hash agrees with it (std / third-party crates);
// Option's derived PartialEq / Hash lift them; fieldless enums (ArrayType) compare structurally
pub broadcast axiom fn ax_peq_refl<T>(a: T) ensures #[trigger] peq(a, a);
pub broadcast axiom fn ax_peq_sym<T>(a: T, b: T) ensures #[trigger] peq(a, b) == peq(b, a);
pub broadcast axiom fn ax_peq_trans<T>(a: T, b: T, c: T) requires #[trigger] peq(a, b), #[trigger] peq(b, c) ensures peq(a, c);
pub broadcast axiom fn ax_peq_hash<T>(a: T, b: T) requires #[trigger] peq(a, b) ensures hkey(a) == hkey(b);
pub broadcast axiom fn ax_peq_option<T>(a: Option<T>, b: Option<T>)
    ensures #[trigger] peq(a, b) == (match (a, b) { (Some(x), Some(y)) => peq(x, y), (None, None) => true, _ => false });
pub broadcast axiom fn ax_peq_arraytype(a: ArrayType, b: ArrayType) ensures #[trigger] peq(a, b) == (a == b);
#[verifier::external_body]
fn vpeq<T>(l: &T, r: &T) -> (b: bool) ensures b == peq(*l, *r) { unimplemented!() }
// OrderedFloat's total equality / hash on f32, f64 (decided over every bit pattern by the Kani harnesses of C18)
pub broadcast axiom fn ax_ofeq_refl<T>(a: T) ensures #[trigger] ofeq(a, a);
pub broadcast axiom fn ax_ofeq_sym<T>(a: T, b: T) ensures #[trigger] ofeq(a, b) == ofeq(b, a);
pub broadcast axiom fn ax_ofeq_trans<T>(a: T, b: T, c: T) requires #[trigger] ofeq(a, b), #[trigger] ofeq(b, c) ensures ofeq(a, c);
pub broadcast axiom fn ax_ofeq_hash<T>(a: T, b: T) requires #[trigger] ofeq(a, b) ensures ofkey(a) == ofkey(b);
#[verifier::external_body]
fn vof_eq<T>(l: T, r: T) -> (b: bool) ensures b == ofeq(l, r) { unimplemented!() }
// serde_json::to_string(x).unwrap(): a function of the Json value
pub uninterp spec fn json_text(x: Json) -> Seq<char>;
#[verifier::external_body]
fn vjson_str(x: &Box<Json>) -> (r: String) ensures r@ == json_text(**x) { unimplemented!() }
#[verifier::external_body]
fn vstr_eq(a: &String, b: &String) -> (r: bool) ensures r == (a@ == b@) { unimplemented!() }
// a std::hash::Hasher as the sequence of things fed to it
pub enum HEv { Disc(int), Key(int), OKey(int), Str(Seq<char>), Null }
pub struct VHasher { pub tr: Ghost<Seq<HEv>> }
#[verifier::external_body]
fn vhash_disc(v: &Value, state: &mut VHasher) ensures final(state).tr@ == old(state).tr@.push(HEv::Disc(tag(*v))) { unimplemented!() }
#[verifier::external_body]
fn vhash<T>(v: &T, state: &mut VHasher) ensures final(state).tr@ == old(state).tr@.push(HEv::Key(hkey(*v))) { unimplemented!() }
#[verifier::external_body]
fn vof_hash<T>(v: T, state: &mut VHasher) ensures final(state).tr@ == old(state).tr@.push(HEv::OKey(ofkey(v))) { unimplemented!() }
#[verifier::external_body]
fn vhash_str(s: &str, state: &mut VHasher) ensures final(state).tr@ == old(state).tr@.push(HEv::Str(s@)) { unimplemented!() }
#[verifier::external_body]
fn vhash_string(s: String, state: &mut VHasher) ensures final(state).tr@ == old(state).tr@.push(HEv::Str(s@)) { unimplemented!() }
'''


def variants_of(enum_text):
    o, c = enum_text.index("{"), enum_text.rindex("}")
    out = []
    for v in split_top(enum_text[o + 1:c]):
        v = v.strip()
        if not v:
            continue
        m = re.match(r"([A-Za-z0-9_]+)\((.*)\)$", v, re.S)
        if not m:
            raise rl.Unsupported("Value variant without payload: " + v)
        out.append((m.group(1), [p.strip() for p in split_top(m.group(2))]))
    return out


def gen_specs(vs):
    """tag / is_null / eqv / hash_events, GENERATED from the variant list of the extracted enum"""
    tag = "pub open spec fn tag(v: Value) -> int { match v { %s } }" % ", ".join("Value::%s(%s) => %d" % (n, ", ".join("_" for _ in ps), i) for i, (n, ps) in enumerate(vs))
    nul = "pub open spec fn is_null(v: Value) -> bool { match v { %s } }" % ", ".join(
        "Value::%s(%s) => x is None" % (n, ", ".join(["_"] * (len(ps) - 1) + ["x"])) for n, ps in vs)

    def payload_eq(n, ps):
        if ps[-1] in ("Option<f32>", "Option<f64>"):
            return "(match (l, r) { (Some(a), Some(b)) => ofeq(a, b), (None, None) => true, _ => false })"
        if n == "Json":
            return "(match (l, r) { (Some(a), Some(b)) => json_text(*a) == json_text(*b), (None, None) => true, _ => false })"
        if n == "Vector":
            return "vec_peq(l, r)"
        if len(ps) == 2:
            return "(peq(tl, tr) && peq(l, r))"
        return "peq(l, r)"

    def pat(n, ps, s):
        return "Value::%s(%s)" % (n, ", ".join((["t" + s] if len(ps) == 2 else []) + [s]))
    eqv = ("// C18, from the property text: values of different variants are never equal; values of one variant are equal iff their payloads are\n"
           "// (floats: OrderedFloat's total equality, so NaN == NaN; Json: equal serialisations)\n"
           "pub open spec fn eqv(a: Value, b: Value) -> bool { match (a, b) { %s, _ => false } }"
           % ", ".join("(%s, %s) => %s" % (pat(n, ps, "l"), pat(n, ps, "r"), payload_eq(n, ps)) for n, ps in vs))

    def hev(n, ps):
        if ps[-1] in ("Option<f32>", "Option<f64>"):
            return "(match x { Some(f) => seq![HEv::OKey(ofkey(f))], None => seq![HEv::Str(\"null\"@)] })"
        if n == "Json":
            return "(match x { Some(j) => seq![HEv::Str(json_text(*j))], None => seq![HEv::Str(\"null\"@)] })"
        if n == "Vector":
            return "vec_hev(x)"
        if len(ps) == 2:
            return "seq![HEv::Key(hkey(t)), HEv::Key(hkey(x))]"
        return "seq![HEv::Key(hkey(x))]"
    hsh = ("// MODEL of what hash feeds the hasher (discriminant, then the payload's own hash); only its consequence lemma_eq_implies_hash is C18\n"
           "pub open spec fn hash_events(v: Value) -> Seq<HEv> { seq![HEv::Disc(tag(v))] + (match v { %s }) }"
           % ", ".join("Value::%s(%s) => %s" % (n, ", ".join((["t"] if len(ps) == 2 else []) + ["x"]), hev(n, ps)) for n, ps in vs))
    return "\n".join([tag, nul, eqv, hsh]) + "\n"


def find_macro(src, name):
    m = re.search(r"macro_rules!\s+%s\s*\{" % re.escape(name), src)
    if not m:
        raise rl.LostAnchor("macro_rules! %s not found" % name)
    toks = rl.code_toks(rl.lex(src[m.end() - 1:]))
    close = rl.match_close(toks, 0)
    inner = src[m.end():m.end() - 1 + toks[close].start]
    # single rule: ( $type: ty, $name: ident, $col_type: expr ) => { BODY };
    t2 = rl.code_toks(rl.lex(inner))
    pc = rl.match_close(t2, 0)
    params = re.findall(r"\$([a-z_]+)\s*:", inner[t2[0].end:t2[pc].start])
    k = pc + 1
    while t2[k].text != "{":
        k += 1
    bc = rl.match_close(t2, k)
    return params, inner[t2[k].end:t2[bc].start]


def invocations(src, name):
    out = []
    for m in re.finditer(r"(?<![A-Za-z_])%s!\(" % re.escape(name), src):
        toks = rl.code_toks(rl.lex(src[m.end() - 1:]))
        close = rl.match_close(toks, 0)
        args = [a.strip() for a in split_top(src[m.end():m.end() - 1 + toks[close].start])]
        if args and args[0].startswith("$"):
            continue   # the macro's own definition of another macro
        out.append((src.count("\n", 0, m.start()) + 1, args))
    return out


def san(ty):
    return re.sub(r"[^A-Za-z0-9]+", "_", ty).strip("_")


def build(u):
    u.features = set(ALL)
    src = u.src(F)
    u.emit("use vstd::prelude::*;\nverus! {\n")
    for n in OPAQUE:
        u.emit("#[verifier::external_body]\npub struct %s { _opaque: u8 }\n" % n, kind="spec", key="R-opaque:" + n, props=P12 + P18)
    u.type_item(F, "enum", "ArrayType", props=P12 + P18, rules=[r_path], keep_derive=("Clone",))
    vtext = u.type_item(F, "enum", "Value", props=P12 + P18, rules=[r_path])
    u.type_item(F, "struct", "ValueTypeErr", props=P12)
    vs = variants_of(vtext)
    u.spec(VEC_SPEC, "value::vector-spec", props=P18)
    u.spec(gen_specs(vs), "value::generated-specs(tag, is_null, eqv, hash_events)", props=P12 + P18)
    t_a, t_b = TRAITS.split("@@UNWRAP@@\n")
    u.spec("""// Result::unwrap (std): returns the Ok payload and PANICS on Err (= a call that returns only for Ok)
#[verifier::external_body]
fn vunwrap_res<T, E>(r: Result<T, E>) -> (x: T) ensures r == Ok::<T, E>(x) { unimplemented!() }
""", "value::vunwrap_res", props=P12)
    u.spec(t_a, "value::traits+laws(1)", props=P12)
    # the trait's default `unwrap` (extracted): extracts, panicking on a mismatch
    u.fn(F, "trait ValueType", "unwrap", ret="r", props=P12, key="ValueType::unwrap[default]", vpath="VValueType::unwrap",
         rules=[make_r_sub("R-strfn", r"Self::try_from\(v\)\.unwrap\(\)", "vunwrap_res(Self::try_from(v))")],
         spec="ensures\n    // returns only if the value extracts as Self, and then that result\n    Self::try_from_spec(v) == Ok::<Self, ValueTypeErr>(r),")
    u.spec(t_b, "value::traits+laws(2)", props=P12)

    # ---- R-macro: expand every invocation of the two conversion macros found in src/value.rs -----------------------------------
    insts = []
    for mac, boxed in (("type_to_value", False), ("type_to_box_value", True)):
        params, body = find_macro(src, mac)
        for line, args in invocations(src, mac):
            if len(args) != len(params):
                raise rl.Unsupported("%s!(%s): arity" % (mac, ", ".join(args)))
            text = body
            for p, a in zip(params, args):
                text = re.sub(r"\$%s\b" % p, a.replace("\\", "\\\\"), text)
            vp = "%s#%s!(%s)@%d" % (F, mac, ", ".join(args), line)
            u._src_cache[vp] = text
            insts.append((vp, mac, boxed, args, line))
    if len(insts) < 14:
        raise rl.LostAnchor("only %d macro invocations found" % len(insts))
    # hand-written impls of the same shape (boxed payload)
    HAND = [("DateTime<Utc>", "ChronoDateTimeUtc"), ("DateTime<Local>", "ChronoDateTimeLocal"), ("OffsetDateTime", "TimeDateTimeWithTimeZone"), ("pgvector::Vector", "Vector")]
    known_variants = dict(vs)
    for vp, mac, boxed, args, line in insts:
        ty, name = args[0], args[1]
        emit_impl(u, vp, ty, name, boxed, known_variants, "R-macro: %s!(%s) at %s:%d" % (mac, ", ".join(args), F, line))
    for ty, name in HAND:
        emit_impl(u, F, ty, name, True, known_variants, "hand-written impls for %s" % ty)

    # ---- Option<T>: generic, verified once against the laws -------------------------------------------------------------------
    u.fn(F, "impl<T> From<Option<T>> for Value where T: Into<Value> + Nullable,", "from", rename="opt_from", ret="r", props=P12, key="From<Option<T>> for Value::from", vpath="opt_from",
         rules=[make_r_sub("R-into", r"v\.into\(\)", "T::from(v)"), make_r_sub("R-generic", r"fn from\(", "fn from<T: Laws>(")],
         spec="ensures\n    // an absent optional becomes the NULL of T's own variant, a present one T's conversion\n    r == (match x { Some(v) => T::from_spec(v), None => T::null_spec() }),")
    u.fn(F, "impl<T> ValueType for Option<T> where T: ValueType + Nullable,", "try_from", rename="opt_try_from", ret="r", props=P12, key="ValueType for Option<T>::try_from", vpath="opt_try_from",
         rules=[make_r_sub("R-eq", r"v (==|!=) T::null\(\)", lambda m: ("" if m.group(1) == "==" else "!") + "veq(&v, &T::null())"), make_r_sub("R-generic", r"fn try_from\(v: Value\) -> Result<Self, ValueTypeErr>", "fn try_from<T: Laws>(v: Value) -> Result<Option<T>, ValueTypeErr>")],
         spec="""ensures
    // exactly the NULL of T's variant extracts as absent
    v == T::null_spec() ==> r == Ok::<Option<T>, ValueTypeErr>(None),
    // everything else extracts as T does: a present value as present, another variant as an error
    v != T::null_spec() ==> r == (match T::try_from_spec(v) { Ok(x) => Ok::<Option<T>, ValueTypeErr>(Some(x)), Err(e) => Err(e) }),""",
         proofs={"body-start": "broadcast use ax_value_eq_null;\nproof { T::law(arbitrary(), v); }"})
    u.spec(OPTION_THEOREMS, "value::c12-theorems", props=P12)
    # ---- Vec<T> <-> Value::Array (mod with_array, feature postgres-array): generic, verified once against the laws ------------------------
    u.spec(ARRAY_SHIMS, "value::array-shims", props=P12)
    AB = "mod with_array"
    u.fn(F, "impl<T> From<Vec<T>> for Value where T: Into<Value> + NotU8 + ValueType,", "from", rename="vec_from", ret="r", props=P12, key="From<Vec<T>> for Value::from", vpath="vec_from",
         rules=[make_r_sub("R-collect", r"x\.into_iter\(\)\.map\(\|e\| e\.into\(\)\)\.collect\(\)", "vmap_from::<T>(x)"), make_r_sub("R-generic", r"fn from\(", "fn from<T: Laws>(")],
         spec="ensures\n    // an array tagged with T's element type, holding the conversion of every element, in order\n    is_array_of::<T>(r, x@),")
    u.fn(F, "impl<T> ValueType for Vec<T> where T: NotU8 + ValueType,", "try_from", rename="vec_try_from", ret="r", props=P12, key="ValueType for Vec<T>::try_from", vpath="vec_try_from",
         rules=[make_r_sub("R-collect", r"v\.into_iter\(\)\.map\(\|e\| e\.unwrap\(\)\)\.collect\(\)", "vmap_unwrap::<T>(v)"),
                make_r_sub("R-eq", r"T::array_type\(\) == ty", "varraytype_eq(&T::array_type(), &ty)"),
                make_r_sub("R-generic", r"fn try_from\(v: Value\) -> Result<Self, ValueTypeErr>", "fn try_from<T: Laws>(v: Value) -> Result<Vec<T>, ValueTypeErr>")],
         spec="""ensures
    // only a present array tagged with T's own element type extracts ..
    r is Ok <==> (v matches Value::Array(ty, Some(b)) && ty == T::array_type_spec()),
    // .. as the list of its elements' extractions, in order (an element that does not extract as T PANICS: the function does not return)
    r is Ok ==> (v matches Value::Array(ty, Some(b)) && r->Ok_0@.len() == b@.len() && forall|i: int| 0 <= i < b@.len() ==> T::try_from_spec(#[trigger] b@[i]) == Ok::<T, ValueTypeErr>(r->Ok_0@[i])),""")
    u.spec(ARRAY_THEOREMS, "value::c12-array-theorems", props=P12)

    # ---- as_null / dummy_value keep the variant --------------------------------------------------------------------------------
    u.emit("impl Value {\n")
    u.fn(F, "impl Value", "as_null", ret="r", props=P12, key="Value::as_null", rules=[r_path, make_r_sub("R-inherent", r"pub fn", "fn")],
         spec="ensures\n    // the null of the SAME variant\n    tag(r) == tag(*self), is_null(r),")
    u.fn(F, "impl Value", "dummy_value", ret="r", props=P12, key="Value::dummy_value",
         rules=[r_path, make_r_sub("R-inherent", r"pub fn", "fn"), r_payload_any],
         spec="ensures\n    // a present value of the SAME variant\n    tag(r) == tag(*self), !is_null(r),")
    u.emit("}\n")
    u.spec("// R-payload-any: the payload EXPRESSIONS of dummy_value (Default::default(), time::Date::MIN.into(), \"0.0.0.0\".parse().unwrap() ..) are\n"
           "// replaced by an arbitrary value of the payload type: which value is not claimed, only that the variant is kept and it is present\n"
           "#[verifier::external_body]\nfn vany<T>() -> (r: T) { unimplemented!() }\n", "value::vany", props=P12)

    # ---- C18: Value::eq / Value::hash and their helpers (feature hashable-value) -------------------------------------------------
    u.spec(EQ_SHIMS, "value::eq-hash-shims", props=P18)
    H = "mod hashable_value"
    r_peq = make_r_sub("R-eq", r"\b([a-z_]+) == ([a-z_]+)\b", r"vpeq(\1, \2)")
    u.emit("impl Value {\n")
    # Option<T>::try_from decides `absent` with Value's ==: under hashable-value that is this eq, so C12 rests on it too
    u.fn(F, "impl PartialEq for Value", "eq", ret="r", props=P18 + P12 + P15, key="PartialEq for Value::eq", vpath="Value::eq",
         rules=[r_path, r_peq],
         spec=[("ensures\n    // equal iff same variant and equal payloads (eqv is generated from the enum: a variant without an arm here fails)\n    r == eqv(*self, *other),", P18 + P12 + P15)])
    u.fn(F, "impl Hash for Value", "hash", props=P18 + ["MODEL"], key="Hash for Value::hash", vpath="Value::hash",
         rules=[r_path, make_r_sub("R-generic", r"fn hash<H: std::hash::Hasher>\(&self, state: &mut H\)", "fn hash(&self, state: &mut VHasher)"),
                make_r_sub("R-hash", r"mem::discriminant\(self\)\.hash\(state\)", "vhash_disc(self, state)"),
                make_r_sub("R-hash", r"\b([a-z_]+)\.hash\(state\)", r"vhash(\1, state)")],
         spec=[("ensures final(state).tr@ =~= old(state).tr@ + hash_events(*self),", ["MODEL"])])
    u.emit("}\n")
    for w, ft in (("32", "f32"), ("64", "f64")):
        u.fn(F, H, "cmp_f" + w, ret="r_", props=P18 + P12 + P15, key="hashable_value::cmp_f" + w, vpath="cmp_f" + w, params=["l", "r"],
             rules=[make_r_sub("R-eq", r"OrderedFloat\(\*l\)\.eq\(&OrderedFloat\(\*r\)\)", "vof_eq(*l, *r)")],
             spec="ensures r_ == (match (*l, *r) { (Some(a), Some(b)) => ofeq(a, b), (None, None) => true, _ => false }),")
        u.fn(F, H, "hash_f" + w, props=P18 + ["MODEL"], key="hashable_value::hash_f" + w, vpath="hash_f" + w, params=["v", "state"],
             rules=[make_r_sub("R-generic", r"fn hash_f%s<H: Hasher>\(v: &Option<%s>, state: &mut H\)" % (w, ft), "fn hash_f%s(v: &Option<%s>, state: &mut VHasher)" % (w, ft)),
                    make_r_sub("R-hash", r"OrderedFloat\(\*v\)\.hash\(state\)", "vof_hash(*v, state)"), make_r_sub("R-hash", r'"null"\.hash\(state\)', 'vhash_str("null", state)')],
             spec=[("ensures final(state).tr@ =~= old(state).tr@ + (match *v { Some(f) => seq![HEv::OKey(ofkey(f))], None => seq![HEv::Str(\"null\"@)] }),", ["MODEL"])])
    u.fn(F, H, "cmp_json", ret="r_", props=P18 + P12 + P15, key="hashable_value::cmp_json", vpath="cmp_json", params=["l", "r"],
         rules=[make_r_sub("R-eq", r"serde_json::to_string\(l\)\s*\.unwrap\(\)\s*\.eq\(&serde_json::to_string\(r\)\.unwrap\(\)\)", "vstr_eq(&vjson_str(l), &vjson_str(r))")],
         spec="ensures r_ == (match (*l, *r) { (Some(a), Some(b)) => json_text(*a) == json_text(*b), (None, None) => true, _ => false }),")
    u.fn(F, H, "hash_json", props=P18 + ["MODEL"], key="hashable_value::hash_json", vpath="hash_json", params=["v", "state"],
         rules=[make_r_sub("R-generic", r"fn hash_json<H: Hasher>\(v: &Option<Box<Json>>, state: &mut H\)", "fn hash_json(v: &Option<Box<Json>>, state: &mut VHasher)"),
                make_r_sub("R-hash", r"serde_json::to_string\(v\)\.unwrap\(\)\.hash\(state\)", "vhash_string(vjson_str(v), state)"), make_r_sub("R-hash", r'"null"\.hash\(state\)', 'vhash_str("null", state)')],
         spec=[("ensures final(state).tr@ =~= old(state).tr@ + (match *v { Some(j) => seq![HEv::Str(json_text(*j))], None => seq![HEv::Str(\"null\"@)] }),", ["MODEL"])])
    # ---- the pgvector helpers: cmp_vector (R-zip: `for (a, b) in X.iter().zip(Y.iter()) { B }` is the loop over the common prefix of the two
    # slices: trusted desugaring of Iterator::zip) and hash_vector (one OrderedFloat hash per component)
    def r_zip(text, ctx):
        m = re.search(r"for \(([a-z_]+), ([a-z_]+)\) in ([a-z_]+)\.iter\(\)\.zip\(([a-z_]+)\.iter\(\)\) \{", text)
        if not m:
            raise rl.LostAnchor(ctx.key + ": R-zip: no `for (a, b) in x.iter().zip(y.iter())` loop")
        a_, b_, x_, y_ = m.groups()
        open_off = m.end() - 1
        toks = rl.code_toks(rl.lex(text[open_off:]))
        close = rl.match_close(toks, 0)
        body = text[open_off + 1: open_off + toks[close].start]
        newl = ("let (zx_, zy_) = (%s, %s);\n                let mut zi_: usize = 0;\n                while zi_ < zx_.len() && zi_ < zy_.len() {\n                    let %s = &zx_[zi_];\n                    let %s = &zy_[zi_];%s    zi_ += 1;\n                }"
                % (x_, y_, a_, b_, body))
        ctx.app("R-zip", rl.norm_ws(m.group(0)), "while zi_ < x.len() && zi_ < y.len() { let a = &x[zi_]; let b = &y[zi_]; ..; zi_ += 1; }")
        return text[:m.start()] + newl + text[open_off + toks[close].end:]
    # (loop_isolation(false): the loop sits below `let (l, r) = ..`, which shadows the parameters the postcondition names)
    u.fn(F, H, "cmp_vector", ret="b_", props=P18 + P12 + P15, key="hashable_value::cmp_vector", vpath="cmp_vector", rules=[r_path, r_zip], prefix="#[verifier::loop_isolation(false)]\n    ",
         spec="ensures\n    // same dimension and component-wise equal (OrderedFloat's total equality); NULL equals NULL only\n    b_ == vec_peq(*l, *r),",
         loops=["invariant lo_ == Some(*lv_), ro_ == Some(*rv_), zx_@ == vec_view(**lv_) && zy_@ == vec_view(**rv_), zx_@.len() == zy_@.len(), zi_ <= zx_@.len(),\n    forall|i: int| 0 <= i < zi_ ==> ofeq(#[trigger] zx_@[i], zy_@[i]),\ndecreases zx_@.len() - zi_,"],
         proofs={"body-start": "let ghost lo_ = *l; let ghost ro_ = *r;", "before#1:let (l, r) = (l.as_slice(), r.as_slice());": "let ghost lv_ = l; let ghost rv_ = r;",
                 })
    u.fn(F, H, "hash_vector", props=P18 + ["MODEL"], key="hashable_value::hash_vector", vpath="hash_vector",
         rules=[r_path, make_r_sub("R-generic", r"fn hash_vector<H: Hasher>\(v: &Option<Box<PgVector>>, state: &mut H\)", "fn hash_vector(v: &Option<Box<PgVector>>, state: &mut VHasher)"),
                make_r_sub("R-forghost", r"for &value in v\.as_slice\(\)\.iter\(\) \{", "let vs_ = v.as_slice();\n                for value_ in it: vs_.iter() {\n                    let value = *value_;"),
                make_r_sub("R-hash", r'"null"\.hash\(state\)', 'vhash_str("null", state)')],
         spec=[("ensures final(state).tr@ =~= old(state).tr@ + vec_hev(*v),", ["MODEL"])],
         loops=["invariant it.index@ <= vs_@.len(), vs_@ == vec_view(**vv_), state.tr@ =~= t0_ + vec_keys(vs_@.subrange(0, it.index@ as int)),"],
         proofs={"body-start": "let ghost t0_ = state.tr@;", "before#1:let vs_ = v.as_slice();": "let ghost vv_ = v;",
                 "loop1-end": "proof { assert(vs_@.subrange(0, it.index@ + 1) =~= vs_@.subrange(0, it.index@ as int).push(value)); assert(vec_keys(vs_@.subrange(0, it.index@ + 1)) =~= vec_keys(vs_@.subrange(0, it.index@ as int)).push(HEv::OKey(ofkey(value)))); }",
                 "body-end": "proof { match v { Some(x) => { assert(vec_view(**x).subrange(0, vec_view(**x).len() as int) =~= vec_view(**x)); } None => {} } }"})
    u.spec(C18_LEMMAS, "value::c18-lemmas", props=P18 + P15)
    # value tuples as keys: ValueTuple's PartialEq, Eq and Hash are all DERIVED (structural over Value's eq / hash, so coherent when Value's are:
    # trusted derive semantics); a hand-written impl is outside this unit's reach (=> UNDECIDED => the native search decides)
    vt = rl.find_type(F, src, "enum", "ValueTuple").text
    if (not re.search(r"#\[derive\([^)]*\bPartialEq\b", vt) or not re.search(r'cfg_attr\(feature = "hashable-value", derive\(Hash, Eq\)\)', vt)
            or re.search(r"impl\s+(?:PartialEq|Hash|std::hash::Hash)\s+for\s+ValueTuple\b", src)):
        u.stubbed["ValueTuple: derived PartialEq / Eq / Hash"] = {"reason": "ValueTuple's PartialEq / Hash are not (all) derived any more: a hand-written impl is not under contract", "props": list(P18), "fname": "ValueTuple"}
    value_tuples(u, src)
    u.emit("} // verus!\nfn main() {}\n")


def value_tuples(u, src):
    """C12 / C01: value tuples keep their arity and order.  IntoValueTuple for a single value, pairs, triples (hand-written impls) and for
    tuples of 4..12 components (macro impl_into_value_tuple!, expanded mechanically once per invocation found in /repo: R-macro with one
    `$( .. ),+` repetition over the `idx:T` pairs): the k-th value of the row is the k-th component, converted.  The expected row is written
    from the ARITY alone (`self.0 .. self.(n-1)`), not from the invocation's index list."""
    PT = ["C12", "C01"]
    u.type_item(F, "enum", "ValueTuple", props=PT, rules=[r_path])
    u.spec("""// Into<Value> of a component (R-into): a function of it
pub trait VIntoValue: Sized { spec fn iv(self) -> Value; fn into(self) -> (r: Value) ensures r == self.iv(); }
pub trait IntoValueTuple: Sized { spec fn vt_ok(self, r: ValueTuple) -> bool; fn into_value_tuple(self) -> (r: ValueTuple) ensures self.vt_ok(r); }
// the row a tuple stands for: its components in written order (ValueTuple::Many compares by its list of values)
pub open spec fn is_row(r: ValueTuple, vals: Seq<Value>) -> bool { r is Many && r->Many_0@ =~= vals }
""", "value::value-tuple-traits", props=PT)
    r_iv = make_r_sub("R-into", r"\bInto<Value>", "VIntoValue", min_count=0)
    hand = [("impl IntoValueTuple for ValueTuple", "r == self", None),
            ("impl<V> IntoValueTuple for V where V: Into<Value>,", "r == ValueTuple::One(self.iv())", None),
            ("impl<V, W> IntoValueTuple for (V, W) where V: Into<Value>, W: Into<Value>,", "r == ValueTuple::Two(self.0.iv(), self.1.iv())", None),
            ("impl<U, V, W> IntoValueTuple for (U, V, W) where U: Into<Value>, V: Into<Value>, W: Into<Value>,", "r == ValueTuple::Three(self.0.iv(), self.1.iv(), self.2.iv())", None)]
    for hdr, sp, _ in hand:
        u.emit("%s {\n    // the components, in written order\n    open spec fn vt_ok(self, r: ValueTuple) -> bool { %s }\n" % (hdr.replace("Into<Value>", "VIntoValue"), sp), kind="spec", key="value::%s" % hdr, props=PT)
        u.fn(F, hdr, "into_value_tuple", props=PT, key="%s::into_value_tuple" % hdr, vpath="%s::into_value_tuple" % re.sub(r"impl(<[^>]*>)? ", "", hdr), no_canary=True, rules=[r_iv])
        u.emit("}\n")
    # the macro-generated impls for 4..12 components
    params, body = None, None
    m = re.search(r"macro_rules!\s+impl_into_value_tuple\s*\{", src)
    if not m:
        raise rl.LostAnchor("macro_rules! impl_into_value_tuple not found")
    toks = rl.code_toks(rl.lex(src[m.end() - 1:]))
    mtext = src[m.end():m.end() - 1 + toks[rl.match_close(toks, 0)].start]
    if rl.norm_ws(mtext.split("=>")[0]) != "( $($idx:tt : $T:ident),+ $(,)? )":
        raise rl.Unsupported("impl_into_value_tuple!: the macro pattern is no longer `$($idx:tt : $T:ident),+`")
    mb = mtext[mtext.index("=>") + 2:].strip()
    mb = mb[1:mb.rindex("}")]          # the transcriber's body
    for line, args in invocations(src, "impl_into_value_tuple"):
        pairs = []
        for a in args:
            pm = re.match(r"^(\d+)\s*:\s*([A-Z][A-Za-z0-9]*)$", a.strip())
            if not pm:
                raise rl.Unsupported("impl_into_value_tuple!(%s): argument `%s`" % (", ".join(args), a))
            pairs.append((pm.group(1), pm.group(2)))
        n = len(pairs)
        # R-macro: expand the three repetitions of the transcriber
        text = mb
        text = text.replace("$($T),+", ", ".join(t for _, t in pairs)).replace("$($T: Into<Value>),+", ", ".join("%s: Into<Value>" % t for _, t in pairs))
        text = text.replace("$(self.$idx.into()),+", ", ".join("self.%s.into()" % i for i, _ in pairs))
        if "$" in text:
            raise rl.Unsupported("impl_into_value_tuple!: unexpanded macro variable in the transcriber")
        vsrc = "src/value.rs#impl_into_value_tuple!%d" % n
        hdr = rl.norm_ws(text[:text.index("{")])
        fn_m = re.search(r"fn into_value_tuple\(self\) -> ValueTuple \{", text)
        if not fn_m:
            raise rl.LostAnchor("impl_into_value_tuple!: fn into_value_tuple not found in the transcriber")
        ft = rl.code_toks(rl.lex(text[fn_m.end() - 1:]))
        fbody = text[fn_m.end() - 1: fn_m.end() - 1 + ft[rl.match_close(ft, 0)].end]
        ctx = Ctx(u, "impl_into_value_tuple!(%d)" % n)
        ctx.app("R-macro", "impl_into_value_tuple!(%s) at line %d" % (", ".join("%s:%s" % p for p in pairs), line), "the impl for a tuple of %d components" % n)
        spec_vals = ", ".join("self.%d.iv()" % k for k in range(n))
        import hashlib
        meta = {"kind": "code", "key": "impl_into_value_tuple!(%d)" % n, "props": PT, "src": F, "src_line": line, "gid": 300000 + n, "fname": "into_value_tuple", "canary_ok": False}
        u.emit("%s {\n    // a row of %d values: component k at position k (written from the arity alone)\n    open spec fn vt_ok(self, r: ValueTuple) -> bool { is_row(r, seq![%s]) }\n"
               % (hdr.replace("Into<Value>", "VIntoValue"), n, spec_vals), kind="spec", key="value::impl_into_value_tuple!(%d)" % n, props=PT)
        u.chunks.append(("    fn into_value_tuple(self) -> (r: ValueTuple)\n", dict(meta, kind="header")))
        u.chunks.append(("    " + fbody + "\n}\n", dict(meta)))
        u.functions.append({"item": meta["key"], "file": F, "line": line, "vpath": "into_value_tuple", "sha256": hashlib.sha256(text.encode()).hexdigest(), "rules": ctx.apps, "kind": "fn",
                            "has_contract": True, "props": PT, "no_canary": True})
    # ---- FromValueTuple: extracting a row as a Rust tuple: the SAME arity or a refusal, component k from position k ----------------------------
    u.spec("""pub trait FromValueTuple: Sized {
    // r is what the row t extracts to
    spec fn fvt_ok(t: ValueTuple, r: Self) -> bool;
    fn from_value_tuple<Z: IntoValueTuple>(i: Z) -> (r: Self) ensures exists|t: ValueTuple| #[trigger] i.vt_ok(t) && Self::fvt_ok(t, r);
}
impl Value {
    // Value::unwrap::<T>() (src/value.rs: `T::unwrap(self)`)
    fn unwrap<T: VValueType>(self) -> (r: T) ensures T::try_from_spec(self) == Ok::<T, ValueTypeErr>(r) { T::unwrap(self) }
}
// panic!(..): a call after which false holds (a refusal is `the function returns only if ..`)
#[verifier::external_body]
fn vpanic_t() ensures false { unimplemented!() }
""", "value::FromValueTuple-trait", props=PT)
    # the hand-written impls for one value, pairs and triples (their own variants: any other variant is refused)
    hand_from = [("impl<V> FromValueTuple for V where V: Into<Value> + ValueType,", "impl<V> FromValueTuple for V where V: VValueType,", "t is One && V::try_from_spec(t->One_0) == Ok::<V, ValueTypeErr>(r)"),
                 ("impl<V, W> FromValueTuple for (V, W) where V: Into<Value> + ValueType, W: Into<Value> + ValueType,", "impl<V, W> FromValueTuple for (V, W) where V: VValueType, W: VValueType,",
                  "t is Two && V::try_from_spec(t->Two_0) == Ok::<V, ValueTypeErr>(r.0) && W::try_from_spec(t->Two_1) == Ok::<W, ValueTypeErr>(r.1)"),
                 ("impl<U, V, W> FromValueTuple for (U, V, W) where U: Into<Value> + ValueType, V: Into<Value> + ValueType, W: Into<Value> + ValueType,", "impl<U, V, W> FromValueTuple for (U, V, W) where U: VValueType, V: VValueType, W: VValueType,",
                  "t is Three && U::try_from_spec(t->Three_0) == Ok::<U, ValueTypeErr>(r.0) && V::try_from_spec(t->Three_1) == Ok::<V, ValueTypeErr>(r.1) && W::try_from_spec(t->Three_2) == Ok::<W, ValueTypeErr>(r.2)")]
    for hdr, vhdr, ok in hand_from:
        u.emit("%s {\n    open spec fn fvt_ok(t: ValueTuple, r: Self) -> bool { %s }\n" % (vhdr, ok), kind="spec", key="value::%s" % hdr, props=PT)
        u.fn(F, hdr, "from_value_tuple", props=PT, key="%s::from_value_tuple" % hdr, vpath="%s::from_value_tuple" % re.sub(r"impl(<[^>]*>)? ", "", hdr), no_canary=True, ret="r",
             rules=[make_r_sub("R-generic", r"fn from_value_tuple<I>\(i: I\) -> Self\s+where\s+I: IntoValueTuple,", "fn from_value_tuple<Z: IntoValueTuple>(i: Z) -> Self"),
                    make_r_sub("R-panic", r'panic!\("not ValueTuple::(One|Two|Three)"\)', "({ vpanic_t(); unreached() })", min_count=0)])
        u.emit("}\n")
    m = re.search(r"macro_rules!\s+impl_from_value_tuple\s*\{", src)
    if not m:
        raise rl.LostAnchor("macro_rules! impl_from_value_tuple not found")
    toks = rl.code_toks(rl.lex(src[m.end() - 1:]))
    mtext = src[m.end():m.end() - 1 + toks[rl.match_close(toks, 0)].start]
    if rl.norm_ws(mtext.split("=>")[0]) != "( $len:expr, $($T:ident),+ $(,)? )":
        raise rl.Unsupported("impl_from_value_tuple!: the macro pattern is no longer `$len:expr, $($T:ident),+`")
    mb = mtext[mtext.index("=>") + 2:].strip()
    mb = mb[1:mb.rindex("}")]
    for line, args in invocations(src, "impl_from_value_tuple"):
        ln, ts = args[0].strip(), [a.strip() for a in args[1:] if a.strip()]
        if not re.match(r"^\d+$", ln) or not all(re.match(r"^[A-Z][A-Za-z0-9]*$", t) for t in ts):
            raise rl.Unsupported("impl_from_value_tuple!(%s)" % ", ".join(args))
        n = len(ts)
        text = mb.replace("$($T),+", ", ".join(ts)).replace("$($T: Into<Value> + ValueType),+", ", ".join("%s: VValueType" % t for t in ts))
        text = text.replace("$(<$T as ValueType>::unwrap(iter.next().unwrap())),+", ", ".join("<%s as VValueType>::unwrap(iter.next().unwrap())" % t for t in ts))
        text = text.replace("$len", ln)
        if "$" in text:
            raise rl.Unsupported("impl_from_value_tuple!: unexpanded macro variable in the transcriber")
        text = re.sub(r'panic!\("not ValueTuple::Many with length of \{\}", %s\)' % ln, "({ vpanic_t(); unreached() })", text)
        text = text.replace("fn from_value_tuple<Z>(i: Z) -> Self\n            where\n                Z: IntoValueTuple,", "fn from_value_tuple<Z: IntoValueTuple>(i: Z) -> (r: Self)")
        hdr = rl.norm_ws(text[:text.index("{")])
        fn_m = re.search(r"fn from_value_tuple<Z: IntoValueTuple>\(i: Z\) -> \(r: Self\)\s*\{", text)
        if not fn_m:
            raise rl.LostAnchor("impl_from_value_tuple!: fn from_value_tuple not found in the transcriber")
        ft = rl.code_toks(rl.lex(text[fn_m.end() - 1:]))
        fbody = text[fn_m.end() - 1: fn_m.end() - 1 + ft[rl.match_close(ft, 0)].end]
        ctx = Ctx(u, "impl_from_value_tuple!(%d)" % n)
        ctx.app("R-macro", "impl_from_value_tuple!(%s) at line %d" % (", ".join(args), line), "the impl for a tuple of %d components" % n)
        # the oracle: written from the ARITY alone
        ok = " && ".join(["t is Many", "t->Many_0@.len() == %d" % n] + ["%s::try_from_spec(t->Many_0@[%d]) == Ok::<%s, ValueTypeErr>(r.%d)" % (ts[k], k, ts[k], k) for k in range(n)])
        import hashlib
        meta = {"kind": "code", "key": "impl_from_value_tuple!(%d)" % n, "props": PT, "src": F, "src_line": line, "gid": 310000 + n, "fname": "from_value_tuple", "canary_ok": False}
        u.emit("%s {\n    // a row of EXACTLY %d values (anything else is refused), component k extracted from position k\n    open spec fn fvt_ok(t: ValueTuple, r: Self) -> bool { %s }\n"
               % (hdr, n, ok), kind="spec", key="value::impl_from_value_tuple!(%d)" % n, props=PT)
        u.chunks.append(("    fn from_value_tuple<Z: IntoValueTuple>(i: Z) -> (r: Self)\n", dict(meta, kind="header")))
        u.chunks.append(("    " + fbody + "\n}\n", dict(meta)))
        u.functions.append({"item": meta["key"], "file": F, "line": line, "vpath": "from_value_tuple", "sha256": hashlib.sha256(text.encode()).hexdigest(), "rules": ctx.apps, "kind": "fn",
                            "has_contract": True, "props": PT, "no_canary": True})


def r_payload_any(text, ctx):
    """R-payload-any: `Self::V(Some(EXPR))` -> `Self::V(Some(vany()))` (and the 2-field Array variant's payload)."""
    out, n, pos = [], 0, 0
    for m in re.finditer(r"Some\(", text):
        if m.start() < pos:
            continue
        toks = rl.code_toks(rl.lex(text[m.end() - 1:]))
        close = rl.match_close(toks, 0)
        out.append(text[pos:m.end()])
        out.append("vany()")
        pos = m.end() - 1 + toks[close].start
        n += 1
    out.append(text[pos:])
    if n == 0:
        raise rl.LostAnchor(ctx.key + ": R-payload-any: no Some(..) payload")
    ctx.app("R-payload-any", "%d payload expression(s)" % n, "vany()")
    return "".join(out)


def emit_impl(u, vp, ty, name, boxed, known_variants, how):
    if name not in known_variants:
        raise rl.LostAnchor("variant Value::%s (%s) not in the extracted enum" % (name, how))
    vty = ty
    for pat, rep in RENAMES:
        vty = re.sub(pat, rep, vty)
    k = "%s[%s]" % (vty, name)
    some = "Some(Box::new(x))" if boxed else "Some(x)"
    deref = "*x" if boxed else "x"
    blk = lambda tr: "impl %s for %s" % (tr, ty)
    u.emit("// %s\n" % how)
    u.emit("impl VFrom for %s {\n    open spec fn from_spec(x: Self) -> Value { Value::%s(%s) }\n" % (vty, name, some), kind="spec", key="from_spec:" + k, props=P12)
    u.fn(vp, "impl From<%s> for Value" % ty, "from", ret="r", props=P12, key="From<%s> for Value::from" % ty, vpath="%s::from" % vty,
         rules=[r_path, make_r_sub("R-param", r"\bv\b", "x", min_count=0)], no_canary=True)
    u.emit("}\nimpl VNullable for %s {\n    open spec fn null_spec() -> Value { Value::%s(None) }\n" % (vty, name), kind="spec", key="null_spec:" + k, props=P12)
    u.fn(vp, blk("Nullable"), "null", ret="r", props=P12, key="Nullable for %s::null" % ty, vpath="%s::null" % vty, rules=[r_path], no_canary=True)
    u.emit("}\nimpl VValueType for %s {\n    open spec fn try_from_spec(v: Value) -> Result<Self, ValueTypeErr> { match v { Value::%s(Some(x)) => Ok(%s), _ => Err(ValueTypeErr) } }\n" % (vty, name, deref),
           kind="spec", key="try_from_spec:" + k, props=P12)
    u.fn(vp, blk("ValueType"), "try_from", ret="r", props=P12, key="ValueType for %s::try_from" % ty, vpath="%s::try_from" % vty, rules=[r_path], no_canary=True)
    # an array of this type is tagged with the type's OWN element tag (the variant's name, as the macro writes it)
    if name == "Vector":
        # pgvector::Vector has no array form: its array_type() is `unimplemented!(..)` (never returns); no claim
        u.emit("    uninterp spec fn array_type_spec() -> ArrayType;\n    #[verifier::external_body]\n    fn array_type() -> (r: ArrayType) { unimplemented!() }\n", kind="spec", key="array_type_spec:" + k, props=P12)
    else:
        u.emit("    open spec fn array_type_spec() -> ArrayType { ArrayType::%s }\n" % name, kind="spec", key="array_type_spec:" + k, props=P12)
        u.fn(vp, blk("ValueType"), "array_type", ret="r", props=P12, key="ValueType for %s::array_type" % ty, vpath="%s::array_type" % vty, rules=[r_path], no_canary=True)
    u.emit("}\n// C12 for this type: the laws, proved from the three views above\nimpl Laws for %s { proof fn law(x: Self, v: Value) {} }\n" % vty, kind="spec", key="Laws for " + k, props=P12)


VEC_SPEC = r'''
// pgvector::Vector: a list of f32 components (as_slice); equal iff same dimension and component-wise equal under OrderedFloat's total
// equality (cmp_vector, under contract below); hashed component by component (hash_vector)
pub uninterp spec fn vec_view(v: PgVector) -> Seq<f32>;
pub uninterp spec fn ofeq<T>(a: T, b: T) -> bool;
pub uninterp spec fn ofkey<T>(a: T) -> int;
pub open spec fn vec_eqv(a: Seq<f32>, b: Seq<f32>) -> bool { a.len() == b.len() && forall|i: int| 0 <= i < a.len() ==> ofeq(#[trigger] a[i], b[i]) }
pub open spec fn vec_peq(l: Option<Box<PgVector>>, r: Option<Box<PgVector>>) -> bool {
    match (l, r) { (Some(a), Some(b)) => vec_eqv(vec_view(*a), vec_view(*b)), (None, None) => true, _ => false }
}
pub open spec fn vec_keys(a: Seq<f32>) -> Seq<HEv> { a.map_values(|f: f32| HEv::OKey(ofkey(f))) }
pub open spec fn vec_hev(x: Option<Box<PgVector>>) -> Seq<HEv> { match x { Some(v) => vec_keys(vec_view(*v)), None => seq![HEv::Str("null"@)] } }
impl PgVector {
    #[verifier::external_body]
    fn as_slice(&self) -> (r: &[f32]) ensures r@ == vec_view(*self) { unimplemented!() }
}
'''

C18_LEMMAS = r'''
// ---- C18 as lemmas over eq's contract (r == eqv) and hash's model ---------------------------------------------------------------
// vec_eqv is an equivalence, and equal vectors feed the hasher the same keys (from OrderedFloat's laws, component-wise)
pub proof fn lemma_vec_refl(a: Seq<f32>) ensures vec_eqv(a, a) { broadcast use ax_ofeq_refl; }
pub proof fn lemma_vec_sym(a: Seq<f32>, b: Seq<f32>) ensures vec_eqv(a, b) == vec_eqv(b, a)
{
    broadcast use ax_ofeq_sym;
    if vec_eqv(a, b) { assert forall|i: int| 0 <= i < b.len() implies ofeq(#[trigger] b[i], a[i]) by { assert(ofeq(a[i], b[i])); } }
    if vec_eqv(b, a) { assert forall|i: int| 0 <= i < a.len() implies ofeq(#[trigger] a[i], b[i]) by { assert(ofeq(b[i], a[i])); } }
}
pub proof fn lemma_vec_trans(a: Seq<f32>, b: Seq<f32>, c: Seq<f32>) requires vec_eqv(a, b), vec_eqv(b, c) ensures vec_eqv(a, c)
{ assert forall|i: int| 0 <= i < a.len() implies ofeq(#[trigger] a[i], c[i]) by { assert(ofeq(a[i], b[i])); assert(ofeq(b[i], c[i])); ax_ofeq_trans(a[i], b[i], c[i]); } }
pub proof fn lemma_vec_hash(a: Seq<f32>, b: Seq<f32>) requires vec_eqv(a, b) ensures vec_keys(a) == vec_keys(b)
{ assert forall|i: int| 0 <= i < a.len() implies vec_keys(a)[i] == vec_keys(b)[i] by { assert(ofeq(a[i], b[i])); ax_ofeq_hash(a[i], b[i]); } assert(vec_keys(a) =~= vec_keys(b)); }
pub proof fn lemma_eqv_reflexive(a: Value) ensures eqv(a, a)
{ broadcast use ax_peq_refl, ax_ofeq_refl, ax_peq_option; match a { Value::Vector(Some(x)) => { lemma_vec_refl(vec_view(*x)); } _ => {} } }
pub proof fn lemma_eqv_symmetric(a: Value, b: Value) ensures eqv(a, b) == eqv(b, a)
{ broadcast use ax_peq_sym, ax_ofeq_sym; match (a, b) { (Value::Vector(Some(x)), Value::Vector(Some(y))) => { lemma_vec_sym(vec_view(*x), vec_view(*y)); } _ => {} } }
pub proof fn lemma_eqv_transitive(a: Value, b: Value, c: Value) requires eqv(a, b), eqv(b, c) ensures eqv(a, c)
{ broadcast use ax_peq_trans, ax_ofeq_trans; match (a, b, c) { (Value::Vector(Some(x)), Value::Vector(Some(y)), Value::Vector(Some(z))) => { lemma_vec_trans(vec_view(*x), vec_view(*y), vec_view(*z)); } _ => {} } }
pub proof fn lemma_eqv_separates_variants(a: Value, b: Value) requires tag(a) != tag(b) ensures !eqv(a, b) {}
pub proof fn lemma_eq_implies_hash(a: Value, b: Value) requires eqv(a, b) ensures hash_events(a) == hash_events(b)
{ broadcast use ax_peq_hash, ax_ofeq_hash; match (a, b) { (Value::Vector(Some(x)), Value::Vector(Some(y))) => { lemma_vec_hash(vec_view(*x), vec_view(*y)); } _ => {} } }
// the fact Option<T>::try_from relies on (C12 under hashable-value): a null equals exactly itself
pub proof fn lemma_eqv_null(a: Value, b: Value) requires is_null(b) ensures eqv(a, b) == (a == b)
{ broadcast use ax_peq_option, ax_peq_arraytype; }
'''
