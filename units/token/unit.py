"""unit `token`  ->  C16 (and the token-stream contract C11 imports).

Functions under contract: everything in src/token.rs except `Tokenizer::iter` (identity) and the
tests.  Postconditions of `next` and of the driver come from the property text: termination
(decreases), non-empty tokens, concatenation == input, quoted spans per `quoted_end`.
"""
from vlib.gen import make_r_fmt, make_r_sub, r_mutself
from vlib import rustlex as rl
import re

F = "src/token.rs"
r_fmt = make_r_fmt(wmap=lambda w: "&mut " + w)
r_alpha = make_r_sub("R-charfn", r"\bc\.is_alphabetic\(\)", "vchar_is_alphabetic(c)")
r_digit = make_r_sub("R-charfn", r"\bc\.is_ascii_digit\(\)", "vchar_is_ascii_digit(c)")
# further std char predicates a refactoring may reach for (optional: fire only if present)
r_more_char = [make_r_sub("R-charfn", r"\b(\w+)\.is_whitespace\(\)", r"vchar_is_whitespace(\1)", min_count=0),
               make_r_sub("R-charfn", r"\b(\w+)\.is_alphanumeric\(\)", r"vchar_is_alphanumeric(\1)", min_count=0),
               make_r_sub("R-charfn", r"\b(\w+)\.is_numeric\(\)", r"vchar_is_numeric(\1)", min_count=0),
               make_r_sub("R-charfn", r"\b(\w+)\.is_ascii_alphabetic\(\)", r"vchar_is_ascii_alphabetic(\1)", min_count=0),
               make_r_sub("R-charfn", r"\b(\w+)\.is_ascii_alphanumeric\(\)", r"vchar_is_ascii_alphanumeric(\1)", min_count=0),
               make_r_sub("R-charfn", r"\b(\w+)\.is_ascii_whitespace\(\)", r"vchar_is_ascii_whitespace(\1)", min_count=0),
               make_r_sub("R-charfn", r"\b(\w+)\.is_alphabetic\(\)", r"vchar_is_alphabetic(\1)", min_count=0),
               make_r_sub("R-charfn", r"\b(\w+)\.is_ascii_digit\(\)", r"vchar_is_ascii_digit(\1)", min_count=0)]
r_collect = make_r_sub("R-strfn", r"string\.chars\(\)\.collect\(\)", "vstr_chars_collect(string)")
r_item = make_r_sub("R-iterimpl", r"Option<Self::Item>", "Option<Token>")

SPEC = r'''
// ---- specification (hand-written; from the property text of C16) -------------------------
#[verifier::external_body]
fn vstr_chars_collect(s: &str) -> (v: Vec<char>)
    ensures v@ == s@
{ s.chars().collect() }

// s_is_space / s_is_ident: GENERATED below from the `matches!(c, ..)` patterns of is_space / is_identifier in /repo (C16 holds for
// whatever these two classes are: a change of class is followed, not flagged; C11 pins the identifier class separately)
pub open spec fn s_is_alnum(c: char) -> bool { spec_is_alphabetic(c) || ('0' <= c && c <= '9') }
pub open spec fn s_delim_start(c: char) -> bool { c == '`' || c == '[' || c == '\'' || c == '"' }
pub open spec fn s_escape_for(start: char, c: char) -> bool {
    (start == '`' && c == '`') || (start == '\'' && c == '\'') || (start == '"' && c == '"')
}
pub open spec fn s_end_for(start: char, c: char) -> bool {
    (start == '`' && c == '`') || (start == '[' && c == ']') || (start == '\'' && c == '\'') || (start == '"' && c == '"')
}

// End position of the quoted token whose opening delimiter `start` has been consumed,
// scanning from i.  A backslash protects the next character; a closing delimiter followed by
// the same delimiter (for ` ' ") is a doubled delimiter and the token continues; otherwise the
// closing delimiter ends the token; end of input ends an unterminated token.
pub open spec fn q_scan(chars: Seq<char>, i: int, start: char, escape: bool) -> int
    decreases chars.len() - i
{
    if i < 0 || i >= chars.len() { chars.len() as int }
    else if !escape && s_end_for(start, chars[i]) {
        if i + 1 >= chars.len() { i + 1 }
        else if s_escape_for(start, chars[i + 1]) { q_scan(chars, i + 2, start, false) }
        else { i + 1 }
    } else {
        q_scan(chars, i + 1, start, !escape && chars[i] == '\\')
    }
}
pub open spec fn quoted_end(chars: Seq<char>, p: int) -> int { q_scan(chars, p + 1, chars[p], false) }
// the CONTENT of a quoted token: the characters between the delimiters, a doubled delimiter written once (same scan as q_scan)
pub open spec fn unq_text(chars: Seq<char>, i: int, start: char, escape: bool) -> Seq<char>
    decreases chars.len() - i
{
    if i < 0 || i >= chars.len() { Seq::<char>::empty() }
    else if !escape && s_end_for(start, chars[i]) {
        if i + 1 >= chars.len() { Seq::<char>::empty() }
        else if s_escape_for(start, chars[i + 1]) { seq![chars[i]] + unq_text(chars, i + 2, start, false) }
        else { Seq::<char>::empty() }
    } else {
        seq![chars[i]] + unq_text(chars, i + 1, start, !escape && chars[i] == '\\')
    }
}

pub proof fn lemma_q_scan_bounds(chars: Seq<char>, i: int, start: char, escape: bool)
    requires 0 <= i <= chars.len()
    ensures i <= q_scan(chars, i, start, escape) <= chars.len()
    decreases chars.len() - i
{
    if i >= chars.len() {
    } else if !escape && s_end_for(start, chars[i]) {
        if i + 1 >= chars.len() {
        } else if s_escape_for(start, chars[i + 1]) {
            lemma_q_scan_bounds(chars, i + 2, start, false);
        }
    } else {
        lemma_q_scan_bounds(chars, i + 1, start, !escape && chars[i] == '\\');
    }
}

pub open spec fn tok_text(t: Token) -> Seq<char> {
    match t {
        Token::Quoted(s) => s@,
        Token::Unquoted(s) => s@,
        Token::Space(s) => s@,
        Token::Punctuation(s) => s@,
    }
}

// what one call of `next` promises about the token it returns, as a predicate over the
// span [a, b) of the input it was cut from (C16): non-empty, exact text, a Quoted token starts at
// a delimiter and extends exactly to quoted_end; any other token contains no opening delimiter,
// so every opening delimiter outside a quoted span starts a Quoted token.
pub open spec fn tok_ok(chars: Seq<char>, a: int, b: int, t: Token) -> bool {
    &&& 0 <= a < b <= chars.len()
    &&& tok_text(t) == chars.subrange(a, b)
    &&& (t is Quoted ==> s_delim_start(chars[a]) && b == quoted_end(chars, a))
    &&& (!(t is Quoted) ==> forall|i: int| a <= i < b ==> !s_delim_start(chars[i]))
}
// token classes in detail (used by C11's contracts only; not part of C16's statement)
pub open spec fn tok_class(chars: Seq<char>, a: int, b: int, t: Token) -> bool {
    &&& (t is Space ==> (forall|i: int| a <= i < b ==> s_is_space(chars[i])) && (b == chars.len() || !s_is_space(chars[b])))
    &&& (t is Unquoted ==> s_is_alnum(chars[a])
            && (forall|i: int| a <= i < b ==> s_is_alnum(chars[i]) || s_is_ident(chars[i]))
            && (b == chars.len() || !(s_is_alnum(chars[b]) || s_is_ident(chars[b]))))
    &&& (t is Punctuation ==> b == a + 1 && !s_is_space(chars[a]) && !s_is_alnum(chars[a]) && !s_delim_start(chars[a]))
}

pub open spec fn concat_toks(v: Seq<Token>) -> Seq<char>
    decreases v.len()
{
    if v.len() == 0 { Seq::<char>::empty() } else { concat_toks(v.drop_last()) + tok_text(v.last()) }
}
'''

DRIVER = r'''
// ---- the property as a theorem over `next`'s contract ---------------------------------------
// R-iterimpl: `Tokenizer::new(s).iter().collect::<Vec<Token>>()` is this loop (trusted: collect
// calls next() until it returns None).  Verified against the contract of the extracted `next`.
pub fn tokenize_all(t: Tokenizer) -> (r: (Vec<Token>, Ghost<Seq<int>>))
    requires t.wf(), t.p == 0,
    ensures
        // lossless
        concat_toks(r.0@) == t.chars@,
        // every token is non-empty and is exactly the span [b[i], b[i+1]) of the input
        r.1@.len() == r.0@.len() + 1,
        r.1@[0] == 0, r.1@[r.0@.len() as int] == t.chars@.len(),
        forall|i: int| 0 <= i < r.0@.len() ==> #[trigger] tok_ok(t.chars@, r.1@[i], r.1@[i + 1], r.0@[i]),
        forall|i: int| 0 <= i < r.0@.len() ==> tok_text(#[trigger] r.0@[i]).len() > 0,
{
    let mut t = t;
    let mut v: Vec<Token> = Vec::new();
    let ghost chars = t.chars@;
    let ghost mut b: Seq<int> = seq![0int];
    loop
        invariant
            t.wf(), t.chars@ == chars,
            b.len() == v@.len() + 1, b[0] == 0, b[v@.len() as int] == t.p,
            concat_toks(v@) == chars.subrange(0, t.p as int),
            forall|i: int| 0 <= i < v@.len() ==> #[trigger] tok_ok(chars, b[i], b[i + 1], v@[i]),
            forall|i: int| 0 <= i < v@.len() ==> tok_text(#[trigger] v@[i]).len() > 0,
        ensures
            t.p == chars.len(), t.chars@ == chars,
            b.len() == v@.len() + 1, b[0] == 0, b[v@.len() as int] == t.p,
            concat_toks(v@) == chars.subrange(0, t.p as int),
            forall|i: int| 0 <= i < v@.len() ==> #[trigger] tok_ok(chars, b[i], b[i + 1], v@[i]),
            forall|i: int| 0 <= i < v@.len() ==> tok_text(#[trigger] v@[i]).len() > 0,
        decreases chars.len() - t.p
    {
        let ghost p0 = t.p as int;
        let ghost v0 = v@;
        match t.next() {
            Some(tok) => {
                v.push(tok);
                proof {
                    b = b.push(t.p as int);
                    assert(v@.drop_last() == v0);
                    assert(chars.subrange(0, p0) + chars.subrange(p0, t.p as int) == chars.subrange(0, t.p as int));
                    assert(tok_ok(chars, b[v0.len() as int], b[v0.len() as int + 1], v@[v0.len() as int]));
                    assert forall|i: int| 0 <= i < v@.len() implies #[trigger] tok_ok(chars, b[i], b[i + 1], v@[i]) by {
                        if i < v0.len() { assert(v@[i] == v0[i]); }
                    }
                }
            }
            None => { break; }
        }
    }
    proof { assert(chars.subrange(0, chars.len() as int) == chars); }
    (v, Ghost(b))
}

// "a placeholder mark inside quotes is never seen as punctuation": token spans partition the
// input, a Quoted token covers exactly [a, quoted_end(a)), so no Punctuation token lies inside.
pub proof fn lemma_punct_outside_quotes(chars: Seq<char>, toks: Seq<Token>, b: Seq<int>, i: int, j: int)
    requires
        b.len() == toks.len() + 1,
        forall|k: int| 0 <= k < toks.len() ==> #[trigger] tok_ok(chars, b[k], b[k + 1], toks[k]),
        0 <= i < toks.len(), 0 <= j < toks.len(),
        toks[i] is Quoted, toks[j] is Punctuation,
    ensures
        !(b[i] <= b[j] < quoted_end(chars, b[i])),
{
    if i < j { lemma_spans_ordered(chars, toks, b, i, j); }
    if j < i { lemma_spans_ordered(chars, toks, b, j, i); }
    assert(tok_ok(chars, b[i], b[i + 1], toks[i]));
    assert(tok_ok(chars, b[j], b[j + 1], toks[j]));
}
pub proof fn lemma_spans_ordered(chars: Seq<char>, toks: Seq<Token>, b: Seq<int>, i: int, j: int)
    requires
        b.len() == toks.len() + 1,
        forall|k: int| 0 <= k < toks.len() ==> #[trigger] tok_ok(chars, b[k], b[k + 1], toks[k]),
        0 <= i < toks.len(), 0 <= j < toks.len(), i < j,
    ensures b[i + 1] <= b[j],
    decreases j - i
{
    if i + 1 < j {
        lemma_spans_ordered(chars, toks, b, i, j - 1);
        assert(tok_ok(chars, b[j - 1], b[j - 1 + 1], toks[j - 1]));
    }
}
'''

SCAN_FRAME = "final(self).wf(), final(self).chars == old(self).chars,"


def class_spec(u, fn_name, spec_name):
    """the character class a `fn f(c: char) -> bool { matches!(c, 'a' | 'b' ..) }` accepts, as a spec function (GENERATED)"""
    src = u.src(F)
    it = rl.find_fn(F, src, rl.find_block(F, src, "impl Tokenizer")[0], fn_name)
    m = re.search(r"matches!\(\s*c\s*,\s*((?:'(?:\\.|[^'\\])'\s*\|?\s*)+)\)", it.text)
    if not m:
        raise rl.LostAnchor("%s: body is not `matches!(c, 'x' | ..)`" % fn_name)
    chars = re.findall(r"'(?:\\.|[^'\\])'", m.group(1))
    return "pub open spec fn %s(c: char) -> bool { %s }\n" % (spec_name, " || ".join("c == %s" % ch for ch in chars))


def build(u):
    P = ["C16", "C11"]
    u.emit("use vstd::prelude::*;\nverus! {\n")
    u.prelude_file("vlib/prelude/vfmt.rs")
    u.prelude_file("vlib/prelude/vchar.rs")
    u.type_item(F, "struct", "Tokenizer", props=P)
    u.type_item(F, "enum", "Token", props=P)
    u.spec(SPEC, "token::spec", props=P)
    u.spec(class_spec(u, "is_space", "s_is_space") + class_spec(u, "is_identifier", "s_is_ident"), "token::classes(GENERATED from the patterns in /repo)", props=P)
    u.spec("""// C11: a `$n` placeholder is `$` followed by a NUMBER token; a number ends at the first character that is neither alphanumeric nor an
// identifier character, so the identifier characters beyond letters and digits must stay `_` and `$` (operators such as @> #>> may follow a placeholder)
pub proof fn lemma_c11_identifier_class()
    ensures forall|c: char| #[trigger] s_is_ident(c) ==> c == '_' || c == '$'
{}
""", "lemma_c11_identifier_class", props=["C11"])

    u.emit("impl Tokenizer {\n    pub open spec fn wf(&self) -> bool { self.p <= self.chars.len() }\n")
    B = "impl Tokenizer"
    u.fn(F, B, "new", ret="r", rules=[r_collect], props=P,
         spec="ensures r.chars@ == string@, r.p == 0, r.wf(),")
    u.fn(F, B, "get", ret="c", props=P,
         spec="requires self.p < self.chars.len(),\nensures c == self.chars@[self.p as int],")
    u.fn(F, B, "inc", props=P,
         spec="requires old(self).p < old(self).chars.len(),\nensures final(self).p == old(self).p + 1, final(self).chars == old(self).chars,")
    u.fn(F, B, "end", ret="r", props=P, spec="ensures r == (self.p == self.chars.len()),")
    for nm, sp in [("is_space", "s_is_space(c)"), ("is_identifier", "s_is_ident(c)"),
                   ("is_string_delimiter_start", "s_delim_start(c)"), ("is_escape_char", "(c == '\\\\')")]:
        u.fn(F, B, nm, ret="r", props=P, spec="ensures r == %s," % sp)
    u.fn(F, B, "is_alphanumeric", ret="r", props=P, rules=[r_alpha, r_digit], spec="ensures r == s_is_alnum(c),")
    u.fn(F, B, "is_string_escape_for", ret="r", props=P, spec="ensures r == s_escape_for(start, c),")
    u.fn(F, B, "is_string_delimiter_end_for", ret="r", props=P, spec="ensures r == s_end_for(start, c),")

    u.fn(F, B, "space", ret="r", rules=[r_fmt] + r_more_char, props=P,
         spec=[("requires old(self).wf(),\nensures " + SCAN_FRAME + '''
    r is Some ==> tok_ok(old(self).chars@, old(self).p as int, final(self).p as int, r->Some_0),
    r is None ==> final(self).p == old(self).p && (old(self).p == old(self).chars.len() || !s_is_space(old(self).chars@[old(self).p as int])),''', P),
               ("    r is Some ==> r->Some_0 is Space && tok_class(old(self).chars@, old(self).p as int, final(self).p as int, r->Some_0),", ["C11"])],
         loops=['''invariant
    self.chars == old(self).chars, old(self).p <= self.p <= self.chars.len(),
    string@ == self.chars@.subrange(old(self).p as int, self.p as int),
    forall|i: int| old(self).p <= i < self.p ==> s_is_space(self.chars@[i]),
ensures
    self.p == self.chars.len() || !s_is_space(self.chars@[self.p as int]),
decreases self.chars.len() - self.p,'''],
         proofs={"after#1:self.inc();": "proof { assert(self.chars@.subrange(old(self).p as int, self.p as int) == self.chars@.subrange(old(self).p as int, self.p - 1).push(c)); }"})

    u.fn(F, B, "unquoted", ret="r", rules=[r_fmt] + r_more_char, props=P,
         spec=[("requires old(self).wf(),\nensures " + SCAN_FRAME + '''
    r is Some ==> tok_ok(old(self).chars@, old(self).p as int, final(self).p as int, r->Some_0),
    r is None ==> final(self).p == old(self).p && (old(self).p == old(self).chars.len() || !s_is_alnum(old(self).chars@[old(self).p as int])),''', P),
               ("    r is Some ==> r->Some_0 is Unquoted && tok_class(old(self).chars@, old(self).p as int, final(self).p as int, r->Some_0),", ["C11"])],
         loops=['''invariant
    self.chars == old(self).chars, old(self).p <= self.p <= self.chars.len(),
    string@ == self.chars@.subrange(old(self).p as int, self.p as int),
    first <==> self.p == old(self).p,
    !first ==> s_is_alnum(self.chars@[old(self).p as int]),
    forall|i: int| old(self).p <= i < self.p ==> s_is_alnum(self.chars@[i]) || s_is_ident(self.chars@[i]),
ensures
    first ==> (self.p == self.chars.len() || !s_is_alnum(self.chars@[self.p as int])),
    !first ==> (self.p == self.chars.len() || !(s_is_alnum(self.chars@[self.p as int]) || s_is_ident(self.chars@[self.p as int]))),
decreases self.chars.len() - self.p,'''],
         proofs={"after#1:self.inc();": "proof { assert(self.chars@.subrange(old(self).p as int, self.p as int) == self.chars@.subrange(old(self).p as int, self.p - 1).push(c)); }",
                 "after#2:self.inc();": "proof { assert(self.chars@.subrange(old(self).p as int, self.p as int) == self.chars@.subrange(old(self).p as int, self.p - 1).push(c)); }"})

    push_c = "proof { assert(self.chars@.subrange(old(self).p as int, self.p as int) == self.chars@.subrange(old(self).p as int, self.p - 1).push(self.chars@[self.p - 1])); }"
    u.fn(F, B, "quoted", ret="r", rules=[r_fmt] + r_more_char, props=P,
         spec=[("requires old(self).wf(),\nensures " + SCAN_FRAME + '''
    r is Some ==> tok_ok(old(self).chars@, old(self).p as int, final(self).p as int, r->Some_0),
    r is None ==> final(self).p == old(self).p && (old(self).p == old(self).chars.len() || !s_delim_start(old(self).chars@[old(self).p as int])),''', P),
               ("    r is Some ==> r->Some_0 is Quoted && tok_class(old(self).chars@, old(self).p as int, final(self).p as int, r->Some_0),", ["C11"])],
         loops=['''invariant_except_break
    !first ==> q_scan(self.chars@, self.p as int, start, escape) == quoted_end(self.chars@, old(self).p as int),
invariant
    self.chars == old(self).chars, old(self).p <= self.p <= self.chars.len(),
    string@ == self.chars@.subrange(old(self).p as int, self.p as int),
    first <==> self.p == old(self).p,
    first ==> !escape,
    !first ==> s_delim_start(self.chars@[old(self).p as int]) && start == self.chars@[old(self).p as int],
ensures
    first ==> (self.p == self.chars.len() || !s_delim_start(self.chars@[self.p as int])),
    !first ==> self.p == quoted_end(self.chars@, old(self).p as int),
decreases self.chars.len() - self.p,'''],
         proofs={"after#1:self.inc();": push_c, "after#2:self.inc();": push_c,
                 "after#3:self.inc();": push_c, "after#4:self.inc();": push_c})

    # unquote: the CONTENT of the quoted text - the characters between the delimiters, a doubled delimiter written once; it must end where quoted()
    # ends the token (same scan: unq_text follows q_scan step by step), otherwise the two disagree on what the quoted text is
    u.fn(F, B, "unquote", ret="r", rules=[r_mutself, r_fmt] + r_more_char, props=["C16"],
         spec="""requires self.wf(),
ensures
    // nothing for text that does not open with a delimiter; otherwise the content up to the closing delimiter quoted() stops at
    (self.p < self.chars.len() && s_delim_start(self.chars@[self.p as int])) ==> r@ == unq_text(self.chars@, self.p + 1, self.chars@[self.p as int], false),
    !(self.p < self.chars.len() && s_delim_start(self.chars@[self.p as int])) ==> r@.len() == 0,""",
         loops=['''invariant_except_break
    !first ==> string@ + unq_text(self_.chars@, self_.p as int, start, escape) == unq_text(self.chars@, self.p + 1, self.chars@[self.p as int], false),
invariant
    self_.wf(), self_.chars == self.chars, self.p <= self_.p <= self_.chars.len(),
    first <==> self_.p == self.p,
    first ==> !escape && string@.len() == 0,
    !first ==> self.p < self.chars.len() && s_delim_start(self.chars@[self.p as int]) && start == self.chars@[self.p as int],
ensures
    first ==> string@.len() == 0 && (self_.p == self_.chars.len() || !s_delim_start(self_.chars@[self_.p as int])),
    !first ==> string@ == unq_text(self.chars@, self.p + 1, self.chars@[self.p as int], false),
decreases self_.chars.len() - self_.p,'''],
         proofs={"loop1-start": "let ghost s0 = string@; let ghost p0 = self_.p; let ghost e0 = escape;",
                 "loop1-end": "proof { if !first && p0 != self.p { assert(string@ + unq_text(self_.chars@, self_.p as int, start, escape) =~= s0 + unq_text(self_.chars@, p0 as int, start, e0)); } else if !first { assert(string@ + unq_text(self_.chars@, self_.p as int, start, escape) =~= unq_text(self.chars@, self.p + 1, self.chars@[self.p as int], false)); } }"})

    u.fn(F, B, "punctuation", ret="r", rules=[r_fmt] + r_more_char, props=P,
         spec=[("requires old(self).wf(),\nensures " + SCAN_FRAME + '''
    r is Some ==> old(self).p < old(self).chars.len() && final(self).p == old(self).p + 1
        && tok_text(r->Some_0) == old(self).chars@.subrange(old(self).p as int, final(self).p as int)
        && !s_is_space(old(self).chars@[old(self).p as int]) && !s_is_alnum(old(self).chars@[old(self).p as int]),
    r is None ==> final(self).p == old(self).p && (old(self).p == old(self).chars.len()
        || s_is_space(old(self).chars@[old(self).p as int]) || s_is_alnum(old(self).chars@[old(self).p as int])),''', P),
               ("    r is Some ==> r->Some_0 is Punctuation,", P)],
         proofs={"after#1:self.inc();": "proof { assert(self.chars@.subrange(old(self).p as int, self.p as int) == Seq::<char>::empty().push(c)); }"})

    # impl Iterator for Tokenizer { fn next }  (R-iterimpl: emitted as an inherent method)
    u.fn(F, "impl Iterator for Tokenizer", "next", ret="r", header_rules=[r_item], props=P,
         key="impl Iterator for Tokenizer::next",
         spec=[("requires old(self).wf(),\nensures " + SCAN_FRAME + '''
    // termination of the driver: progress on every Some, None only at the end of input
    (r is None) <==> old(self).p == old(self).chars.len(),
    r is None ==> final(self).p == old(self).p,
    r is Some ==> tok_ok(old(self).chars@, old(self).p as int, final(self).p as int, r->Some_0),''', P),
               ("    r is Some ==> tok_class(old(self).chars@, old(self).p as int, final(self).p as int, r->Some_0),", ["C11"])])
    u.emit("}\n")

    u.emit("impl Token {\n")
    B = "impl Token"
    for nm, v in [("is_quoted", "Quoted"), ("is_unquoted", "Unquoted"), ("is_space", "Space"), ("is_punctuation", "Punctuation")]:
        u.fn(F, B, nm, ret="r", props=P, spec="ensures r == (self is %s)," % v)
    u.fn(F, B, "as_str", ret="r", props=P, spec="ensures r@ == tok_text(*self),")
    u.fn(F, B, "unquote", ret="r", props=["C16"],
         spec="""ensures
    (r is Some) == (self is Quoted),
    // the content of the token's own text: between its delimiters, a doubled delimiter once
    r is Some ==> ({ let t = tok_text(*self); if t.len() > 0 && s_delim_start(t[0]) { r->Some_0@ == unq_text(t, 1, t[0], false) } else { r->Some_0@.len() == 0 } }),""")
    u.emit("}\n")
    u.spec(DRIVER, "token::driver", props=["C16"])
    u.emit("} // verus!\nfn main() {}\n")
