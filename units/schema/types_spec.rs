// =============================================================================================
// unit `schema`, variant `types` - the dialects' DATA TYPE grammar as oracle for prepare_column_type (C14: "every abstract
// column type maps to a type the dialect defines, lengths, precisions and unsigned-ness are preserved").
// Written from MySQL 8.0 Reference Manual chapter 13 (Data Types) and PostgreSQL 16 chapter 8 (Data Types), NOT from the code:
// for each abstract type the type names (with their documented synonyms) that dialect defines for it, with the declared
// length / precision / scale written as the type's modifier.  Where a dialect has no such type the manual's recommended
// stand-in is listed (MySQL: no money -> decimal, no uuid -> binary(16) / char(36), no varbit -> bit(n); PostgreSQL: no
// unsigned integers and no 1-byte integer -> the signed type of the next width, no binary(n) / blob -> bytea).
// =============================================================================================
pub trait VTextW {
    spec fn text(&self) -> Seq<char>;
    fn vpush(&mut self, s: &str) ensures final(self).text() == old(self).text() + s@;
}
impl VTextW for String {
    open spec fn text(&self) -> Seq<char> { self@ }
    fn vpush(&mut self, s: &str) { self.push_str(s); }
}
fn vtext_lit<W: VTextW>(w: &mut W, x: &str) ensures final(w).text() == old(w).text() + x@ { w.vpush(x) }
// R-fmt `{}` of a String (trusted): its text
#[verifier::external_body]
fn vtext_disp<W: VTextW>(w: &mut W, x: &String) ensures final(w).text() == old(w).text() + x@ { unimplemented!() }

// trusted (std): Display of an unsigned integer is a non-empty string of decimal digits
pub open spec fn all_digits(d: Seq<char>) -> bool { d.len() > 0 && forall|i: int| 0 <= i < d.len() ==> '0' <= #[trigger] d[i] <= '9' }
pub broadcast axiom fn ax_num_text_digits(n: int) requires n >= 0 ensures all_digits(#[trigger] num_text(n));

pub open spec fn with1(pre: Seq<char>, n: u32) -> Seq<char> { pre + num_text(n as int) + ")"@ }          //  name(n)
pub open spec fn with2(pre: Seq<char>, p: u32, s: u32) -> Seq<char> { pre + num_text(p as int) + ", "@ + num_text(s as int) + ")"@ }   //  name(p, s)
pub open spec fn with_some_len(pre: Seq<char>, t: Seq<char>) -> bool { exists|d: Seq<char>| all_digits(d) && t == pre + d + ")"@ }   //  name(<digits>)
pub uninterp spec fn enum_text(variants: Seq<DynIden>) -> Seq<char>;     // MySQL ENUM('a', 'b'): the label list is a literal position (unit escape, C03)
// PostgreSQL 8.5.4: the `fields` restriction of an interval type (what Display for PgInterval must write: verified below)
pub open spec fn interval_fields_text(f: PgInterval) -> Seq<char> {
    match f {
        PgInterval::Year => "YEAR"@, PgInterval::Month => "MONTH"@, PgInterval::Day => "DAY"@, PgInterval::Hour => "HOUR"@, PgInterval::Minute => "MINUTE"@, PgInterval::Second => "SECOND"@,
        PgInterval::YearToMonth => "YEAR TO MONTH"@, PgInterval::DayToHour => "DAY TO HOUR"@, PgInterval::DayToMinute => "DAY TO MINUTE"@, PgInterval::DayToSecond => "DAY TO SECOND"@,
        PgInterval::HourToMinute => "HOUR TO MINUTE"@, PgInterval::HourToSecond => "HOUR TO SECOND"@, PgInterval::MinuteToSecond => "MINUTE TO SECOND"@,
    }
}

// ---- MySQL 8.0, chapter 13 ----------------------------------------------------------------------------------------------------------
pub open spec fn mysql_has(ct: ColumnType) -> bool {
    !((ct is Array) || (ct is Vector) || (ct is Cidr) || (ct is Inet) || (ct is MacAddr) || (ct is LTree))     // unimplemented!() in the renderer
}
// unsigned-ness is preserved: the UNSIGNED attribute follows the integer type
pub open spec fn unsigned_sfx(ct: ColumnType) -> Seq<char> {
    if (ct is TinyUnsigned) || (ct is SmallUnsigned) || (ct is Unsigned) || (ct is BigUnsigned) { " UNSIGNED"@ } else { Seq::<char>::empty() }
}
pub open spec fn mysql_type_ok(ct: ColumnType, t: Seq<char>) -> bool { exists|b: Seq<char>| mysql_base_ok(ct, b) && t == b + unsigned_sfx(ct) }
pub open spec fn mysql_base_ok(ct: ColumnType, t: Seq<char>) -> bool {
    match ct {
        ColumnType::Char(None) => t == "char"@ || t == "character"@,
        ColumnType::Char(Some(n)) => t == with1("char("@, n) || t == with1("character("@, n),
        ColumnType::String(StringLen::N(n)) => t == with1("varchar("@, n) || t == with1("character varying("@, n),
        ColumnType::String(_) => with_some_len("varchar("@, t) || t == "text"@ || t == "mediumtext"@ || t == "longtext"@,     // VARCHAR needs a length in MySQL
        ColumnType::Text => t == "text"@ || t == "mediumtext"@ || t == "longtext"@,
        ColumnType::TinyInteger => t == "tinyint"@,
        ColumnType::SmallInteger => t == "smallint"@,
        ColumnType::Integer => t == "int"@ || t == "integer"@,
        ColumnType::BigInteger => t == "bigint"@,
        ColumnType::TinyUnsigned => t == "tinyint"@,
        ColumnType::SmallUnsigned => t == "smallint"@,
        ColumnType::Unsigned => t == "int"@ || t == "integer"@,
        ColumnType::BigUnsigned => t == "bigint"@,
        ColumnType::Float => t == "float"@,
        ColumnType::Double => t == "double"@ || t == "double precision"@ || t == "real"@,
        ColumnType::Decimal(None) => t == "decimal"@ || t == "numeric"@ || t == "dec"@,
        ColumnType::Decimal(Some((p, s))) => t == with2("decimal("@, p, s) || t == with2("numeric("@, p, s),
        ColumnType::DateTime => t == "datetime"@,
        ColumnType::Timestamp => t == "timestamp"@,
        ColumnType::TimestampWithTimeZone => t == "timestamp"@,          // stored in UTC; MySQL has no zone-carrying type
        ColumnType::Time => t == "time"@,
        ColumnType::Date => t == "date"@,
        ColumnType::Year => t == "year"@,
        ColumnType::Interval(_, _) => false,                                // MySQL defines no interval type
        ColumnType::Binary(n) => t == with1("binary("@, n),
        ColumnType::VarBinary(StringLen::N(n)) => t == with1("varbinary("@, n),
        ColumnType::VarBinary(_) => with_some_len("varbinary("@, t) || t == "blob"@ || t == "mediumblob"@ || t == "longblob"@,
        ColumnType::Blob => t == "blob"@ || t == "mediumblob"@ || t == "longblob"@,
        ColumnType::Bit(None) => t == "bit"@,
        ColumnType::Bit(Some(n)) => t == with1("bit("@, n),
        ColumnType::VarBit(n) => t == with1("bit("@, n),                    // BIT(M) holds up to M bits
        ColumnType::Boolean => t == "bool"@ || t == "boolean"@ || t == "tinyint(1)"@,
        ColumnType::Money(None) => t == "decimal"@ || t == "numeric"@,     // no money type: DECIMAL is the manual's exact-value type
        ColumnType::Money(Some((p, s))) => t == with2("decimal("@, p, s) || t == with2("numeric("@, p, s),
        ColumnType::Json => t == "json"@,
        ColumnType::JsonBinary => t == "json"@,
        ColumnType::Uuid => t == "binary(16)"@ || t == "char(36)"@,
        ColumnType::Custom(i) => t == iden_text(i),                          // written bare, by design
        ColumnType::Enum { name, variants } => t == enum_text(variants@),
        _ => false,
    }
}

// ---- PostgreSQL 16, chapter 8 ---------------------------------------------------------------------------------------------------------
pub open spec fn pg_has(ct: ColumnType) -> bool
    decreases ct
{
    match ct { ColumnType::Year => false, ColumnType::Array(e) => pg_has(*e), _ => true }     // Year: unimplemented!() in the renderer
}
pub open spec fn pg_type_ok(ct: ColumnType, t: Seq<char>) -> bool
    decreases ct
{
    match ct {
        ColumnType::Char(None) => t == "char"@ || t == "character"@,
        ColumnType::Char(Some(n)) => t == with1("char("@, n) || t == with1("character("@, n),
        ColumnType::String(StringLen::N(n)) => t == with1("varchar("@, n) || t == with1("character varying("@, n),
        ColumnType::String(_) => t == "varchar"@ || t == "character varying"@ || t == "text"@,
        ColumnType::Text => t == "text"@,
        // no 1-byte and no unsigned integer types: the signed type of (at least) the same width
        ColumnType::TinyInteger => t == "smallint"@ || t == "int2"@,
        ColumnType::TinyUnsigned => t == "smallint"@ || t == "int2"@,
        ColumnType::SmallInteger => t == "smallint"@ || t == "int2"@,
        ColumnType::SmallUnsigned => t == "smallint"@ || t == "int2"@ || t == "integer"@ || t == "int"@ || t == "int4"@,
        ColumnType::Integer => t == "integer"@ || t == "int"@ || t == "int4"@,
        ColumnType::Unsigned => t == "integer"@ || t == "int"@ || t == "int4"@ || t == "bigint"@ || t == "int8"@,
        ColumnType::BigInteger => t == "bigint"@ || t == "int8"@,
        ColumnType::BigUnsigned => t == "bigint"@ || t == "int8"@,
        ColumnType::Float => t == "real"@ || t == "float4"@,
        ColumnType::Double => t == "double precision"@ || t == "float8"@,
        ColumnType::Decimal(None) => t == "decimal"@ || t == "numeric"@,
        ColumnType::Decimal(Some((p, s))) => t == with2("decimal("@, p, s) || t == with2("numeric("@, p, s),
        ColumnType::DateTime => t == "timestamp without time zone"@ || t == "timestamp"@,
        ColumnType::Timestamp => t == "timestamp"@ || t == "timestamp without time zone"@,
        ColumnType::TimestampWithTimeZone => t == "timestamp with time zone"@ || t == "timestamptz"@,
        ColumnType::Time => t == "time"@ || t == "time without time zone"@,
        ColumnType::Date => t == "date"@,
        // interval [ fields ] [ (p) ]
        ColumnType::Interval(f, p) => t == "interval"@ + (match f { Some(f) => " "@ + interval_fields_text(f), None => Seq::<char>::empty() })
                                                       + (match p { Some(p) => "("@ + num_text(p as int) + ")"@, None => Seq::<char>::empty() }),
        ColumnType::Binary(_) => t == "bytea"@,
        ColumnType::VarBinary(_) => t == "bytea"@,
        ColumnType::Blob => t == "bytea"@,
        ColumnType::Bit(None) => t == "bit"@,
        ColumnType::Bit(Some(n)) => t == with1("bit("@, n),
        ColumnType::VarBit(n) => t == with1("varbit("@, n) || t == with1("bit varying("@, n),
        ColumnType::Boolean => t == "bool"@ || t == "boolean"@,
        ColumnType::Money(_) => t == "money"@,                                // 8.2: money takes NO precision / scale modifier
        ColumnType::Json => t == "json"@,
        ColumnType::JsonBinary => t == "jsonb"@,
        ColumnType::Uuid => t == "uuid"@,
        // an array of a defined type: element_type[]   (no quantifier here: a recursive call under `exists` cannot be instantiated across fuel levels)
        ColumnType::Array(e) => t.len() >= 2 && t.subrange(t.len() - 2, t.len() as int) == "[]"@ && pg_type_ok(*e, t.subrange(0, t.len() - 2)),
        ColumnType::Vector(None) => t == "vector"@,                           // pgvector extension
        ColumnType::Vector(Some(n)) => t == with1("vector("@, n),
        ColumnType::Custom(i) => t == iden_text(i),
        ColumnType::Enum { name, variants } => t == iden_text(name),          // the enum type's own name (CREATE TYPE .. AS ENUM)
        ColumnType::Cidr => t == "cidr"@,
        ColumnType::Inet => t == "inet"@,
        ColumnType::MacAddr => t == "macaddr"@,
        ColumnType::LTree => t == "ltree"@,                                   // ltree extension
        ColumnType::Year => false,
    }
}
// serial types: smallserial (2 bytes), serial (4 bytes), bigserial (8 bytes)  - see serial_name
