"""unit `schema`, variant `sqlite`  ->  C13 (element granularity + type affinity): the SQLite schema-statement renderers.

The shared defaults (CREATE TABLE, column specifications, DROP TABLE, CHECK, GENERATED, index column lists, foreign-key actions) are
re-extracted by units/schema/unit.py and carry C13 here; this module adds the SQLite overrides:
  src/backend/sqlite/table.rs        prepare_column_def (PRIMARY KEY / AUTOINCREMENT moved last), prepare_column_type x2, the type table,
                                     prepare_table_alter_statement (exactly one option), rename, drop options (none), TRUNCATE (refused)
  src/backend/sqlite/index.rs        CREATE / DROP INDEX, prefix, column prefix (none), filter, table reference
  src/backend/index_builder.rs       prepare_table_index_expression (the trait default: only SQLite uses it)
  src/backend/sqlite/foreign_key.rs  foreign keys inside CREATE TABLE (any other mode is refused)
Oracle: the SQLite grammar (lang_createtable / lang_altertable / lang_createindex / lang_dropindex) as event-sequence spec functions, and
SQLite's type-affinity rules (datatype3, section 3.1) applied MECHANICALLY to every type-name literal found in the extracted type table.
"""
import re
from vlib import rustlex as rl
from vlib.gen import make_r_fmt, make_r_sub, r_fold, r_dynw, r_unit_tail
from units.render.unit import list_fns
import units.schema.unit as S

ST, SI, SF = "src/backend/sqlite/table.rs", "src/backend/sqlite/index.rs", "src/backend/sqlite/foreign_key.rs"
r_panic_any = make_r_sub("R-panic", r'panic!\(\s*"[^"]*"\s*\)', "vpanic()", min_count=0)
r_unimpl_any = make_r_sub("R-panic", r'unimplemented!\(\s*"[^"]*"\s*\)', '({ vpanic(); vstr_owned("") })', min_count=0)
r_unused_sql = make_r_sub("R-slice", r"_sql: &mut W", "sql: &mut W", min_count=0)


def affinity(name):
    """SQLite datatype3 3.1: the affinity of a declared type name (rules in order)."""
    n = name.upper()
    if "INT" in n:
        return "Integer"
    if "CHAR" in n or "CLOB" in n or "TEXT" in n:
        return "Text"
    if "BLOB" in n or n == "":
        return "Blob"
    if "REAL" in n or "FLOA" in n or "DOUB" in n:
        return "Real"
    return "Numeric"


def r_continue2(text, ctx):
    """R-continue (with statements): in a `for` body, `if let P = x { STMTS; continue; } REST`  ->  `if let P = x { STMTS; } else { REST }`"""
    n = 0
    while True:
        m = re.search(r"if let ([^{}=]+) = ([a-z_]+) \{((?:\s*[a-z_]+ = (?:true|false);)?)\s*continue;\s*\}", text)
        if not m:
            break
        toks = rl.lex(text)
        depth, end = 0, None
        for t in toks:
            if t.start < m.end():
                continue
            if t.kind == "punct" and t.text in rl.OPEN:
                depth += 1
            elif t.kind == "punct" and t.text in rl.CLOSE:
                if depth == 0:
                    end = t.start
                    break
                depth -= 1
        if end is None:
            raise rl.Unsupported(ctx.key + ": R-continue: no enclosing block")
        rest = text[m.end():end]
        text = text[:m.start()] + "if let %s = %s {%s } else {%s}\n        " % (m.group(1), m.group(2), m.group(3), rest) + text[end:]
        n += 1
    if n == 0:
        if not re.search(r"\bcontinue\b", text):
            return text     # no `continue` at all (e.g. the guards written as one `match`): nothing to rewrite
        raise rl.LostAnchor(ctx.key + ": R-continue: no `if let .. { ..; continue; }` guard")
    ctx.app("R-continue", "%d guard(s) `if let P = x { ..; continue; }`" % n, "if let P = x { .. } else { rest of the loop body }")
    return text


SQLITE_SPEC = r"""
// ---- SQLite (lang_createtable.html) -------------------------------------------------------------------------------------------------
// column-def: column-name [type-name] [column-constraint]*      column-constraint: PRIMARY KEY [AUTOINCREMENT] | NOT NULL | UNIQUE | CHECK (expr)
//   | DEFAULT .. | COLLATE .. | [GENERATED ALWAYS] AS (expr) [STORED | VIRTUAL]
// AUTOINCREMENT is part of the PRIMARY KEY constraint: it must follow PRIMARY KEY immediately.  The renderer therefore writes every other
// specification first, in declaration order, then PRIMARY KEY, then AUTOINCREMENT; SQLite has no column comments.
pub open spec fn has_pk(xs: Seq<ColumnSpec>) -> bool
    decreases xs.len()
{ xs.len() > 0 && (has_pk(xs.drop_last()) || xs.last() is PrimaryKey) }
pub open spec fn has_autoinc(xs: Seq<ColumnSpec>) -> bool
    decreases xs.len()
{ xs.len() > 0 && (has_autoinc(xs.drop_last()) || xs.last() is AutoIncrement) }
pub proof fn lemma_has_step(xs: Seq<ColumnSpec>, i: int)
    requires 0 <= i < xs.len()
    ensures has_pk(xs.subrange(0, i + 1)) == (has_pk(xs.subrange(0, i)) || xs[i] is PrimaryKey),
            has_autoinc(xs.subrange(0, i + 1)) == (has_autoinc(xs.subrange(0, i)) || xs[i] is AutoIncrement)
{
    assert(xs.subrange(0, i + 1).drop_last() =~= xs.subrange(0, i));
    assert(xs.subrange(0, i + 1).last() == xs[i]);
}
pub open spec fn colspec_sq(s: ColumnSpec) -> Seq<Ev> {
    if (s is PrimaryKey) || (s is AutoIncrement) || (s is Comment) { emp() } else { seq![lit(" "), Ev::ColSpec(s)] }
}
pub open spec fn coldef_events_sqlite(cd: ColumnDef) -> Seq<Ev> {
    seq![Ev::Iden(cd.name)] + (match cd.types { Some(t) => seq![lit(" "), Ev::ColTypeS(cd.spec@, t)], None => emp() }) + l_specs_sq(cd.spec@)
        + (if has_pk(cd.spec@) { seq![lit(" "), Ev::ColSpec(ColumnSpec::PrimaryKey)] } else { emp() })
        + (if has_autoinc(cd.spec@) { seq![lit(" "), Ev::ColSpec(ColumnSpec::AutoIncrement)] } else { emp() })
}
// ALTER TABLE tbl {ADD COLUMN column-def | RENAME COLUMN a TO b | DROP COLUMN c}: ONE action per statement (lang_altertable.html)
pub open spec fn sq_alter_has(o: TableAlterOption) -> bool { (o is AddColumn) || (o is RenameColumn) || (o is DropColumn) }
pub open spec fn alter_opt_sqlite(o: TableAlterOption) -> Seq<Ev> {
    match o {
        TableAlterOption::AddColumn(a) => seq![lit("ADD COLUMN "), Ev::ColDef(a.column)],
        TableAlterOption::RenameColumn(f, t) => seq![lit("RENAME COLUMN "), Ev::Iden(f), lit(" TO "), Ev::Iden(t)],
        TableAlterOption::DropColumn(c) => seq![lit("DROP COLUMN "), Ev::Iden(c)],
        _ => emp(),
    }
}
pub open spec fn alter_events_sqlite(a: TableAlterStatement) -> Seq<Ev> {
    seq![lit("ALTER TABLE ")] + (match a.table { Some(t) => seq![Ev::TRef(t), lit(" ")], None => emp() }) + alter_opt_sqlite(a.options@[0])
}
// table-constraint: [CONSTRAINT name] {PRIMARY KEY | UNIQUE} (indexed-column, ...)
pub open spec fn idxprefix_sqlite(c: IndexCreateStatement) -> Seq<Ev> {
    if c.primary { seq![lit("PRIMARY KEY ")] } else if c.unique { seq![lit("UNIQUE ")] } else { emp() }
}
pub open spec fn tblindex_sqlite(c: IndexCreateStatement) -> Seq<Ev> {
    (match c.index.name { Some(n) => seq![lit("CONSTRAINT "), Ev::Name(n@), lit(" ")], None => emp() }) + seq![Ev::IdxPrefix(c), Ev::IdxCols(c.index.columns), Ev::Filter(c.r#where)]
}
// CREATE [UNIQUE] INDEX [IF NOT EXISTS] index-name ON table-name (indexed-column, ...) [WHERE expr]      (lang_createindex.html)
pub open spec fn idxcreate_sqlite(c: IndexCreateStatement) -> Seq<Ev> {
    seq![lit("CREATE "), Ev::IdxPrefix(c), lit("INDEX ")] + (if c.if_not_exists { seq![lit("IF NOT EXISTS ")] } else { emp() })
        + (match c.index.name { Some(n) => seq![Ev::Name(n@)], None => emp() }) + seq![lit(" ON ")] + (match c.table { Some(t) => seq![Ev::TRef(t)], None => emp() })
        + seq![lit(" "), Ev::IdxCols(c.index.columns), Ev::Filter(c.r#where)]
}
// DROP INDEX [IF EXISTS] index-name      (lang_dropindex.html)
pub open spec fn idxdrop_sqlite(d: IndexDropStatement) -> Seq<Ev> {
    seq![lit("DROP INDEX ")] + (if d.if_exists { seq![lit("IF EXISTS ")] } else { emp() }) + (match d.index.name { Some(n) => seq![Ev::Name(n@)], None => emp() })
}
// foreign-key-clause inside CREATE TABLE: FOREIGN KEY (col, ...) REFERENCES tbl (col, ...) [ON DELETE action] [ON UPDATE action]
pub open spec fn fkpre_sqlite(c: ForeignKeyCreateStatement, mode: Mode) -> Seq<Ev> { seq![lit("FOREIGN KEY (")] }
pub open spec fn fkcreate_sqlite(c: ForeignKeyCreateStatement, mode: Mode) -> Seq<Ev> { fkpre_sqlite(c, mode) + fk_tail(c.foreign_key) }
"""


def sqlite_table(u):
    P = S.P
    B = "impl TableBuilder for SqliteQueryBuilder"
    u.spec(S.cat_fns("l_specs_sq", "ColumnSpec", "colspec_sq(%s)"), "schema::sqlite-lists", props=P)
    u.spec(SQLITE_SPEC, "schema::sqlite-spec", props=P)
    u.emit("pub struct SqliteQueryBuilder;\nimpl SqliteQueryBuilder {\n")
    u.spec(S.abstract("prepare_iden", "x: &DynIden", "Ev::Iden(*x)") + S.abstract("prepare_column_spec", "x: &ColumnSpec", "Ev::ColSpec(*x)")
           + S.abstract("prepare_column_type_specs", "x: &Vec<ColumnSpec>, t: &ColumnType", "Ev::ColTypeS(x@, *t)")
           + S.abstract("prepare_table_ref_table_stmt", "x: &TableRef", "Ev::TRef(*x)") + S.abstract("prepare_column_def", "x: &ColumnDef", "Ev::ColDef(*x)"),
           "schema::abstract-sub-renderers(sqlite table)", props=P)
    r_ctype = make_r_sub("R-path", r"self\.prepare_column_type\(&column_def\.spec, column_type, sql\)", "self.prepare_column_type_specs(&column_def.spec, column_type, sql)")
    r_pk = make_r_sub("R-path", r"&ColumnSpec::PrimaryKey", "&ColumnSpec::PrimaryKey", min_count=0)
    S.simple(u, ST, B, "prepare_column_def", "coldef_events_sqlite(*column_def)",
             [r_dynw, r_ctype, S.r_iden, S.r_semi, r_continue2, S.r_fmt, make_r_sub("R-forghost", r"for column_spec in column_def\.spec\.iter\(\)", "for column_spec in it1: column_def.spec.iter()")],
             "SqliteQueryBuilder::prepare_column_def_impl", key="SqliteQueryBuilder::prepare_column_def", rename="prepare_column_def_impl",
             comment="name, ONE type, every specification but PRIMARY KEY / AUTOINCREMENT / COMMENT once in declaration order, then PRIMARY KEY, then AUTOINCREMENT directly after it",
             loops=["invariant it1.index@ <= column_def.spec@.len(), sql.tr() == ts + l_specs_sq(column_def.spec@.subrange(0, it1.index@ as int)), "
                    "is_primary_key == has_pk(column_def.spec@.subrange(0, it1.index@ as int)), is_auto_increment == has_autoinc(column_def.spec@.subrange(0, it1.index@ as int)),"],
             extra_proofs={"before#1:for column_spec in it1": "let ghost ts = sql.tr();\nproof { lemma_l_specs_sq_empty(column_def.spec@); assert(ts + emp() =~= ts); }",
                           "loop1-end": "proof { lemma_l_specs_sq_step(column_def.spec@, it1.index@ as int); lemma_has_step(column_def.spec@, it1.index@ as int); assert(sql.tr() =~= ts + (l_specs_sq(column_def.spec@.subrange(0, it1.index@ as int)) + colspec_sq(*column_spec))); }"},
             pre="lemma_l_specs_sq_empty(column_def.spec@);")
    # the trait method forwards to the type table with no specifications
    u.fn(ST, B, "prepare_column_type", rename="prepare_column_type_trait", props=P, key="SqliteQueryBuilder::prepare_column_type[trait method]", vpath="SqliteQueryBuilder::prepare_column_type_trait",
         rules=[r_dynw, make_r_sub("R-slice", r"self\.prepare_column_type\(&\[\], column_type, sql\)", "{ let v_: Vec<ColumnSpec> = Vec::new(); self.prepare_column_type_specs(&v_, column_type, sql) }")],
         spec="ensures final(sql).tr() == old(sql).tr().push(Ev::ColTypeS(Seq::<ColumnSpec>::empty(), *column_type)),")
    S.simple(u, ST, B, "prepare_table_drop_opt", "emp()", [r_dynw, r_unused_sql], "SqliteQueryBuilder::prepare_table_drop_opt", key="SqliteQueryBuilder::prepare_table_drop_opt",
             comment="SQLite's DROP TABLE has no RESTRICT / CASCADE: nothing is written")
    u.fn(ST, B, "prepare_table_truncate_statement", props=P, key="SqliteQueryBuilder::prepare_table_truncate_statement", vpath="SqliteQueryBuilder::prepare_table_truncate_statement",
         rules=[r_dynw, r_unused_sql, r_panic_any], no_canary=True,
         spec="ensures\n    // REFUSAL: SQLite has no TRUNCATE statement - the function never returns\n    false,")
    u.fn(ST, B, "prepare_table_alter_statement", props=P, key="SqliteQueryBuilder::prepare_table_alter_statement", vpath="SqliteQueryBuilder::prepare_table_alter_statement",
         rules=[r_dynw, r_panic_any, S.r_iden, S.r_semi, S.r_fmt, r_unit_tail],
         spec="ensures\n    // REFUSAL (panic!): exactly ONE option, and one SQLite's ALTER TABLE has - the function returns only if\n    alter.options@.len() == 1 && sq_alter_has(alter.options@[0]),\n"
              "    // ALTER TABLE tbl ADD COLUMN column-def | RENAME COLUMN a TO b | DROP COLUMN c\n    final(sql).tr() == old(sql).tr() + alter_events_sqlite(*alter),",
         proofs={"body-start": "let ghost t0 = sql.tr();", "body-end": "proof { assert(sql.tr() =~= t0 + alter_events_sqlite(*alter)); }"})
    S.simple(u, ST, B, "prepare_table_rename_statement", 'seq![lit("ALTER TABLE ")] + (match rename.from_name { Some(t) => seq![Ev::TRef(t)], None => emp() }) + seq![lit(" RENAME TO ")] + (match rename.to_name { Some(t) => seq![Ev::TRef(t)], None => emp() })',
             [r_dynw, S.r_fmt], "SqliteQueryBuilder::prepare_table_rename_statement", key="SqliteQueryBuilder::prepare_table_rename_statement", comment="ALTER TABLE old RENAME TO new")
    u.emit("}\n")


def sqlite_index_fk(u):
    P = S.P
    common_abs = S.index_fk(u, backends=())
    BI, BF = "impl IndexBuilder for SqliteQueryBuilder", "impl ForeignKeyBuilder for SqliteQueryBuilder"
    u.spec(S.abstract("prepare_condition", "x: &ConditionHolder, kw: &str", "Ev::Cond(kw@, *x)"), "schema::unused", props=P) if False else None
    u.emit("pub struct SqliteQueryBuilderI;\nimpl SqliteQueryBuilderI {\n")
    u.spec(common_abs + S.abstract("prepare_condition", "x: &ConditionHolder, kw: &str", "Ev::Cond(kw@, *x)"), "schema::abstract-sub-renderers(sqlite index)", props=P)
    O = "SqliteQueryBuilderI"
    r_panic_ns = make_r_sub("R-panic", r'panic!\("Not supported"\)', "vpanic()", min_count=0)
    S.simple(u, SI, BI, "prepare_index_prefix", "idxprefix_sqlite(*create)", [r_dynw, S.r_fmt], O + "::prepare_index_prefix_impl", key="SqliteQueryBuilder::prepare_index_prefix", rename="prepare_index_prefix_impl",
             comment="PRIMARY KEY | UNIQUE (one of them)")
    S.simple(u, S.IB, "trait IndexBuilder", "prepare_table_index_expression", "tblindex_sqlite(*create)", [r_dynw, S.r_rawname, S.r_fmt], O + "::prepare_table_index_expression",
             key="IndexBuilder::prepare_table_index_expression[default: SQLite]", comment="[CONSTRAINT name] {PRIMARY KEY | UNIQUE} (columns)")
    S.simple(u, SI, BI, "prepare_index_create_statement", "idxcreate_sqlite(*create)", [r_dynw, S.r_rawname, S.r_fmt], O + "::prepare_index_create_statement", key="SqliteQueryBuilder::prepare_index_create_statement",
             comment="CREATE [UNIQUE] INDEX [IF NOT EXISTS] name ON table (columns) [WHERE predicate]")
    S.simple(u, SI, BI, "prepare_index_drop_statement", "idxdrop_sqlite(*drop)", [r_dynw, S.r_rawname, S.r_fmt], O + "::prepare_index_drop_statement", key="SqliteQueryBuilder::prepare_index_drop_statement")
    S.simple(u, SI, BI, "write_column_index_prefix", "emp()", [r_dynw, r_unused_sql], O + "::write_column_index_prefix_impl", key="SqliteQueryBuilder::write_column_index_prefix", rename="write_column_index_prefix_impl",
             comment="SQLite has no index prefix lengths: nothing is written")
    S.simple(u, SI, BI, "prepare_filter", 'seq![Ev::Cond("WHERE"@, *condition)]', [r_dynw], O + "::prepare_filter_impl", key="SqliteQueryBuilder::prepare_filter", rename="prepare_filter_impl", comment="partial index predicate")
    S.simple(u, SI, BI, "prepare_table_ref_index_stmt", "seq![Ev::TRefIden(*table_ref)]", [r_dynw, r_panic_ns], O + "::prepare_table_ref_index_stmt_impl", key="SqliteQueryBuilder::prepare_table_ref_index_stmt",
             rename="prepare_table_ref_index_stmt_impl", refuses="*table_ref is Table")
    S.simple(u, SF, BF, "prepare_table_ref_fk_stmt", "seq![Ev::TRefIden(*table_ref)]", [r_dynw, r_panic_ns], O + "::prepare_table_ref_fk_stmt_impl", key="SqliteQueryBuilder::prepare_table_ref_fk_stmt",
             rename="prepare_table_ref_fk_stmt_impl", refuses="*table_ref is Table")
    S.fk_fn(u, SF, BF, O, "prepare_foreign_key_create_statement_internal", "fkcreate_sqlite(*create, mode)", "fkpre_sqlite", rawname=False, extra_rules=[r_panic_any],
            refuses="mode == Mode::Creation")
    u.emit("}\n")


SQ_TYPES_SPEC = r"""
// ---- SQLite type names and their storage AFFINITY (datatype3.html, section 3.1) -------------------------------------------------------
// "Each abstract column type is written with a type name that carries the storage affinity intended for it (integer, real, text, blob or
// numeric)".  The affinity INTENDED for an abstract type (hand-written, from the property and the crate's own naming: *_text, *_blob, real_*):
pub enum Aff { Integer, Real, Text, Blob, Numeric }
pub open spec fn sq_is_int(ct: ColumnType) -> bool {
    (ct is TinyInteger) || (ct is SmallInteger) || (ct is Integer) || (ct is BigInteger) || (ct is TinyUnsigned) || (ct is SmallUnsigned) || (ct is Unsigned) || (ct is BigUnsigned)
}
pub open spec fn sq_has(ct: ColumnType) -> bool {
    !((ct is Interval) || (ct is Array) || (ct is Vector) || (ct is Cidr) || (ct is Inet) || (ct is MacAddr) || (ct is Year) || (ct is Bit) || (ct is VarBit) || (ct is LTree))
    && (ct is Decimal && ct->Decimal_0 is Some ==> ct->Decimal_0->Some_0.0 <= 16)
}
pub open spec fn intended_aff(ct: ColumnType) -> Aff {
    match ct {
        ColumnType::Char(_) | ColumnType::String(_) | ColumnType::Text => Aff::Text,
        ColumnType::TinyInteger | ColumnType::SmallInteger | ColumnType::Integer | ColumnType::BigInteger
        | ColumnType::TinyUnsigned | ColumnType::SmallUnsigned | ColumnType::Unsigned | ColumnType::BigUnsigned => Aff::Integer,
        ColumnType::Float | ColumnType::Double | ColumnType::Decimal(_) | ColumnType::Money(_) => Aff::Real,
        ColumnType::DateTime | ColumnType::Timestamp | ColumnType::TimestampWithTimeZone | ColumnType::Time | ColumnType::Date => Aff::Text,
        ColumnType::Binary(_) | ColumnType::VarBinary(_) | ColumnType::Blob => Aff::Blob,
        ColumnType::Boolean => Aff::Numeric,
        ColumnType::Json | ColumnType::JsonBinary | ColumnType::Uuid | ColumnType::Enum { .. } => Aff::Text,
        _ => Aff::Numeric,
    }
}
// the declared numbers of a type (length, or precision and scale): SQLite ignores them, the renderer keeps them
pub open spec fn sq_n1(ct: ColumnType) -> int {
    match ct {
        ColumnType::Char(Some(n)) => n as int, ColumnType::String(StringLen::N(n)) => n as int, ColumnType::Binary(n) => n as int, ColumnType::VarBinary(StringLen::N(n)) => n as int,
        ColumnType::Decimal(Some((p, s))) => p as int, ColumnType::Money(Some((p, s))) => p as int, _ => 0,
    }
}
pub open spec fn sq_n2(ct: ColumnType) -> int {
    match ct { ColumnType::Decimal(Some((p, s))) => s as int, ColumnType::Money(Some((p, s))) => s as int, _ => 0 }
}
// a type name for `ct`: its affinity (computed from the NAME by SQLite's rules: aff_of_text, GENERATED below from the literals of the
// extracted type table) is the intended one; an auto-increment column is declared INTEGER (lang_autoinc.html: AUTOINCREMENT is only
// allowed on an INTEGER PRIMARY KEY - any other integer-affinity name is rejected by the engine); custom type names are the user's
pub open spec fn sq_type_ok(ct: ColumnType, t: Seq<char>) -> bool {
    (ct is Custom) || aff_of_text(t, intended_aff(ct), sq_n1(ct), sq_n2(ct))
}
"""


def aff_relation(fn_text):
    """GENERATED from the literals of the extracted type table: for every type-name literal `name` / `name(` found there, the affinity SQLite's
    rules (datatype3 3.1, implemented in `affinity` above and validated against the real engine by the bounded stand-in) give the NAME.  A
    renamed type in /repo is followed; a name whose affinity is not the intended one fails prepare_column_type's obligation."""
    plain = sorted(set(re.findall(r'"([a-z_]+)"', fn_text)))
    one = sorted(set(re.findall(r'format!\("([a-z_]+\()\{\w+\}\)"\)', fn_text)))
    two = sorted(set(re.findall(r'format!\("([a-z_]+\()\{\w+\}, \{\w+\}\)"\)', fn_text)))
    alts = []
    for n in plain:
        alts.append('(t == "%s"@ && a is %s)' % (n, affinity(n)))
    for n in one:
        alts.append('(t == "%s"@ + num_text(n1) + ")"@ && a is %s)' % (n, affinity(n[:-1])))
    for n in two:
        alts.append('(t == "%s"@ + num_text(n1) + ", "@ + num_text(n2) + ")"@ && a is %s)' % (n, affinity(n[:-1])))
    rel = "pub open spec fn aff_of_text(t: Seq<char>, a: Aff, n1: int, n2: int) -> bool {\n    " + "\n    || ".join(alts or ["false"]) + "\n}\n"
    return rel, {"plain": plain, "one": one, "two": two}


def sqlite_types(u):
    P = S.P
    u.prelude_file("units/schema/types_spec.rs", props=P)
    it = rl.find_fn(ST, u.src(ST), rl.find_block(ST, u.src(ST), "impl SqliteQueryBuilder")[0], "prepare_column_type")
    rel, lits = aff_relation(it.text)
    u.spec(SQ_TYPES_SPEC.replace("pub open spec fn sq_type_ok", rel + "pub open spec fn sq_type_ok"), "schema::sqlite-affinity-spec(aff_of_text GENERATED from the literals in /repo)", props=P)
    u.spec("#[verifier::external_body]\nfn vstr_owned(x: &str) -> (r: String) ensures r@ == x@ { unimplemented!() }\n"
           "#[verifier::external_body]\nfn viden_string(x: &DynIden) -> (r: String) ensures r@ == iden_text(*x) { unimplemented!() }\n"
           "#[verifier::external_body]\nfn vtext_dispg<W: VTextW, T: VTextOf + ?Sized>(w: &mut W, x: &T) ensures final(w).text() == old(w).text() + x.text() { unimplemented!() }\n"
           "// R-strfn (trusted): `.iter().any(|s| matches!(s, ColumnSpec::AutoIncrement))` is true iff some element is AutoIncrement\n"
           "#[verifier::external_body]\nfn vany_autoinc(v: &Vec<ColumnSpec>) -> (r: bool) ensures r == has_autoinc(v@) { unimplemented!() }\n",
           "schema::sqlite-types-shims", props=P)
    # fn integer(ty): the declared name, or `integer` under feature option-sqlite-exact-column-type (cfg!(..) resolved against the unit's features)
    feat = "option-sqlite-exact-column-type" in u.features
    u.fn(ST, None, "integer", props=P, key="sqlite::integer", vpath="integer",
         rules=[make_r_sub("R-cfg", r'cfg!\(feature = "option-sqlite-exact-column-type"\)', "true" if feat else "false")],
         ret="r", spec="ensures r@ == ty@ || r@ == \"integer\"@,")
    r_tfmt = make_r_fmt(wmap=lambda w: w, merge=True, disp="vtext_dispg", lit="vtext_lit")
    r_w = make_r_sub("R-dynw", r"W: VWrite", "W: VTextW")
    r_into = make_r_sub("R-strfn", r'"([^"]*)"\.into\(\)', r'vstr_owned("\1")')
    r_int_into = make_r_sub("R-strfn", r'integer\("(\w+)"\)\.into\(\)', r'vstr_owned(integer("\1"))', min_count=0)
    r_if_into = make_r_sub("R-strfn", r'(if is_auto_increment \{[^{}]*\} else \{[^{}]*\})\s*\.into\(\)', r'vstr_owned(\1)', min_count=0)
    r_idstr = make_r_sub("R-strfn", r"\b(iden|name)\.to_string\(\)", r"viden_string(\1)")
    r_any = make_r_sub("R-strfn", r"column_specs\s*\.iter\(\)\s*\.any\(\|s\| matches!\(s, ColumnSpec::AutoIncrement\)\)", "vany_autoinc(column_specs)")
    r_slice = make_r_sub("R-slice", r"column_specs: &\[ColumnSpec\]", "column_specs: &Vec<ColumnSpec>")
    r_refcmp = make_r_sub("R-refpat", r"precision > &16", "*precision > 16", min_count=0)
    u.emit("pub struct SqliteTypes;\nimpl SqliteTypes {\n")
    u.fn(ST, "impl SqliteQueryBuilder", "prepare_column_type", props=P, key="SqliteQueryBuilder::prepare_column_type", vpath="SqliteTypes::prepare_column_type", prefix="#[verifier::rlimit(60)]\n    ",
         rules=[r_dynw, r_w, r_slice, r_any, S.r_bind_match, r_refcmp, r_panic_any, S.r_format, r_int_into, r_if_into, r_into, r_idstr, r_unimpl_any, r_tfmt],
         spec=[("""ensures
    // REFUSAL (unimplemented!() / panic!): the function returns only for a type SQLite can hold (decimal precision <= 16)
    sq_has(*column_type),
    // a type name carrying the affinity intended for this abstract type
    exists|t: Seq<char>| final(sql).text() == old(sql).text() + t && sq_type_ok(*column_type, t),""", P),
               ("""    // an auto-increment column is declared INTEGER itself (lang_autoinc.html: AUTOINCREMENT is only allowed on an INTEGER PRIMARY KEY)
    has_autoinc(column_specs@) && sq_is_int(*column_type) ==> final(sql).text() == old(sql).text() + "integer"@,""", P)],
         proofs={"body-start": "let ghost t0 = sql.text(); let ghost ct_ = *column_type;",
                 "after#1:vtext_disp(sql, &ty_);": "proof { assert(sq_type_ok(ct_, ty_@)); assert(sql.text() == t0 + ty_@); }"})
    u.emit("}\n")
    return lits


def build_sqlite(u):
    # the event type names the Postgres type statements too: their payload types are emitted (unused here)
    T = "src/extension/postgres/types.rs"
    for k, n in [("enum", "TypeRef"), ("enum", "TypeAs"), ("enum", "TypeDropOpt"), ("enum", "TypeAlterAddOpt"), ("enum", "TypeAlterOpt")]:
        u.type_item(T, k, n, props=S.P)
    sqlite_table(u)
    sqlite_index_fk(u)
    sqlite_types(u)
