// =============================================================================================
// unit `schema` - specification (hand-written) for C14, at ELEMENT granularity.
// The writer is replaced by a ghost event trace: one `Lit` per keyword / separator / parenthesis written, one event per
// sub-renderer call (naming what it was given).  The oracle is the DDL grammar of the dialects:
//   MySQL 8.0 manual 15.1.20 CREATE TABLE, 15.1.9 ALTER TABLE, 15.1.15 CREATE INDEX, 15.1.27 DROP INDEX, 15.1.32 DROP TABLE,
//     15.1.36 RENAME TABLE, 15.1.37 TRUNCATE TABLE
//   PostgreSQL 16: CREATE TABLE, ALTER TABLE, CREATE INDEX, DROP INDEX, DROP TABLE, TRUNCATE, CREATE / ALTER / DROP TYPE,
//     CREATE / DROP EXTENSION
// every declared element appears exactly once, in declaration order, correctly separated and parenthesised.
// =============================================================================================
pub enum Ev {
    Lit(Seq<char>),
    // identifier positions (how a name becomes one quoted token is unit `ident`, C04)
    Iden(DynIden), Name(Seq<char>), TRef(TableRef), TRefIden(TableRef),
    // elements of CREATE / ALTER TABLE
    ColDef(ColumnDef), ColTypePart(ColumnDef), ColType(ColumnType), ColTypeS(Seq<ColumnSpec>, ColumnType), Serial(ColumnType), ColSpec(ColumnSpec), TblIndex(IndexCreateStatement),
    FkCreate(ForeignKeyCreateStatement, Mode), FkDrop(ForeignKeyDropStatement, Mode), FkDropNamed(DynIden), Check(SimpleExpr), Generated(SimpleExpr, bool), Expr(SimpleExpr),
    TemporaryKw(TableCreateStatement), IfNotExistsKw(TableCreateStatement), TableOpts(TableCreateStatement), TableOptsDef(TableCreateStatement), DropOpt(TableDropOpt),
    AutoIncKw, Comment(Seq<char>), EscStr(Seq<char>), Text(Seq<char>),
    // elements of CREATE INDEX / table-level index expressions
    IdxPrefix(IndexCreateStatement), IdxCols(Vec<IndexColumn>), IdxType(Option<IndexType>), IdxColPrefix(Option<u32>), Filter(ConditionHolder), Cond(Seq<char>, ConditionHolder),
    Include(Vec<DynIden>), U32(u32),
    // foreign keys
    FkAction(ForeignKeyAction),
    // Postgres types
    Label(DynIden), TypeRefEv(TypeRef), TypeAsEv(TypeAs), TypeAlterOptEv(TypeAlterOpt),
}
pub trait VWrite {
    spec fn tr(&self) -> Seq<Ev>;
    fn vpush(&mut self, s: &str) ensures final(self).tr() == old(self).tr().push(Ev::Lit(s@));
}
fn vfmt_lit<W: VWrite>(w: &mut W, x: &str) ensures final(w).tr() == old(w).tr().push(Ev::Lit(x@)) { w.vpush(x) }
// R-fmt `{}` of a String / &str field (table option values, Extra, extra): the text itself, one event
#[verifier::external_body]
fn vfmt_text<W: VWrite>(w: &mut W, x: &String) ensures final(w).tr() == old(w).tr().push(Ev::Text(x@)) { unimplemented!() }
#[verifier::external_body]
fn vfmt_str<W: VWrite>(w: &mut W, x: &str) ensures final(w).tr() == old(w).tr().push(Ev::Lit(x@)) { unimplemented!() }
// R-fmt `{}` of a u32 (index column prefix length): its decimal text, one event
#[verifier::external_body]
fn vfmt_u32<W: VWrite>(w: &mut W, x: &u32) ensures final(w).tr() == old(w).tr().push(Ev::U32(*x)) { unimplemented!() }

pub open spec fn lit(s: &str) -> Ev { Ev::Lit(s@) }
pub open spec fn emp() -> Seq<Ev> { Seq::<Ev>::empty() }
// R-panic (trusted): panic!(..) / unimplemented!(..) never return; reaching them is excluded by the function's precondition
#[verifier::external_body]
fn vpanic() ensures false { unimplemented!() }
// TRUSTED (std): a Vec's length is a usize
#[verifier::external_body]
pub proof fn axiom_vec_len_fits<T>(v: &Vec<T>) ensures v@.len() <= usize::MAX {}
