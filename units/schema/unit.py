"""unit `schema`  ->  C14 (element granularity): MySQL / Postgres schema statements carry every declared element once, in
declaration order, correctly separated and parenthesised; column types map to types the dialect defines.

Variant `stmts`: the statement / element renderers over a ghost EVENT trace (like unit render).
Variant `types`: prepare_column_type (MySQL, Postgres) and the Postgres serial types over a TEXT writer, against the dialects' type
grammar written from the manuals.
"""
import re
from vlib import rustlex as rl
from vlib.gen import make_r_fmt, make_r_sub, r_fold, r_dynw, r_unit_tail, r_enumerate
from units.render.unit import list_fns

P = ["C14"]
TB = "src/backend/table_builder.rs"
IB = "src/backend/index_builder.rs"
FB = "src/backend/foreign_key_builder.rs"
r_fmt = make_r_fmt(wmap=lambda w: w, merge=True, disp="vfmt_disp")
r_vis = make_r_sub("R-vis", r"pub\(crate\) ", "pub ", min_count=0)
OPAQUE = ["SimpleExpr", "DynIden", "ConditionHolder", "TablePartition"]


def abstract(name, params, ev, extra_req=""):
    return "    #[verifier::external_body]\n    fn %s<W: VWrite>(&self, %s, sql: &mut W) %sensures final(sql).tr() == old(sql).tr().push(%s) { unimplemented!() }\n" % (name, params, extra_req, ev)


# R-rawname: a name written between the backend's quotes with its quote characters doubled (`write!(sql, "<pfx>{}{}{}<sfx>", self.quote().left(),
# Alias::new(name).quoted(self.quote()), self.quote().right())`): ONE identifier-token event.  That these sites emit exactly the token
# Iden::prepare would is proved in unit `ident` (C04), which discovers and verifies every such site on each run.
def r_rawname(text, ctx):
    pat = re.compile(r'write!\(\s*sql,\s*"([^"{}]*)\{\}\{\}\{\}([^"{}]*)",\s*self\.quote\(\)\.left\(\),\s*Alias::new\((\w+)\)\.quoted\(self\.quote\(\)\),\s*self\.quote\(\)\.right\(\),?\s*\)\s*\.unwrap\(\)', re.S)
    n = 0

    def rep(m):
        nonlocal n
        n += 1
        pre, suf, nm = m.group(1), m.group(2), m.group(3)
        parts = []
        if pre:
            parts.append('vfmt_lit(sql, "%s");' % pre)
        parts.append("self.prepare_name(%s, sql);" % nm)
        if suf:
            parts.append('vfmt_lit(sql, "%s");' % suf)
        return "({ " + " ".join(parts) + " })"
    text = pat.sub(rep, text)
    if n == 0:
        raise rl.LostAnchor(ctx.key + ": R-rawname: no raw quoting site")
    ctx.app("R-rawname", "%d raw quoting site(s)" % n, "self.prepare_name(name, sql)")
    return text


# R-unit-tail (blocks): `{ ..; write!(..).unwrap() }` -> `{ ..; write!(..).unwrap(); }` (a block of type () either way) so that a proof hint can follow
r_semi = make_r_sub("R-unit-tail", r"\.unwrap\(\)(\s*\})", r".unwrap();\1", min_count=0)
r_iden = make_r_sub("R-opaque", r"\b([a-z_\.]+)\.prepare\(sql, self\.quote\(\)\)", r"self.prepare_iden(&\1, sql)")
r_qb = make_r_sub("R-path", r"QueryBuilder::prepare_simple_expr\(self, (\w+), sql\)", r"self.prepare_simple_expr(\1, sql)")

def r_format(text, ctx):
    """R-format: `format!("a{x}b{}", y)` -> `{ let mut f_ = String::new(); f_.push_str("a"); vpush_disp(&mut f_, &(x)); f_.push_str("b"); vpush_disp(&mut f_, &(y)); f_ }`
    (trusted like R-fmt: std::fmt writes the segments in order; Display of a String / &str is the text itself, of an integer its decimal text)"""
    from vlib.gen import parse_fmt, split_top
    n = 0
    while True:
        toks = rl.code_toks(rl.lex(text))
        hit = None
        for k, t in enumerate(toks):
            if t.kind == "ident" and t.text == "format" and k + 2 < len(toks) and toks[k + 1].text == "!" and toks[k + 2].text == "(":
                hit = k
                break
        if hit is None:
            break
        close = rl.match_close(toks, hit + 2)
        inner = text[toks[hit + 2].end:toks[close].start]
        args = [a.strip() for a in split_top(inner)]
        if args and args[-1] == "":
            args.pop()
        segs, rest, ai, calls = parse_fmt(args[0]), args[1:], 0, []
        for sg in segs:
            if sg[0] == "lit":
                calls.append('f_.push_str("%s");' % sg[1])
            else:
                if sg[2] != "":
                    raise rl.Unsupported("format spec {:%s}" % sg[2])
                if sg[1] is not None:
                    e = sg[1]
                else:
                    e = rest[ai]
                    ai += 1
                calls.append("vpush_disp(&mut f_, &(%s));" % e)
        if ai != len(rest):
            raise rl.Unsupported("format args mismatch in " + args[0])
        new = "({ let mut f_ = String::new(); " + " ".join(calls) + " f_ })"
        ctx.app("R-format", rl.norm_ws(text[toks[hit].start:toks[close].end])[:120], new[:160])
        text = text[:toks[hit].start] + new + text[toks[close].end:]
        n += 1
    if n == 0:
        raise rl.LostAnchor(ctx.key + ": R-format: no format!")
    return text


LISTS = [("l_coldefs", "ColumnDef", "Ev::ColDef(%s)", "each"), ("l_tblidx", "IndexCreateStatement", "Ev::TblIndex(%s)", "each"),
         ("l_fks", "ForeignKeyCreateStatement", "Ev::FkCreate(%s, Mode::Creation)", "each"), ("l_checks", "SimpleExpr", "Ev::Check(%s)", "each"),
         ("l_trefs", "TableRef", "Ev::TRef(%s)", "sep"), ("l_dropopts", "TableDropOpt", "Ev::DropOpt(%s)", "each"),
         ("l_idens", "DynIden", "Ev::Iden(%s)", "sep")]
# (l_tableopts: each option preceded by a space - generated below with kind `opts`)

SEP = r'''
// a comma-separated list of already-rendered elements
pub open spec fn sep_list(xs: Seq<Ev>) -> Seq<Ev>
    decreases xs.len()
{ if xs.len() == 0 { emp() } else if xs.len() == 1 { seq![xs[0]] } else { sep_list(xs.drop_last()).push(lit(", ")).push(xs.last()) } }
pub proof fn lemma_sep_push(xs: Seq<Ev>, x: Ev)
    ensures sep_list(xs.push(x)) == (if xs.len() == 0 { seq![x] } else { sep_list(xs).push(lit(", ")).push(x) })
{
    assert(xs.push(x).drop_last() =~= xs);
    assert(xs.push(x).last() == x);
    if xs.len() == 0 { assert(xs.push(x)[0] == x); }
}
'''


def len_lemma(name, ty):
    return """pub proof fn lemma_%(n)s_len(xs: Seq<%(t)s>) ensures %(n)s(xs).len() == xs.len() decreases xs.len()
{ if xs.len() > 0 { lemma_%(n)s_len(xs.drop_last()); } }
""" % {"n": name, "t": ty}


def types(u):
    for n in OPAQUE:
        u.emit("#[verifier::external_body]\npub struct %s { _opaque: u8 }\n" % n, kind="spec", key="R-opaque:" + n, props=P)
    u.type_item("src/types.rs", "enum", "TableRef", props=P, rules=[make_r_sub("R-opaque", r"SubQuery\(SelectStatement, DynIden\)", "SubQuery(SelectStatementO, DynIden)"),
                                                                    make_r_sub("R-opaque", r"ValuesList\(Vec<ValueTuple>, DynIden\)", "ValuesList(ValuesO, DynIden)"),
                                                                    make_r_sub("R-opaque", r"FunctionCall\(FunctionCall, DynIden\)", "FunctionCall(FunctionCallO, DynIden)")])
    for n in ["SelectStatementO", "ValuesO", "FunctionCallO"]:
        u.emit("#[verifier::external_body]\npub struct %s { _opaque: u8 }\n" % n, kind="spec", key="R-opaque:" + n, props=P)
    C = "src/table/column.rs"
    u.type_item(C, "enum", "StringLen", props=P, keep_derive=("Clone", "Copy"))
    u.type_item(C, "enum", "PgInterval", props=P)
    u.type_item(C, "enum", "ColumnType", props=P, rules=[make_r_sub("R-path", r"RcOrArc<ColumnType>", "Box<ColumnType>")])
    u.type_item(C, "enum", "ColumnSpec", props=P)
    u.type_item(C, "struct", "ColumnDef", props=P, rules=[r_vis])
    u.type_item("src/index/common.rs", "enum", "IndexOrder", props=P)
    u.type_item("src/index/common.rs", "struct", "IndexColumn", props=P, rules=[r_vis])
    u.type_item("src/index/common.rs", "struct", "TableIndex", props=P, rules=[r_vis])
    u.type_item("src/index/create.rs", "enum", "IndexType", props=P)
    u.type_item("src/index/create.rs", "struct", "IndexCreateStatement", props=P, rules=[r_vis])
    u.type_item("src/index/drop.rs", "struct", "IndexDropStatement", props=P, rules=[r_vis])
    u.type_item("src/foreign_key/common.rs", "enum", "ForeignKeyAction", props=P)
    u.type_item("src/foreign_key/common.rs", "struct", "TableForeignKey", props=P, rules=[r_vis])
    u.type_item("src/foreign_key/create.rs", "struct", "ForeignKeyCreateStatement", props=P, rules=[r_vis])
    u.type_item("src/foreign_key/drop.rs", "struct", "ForeignKeyDropStatement", props=P, rules=[r_vis])
    u.type_item(FB, "enum", "Mode", props=P, keep_derive=("PartialEq", "Eq", "Structural"))
    u.type_item("src/table/create.rs", "enum", "TableOpt", props=P)
    u.type_item("src/table/create.rs", "struct", "TableCreateStatement", props=P, rules=[r_vis])
    u.type_item("src/table/drop.rs", "enum", "TableDropOpt", props=P)
    u.type_item("src/table/drop.rs", "struct", "TableDropStatement", props=P, rules=[r_vis])
    u.type_item("src/table/truncate.rs", "struct", "TableTruncateStatement", props=P, rules=[r_vis])
    u.type_item("src/table/rename.rs", "struct", "TableRenameStatement", props=P, rules=[r_vis])
    u.type_item("src/table/alter.rs", "struct", "AddColumnOption", props=P, rules=[r_vis])
    u.type_item("src/table/alter.rs", "enum", "TableAlterOption", props=P)
    u.type_item("src/table/alter.rs", "struct", "TableAlterStatement", props=P, rules=[r_vis])


CREATE_SPEC = r'''
// ---- CREATE TABLE -------------------------------------------------------------------------------------------------------------
// grammar (MySQL 15.1.20, PostgreSQL CREATE TABLE):
//   CREATE [TEMPORARY] TABLE [IF NOT EXISTS] tbl_name ( create_definition [, create_definition] ... ) [table_options]
//   create_definition: column_definition | index / key definition | [CONSTRAINT ..] FOREIGN KEY .. | CHECK (expr)
// every declared column, table-level index, foreign key and check: once, in declaration order (columns first), comma separated
pub open spec fn create_elements(c: TableCreateStatement) -> Seq<Ev> {
    l_coldefs(c.columns@) + l_tblidx(c.indexes@) + l_fks(c.foreign_keys@) + l_checks(c.check@)
}
pub open spec fn create_events(c: TableCreateStatement) -> Seq<Ev> {
    seq![lit("CREATE "), Ev::TemporaryKw(c), lit("TABLE "), Ev::IfNotExistsKw(c)]
        + (match c.table { Some(t) => seq![Ev::TRef(t)], None => emp() })
        + seq![lit(" ( ")] + sep_list(create_elements(c)) + seq![lit(" )"), Ev::TableOpts(c)]
        + (match c.extra { Some(x) => seq![lit(" "), Ev::Text(x@)], None => emp() })
}
'''


def build(u, variant=None):
    """variant None: MySQL / Postgres (C14).  variant `sqlite`: the SQLite renderers (C13) - the shared defaults are re-extracted and carry C13 there."""
    global P
    P = ["C13"] if variant == "sqlite" else ["C14"]
    try:
        _build(u, variant)
    finally:
        P = ["C14"]


def _build(u, variant=None):
    u.emit("use vstd::prelude::*;\nverus! {\n")
    types(u)
    u.prelude_file("units/schema/spec.rs", props=P)
    u.spec('''pub trait VDisp { spec fn ev(&self) -> Ev; }
impl VDisp for String { open spec fn ev(&self) -> Ev { Ev::Text(self@) } }
impl VDisp for u32 { open spec fn ev(&self) -> Ev { Ev::U32(*self) } }
impl VDisp for str { open spec fn ev(&self) -> Ev { Ev::Lit(self@) } }
impl<T: VDisp + ?Sized> VDisp for &T { open spec fn ev(&self) -> Ev { (**self).ev() } }
// R-fmt `{}` (trusted): Display of a String is its text, of a u32 its decimal text: one event naming the value
#[verifier::external_body]
fn vfmt_disp<W: VWrite, T: VDisp + ?Sized>(w: &mut W, x: &T) ensures final(w).tr() == old(w).tr().push(x.ev()) { unimplemented!() }
''', "schema::vfmt_disp", props=P)
    u.spec("".join(list_fns(*l) for l in LISTS) + "".join(len_lemma(l[0], l[1]) for l in LISTS if l[3] == "each") + SEP, "schema::list-fns", props=P)
    u.spec(CREATE_SPEC, "schema::create-table-spec", props=P)
    u.spec(TEXT_SHIMS, "schema::text-shims", props=P)
    u.spec(list_fns("l_tableopts", "TableOpt", "Ev::Text(tableopt_text(%s))", "pre"), "schema::l_tableopts", props=P)
    u.spec(DEFAULTS_SPEC, "schema::defaults-spec", props=P)
    # ------------------------------------------------------------------------------------------------------------------------------
    u.emit("pub struct Dflt;\nimpl Dflt {\n")
    u.spec(abstract("prepare_create_temporary_table", "x: &TableCreateStatement", "Ev::TemporaryKw(*x)") + abstract("prepare_create_table_if_not_exists", "x: &TableCreateStatement", "Ev::IfNotExistsKw(*x)")
           + abstract("prepare_table_ref_table_stmt", "x: &TableRef", "Ev::TRef(*x)") + abstract("prepare_column_def", "x: &ColumnDef", "Ev::ColDef(*x)")
           + abstract("prepare_table_index_expression", "x: &IndexCreateStatement", "Ev::TblIndex(*x)")
           + abstract("prepare_foreign_key_create_statement_internal", "x: &ForeignKeyCreateStatement", "Ev::FkCreate(*x, mode)").replace("sql: &mut W)", "sql: &mut W, mode: Mode)")
           + abstract("prepare_check_constraint", "x: &SimpleExpr", "Ev::Check(*x)") + abstract("prepare_table_opt", "x: &TableCreateStatement", "Ev::TableOpts(*x)"),
           "schema::abstract-sub-renderers(create)", props=P)

    def grp(k):
        """the elements rendered before loop k starts (as a spec expression over `create`)"""
        gs = ["l_coldefs(create.columns@)", "l_tblidx(create.indexes@)", "l_fks(create.foreign_keys@)", "l_checks(create.check@)"]
        return " + ".join(gs[:k]) if k else "emp()"
    loops, proofs = [], {"body-start": "let ghost t0 = sql.tr();"}
    info = [("it1", "create.columns", "l_coldefs", "Ev::ColDef(*column_def)"), ("it2", "create.indexes", "l_tblidx", "Ev::TblIndex(*index)"),
            ("it3", "create.foreign_keys", "l_fks", "Ev::FkCreate(*foreign_key, Mode::Creation)"), ("it4", "create.check", "l_checks", "Ev::Check(*check)")]
    for k, (it, coll, mk, ev) in enumerate(info):
        pre = grp(k)
        cur = "(%s + %s(%s@.subrange(0, %s.index@ as int)))" % (pre, mk, coll, it)
        loops.append("invariant %s.index@ <= %s@.len(), sql.tr() == t1 + sep_list%s, first == (%s.len() == 0)," % (it, coll, cur, cur))
        # before the loop: the group's empty prefix adds nothing
        start = "proof { lemma_%s_empty(%s@); assert(%s + emp() =~= %s); %s }" % (
            mk, coll, pre, pre, ("assert(sep_list(emp()) =~= emp()); assert(t1 + emp() =~= t1);" if k == 0 else "assert(%s@.subrange(0, %s@.len() as int) =~= %s@);" % (info[k - 1][1], info[k - 1][1], info[k - 1][1])))
        anchor = "before#1:for column_def in it1" if k == 0 else "before#1:for %s in %s" % (["column_def", "index", "foreign_key", "check"][k], it)
        proofs[anchor] = ("let ghost t1 = sql.tr();\n" if k == 0 else "") + start
        # end of an iteration: one more element of this group
        proofs["loop%d-end" % (k + 1)] = ("proof { let ghost pfx = %s + %s(%s@.subrange(0, %s.index@ as int)); lemma_%s_step(%s@, %s.index@ as int); lemma_sep_push(pfx, %s); "
                                           "assert(%s + %s(%s@.subrange(0, %s.index@ + 1)) =~= pfx.push(%s)); }") % (pre, mk, coll, it, mk, coll, it, ev, pre, mk, coll, it, ev)
    proofs['before#1:vfmt_lit(sql, " )")'] = "proof { assert(create.check@.subrange(0, create.check@.len() as int) =~= create.check@); }"
    proofs["body-end"] = "proof { assert(sql.tr() =~= t0 + create_events(*create)); }"
    u.fn(TB, "trait TableBuilder", "prepare_table_create_statement", props=P, key="TableBuilder::prepare_table_create_statement", vpath="Dflt::prepare_table_create_statement",
         prefix="#[verifier::rlimit(60)]\n    ", rules=[r_dynw, r_fold, r_fmt],
         spec="ensures\n    // every declared element exactly once, in declaration order, comma separated, inside one pair of parentheses; options after it\n    final(sql).tr() == old(sql).tr() + create_events(*create),",
         loops=loops, proofs=proofs)
    more_defaults(u)
    u.emit("}\n")
    if variant == "sqlite":
        from units.schema import sqlite as sq
        sq.build_sqlite(u)
    else:
        mysql_table(u)
        postgres_table(u)
        index_fk(u)
        pg_types(u)
        column_types(u)
    u.emit("} // verus!\nfn main() {}\n")


def simple(u, path, block, name, events, rules, vpath, key=None, requires="", comment="", pre="", rename=None, extra_proofs=None, loops=None, t0_extra="", props=None, refuses=""):
    """a renderer without loops (or with `loops`): its trace is the old one plus `events` (a spec expression over its parameters)"""
    pr = {"body-start": "let ghost t0 = sql.tr();" + t0_extra, "body-end": "proof { %s assert(sql.tr() =~= t0 + (%s)); }" % (pre, events)}
    pr.update(extra_proofs or {})
    u.fn(path, block, name, props=props or P, key=key or "%s::%s" % (vpath.split("::")[0], name), vpath=vpath, rules=list(rules) + [r_unit_tail], rename=rename, loops=loops,
         spec=(("requires %s,\n" % requires) if requires else "") + "ensures\n"
              + (("    // REFUSAL (panic! = a call after which false holds): the function returns only if\n    %s,\n" % refuses) if refuses else "")
              + ("    // %s\n" % comment if comment else "") + "    final(sql).tr() == old(sql).tr() + (%s)," % events,
         proofs=pr)


DEFAULTS_SPEC = r'''
// ---- column specifications (grammar: column_definition = data_type [NOT NULL | NULL] [DEFAULT ..] [AUTO_INCREMENT] [UNIQUE [KEY]] [[PRIMARY] KEY]
//      [COMMENT 'string'] [CHECK (expr)] | data_type [GENERATED ALWAYS] AS (expr) [VIRTUAL | STORED] ..; PostgreSQL column_constraint likewise) ---------
pub open spec fn colspec_events(cs: ColumnSpec) -> Seq<Ev> {
    match cs {
        ColumnSpec::Null => seq![lit("NULL")],
        ColumnSpec::NotNull => seq![lit("NOT NULL")],
        ColumnSpec::Default(e) => seq![lit("DEFAULT "), Ev::Expr(e)],
        ColumnSpec::AutoIncrement => seq![Ev::AutoIncKw],
        ColumnSpec::UniqueKey => seq![lit("UNIQUE")],
        ColumnSpec::PrimaryKey => seq![lit("PRIMARY KEY")],
        ColumnSpec::Check(e) => seq![Ev::Check(e)],
        ColumnSpec::Generated { expr, stored } => seq![Ev::Generated(expr, stored)],
        ColumnSpec::Extra(s) => seq![Ev::Text(s@)],
        ColumnSpec::Comment(c) => seq![Ev::Comment(c@)],
        ColumnSpec::Using(_) => emp(),       // only meaningful in PostgreSQL's ALTER COLUMN .. TYPE .. USING
    }
}
// table options (MySQL table_option: ENGINE [=] name | COLLATE [=] name | [DEFAULT] CHARSET [=] name), space separated, in call order
pub open spec fn tableopt_text(o: TableOpt) -> Seq<char> {
    match o { TableOpt::Engine(s) => "ENGINE="@ + s@, TableOpt::Collate(s) => "COLLATE="@ + s@, TableOpt::CharacterSet(s) => "DEFAULT CHARSET="@ + s@ }
}
// DROP TABLE [IF EXISTS] tbl [, tbl] ... [RESTRICT | CASCADE]
pub open spec fn drop_events(d: TableDropStatement) -> Seq<Ev> {
    seq![lit("DROP TABLE ")] + (if d.if_exists { seq![lit("IF EXISTS ")] } else { emp() }) + l_trefs(d.tables@) + l_dropopts(d.options@)
}
'''
TEXT_SHIMS = r'''
// R-format (trusted): Display of a String / &str is its text, of an integer its decimal text (uninterpreted num_text)
pub uninterp spec fn num_text(n: int) -> Seq<char>;
pub trait VTextOf { spec fn text(&self) -> Seq<char>; }
impl VTextOf for String { open spec fn text(&self) -> Seq<char> { self@ } }
impl VTextOf for u32 { open spec fn text(&self) -> Seq<char> { num_text(*self as int) } }
impl<T: VTextOf> VTextOf for &T { open spec fn text(&self) -> Seq<char> { (**self).text() } }
#[verifier::external_body]
fn vpush_disp<T: VTextOf>(f: &mut String, x: &T) ensures final(f)@ == old(f)@ + x.text() { unimplemented!() }
'''


def more_defaults(u):
    def d(name, events, rules, **kw):
        kw.setdefault("key", "TableBuilder::" + name)
        simple(u, TB, "trait TableBuilder", name, events, rules, "Dflt::" + (kw.get("rename") or name), **kw)
    u.spec(abstract("prepare_table_ref_iden", "x: &TableRef", "Ev::TRefIden(*x)") + abstract("prepare_simple_expr", "x: &SimpleExpr", "Ev::Expr(*x)")
           + abstract("prepare_auto_increment_keyword", "", "Ev::AutoIncKw").replace("(&self, , sql", "(&self, sql")
           + abstract("prepare_generated_column", "x: &SimpleExpr, stored: bool", "Ev::Generated(*x, stored)") + abstract("column_comment", "x: &String", "Ev::Comment(x@)")
           + abstract("prepare_table_drop_opt", "x: &TableDropOpt", "Ev::DropOpt(*x)"), "schema::abstract-sub-renderers(defaults)", props=P)
    # a schema statement names a plain / schema-qualified table; a sub-query or VALUES list panics (precondition)
    simple(u, TB, "trait TableBuilder", "prepare_table_ref_table_stmt", "seq![Ev::TRefIden(*table_ref)]", [r_dynw, make_r_sub("R-panic", r'panic!\("Not supported"\)', "vpanic()", min_count=0)], "Dflt::prepare_table_ref_table_stmt_impl",
           key="TableBuilder::prepare_table_ref_table_stmt", rename="prepare_table_ref_table_stmt_impl",
           refuses="(*table_ref is Table) || (*table_ref is SchemaTable) || (*table_ref is DatabaseSchemaTable)", comment="the (qualified) table name: one name token per part (unit ident)")
    d("prepare_column_spec", "colspec_events(*column_spec)",
      [r_dynw, r_qb, make_r_sub("R-opaque", r'write!\(sql, "\{\}", self\.column_spec_auto_increment_keyword\(\)\)\.unwrap\(\)', "self.prepare_auto_increment_keyword(sql)"), r_fmt],
      comment="each specification in its grammar form", t0_extra=" let ghost cs_ = *column_spec;", pre="assert(cs_ == *column_spec);")
    d("prepare_table_opt", "seq![Ev::TableOptsDef(*create)]", [r_dynw], rename="prepare_table_opt_dflt", key="TableBuilder::prepare_table_opt[default]")
    u.spec(abstract("prepare_table_opt_def", "x: &TableCreateStatement", "Ev::TableOptsDef(*x)"), "schema::abstract(prepare_table_opt_def)", props=P)
    u.fn(TB, "trait TableBuilder", "prepare_table_opt_def", rename="prepare_table_opt_def_impl", props=P, key="TableBuilder::prepare_table_opt_def", vpath="Dflt::prepare_table_opt_def_impl",
         rules=[r_dynw, r_semi, r_format, r_fmt, make_r_sub("R-forghost", r"for table_opt in create\.options\.iter\(\)", "for table_opt in it1: create.options.iter()")],
         spec="ensures\n    // every table option, in call order, each preceded by one space, in the dialect's `NAME=value` form\n    final(sql).tr() == old(sql).tr() + l_tableopts(create.options@),",
         loops=["invariant it1.index@ <= create.options@.len(), sql.tr() == t0 + l_tableopts(create.options@.subrange(0, it1.index@ as int)),"],
         proofs={"body-start": "let ghost t0 = sql.tr();\nproof { lemma_l_tableopts_empty(create.options@); assert(t0 + emp() =~= t0); }",
                 "loop1-end": "proof { lemma_l_tableopts_step(create.options@, it1.index@ as int); }",
                 "body-end": "proof { lemma_l_tableopts_empty(create.options@); }"})
    d("prepare_table_drop_statement", "drop_events(*drop)", [r_dynw, r_fold, r_fmt, make_r_sub("R-forghost", r"for drop_opt in drop\.options\.iter\(\)", "for drop_opt in it2: drop.options.iter()")],
      comment="DROP TABLE [IF EXISTS] every table, comma separated, then every option",
      loops=["invariant it1.index@ <= drop.tables@.len(), first == (it1.index@ == 0), sql.tr() == tl + l_trefs(drop.tables@.subrange(0, it1.index@ as int)),",
             "invariant it2.index@ <= drop.options@.len(), sql.tr() == tl + l_trefs(drop.tables@) + l_dropopts(drop.options@.subrange(0, it2.index@ as int)),"],
      extra_proofs={"before#1:let mut first = true;": "let ghost tl = sql.tr();\nproof { lemma_l_trefs_empty(drop.tables@); assert(tl + emp() =~= tl); }",
                    "loop1-end": "proof { lemma_l_trefs_step(drop.tables@, it1.index@ as int); }",
                    "before#1:for drop_opt in it2": "proof { lemma_l_trefs_empty(drop.tables@); lemma_l_dropopts_empty(drop.options@); assert(tl + l_trefs(drop.tables@) + emp() =~= tl + l_trefs(drop.tables@)); }",
                    "loop2-end": "proof { lemma_l_dropopts_step(drop.options@, it2.index@ as int); assert((tl + l_trefs(drop.tables@) + l_dropopts(drop.options@.subrange(0, it2.index@ as int))).push(Ev::DropOpt(*drop_opt)) =~= tl + l_trefs(drop.tables@) + l_dropopts(drop.options@.subrange(0, it2.index@ as int)).push(Ev::DropOpt(*drop_opt))); }"},
      pre="lemma_l_dropopts_empty(drop.options@);")
    simple(u, TB, "trait TableBuilder", "prepare_table_drop_opt", 'seq![lit(" "), lit(match *drop_opt { TableDropOpt::Restrict => "RESTRICT", TableDropOpt::Cascade => "CASCADE" })]', [r_dynw, r_fmt], "Dflt::prepare_table_drop_opt_impl",
           key="TableBuilder::prepare_table_drop_opt", rename="prepare_table_drop_opt_impl")
    d("prepare_table_truncate_statement", 'seq![lit("TRUNCATE TABLE ")] + (match truncate.table { Some(t) => seq![Ev::TRef(t)], None => emp() })', [r_dynw, r_fmt])
    simple(u, TB, "trait TableBuilder", "prepare_check_constraint", 'seq![lit("CHECK ("), Ev::Expr(*check), lit(")")]', [r_dynw, r_qb, r_fmt], "Dflt::prepare_check_constraint_impl",
           key="TableBuilder::prepare_check_constraint", rename="prepare_check_constraint_impl", comment="CHECK ( expr ): the expression inside one pair of parentheses")
    simple(u, TB, "trait TableBuilder", "prepare_generated_column", 'seq![lit("GENERATED ALWAYS AS ("), Ev::Expr(*gen), lit(")"), lit(if stored { " STORED" } else { " VIRTUAL" })]', [r_dynw, r_qb, r_fmt], "Dflt::prepare_generated_column_impl",
           key="TableBuilder::prepare_generated_column", rename="prepare_generated_column_impl")
    simple(u, TB, "trait TableBuilder", "prepare_create_table_if_not_exists", 'if create.if_not_exists { seq![lit("IF NOT EXISTS ")] } else { emp() }', [r_dynw, r_fmt], "Dflt::prepare_create_table_if_not_exists_impl",
           key="TableBuilder::prepare_create_table_if_not_exists", rename="prepare_create_table_if_not_exists_impl")
    simple(u, TB, "trait TableBuilder", "prepare_create_temporary_table", 'if create.temporary { seq![lit("TEMPORARY ")] } else { emp() }', [r_dynw, r_fmt], "Dflt::prepare_create_temporary_table_impl",
           key="TableBuilder::prepare_create_temporary_table", rename="prepare_create_temporary_table_impl")


MYSQL_SPEC = r"""
// ---- MySQL ---------------------------------------------------------------------------------------------------------------------
// the text escape_string returns (the escaping itself is unit `escape`, C17 / C03)
pub uninterp spec fn esc_text(s: Seq<char>) -> Seq<char>;
// column_definition: col_name data_type [specification] ...   - each specification once, in declaration order, space separated
pub open spec fn coldef_events_mysql(cd: ColumnDef) -> Seq<Ev> {
    seq![Ev::Iden(cd.name)] + (match cd.types { Some(t) => seq![lit(" "), Ev::ColType(t)], None => emp() }) + l_specs(cd.spec@)
}
// table_options: [COMMENT [=] 'string'] then ENGINE / COLLATE / CHARSET; the comment is a string literal made of the ESCAPED text
pub open spec fn tableopts_events_mysql(c: TableCreateStatement) -> Seq<Ev> {
    (match c.comment { Some(x) => seq![lit(" COMMENT '"), Ev::Text(esc_text(x@)), lit("'")], None => emp() }) + seq![Ev::TableOptsDef(c)]
}
// ALTER TABLE tbl alter_option [, alter_option] ...  (MySQL 15.1.9)
pub open spec fn alter_opt_mysql(o: TableAlterOption) -> Seq<Ev> {
    match o {
        TableAlterOption::AddColumn(a) => seq![lit("ADD COLUMN ")] + (if a.if_not_exists { seq![lit("IF NOT EXISTS ")] } else { emp() }) + seq![Ev::ColDef(a.column)],
        TableAlterOption::ModifyColumn(cd) => seq![lit("MODIFY COLUMN "), Ev::ColDef(cd)],
        TableAlterOption::RenameColumn(f, t) => seq![lit("RENAME COLUMN "), Ev::Iden(f), lit(" TO "), Ev::Iden(t)],
        TableAlterOption::DropColumn(c) => seq![lit("DROP COLUMN "), Ev::Iden(c)],
        TableAlterOption::DropForeignKey(n) => seq![Ev::FkDropNamed(n)],
        TableAlterOption::AddForeignKey(fk) => seq![Ev::FkCreate(ForeignKeyCreateStatement { foreign_key: fk }, Mode::TableAlter)],
    }
}
pub open spec fn alter_events_mysql(a: TableAlterStatement) -> Seq<Ev> {
    seq![lit("ALTER TABLE ")] + (match a.table { Some(t) => seq![Ev::TRef(t), lit(" ")], None => emp() }) + l_alter_my(a.options@)
}
"""


def alter_fn(u, path, block, owner, listfn, optfn, extra_rules=(), flag="first", more_loops=(), more_proofs=None, more_req=""):
    """the ALTER TABLE renderer of a backend: keyword, table, then every option once, in call order, comma separated"""
    u.fn(path, block, "prepare_table_alter_statement", props=P, key="%s::prepare_table_alter_statement" % owner, vpath="%s::prepare_table_alter_statement" % owner, prefix="#[verifier::rlimit(80)]\n    ",
         rules=[r_dynw, make_r_sub("R-panic", r'panic!\("No alter option found"\)', "vpanic()", min_count=0), r_fold, r_semi, r_iden] + list(extra_rules) + [r_fmt],
         spec=(("requires\n" + more_req) if more_req else "") + "ensures\n    // REFUSAL: an ALTER TABLE without any option panics (`No alter option found`): the function returns only if\n    alter.options@.len() > 0,\n    // every alter option exactly once, in call order, comma separated, each in the dialect's form\n    final(sql).tr() == old(sql).tr() + alter_events_%s(*alter)," % optfn,
         loops=["invariant it1.index@ <= alter.options@.len(), %s == (it1.index@ == 0), sql.tr() == ta + %s(alter.options@.subrange(0, it1.index@ as int))," % (flag, listfn)] + list(more_loops),
         proofs=dict({"body-start": "let ghost t0 = sql.tr();",
                 "before#1:let mut %s = true;" % flag: "let ghost ta = sql.tr();\nproof { lemma_%s_empty(alter.options@); assert(ta + emp() =~= ta); }" % listfn,
                 "loop1-start": "let ghost tl = sql.tr(); let ghost opt_ = *option;",
                 "loop1-end": "proof { lemma_%s_step(alter.options@, it1.index@ as int); assert(sql.tr() =~= (if it1.index@ == 0 { tl } else { tl.push(lit(\", \")) }) + alter_opt_%s(opt_)); }" % (listfn, optfn),
                 "body-end": "proof { lemma_%s_empty(alter.options@); assert(sql.tr() =~= t0 + alter_events_%s(*alter)); }" % (listfn, optfn)}, **(more_proofs or {})))


def mysql_table(u):
    MT = "src/backend/mysql/table.rs"
    B = "impl TableBuilder for MysqlQueryBuilder"
    u.spec(list_fns("l_specs", "ColumnSpec", "Ev::ColSpec(%s)", "pre") + list_fns("l_alter_my", "TableAlterOption", "alter_opt_mysql(%s)", "multi"), "schema::mysql-lists", props=P)
    u.spec(MYSQL_SPEC, "schema::mysql-spec", props=P)
    u.emit("pub struct MysqlQueryBuilder;\nimpl MysqlQueryBuilder {\n")
    u.spec(abstract("prepare_iden", "x: &DynIden", "Ev::Iden(*x)") + abstract("prepare_column_type", "x: &ColumnType", "Ev::ColType(*x)") + abstract("prepare_column_spec", "x: &ColumnSpec", "Ev::ColSpec(*x)")
           + abstract("prepare_table_opt_def", "x: &TableCreateStatement", "Ev::TableOptsDef(*x)") + abstract("prepare_table_ref_table_stmt", "x: &TableRef", "Ev::TRef(*x)")
           + abstract("prepare_column_def", "x: &ColumnDef", "Ev::ColDef(*x)") + abstract("prepare_drop_fk_named", "x: &DynIden", "Ev::FkDropNamed(*x)")
           + abstract("prepare_foreign_key_create_statement_internal", "x: &ForeignKeyCreateStatement", "Ev::FkCreate(*x, mode)").replace("sql: &mut W)", "sql: &mut W, mode: Mode)")
           + "    #[verifier::external_body]\n    fn escape_string(&self, s: &String) -> (r: String) ensures r@ == esc_text(s@) { unimplemented!() }\n"
           + "    // #[derive(Clone)] (trusted): `.to_owned()` of a TableForeignKey is a structural copy\n    #[verifier::external_body]\n    fn vclone_fk(x: &TableForeignKey) -> (r: TableForeignKey) ensures r == *x { unimplemented!() }\n",
           "schema::abstract-sub-renderers(mysql table)", props=P)
    simple(u, MT, B, "prepare_table_opt", "tableopts_events_mysql(*create)", [r_dynw, r_fmt], "MysqlQueryBuilder::prepare_table_opt", key="MysqlQueryBuilder::prepare_table_opt",
           comment="COMMENT '<escaped text>' (one string literal, C03), then the options", props=P + ["C03"])
    simple(u, MT, B, "prepare_column_def", "coldef_events_mysql(*column_def)", [r_dynw, r_iden, r_semi, r_fmt, make_r_sub("R-forghost", r"for column_spec in column_def\.spec\.iter\(\)", "for column_spec in it1: column_def.spec.iter()")],
           "MysqlQueryBuilder::prepare_column_def_impl", key="MysqlQueryBuilder::prepare_column_def", rename="prepare_column_def_impl", comment="name, ONE type, then each specification once, in declaration order",
           loops=["invariant it1.index@ <= column_def.spec@.len(), sql.tr() == ts + l_specs(column_def.spec@.subrange(0, it1.index@ as int)),"],
           extra_proofs={"before#1:for column_spec in it1": "let ghost ts = sql.tr();\nproof { lemma_l_specs_empty(column_def.spec@); assert(ts + emp() =~= ts); }",
                         "loop1-end": "proof { lemma_l_specs_step(column_def.spec@, it1.index@ as int); }"},
           pre="lemma_l_specs_empty(column_def.spec@);")
    alter_fn(u, MT, B, "MysqlQueryBuilder", "l_alter_my", "mysql",
             extra_rules=[make_r_sub("R-arm-out", r"let mut foreign_key = TableForeignKey::new\(\);\s*foreign_key\.name\(name\.to_string\(\)\);\s*let drop = ForeignKeyDropStatement \{\s*foreign_key,\s*table: None,\s*\};\s*self\.prepare_foreign_key_drop_statement_internal\(&drop, sql, Mode::TableAlter\);",
                                      "self.prepare_drop_fk_named(name, sql);"),
                          make_r_sub("R-attr", r"foreign_key\.to_owned\(\)", "Self::vclone_fk(foreign_key)")])
    simple(u, MT, B, "prepare_table_rename_statement", 'seq![lit("RENAME TABLE ")] + (match rename.from_name { Some(t) => seq![Ev::TRef(t)], None => emp() }) + seq![lit(" TO ")] + (match rename.to_name { Some(t) => seq![Ev::TRef(t)], None => emp() })',
           [r_dynw, r_fmt], "MysqlQueryBuilder::prepare_table_rename_statement", key="MysqlQueryBuilder::prepare_table_rename_statement", comment="RENAME TABLE old TO new")
    u.emit("}\n")


def cat_fns(name, ty, mk):
    """concatenation of per-item event sequences: name(xs) = mk(xs[0]) + mk(xs[1]) + ..  (first order, with step / empty lemmas)"""
    return """pub open spec fn %(n)s(xs: Seq<%(t)s>) -> Seq<Ev>
    decreases xs.len()
{ if xs.len() == 0 { emp() } else { %(n)s(xs.drop_last()) + %(last)s } }
pub proof fn lemma_%(n)s_step(xs: Seq<%(t)s>, i: int)
    requires 0 <= i < xs.len()
    ensures %(n)s(xs.subrange(0, i + 1)) == %(n)s(xs.subrange(0, i)) + %(ith)s
{
    assert(xs.subrange(0, i + 1).drop_last() =~= xs.subrange(0, i));
    assert(xs.subrange(0, i + 1).last() == xs[i]);
}
pub proof fn lemma_%(n)s_empty(xs: Seq<%(t)s>)
    ensures %(n)s(xs.subrange(0, 0)) == emp(), xs.subrange(0, xs.len() as int) == xs
{
    assert(xs.subrange(0, 0) =~= Seq::<%(t)s>::empty());
    assert(xs.subrange(0, xs.len() as int) =~= xs);
}
""" % {"n": name, "t": ty, "last": mk.replace("%s", "xs.last()"), "ith": mk.replace("%s", "xs[i]")}


PG_SPEC = r"""
// ---- PostgreSQL ----------------------------------------------------------------------------------------------------------------
pub open spec fn has_autoinc(specs: Seq<ColumnSpec>) -> bool { exists|i: int| 0 <= i < specs.len() && #[trigger] specs[i] is AutoIncrement }
// auto-increment takes the dialect's form: PostgreSQL has no AUTO_INCREMENT keyword, the column's TYPE becomes a serial type
// (PostgreSQL 8.1.4: smallserial = 2 bytes, serial = 4 bytes, bigserial = 8 bytes)
pub open spec fn coltype_part_pg(cd: ColumnDef) -> Seq<Ev> {
    match cd.types { Some(t) => seq![lit(" "), if has_autoinc(cd.spec@) { Ev::Serial(t) } else { Ev::ColType(t) }], None => emp() }
}
pub open spec fn serial_name(t: ColumnType) -> Seq<char> {
    match t { ColumnType::SmallInteger => "smallserial"@, ColumnType::Integer => "serial"@, _ => "bigserial"@ }
}
// column_name data_type [column_constraint ...]: AutoIncrement went into the type, COMMENT is not column syntax in PostgreSQL
pub open spec fn colspec_pg(s: ColumnSpec) -> Seq<Ev> {
    if (s is AutoIncrement) || (s is Comment) { emp() } else { seq![lit(" "), Ev::ColSpec(s)] }
}
pub open spec fn coldef_events_pg(cd: ColumnDef) -> Seq<Ev> {
    seq![Ev::Iden(cd.name), Ev::ColTypePart(cd)] + l_specs_pg(cd.spec@)
}
// ALTER TABLE name action [, ... ]  (PostgreSQL ALTER TABLE).  MODIFY of a column is a LIST of actions, comma separated:
//   ALTER COLUMN c TYPE data_type [USING expr] | ALTER COLUMN c {SET | DROP} NOT NULL | ALTER COLUMN c SET DEFAULT expr
//   | ADD table_constraint   (UNIQUE (c) | PRIMARY KEY (c) | CHECK (expr))
// specifications with no ALTER form (AutoIncrement, Generated, Comment) write nothing - and no separator either
pub open spec fn pg_writes(s: ColumnSpec) -> bool { !((s is AutoIncrement) || (s is Generated) || (s is Comment)) }
pub open spec fn pg_action(cd: ColumnDef, s: ColumnSpec) -> Seq<Ev> {
    match s {
        ColumnSpec::Null => seq![lit("ALTER COLUMN "), Ev::Iden(cd.name), lit(" DROP NOT NULL")],
        ColumnSpec::NotNull => seq![lit("ALTER COLUMN "), Ev::Iden(cd.name), lit(" SET NOT NULL")],
        ColumnSpec::Default(v) => seq![lit("ALTER COLUMN "), Ev::Iden(cd.name), lit(" SET DEFAULT "), Ev::Expr(v)],
        ColumnSpec::UniqueKey => seq![lit("ADD UNIQUE ("), Ev::Iden(cd.name), lit(")")],
        ColumnSpec::PrimaryKey => seq![lit("ADD PRIMARY KEY ("), Ev::Iden(cd.name), lit(")")],
        ColumnSpec::Check(c) => seq![lit("ADD "), Ev::Check(c)],
        ColumnSpec::Extra(x) => seq![Ev::Text(x@)],
        ColumnSpec::Using(e) => seq![lit(" USING "), Ev::Expr(e)],       // attaches to the preceding TYPE action: no separator
        _ => emp(),
    }
}
pub open spec fn pg_wrote(cd: ColumnDef, n: int) -> bool
    decreases n
{ if n <= 0 { cd.types is Some } else { pg_wrote(cd, n - 1) || pg_writes(cd.spec@[n - 1]) } }
pub open spec fn pg_mod_upto(cd: ColumnDef, n: int) -> Seq<Ev>
    decreases n
{
    if n <= 0 { match cd.types { Some(t) => seq![lit("ALTER COLUMN "), Ev::Iden(cd.name), lit(" TYPE "), Ev::ColType(t)], None => emp() } }
    else {
        pg_mod_upto(cd, n - 1)
            + (if pg_writes(cd.spec@[n - 1]) && !(cd.spec@[n - 1] is Using) && pg_wrote(cd, n - 1) { seq![lit(", ")] } else { emp() })
            + pg_action(cd, cd.spec@[n - 1])
    }
}
pub open spec fn alter_opt_pg(o: TableAlterOption) -> Seq<Ev> {
    match o {
        TableAlterOption::AddColumn(a) => seq![lit("ADD COLUMN ")] + (if a.if_not_exists { seq![lit("IF NOT EXISTS ")] } else { emp() }) + coldef_events_pg(a.column),
        TableAlterOption::ModifyColumn(cd) => pg_mod_upto(cd, cd.spec@.len() as int),
        TableAlterOption::RenameColumn(f, t) => seq![lit("RENAME COLUMN "), Ev::Iden(f), lit(" TO "), Ev::Iden(t)],
        TableAlterOption::DropColumn(c) => seq![lit("DROP COLUMN "), Ev::Iden(c)],
        TableAlterOption::DropForeignKey(n) => seq![Ev::FkDropNamed(n)],
        TableAlterOption::AddForeignKey(fk) => seq![Ev::FkCreate(ForeignKeyCreateStatement { foreign_key: fk }, Mode::TableAlter)],
    }
}
pub open spec fn alter_events_pg(a: TableAlterStatement) -> Seq<Ev> {
    seq![lit("ALTER TABLE ")] + (match a.table { Some(t) => seq![Ev::TRef(t), lit(" ")], None => emp() }) + l_alter_pg(a.options@)
}
"""


def r_continue(text, ctx):
    """R-continue: in a `for` body, `if let P = x { continue; } REST`  ->  `if let P = x { } else { REST }` (this Verus has no `continue` in
    for-loops; skipping the rest of the body is what the else branch says).  Applied repeatedly to leading guards."""
    n = 0
    while True:
        m = re.search(r"if let ([^{}=]+) = ([a-z_]+) \{\s*continue;\s*\}", text)
        if not m:
            break
        # REST extends to the end of the enclosing block
        toks = rl.lex(text)
        depth, end = 0, None
        for t in toks:
            if t.start < m.end():
                continue
            if t.kind == "punct" and t.text in rl.OPEN:
                depth += 1
            elif t.kind == "punct" and t.text in rl.CLOSE:
                if depth == 0:
                    end = t.start
                    break
                depth -= 1
        if end is None:
            raise rl.Unsupported(ctx.key + ": R-continue: no enclosing block")
        rest = text[m.end():end]
        text = text[:m.start()] + "if let %s = %s { /*skip*/ } else {%s}\n        " % (m.group(1), m.group(2), rest) + text[end:]
        n += 1
    if n == 0:
        raise rl.LostAnchor(ctx.key + ": R-continue: no `if let .. { continue; }` guard")
    ctx.app("R-continue", "%d guard(s) `if let P = x { continue; }`" % n, "if let P = x { } else { rest of the loop body }")
    return text


def closure_fn(u, path, block, fn_name, let_pat, new_name, owner, **kw):
    """R-closure: a closure bound by `let f = |params| { BODY };` inside fn `fn_name` is verified as a function of its parameters
    (+ &self, the only capture); registered as a virtual source so that the usual extraction applies to its text.
    If the closure is gone (a refactoring) only THIS item leaves the unit's reach: it is recorded as stubbed (its properties undecided)."""
    try:
        src = u.src(path)
        blk = rl.find_block(path, src, block)[0]
        it = rl.find_fn(path, src, blk, fn_name)
        i = it.text.find(let_pat)
        if i < 0:
            raise rl.LostAnchor("%s: closure `%s` not found in fn %s" % (path, let_pat, fn_name))
        m = re.match(r"let \w+ = \|([^|]*)\|\s*", it.text[i:])
        if not m:
            raise rl.LostAnchor("%s: `%s` is not a closure binding" % (path, let_pat))
        rest = it.text[i + m.end():]
        toks = rl.code_toks(rl.lex(rest))
        if toks[0].text != "{":
            raise rl.Unsupported("closure body is not a block")
        close = rl.match_close(toks, 0)
        body = rest[toks[0].start:toks[close].end]
    except (rl.LostAnchor, rl.Unsupported) as e:
        u.stubbed[kw.get("key") or new_name] = {"reason": "%s: %s" % (type(e).__name__, e), "props": list(kw.get("props") or []), "fname": new_name}
        return
    vp = "%s#closure(%s)@%d" % (path, fn_name, src.count("\n", 0, it.start + i) + 1)
    u._src_cache[vp] = "impl %s {\n    fn %s(&self, %s) %s\n}\n" % (owner, new_name, m.group(1).strip(), body)
    u.fn(vp, "impl " + owner, new_name, vpath="%s::%s" % (owner, new_name), **kw)


def postgres_table(u):
    PT = "src/backend/postgres/table.rs"
    B = "impl TableBuilder for PostgresQueryBuilder"
    BI = "impl PostgresQueryBuilder"
    u.spec(cat_fns("l_specs_pg", "ColumnSpec", "colspec_pg(%s)") + list_fns("l_alter_pg", "TableAlterOption", "alter_opt_pg(%s)", "multi"), "schema::pg-lists", props=P)
    u.spec(PG_SPEC, "schema::pg-spec", props=P)
    u.emit("pub struct PostgresQueryBuilder;\nimpl PostgresQueryBuilder {\n")
    u.spec(abstract("prepare_iden", "x: &DynIden", "Ev::Iden(*x)") + abstract("prepare_column_type", "x: &ColumnType", "Ev::ColType(*x)") + abstract("prepare_column_spec", "x: &ColumnSpec", "Ev::ColSpec(*x)")
           + abstract("prepare_column_auto_increment", "x: &ColumnType", "Ev::Serial(*x)", extra_req="requires (*x is SmallInteger) || (*x is Integer) || (*x is BigInteger) ")
           + abstract("prepare_table_ref_table_stmt", "x: &TableRef", "Ev::TRef(*x)") + abstract("vcall_type_writer", "x: &ColumnDef", "Ev::ColTypePart(*x)")
           + abstract("prepare_column_type_check_auto_increment", "x: &ColumnDef", "Ev::ColTypePart(*x)")
           + """    // R-strfn (trusted): `.iter().position(|s| matches!(s, ColumnSpec::AutoIncrement))` is Some iff some element is AutoIncrement; `.iter().any(..)` likewise
    #[verifier::external_body]
    fn vposition_autoinc(v: &Vec<ColumnSpec>) -> (r: Option<usize>) ensures r is Some <==> has_autoinc(v@) { unimplemented!() }
    #[verifier::external_body]
    fn vany_autoinc(v: &Vec<ColumnSpec>) -> (r: bool) ensures r == has_autoinc(v@) { unimplemented!() }
""", "schema::abstract-sub-renderers(postgres table)", props=P)
    r_pos = make_r_sub("R-strfn", r"column_def\s*\.spec\s*\.iter\(\)\s*\.position\(\|s\| matches!\(s, ColumnSpec::AutoIncrement\)\)", "Self::vposition_autoinc(&column_def.spec)")
    r_any = make_r_sub("R-strfn", r"column_def\s*\.spec\s*\.iter\(\)\s*\.any\(\|v\| matches!\(v, ColumnSpec::AutoIncrement\)\)", "Self::vany_autoinc(&column_def.spec)")
    # the serial types
    u.fn(PT, BI, "prepare_column_auto_increment", rename="prepare_column_auto_increment_impl", props=P, key="PostgresQueryBuilder::prepare_column_auto_increment", vpath="PostgresQueryBuilder::prepare_column_auto_increment_impl",
         rules=[r_dynw, r_semi, make_r_sub("R-panic", r'unimplemented!\("\{:\?\} doesn\'t support auto increment", column_type\)', "vpanic()", min_count=0), r_fmt, r_unit_tail],
         spec="ensures\n    // REFUSAL: no serial type for any other type (unimplemented!()): the function returns only if\n    (*column_type is SmallInteger) || (*column_type is Integer) || (*column_type is BigInteger),\n    // the serial type of the same width\n    final(sql).tr() == old(sql).tr().push(Ev::Lit(serial_name(*column_type))),")
    simple(u, PT, BI, "prepare_column_type_check_auto_increment", "coltype_part_pg(*column_def)", [r_dynw, r_pos, r_semi, r_fmt], "PostgresQueryBuilder::prepare_column_type_check_auto_increment_impl",
           key="PostgresQueryBuilder::prepare_column_type_check_auto_increment", rename="prepare_column_type_check_auto_increment_impl",
           requires="has_autoinc(column_def.spec@) && column_def.types is Some ==> (column_def.types->Some_0 is SmallInteger) || (column_def.types->Some_0 is Integer) || (column_def.types->Some_0 is BigInteger)",
           comment="one type: the serial type when the column auto-increments, its declared type otherwise")
    closure_fn(u, PT, B, "prepare_table_alter_statement", "let f = |column_def: &ColumnDef, sql: &mut dyn SqlWriter|", "alter_add_column_type_writer", "PostgresQueryBuilder", props=P,
               key="PostgresQueryBuilder::prepare_table_alter_statement[closure f of ADD COLUMN]", rules=[r_dynw, r_any, r_semi, r_fmt, r_unit_tail],
               spec="requires has_autoinc(column_def.spec@) && column_def.types is Some ==> (column_def.types->Some_0 is SmallInteger) || (column_def.types->Some_0 is Integer) || (column_def.types->Some_0 is BigInteger),\nensures final(sql).tr() == old(sql).tr() + coltype_part_pg(*column_def),",
               proofs={"body-start": "let ghost t0 = sql.tr();", "body-end": "proof { assert(sql.tr() =~= t0 + coltype_part_pg(*column_def)); }"})
    # prepare_column_def: the closure only forwards to prepare_column_type_check_auto_increment
    simple(u, PT, B, "prepare_column_def", "coldef_events_pg(*column_def)",
           [r_dynw, make_r_sub("R-closure", r"let f = \|column_def: &ColumnDef, sql: &mut W\| \{\s*self\.prepare_column_type_check_auto_increment\(column_def, sql\);\s*\};", ""),
            make_r_sub("R-closure", r"self\.prepare_column_def_common\(column_def, sql, f\)", "self.prepare_column_def_common(column_def, sql)")],
           "PostgresQueryBuilder::prepare_column_def_impl", key="PostgresQueryBuilder::prepare_column_def", rename="prepare_column_def_impl")
    u.spec(abstract("prepare_column_def_common", "x: &ColumnDef", "Ev::ColDef(*x)").replace("ensures final(sql).tr() == old(sql).tr().push(Ev::ColDef(*x))", "ensures final(sql).tr() == old(sql).tr() + coldef_events_pg(*x)"),
           "schema::abstract(prepare_column_def_common)", props=P)
    simple(u, PT, BI, "prepare_column_def_common", "coldef_events_pg(*column_def)",
           [r_dynw, make_r_sub("R-closure", r"fn prepare_column_def_common<W: VWrite, F>", "fn prepare_column_def_common<W: VWrite>"), make_r_sub("R-closure", r", f: F\)\s*where\s*F: Fn\(&ColumnDef, &mut W\),", ")"),
            make_r_sub("R-closure", r"\bf\(column_def, sql\);", "self.vcall_type_writer(column_def, sql);"), r_iden, r_semi, r_continue, r_fmt,
            make_r_sub("R-forghost", r"for column_spec in column_def\.spec\.iter\(\)", "for column_spec in it1: column_def.spec.iter()")],
           "PostgresQueryBuilder::prepare_column_def_common_impl", key="PostgresQueryBuilder::prepare_column_def_common", rename="prepare_column_def_common_impl",
           comment="name, ONE type (through the closure), then every specification but AutoIncrement / Comment, once, in declaration order",
           loops=["invariant it1.index@ <= column_def.spec@.len(), sql.tr() == ts + l_specs_pg(column_def.spec@.subrange(0, it1.index@ as int)),"],
           extra_proofs={"before#1:for column_spec in it1": "let ghost ts = sql.tr();\nproof { lemma_l_specs_pg_empty(column_def.spec@); assert(ts + emp() =~= ts); }",
                         "loop1-end": "proof { lemma_l_specs_pg_step(column_def.spec@, it1.index@ as int); assert(sql.tr() =~= ts + (l_specs_pg(column_def.spec@.subrange(0, it1.index@ as int)) + colspec_pg(*column_spec))); }"},
           pre="lemma_l_specs_pg_empty(column_def.spec@);")
    u.spec(abstract("prepare_drop_fk_named", "x: &DynIden", "Ev::FkDropNamed(*x)") + abstract("prepare_check_constraint", "x: &SimpleExpr", "Ev::Check(*x)") + abstract("prepare_simple_expr", "x: &SimpleExpr", "Ev::Expr(*x)")
           + abstract("prepare_foreign_key_create_statement_internal", "x: &ForeignKeyCreateStatement", "Ev::FkCreate(*x, mode)").replace("sql: &mut W)", "sql: &mut W, mode: Mode)")
           + "    #[verifier::external_body]\n    fn vclone_fk(x: &TableForeignKey) -> (r: TableForeignKey) ensures r == *x { unimplemented!() }\n", "schema::abstract-sub-renderers(postgres alter)", props=P)

    def r_drop_closure(text, ctx):
        m = re.search(r"let f = \|column_def: &ColumnDef, sql: &mut W\| ", text)
        if not m:
            raise rl.LostAnchor(ctx.key + ": R-closure: `let f = |column_def, sql|` not found")
        toks = rl.code_toks(rl.lex(text[m.end():]))
        close = rl.match_close(toks, 0)
        end = m.end() + toks[close].end
        m2 = re.match(r"\s*;", text[end:])
        ctx.app("R-closure", "let f = |column_def, sql| { .. };", "verified separately as alter_add_column_type_writer; the callee's call of it carries that contract")
        return text[:m.start()] + text[end + m2.end():]
    serial_ok = "(has_autoinc(%s.spec@) && %s.types is Some ==> (%s.types->Some_0 is SmallInteger) || (%s.types->Some_0 is Integer) || (%s.types->Some_0 is BigInteger))"
    alter_fn(u, PT, B, "PostgresQueryBuilder", "l_alter_pg", "pg", flag="first_o",
             extra_rules=[r_drop_closure, make_r_sub("R-closure", r"self\.prepare_column_def_common\(column, sql, f\)", "self.prepare_column_def_common(column, sql)"), r_qb,
                          make_r_sub("R-arm-out", r"let mut foreign_key = TableForeignKey::new\(\);\s*foreign_key\.name\(name\.to_string\(\)\);\s*let drop = ForeignKeyDropStatement \{\s*foreign_key,\s*table: None,\s*\};\s*self\.prepare_foreign_key_drop_statement_internal\(&drop, sql, Mode::TableAlter\);",
                                     "self.prepare_drop_fk_named(name, sql);"),
                          make_r_sub("R-attr", r"foreign_key\.to_owned\(\)", "Self::vclone_fk(foreign_key)")],
             more_req="    // ADD COLUMN of an auto-increment column: only the integer types have a serial form (unimplemented!() otherwise)\n    forall|i: int| 0 <= i < alter.options@.len() && (#[trigger] alter.options@[i]) is AddColumn ==> " + (serial_ok % (("alter.options@[i]->AddColumn_0.column",) * 5)) + ",\n",
             more_loops=["invariant it2.index@ <= column_def.spec@.len(), sql.tr() == tm + pg_mod_upto(*column_def, it2.index@ as int), first == !pg_wrote(*column_def, it2.index@ as int), opt_ == TableAlterOption::ModifyColumn(*column_def),"],
             more_proofs={"before#1:if let Some(column_type) = &column_def.types": "let ghost tm = sql.tr();",
                          "before#1:let mut first = first;": "proof { assert(sql.tr() =~= tm + pg_mod_upto(*column_def, 0)); }",
                          "loop2-start": "let ghost ti = sql.tr(); let ghost sp_ = *column_spec;",
                          "loop2-end": "proof { assert(sql.tr() =~= tm + pg_mod_upto(*column_def, it2.index@ + 1)); }"})
    simple(u, PT, B, "prepare_table_rename_statement", 'seq![lit("ALTER TABLE ")] + (match rename.from_name { Some(t) => seq![Ev::TRef(t)], None => emp() }) + seq![lit(" RENAME TO ")] + (match rename.to_name { Some(t) => seq![Ev::TRef(t)], None => emp() })',
           [r_dynw, r_fmt], "PostgresQueryBuilder::prepare_table_rename_statement", key="PostgresQueryBuilder::prepare_table_rename_statement", comment="ALTER TABLE old RENAME TO new")
    u.emit("}\n")


INDEX_SPEC = r"""
// ---- indexes and foreign keys -----------------------------------------------------------------------------------------------------
pub uninterp spec fn iden_text(i: DynIden) -> Seq<char>;       // Iden::to_string of a custom index type name (written bare, by design)
// key_part: col_name [(length)] [ASC | DESC]
pub open spec fn idxcol_events(c: IndexColumn) -> Seq<Ev> {
    seq![Ev::Iden(c.name), Ev::IdxColPrefix(c.prefix)] + (match c.order { Some(IndexOrder::Asc) => seq![lit(" ASC")], Some(IndexOrder::Desc) => seq![lit(" DESC")], None => emp() })
}
pub open spec fn idxcols_events(cs: Seq<IndexColumn>) -> Seq<Ev> { seq![lit("(")] + l_idxcols(cs) + seq![lit(")")] }
pub open spec fn is_fulltext(t: Option<IndexType>) -> bool { t is Some && t->Some_0 is FullText }
// MySQL: [PRIMARY | UNIQUE | FULLTEXT] flags in front of KEY / INDEX;  index_type: USING {BTREE | HASH}
pub open spec fn idxprefix_mysql(c: IndexCreateStatement) -> Seq<Ev> {
    (if c.primary { seq![lit("PRIMARY ")] } else { emp() }) + (if c.unique { seq![lit("UNIQUE ")] } else { emp() }) + (if is_fulltext(c.index_type) { seq![lit("FULLTEXT ")] } else { emp() })
}
pub open spec fn idxtype_mysql(t: Option<IndexType>) -> Seq<Ev> {
    match t { Some(IndexType::BTree) => seq![lit(" USING "), Ev::Text("BTREE"@)], Some(IndexType::Hash) => seq![lit(" USING "), Ev::Text("HASH"@)],
              Some(IndexType::Custom(c)) => seq![lit(" USING "), Ev::Text(iden_text(c))], _ => emp() }
}
// table-level (MySQL 15.1.20):  [PRIMARY | UNIQUE | FULLTEXT] KEY [index_name] [index_type] (key_part, ...)
pub open spec fn tblindex_mysql(c: IndexCreateStatement) -> Seq<Ev> {
    seq![Ev::IdxPrefix(c), lit("KEY ")] + (match c.index.name { Some(n) => seq![Ev::Name(n@), lit(" ")], None => emp() }) + seq![Ev::IdxType(c.index_type)]
        + (if is_fulltext(c.index_type) { seq![lit(" ")] } else { emp() }) + seq![Ev::IdxCols(c.index.columns)]
}
// CREATE [UNIQUE | FULLTEXT] INDEX index_name ON tbl_name (key_part, ...) [index_type]      (MySQL 15.1.15)
pub open spec fn idxcreate_mysql(c: IndexCreateStatement) -> Seq<Ev> {
    seq![lit("CREATE "), Ev::IdxPrefix(c), lit("INDEX ")] + (match c.index.name { Some(n) => seq![Ev::Name(n@)], None => emp() }) + seq![lit(" ON ")]
        + (match c.table { Some(t) => seq![Ev::TRef(t)], None => emp() }) + seq![lit(" "), Ev::IdxCols(c.index.columns), Ev::IdxType(c.index_type)]
}
// DROP INDEX index_name ON tbl_name     (MySQL 15.1.27; no IF EXISTS in MySQL: the renderer panics)
pub open spec fn idxdrop_mysql(d: IndexDropStatement) -> Seq<Ev> {
    seq![lit("DROP INDEX ")] + (match d.index.name { Some(n) => seq![Ev::Name(n@)], None => emp() }) + seq![lit(" ON ")] + (match d.table { Some(t) => seq![Ev::TRef(t)], None => emp() })
}
// PostgreSQL: table_constraint = [CONSTRAINT name] {UNIQUE [NULLS NOT DISTINCT] | PRIMARY KEY} (cols) [INCLUDE (cols)]
pub open spec fn idxprefix_pg(c: IndexCreateStatement) -> Seq<Ev> {
    (if c.primary { seq![lit("PRIMARY KEY ")] } else { emp() }) + (if c.unique { seq![lit("UNIQUE ")] } else { emp() })
}
pub open spec fn idxtype_pg(t: Option<IndexType>) -> Seq<Ev> {
    match t { Some(IndexType::BTree) => seq![lit(" USING "), Ev::Text("BTREE"@)], Some(IndexType::FullText) => seq![lit(" USING "), Ev::Text("GIN"@)], Some(IndexType::Hash) => seq![lit(" USING "), Ev::Text("HASH"@)],
              Some(IndexType::Custom(c)) => seq![lit(" USING "), Ev::Text(iden_text(c))], None => emp() }
}
pub open spec fn tblindex_pg(c: IndexCreateStatement) -> Seq<Ev> {
    (match c.index.name { Some(n) => seq![lit("CONSTRAINT "), Ev::Name(n@), lit(" ")], None => emp() }) + seq![Ev::IdxPrefix(c)]
        + (if c.nulls_not_distinct { seq![lit("NULLS NOT DISTINCT ")] } else { emp() }) + seq![Ev::IdxCols(c.index.columns)]
        + (if c.include_columns@.len() > 0 { seq![lit(" "), Ev::Include(c.include_columns)] } else { emp() })
}
// CREATE [UNIQUE] INDEX [IF NOT EXISTS] name ON table [USING method] (cols) [INCLUDE (cols)] [NULLS NOT DISTINCT] [WHERE predicate]
pub open spec fn idxcreate_pg(c: IndexCreateStatement) -> Seq<Ev> {
    seq![lit("CREATE "), Ev::IdxPrefix(c), lit("INDEX ")] + (if c.if_not_exists { seq![lit("IF NOT EXISTS ")] } else { emp() })
        + (match c.index.name { Some(n) => seq![Ev::Name(n@)], None => emp() }) + seq![lit(" ON ")] + (match c.table { Some(t) => seq![Ev::TRef(t)], None => emp() })
        + seq![Ev::IdxType(c.index_type), lit(" "), Ev::IdxCols(c.index.columns)]
        + (if c.include_columns@.len() > 0 { seq![lit(" "), Ev::Include(c.include_columns)] } else { emp() })
        + (if c.nulls_not_distinct { seq![lit(" NULLS NOT DISTINCT")] } else { emp() }) + seq![Ev::Filter(c.r#where)]
}
// DROP INDEX [IF EXISTS] [schema.]name
pub open spec fn idxdrop_pg(d: IndexDropStatement) -> Seq<Ev> {
    seq![lit("DROP INDEX ")] + (if d.if_exists { seq![lit("IF EXISTS ")] } else { emp() })
        + (match d.table { Some(TableRef::SchemaTable(sch, _)) => seq![Ev::Iden(sch), lit(".")], _ => emp() })
        + (match d.index.name { Some(n) => seq![Ev::Name(n@)], None => emp() })
}
// foreign keys.  reference_definition: REFERENCES tbl_name (key_part, ...) [ON DELETE reference_option] [ON UPDATE reference_option]
pub open spec fn fk_mid(k: TableForeignKey) -> Seq<Ev> { seq![lit(") REFERENCES ")] + (match k.ref_table { Some(t) => seq![Ev::TRef(t)], None => emp() }) + seq![lit(" (")] }
pub open spec fn fk_end(k: TableForeignKey) -> Seq<Ev> {
    seq![lit(")")] + (match k.on_delete { Some(a) => seq![lit(" ON DELETE "), Ev::FkAction(a)], None => emp() }) + (match k.on_update { Some(a) => seq![lit(" ON UPDATE "), Ev::FkAction(a)], None => emp() })
}
pub open spec fn fk_tail(k: TableForeignKey) -> Seq<Ev> { l_idens(k.columns@) + fk_mid(k) + l_idens(k.ref_columns@) + fk_end(k) }
pub proof fn lemma_fk_compose(t0: Seq<Ev>, pre: Seq<Ev>, tc: Seq<Ev>, tr2: Seq<Ev>, tr: Seq<Ev>, k: TableForeignKey)
    requires tc == t0 + pre, tr2 == tc + l_idens(k.columns@) + fk_mid(k), tr == tr2 + l_idens(k.ref_columns@) + fk_end(k)
    ensures tr == t0 + (pre + fk_tail(k))
{ assert(tr =~= t0 + (pre + fk_tail(k))); }
pub open spec fn fk_head(t: Option<TableRef>, mode: Mode) -> Seq<Ev> {
    (if mode == Mode::Alter { seq![lit("ALTER TABLE ")] + (match t { Some(t) => seq![Ev::TRef(t)], None => emp() }) + seq![lit(" ")] } else { emp() })
}
// MySQL: ALTER TABLE tbl ADD [CONSTRAINT [symbol]] FOREIGN KEY (col, ...) reference_definition;  in CREATE TABLE without ADD
pub open spec fn fkpre_mysql(c: ForeignKeyCreateStatement, mode: Mode) -> Seq<Ev> {
    fk_head(c.foreign_key.table, mode) + (if mode != Mode::Creation { seq![lit("ADD ")] } else { emp() }) + seq![lit("CONSTRAINT ")]
        + (match c.foreign_key.name { Some(n) => seq![Ev::Name(n@)], None => emp() }) + seq![lit(" FOREIGN KEY (")]
}
pub open spec fn fkcreate_mysql(c: ForeignKeyCreateStatement, mode: Mode) -> Seq<Ev> { fkpre_mysql(c, mode) + fk_tail(c.foreign_key) }
pub open spec fn fkdrop_mysql(d: ForeignKeyDropStatement, mode: Mode) -> Seq<Ev> {
    fk_head(d.table, mode) + seq![lit("DROP FOREIGN KEY ")] + (match d.foreign_key.name { Some(n) => seq![Ev::Name(n@)], None => emp() })
}
// PostgreSQL: ALTER TABLE tbl ADD [CONSTRAINT name] FOREIGN KEY (col, ...) REFERENCES ..;  DROP CONSTRAINT name
pub open spec fn fkpre_pg(c: ForeignKeyCreateStatement, mode: Mode) -> Seq<Ev> {
    fk_head(c.foreign_key.table, mode) + (if mode != Mode::Creation { seq![lit("ADD ")] } else { emp() })
        + (match c.foreign_key.name { Some(n) => seq![lit("CONSTRAINT "), Ev::Name(n@), lit(" ")], None => emp() }) + seq![lit("FOREIGN KEY (")]
}
pub open spec fn fkcreate_pg(c: ForeignKeyCreateStatement, mode: Mode) -> Seq<Ev> { fkpre_pg(c, mode) + fk_tail(c.foreign_key) }
pub open spec fn fkdrop_pg(d: ForeignKeyDropStatement, mode: Mode) -> Seq<Ev> {
    fk_head(d.table, mode) + seq![lit("DROP CONSTRAINT ")] + (match d.foreign_key.name { Some(n) => seq![Ev::Name(n@)], None => emp() })
}
pub open spec fn fkaction_text(a: ForeignKeyAction) -> &'static str {
    match a { ForeignKeyAction::Restrict => "RESTRICT", ForeignKeyAction::Cascade => "CASCADE", ForeignKeyAction::SetNull => "SET NULL", ForeignKeyAction::NoAction => "NO ACTION", ForeignKeyAction::SetDefault => "SET DEFAULT" }
}
"""


def fk_fn(u, path, block, owner, name, events, pre_fn, extra_req="", rawname=True, extra_rules=(), refuses=""):
    """foreign-key renderers: two comma-separated identifier lists (columns, referenced columns); staged through lemma_fk_compose"""
    K = "create.foreign_key"
    u.fn(path, block, name, props=P, key="%s::%s" % (owner, name), vpath="%s::%s" % (owner, name), prefix="#[verifier::rlimit(60)]\n    ",
         rules=[r_dynw] + list(extra_rules) + [r_fold] + ([r_rawname] if rawname else []) + [r_iden, r_semi, r_fmt, r_unit_tail],
         spec="ensures\n" + (("    // REFUSAL (panic!): the function returns only if\n    %s,\n" % refuses) if refuses else "") + "    // [ALTER TABLE t] [ADD] [CONSTRAINT name] FOREIGN KEY (columns) REFERENCES table (columns) [ON DELETE ..] [ON UPDATE ..]: every column once, in call order\n    final(sql).tr() == old(sql).tr() + (%s)," % events,
         loops=["invariant it1.index@ <= %s.columns@.len(), first == (it1.index@ == 0), sql.tr() == tc + l_idens(%s.columns@.subrange(0, it1.index@ as int))," % (K, K),
                "invariant it2.index@ <= %s.ref_columns@.len(), first == (it2.index@ == 0), sql.tr() == tr2 + l_idens(%s.ref_columns@.subrange(0, it2.index@ as int))," % (K, K)],
         proofs={"body-start": "let ghost t0 = sql.tr();",
                 "before#1:let mut first = true;": "let ghost tc = sql.tr();\nproof { assert(tc =~= t0 + %s(*create, mode)); lemma_l_idens_empty(%s.columns@); assert(tc + emp() =~= tc); }" % (pre_fn, K),
                 "loop1-end": "proof { lemma_l_idens_step(%s.columns@, it1.index@ as int); }" % K,
                 "before#2:let mut first = true;": "let ghost tr2 = sql.tr();\nproof { lemma_l_idens_empty(%s.columns@); assert(tr2 =~= tc + l_idens(%s.columns@) + fk_mid(%s)); lemma_l_idens_empty(%s.ref_columns@); assert(tr2 + emp() =~= tr2); }" % (K, K, K, K),
                 "loop2-end": "proof { lemma_l_idens_step(%s.ref_columns@, it2.index@ as int); }" % K,
                 "body-end": "proof { lemma_l_idens_empty(%s.ref_columns@); assert(sql.tr() =~= tr2 + l_idens(%s.ref_columns@) + fk_end(%s)); lemma_fk_compose(t0, %s(*create, mode), tc, tr2, sql.tr(), %s); }" % (K, K, K, pre_fn, K)})


def index_fk(u, backends=("mysql", "pg")):
    u.spec(list_fns("l_idxcols", "IndexColumn", "idxcol_events(%s)", "multi"), "schema::index-lists", props=P)
    u.spec(INDEX_SPEC, "schema::index-fk-spec", props=P)
    common_abs = (abstract("prepare_iden", "x: &DynIden", "Ev::Iden(*x)") + abstract("prepare_name", "x: &String", "Ev::Name(x@)") + abstract("prepare_index_prefix", "x: &IndexCreateStatement", "Ev::IdxPrefix(*x)")
                  + abstract("prepare_index_columns", "x: &Vec<IndexColumn>", "Ev::IdxCols(*x)") + abstract("prepare_index_type", "x: &Option<IndexType>", "Ev::IdxType(*x)")
                  + abstract("prepare_table_ref_index_stmt", "x: &TableRef", "Ev::TRef(*x)") + abstract("prepare_table_ref_fk_stmt", "x: &TableRef", "Ev::TRef(*x)")
                  + abstract("prepare_filter", "x: &ConditionHolder", "Ev::Filter(*x)") + abstract("prepare_foreign_key_action", "x: &ForeignKeyAction", "Ev::FkAction(*x)")
                  + abstract("write_column_index_prefix", "x: &Option<u32>", "Ev::IdxColPrefix(*x)") + abstract("prepare_table_ref_iden", "x: &TableRef", "Ev::TRefIden(*x)")
                  + "    #[verifier::external_body]\n    fn viden_string(x: &DynIden) -> (r: String) ensures r@ == iden_text(*x) { unimplemented!() }\n"
                  + "    #[verifier::external_body]\n    fn vstr_owned(x: &str) -> (r: String) ensures r@ == x@ { unimplemented!() }\n")
    r_owned = make_r_sub("R-strfn", r'"(\w+)"\.to_owned\(\)', r'Self::vstr_owned("\1")')
    r_custom = make_r_sub("R-strfn", r"custom\.to_string\(\)", "Self::viden_string(custom)")
    r_cols = make_r_sub("R-slice", r"&create\.index\.columns", "&create.index.columns", min_count=0)
    # ---- shared defaults (IndexBuilder / ForeignKeyBuilder traits) ----------------------------------------------------------------------
    u.emit("pub struct DfltI;\nimpl DfltI {\n")
    u.spec(common_abs, "schema::abstract-sub-renderers(index defaults)", props=P)
    simple(u, IB, "trait IndexBuilder", "write_column_index_prefix", 'match *col_prefix { Some(p) => seq![lit(" ("), Ev::U32(p), lit(")")], None => emp() }', [r_dynw, r_fmt], "DfltI::write_column_index_prefix_impl",
           key="IndexBuilder::write_column_index_prefix", rename="write_column_index_prefix_impl", comment="(length) after the column name")
    simple(u, IB, "trait IndexBuilder", "prepare_index_columns", "idxcols_events(columns@)", [r_dynw, make_r_sub("R-slice", r"columns: &\[IndexColumn\]", "columns: &Vec<IndexColumn>"), r_fold, r_iden, r_semi, r_fmt], "DfltI::prepare_index_columns_impl",
           key="IndexBuilder::prepare_index_columns", rename="prepare_index_columns_impl", comment="( key_part [, key_part] ... ): every column once, in call order, with its prefix length and direction",
           loops=["invariant it1.index@ <= columns@.len(), first == (it1.index@ == 0), sql.tr() == tc + l_idxcols(columns@.subrange(0, it1.index@ as int)),"],
           extra_proofs={"before#1:let mut first = true;": "let ghost tc = sql.tr();\nproof { lemma_l_idxcols_empty(columns@); assert(tc + emp() =~= tc); }",
                         "loop1-start": "let ghost tl = sql.tr();",
                         "loop1-end": "proof { lemma_l_idxcols_step(columns@, it1.index@ as int); assert(sql.tr() =~= (if it1.index@ == 0 { tl } else { tl.push(lit(\", \")) }) + idxcol_events(*col)); }"},
           pre="lemma_l_idxcols_empty(columns@);")
    simple(u, FB, "trait ForeignKeyBuilder", "prepare_foreign_key_action", "seq![lit(fkaction_text(*foreign_key_action))]", [r_dynw, r_fmt], "DfltI::prepare_foreign_key_action_impl",
           key="ForeignKeyBuilder::prepare_foreign_key_action", rename="prepare_foreign_key_action_impl")
    u.emit("}\n")
    r_panic_ns = make_r_sub("R-panic", r'panic!\("Not supported"\)', "vpanic()", min_count=0)
    if "mysql" in backends:
        # ---- MySQL -----------------------------------------------------------------------------------------------------------------------------
        MI, MF = "src/backend/mysql/index.rs", "src/backend/mysql/foreign_key.rs"
        BI, BF = "impl IndexBuilder for MysqlQueryBuilder", "impl ForeignKeyBuilder for MysqlQueryBuilder"
        u.emit("pub struct MysqlQueryBuilderI;\nimpl MysqlQueryBuilderI {\n")
        u.spec(common_abs, "schema::abstract-sub-renderers(mysql index)", props=P)
        O = "MysqlQueryBuilderI"
        simple(u, MI, BI, "prepare_index_prefix", "idxprefix_mysql(*create)", [r_dynw, r_fmt], O + "::prepare_index_prefix_impl", key="MysqlQueryBuilder::prepare_index_prefix", rename="prepare_index_prefix_impl")
        simple(u, MI, BI, "prepare_index_type", "idxtype_mysql(*col_index_type)", [r_dynw, r_owned, r_custom, make_r_sub("R-panic", r"unreachable!\(\)", "({ vpanic(); Self::vstr_owned(\"\") })", min_count=0), r_semi, r_fmt], O + "::prepare_index_type_impl",
               key="MysqlQueryBuilder::prepare_index_type", rename="prepare_index_type_impl", comment="USING BTREE | HASH | <custom>; FULLTEXT is a prefix keyword in MySQL, not an index type")
        simple(u, MI, BI, "prepare_table_index_expression", "tblindex_mysql(*create)", [r_dynw, r_rawname, r_fmt], O + "::prepare_table_index_expression", key="MysqlQueryBuilder::prepare_table_index_expression",
               comment="[PRIMARY | UNIQUE | FULLTEXT] KEY [name] [USING type] (columns)")
        simple(u, MI, BI, "prepare_index_create_statement", "idxcreate_mysql(*create)", [r_dynw, r_rawname, r_fmt], O + "::prepare_index_create_statement", key="MysqlQueryBuilder::prepare_index_create_statement")
        simple(u, MI, BI, "prepare_index_drop_statement", "idxdrop_mysql(*drop)", [r_dynw, r_rawname, make_r_sub("R-panic", r'panic!\("Mysql does not support IF EXISTS for DROP INDEX"\)', "vpanic()", min_count=0), r_fmt],
               O + "::prepare_index_drop_statement", key="MysqlQueryBuilder::prepare_index_drop_statement", refuses="!drop.if_exists")
        simple(u, MI, BI, "prepare_table_ref_index_stmt", "seq![Ev::TRefIden(*table_ref)]", [r_dynw, r_panic_ns], O + "::prepare_table_ref_index_stmt_impl", key="MysqlQueryBuilder::prepare_table_ref_index_stmt",
               rename="prepare_table_ref_index_stmt_impl", refuses="*table_ref is Table")
        simple(u, MF, BF, "prepare_table_ref_fk_stmt", "seq![Ev::TRefIden(*table_ref)]", [r_dynw, r_panic_ns], O + "::prepare_table_ref_fk_stmt_impl", key="MysqlQueryBuilder::prepare_table_ref_fk_stmt",
               rename="prepare_table_ref_fk_stmt_impl", refuses="*table_ref is Table")
        simple(u, MF, BF, "prepare_foreign_key_drop_statement_internal", "fkdrop_mysql(*drop, mode)", [r_dynw, r_rawname, r_fmt], O + "::prepare_foreign_key_drop_statement_internal", key="MysqlQueryBuilder::prepare_foreign_key_drop_statement_internal")
        fk_fn(u, MF, BF, O, "prepare_foreign_key_create_statement_internal", "fkcreate_mysql(*create, mode)", "fkpre_mysql")
        u.emit("}\n")
    if "pg" in backends:
        # ---- PostgreSQL ------------------------------------------------------------------------------------------------------------------------
        PI, PF = "src/backend/postgres/index.rs", "src/backend/postgres/foreign_key.rs"
        BI, BF = "impl IndexBuilder for PostgresQueryBuilder", "impl ForeignKeyBuilder for PostgresQueryBuilder"
        u.emit("pub struct PostgresQueryBuilderI;\nimpl PostgresQueryBuilderI {\n")
        u.spec(common_abs + abstract("prepare_include_columns", "x: &Vec<DynIden>", "Ev::Include(*x)") + abstract("prepare_condition", "x: &ConditionHolder, kw: &str", "Ev::Cond(kw@, *x)"), "schema::abstract-sub-renderers(postgres index)", props=P)
        O = "PostgresQueryBuilderI"
        simple(u, PI, BI, "prepare_index_prefix", "idxprefix_pg(*create)", [r_dynw, r_fmt], O + "::prepare_index_prefix_impl", key="PostgresQueryBuilder::prepare_index_prefix", rename="prepare_index_prefix_impl")
        simple(u, PI, BI, "prepare_index_type", "idxtype_pg(*col_index_type)", [r_dynw, r_owned, r_custom, r_semi, r_fmt], O + "::prepare_index_type_impl", key="PostgresQueryBuilder::prepare_index_type", rename="prepare_index_type_impl",
               comment="USING BTREE | GIN (full text) | HASH | <custom>")
        simple(u, PI, BI, "prepare_table_index_expression", "tblindex_pg(*create)", [r_dynw, r_rawname, r_fmt], O + "::prepare_table_index_expression", key="PostgresQueryBuilder::prepare_table_index_expression",
               comment="[CONSTRAINT name] {PRIMARY KEY | UNIQUE [NULLS NOT DISTINCT]} (columns) [INCLUDE (columns)]")
        simple(u, PI, BI, "prepare_index_create_statement", "idxcreate_pg(*create)", [r_dynw, r_rawname, r_fmt], O + "::prepare_index_create_statement", key="PostgresQueryBuilder::prepare_index_create_statement")
        simple(u, PI, BI, "prepare_index_drop_statement", "idxdrop_pg(*drop)", [r_dynw, r_rawname, r_iden, r_panic_ns, r_fmt], O + "::prepare_index_drop_statement", key="PostgresQueryBuilder::prepare_index_drop_statement",
               requires="drop.table is Some ==> (drop.table->Some_0 is Table) || (drop.table->Some_0 is SchemaTable)", t0_extra=" let ghost d_ = *drop;", pre="assert(d_ == *drop);")
        simple(u, PI, BI, "prepare_filter", 'seq![Ev::Cond("WHERE"@, *condition)]', [r_dynw], O + "::prepare_filter_impl", key="PostgresQueryBuilder::prepare_filter", rename="prepare_filter_impl", comment="partial index predicate")
        simple(u, PI, "impl PostgresQueryBuilder", "prepare_include_columns", 'seq![lit("INCLUDE (")] + l_idens(columns@) + seq![lit(")")]',
               [r_dynw, make_r_sub("R-slice", r"columns: &\[SeaRc<dyn Iden>\]", "columns: &Vec<DynIden>"), r_fold, r_iden, r_semi, r_fmt], O + "::prepare_include_columns_impl", key="PostgresQueryBuilder::prepare_include_columns",
               rename="prepare_include_columns_impl",
               loops=["invariant it1.index@ <= columns@.len(), first == (it1.index@ == 0), sql.tr() == tc + l_idens(columns@.subrange(0, it1.index@ as int)),"],
               extra_proofs={"before#1:let mut first = true;": "let ghost tc = sql.tr();\nproof { lemma_l_idens_empty(columns@); assert(tc + emp() =~= tc); }",
                             "loop1-end": "proof { lemma_l_idens_step(columns@, it1.index@ as int); }"},
               pre="lemma_l_idens_empty(columns@);")
        simple(u, PI, BI, "prepare_table_ref_index_stmt", "seq![Ev::TRefIden(*table_ref)]", [r_dynw, r_panic_ns], O + "::prepare_table_ref_index_stmt_impl", key="PostgresQueryBuilder::prepare_table_ref_index_stmt",
               rename="prepare_table_ref_index_stmt_impl", refuses="(*table_ref is Table) || (*table_ref is SchemaTable)")
        simple(u, PF, BF, "prepare_table_ref_fk_stmt", "seq![Ev::TRefIden(*table_ref)]", [r_dynw, r_panic_ns], O + "::prepare_table_ref_fk_stmt_impl", key="PostgresQueryBuilder::prepare_table_ref_fk_stmt",
               rename="prepare_table_ref_fk_stmt_impl", refuses="(*table_ref is Table) || (*table_ref is SchemaTable) || (*table_ref is DatabaseSchemaTable)")
        simple(u, PF, BF, "prepare_foreign_key_drop_statement_internal", "fkdrop_pg(*drop, mode)", [r_dynw, r_rawname, r_fmt], O + "::prepare_foreign_key_drop_statement_internal", key="PostgresQueryBuilder::prepare_foreign_key_drop_statement_internal")
        fk_fn(u, PF, BF, O, "prepare_foreign_key_create_statement_internal", "fkcreate_pg(*create, mode)", "fkpre_pg")
        u.emit("}\n")
    return common_abs


TYPES_SPEC = r"""
// ---- PostgreSQL CREATE / ALTER / DROP TYPE, CREATE / DROP EXTENSION ---------------------------------------------------------------
// [database.][schema.]name: one identifier token per part
pub open spec fn typeref_events(t: TypeRef) -> Seq<Ev> {
    match t { TypeRef::Type(n) => seq![Ev::Iden(n)], TypeRef::SchemaType(s, n) => seq![Ev::Iden(s), lit("."), Ev::Iden(n)],
              TypeRef::DatabaseSchemaType(d, s, n) => seq![Ev::Iden(d), lit("."), Ev::Iden(s), lit("."), Ev::Iden(n)] }
}
// CREATE TYPE name AS ENUM ( [ 'label' [, ... ] ] )     - the parentheses belong to the grammar even when there is no label
pub open spec fn typecreate_events(c: TypeCreateStatement) -> Seq<Ev> {
    seq![lit("CREATE TYPE ")] + (match c.name { Some(n) => seq![Ev::TypeRefEv(n)], None => emp() })
        + (match c.as_type { Some(a) => seq![lit(" AS "), Ev::TypeAsEv(a)], None => emp() })
        + (if c.values@.len() > 0 || c.as_type is Some { seq![lit(" (")] + l_labels(c.values@) + seq![lit(")")] } else { emp() })
}
// DROP TYPE [IF EXISTS] name [, ...] [CASCADE | RESTRICT]
pub open spec fn typedrop_events(d: TypeDropStatement) -> Seq<Ev> {
    seq![lit("DROP TYPE ")] + (if d.if_exists { seq![lit("IF EXISTS ")] } else { emp() }) + l_typerefs(d.names@)
        + (match d.option { Some(o) => seq![lit(" "), lit(match o { TypeDropOpt::Cascade => "CASCADE", TypeDropOpt::Restrict => "RESTRICT" })], None => emp() })
}
// ALTER TYPE name ADD VALUE [IF NOT EXISTS] 'v' [{BEFORE | AFTER} 'n'] | RENAME TO new_name | RENAME VALUE 'old' TO 'new'
pub open spec fn typealteropt_events(o: TypeAlterOpt) -> Seq<Ev> {
    match o {
        TypeAlterOpt::Add { value, placement, if_not_exists } => seq![lit(" ADD VALUE ")] + (if if_not_exists { seq![lit("IF NOT EXISTS ")] } else { emp() }) + seq![Ev::Label(value)]
            + (match placement { Some(TypeAlterAddOpt::Before(b)) => seq![lit(" BEFORE "), Ev::Label(b)], Some(TypeAlterAddOpt::After(a)) => seq![lit(" AFTER "), Ev::Label(a)], None => emp() }),
        TypeAlterOpt::Rename(n) => seq![lit(" RENAME TO "), Ev::Iden(n)],            // new_name is an IDENTIFIER in the grammar
        TypeAlterOpt::RenameValue(e, n) => seq![lit(" RENAME VALUE "), Ev::Label(e), lit(" TO "), Ev::Label(n)],
    }
}
pub open spec fn typealter_events(a: TypeAlterStatement) -> Seq<Ev> {
    seq![lit("ALTER TYPE ")] + (match a.name { Some(n) => seq![Ev::TypeRefEv(n)], None => emp() }) + (match a.option { Some(o) => seq![Ev::TypeAlterOptEv(o)], None => emp() })
}
// CREATE EXTENSION [IF NOT EXISTS] name [WITH SCHEMA schema] [VERSION version] [CASCADE];  DROP EXTENSION [IF EXISTS] name [CASCADE | RESTRICT]
pub open spec fn extcreate_events(c: ExtensionCreateStatement) -> Seq<Ev> {
    seq![lit("CREATE EXTENSION ")] + (if c.if_not_exists { seq![lit("IF NOT EXISTS ")] } else { emp() }) + seq![Ev::Text(c.name@)]
        + (match c.schema { Some(x) => seq![lit(" WITH SCHEMA "), Ev::Text(x@)], None => emp() }) + (match c.version { Some(x) => seq![lit(" VERSION "), Ev::Text(x@)], None => emp() })
        + (if c.cascade { seq![lit(" CASCADE")] } else { emp() })
}
pub open spec fn extdrop_events(d: ExtensionDropStatement) -> Seq<Ev> {
    seq![lit("DROP EXTENSION ")] + (if d.if_exists { seq![lit("IF EXISTS ")] } else { emp() }) + seq![Ev::Text(d.name@)]
        + (if d.cascade { seq![lit(" CASCADE")] } else { emp() }) + (if d.restrict { seq![lit(" RESTRICT")] } else { emp() })
}
"""


def pg_types(u):
    T = "src/extension/postgres/types.rs"
    E = "src/extension/postgres/extension.rs"
    for k, n in [("enum", "TypeRef"), ("enum", "TypeAs"), ("enum", "TypeDropOpt"), ("enum", "TypeAlterAddOpt"), ("enum", "TypeAlterOpt")]:
        u.type_item(T, k, n, props=P)
    for n in ["TypeCreateStatement", "TypeDropStatement", "TypeAlterStatement"]:
        u.type_item(T, "struct", n, props=P, rules=[r_vis])
    for n in ["ExtensionCreateStatement", "ExtensionDropStatement"]:
        u.type_item(E, "struct", n, props=P, rules=[r_vis])
    u.spec("pub enum EvT { }\n", "schema::unused", props=P) if False else None
    u.spec(list_fns("l_labels", "DynIden", "Ev::Label(%s)", "sep") + list_fns("l_typerefs", "TypeRef", "Ev::TypeRefEv(%s)", "sep"), "schema::type-lists", props=P)
    u.spec(TYPES_SPEC, "schema::pg-types-spec", props=P)
    BT, BE = "impl TypeBuilder for PostgresQueryBuilder", "impl ExtensionBuilder for PostgresQueryBuilder"
    PTY, PEX = "src/backend/postgres/types.rs", "src/backend/postgres/extension.rs"
    O = "PostgresQueryBuilderT"
    u.emit("pub struct PostgresQueryBuilderT;\nimpl PostgresQueryBuilderT {\n")
    u.spec(abstract("prepare_iden", "x: &DynIden", "Ev::Iden(*x)") + abstract("prepare_type_ref", "x: &TypeRef", "Ev::TypeRefEv(*x)") + abstract("prepare_create_as_type", "x: &TypeAs", "Ev::TypeAsEv(*x)")
           + abstract("prepare_label", "x: &DynIden", "Ev::Label(*x)") + abstract("prepare_alter_type_opt", "x: &TypeAlterOpt", "Ev::TypeAlterOptEv(*x)")
           + abstract("prepare_drop_type_opt", "x: &TypeDropOpt", "Ev::Lit((match *x { TypeDropOpt::Cascade => \"CASCADE\", TypeDropOpt::Restrict => \"RESTRICT\" })@)"),
           "schema::abstract-sub-renderers(postgres types)", props=P)
    # a label is written as a string literal: prepare_value of the label's text (the literal itself is unit escape / C03)
    r_label = make_r_sub("R-opaque", r"self\.prepare_value\(&(\w+)\.to_string\(\)\.into\(\), sql\)", r"self.prepare_label(\1, sql)")
    simple(u, T, "trait TypeBuilder", "prepare_type_ref", "typeref_events(*type_ref)", [r_dynw, r_iden, r_semi, r_fmt], O + "::prepare_type_ref_impl", key="TypeBuilder::prepare_type_ref", rename="prepare_type_ref_impl",
           t0_extra=" let ghost t_ = *type_ref;", pre="assert(t_ == *type_ref);")
    simple(u, PTY, BT, "prepare_type_create_statement", "typecreate_events(*create)", [r_dynw, r_label, r_enumerate, r_semi, r_fmt], O + "::prepare_type_create_statement", key="PostgresQueryBuilder::prepare_type_create_statement",
           comment="CREATE TYPE name AS ENUM ( every label once, in call order, comma separated )",
           loops=["invariant ite1.index@ <= create.values@.len(), create.values@.len() <= usize::MAX, count == ite1.index@, sql.tr() == tv + l_labels(create.values@.subrange(0, ite1.index@ as int)),"],
           extra_proofs={"before#1:let mut count: usize = 0;": "let ghost tv = sql.tr();\nproof { lemma_l_labels_empty(create.values@); assert(tv + emp() =~= tv); axiom_vec_len_fits(&create.values); }",
                         "before#1:count += 1;": "proof { lemma_l_labels_step(create.values@, ite1.index@ as int); }"},
           pre="lemma_l_labels_empty(create.values@);")
    simple(u, PTY, BT, "prepare_type_drop_statement", "typedrop_events(*drop)", [r_dynw, r_fold, r_semi, r_fmt], O + "::prepare_type_drop_statement", key="PostgresQueryBuilder::prepare_type_drop_statement",
           loops=["invariant it1.index@ <= drop.names@.len(), first == (it1.index@ == 0), sql.tr() == tn + l_typerefs(drop.names@.subrange(0, it1.index@ as int)),"],
           extra_proofs={"before#1:let mut first = true;": "let ghost tn = sql.tr();\nproof { lemma_l_typerefs_empty(drop.names@); assert(tn + emp() =~= tn); }",
                         "loop1-end": "proof { lemma_l_typerefs_step(drop.names@, it1.index@ as int); }"},
           pre="lemma_l_typerefs_empty(drop.names@);")
    simple(u, PTY, BT, "prepare_type_alter_statement", "typealter_events(*alter)", [r_dynw, r_semi, r_fmt], O + "::prepare_type_alter_statement", key="PostgresQueryBuilder::prepare_type_alter_statement")
    # the contract is split so that the recorded finding (RENAME TO '<literal>') cannot hide another deviation of the same function
    u.fn(PTY, "impl PostgresQueryBuilder", "prepare_alter_type_opt", rename="prepare_alter_type_opt_impl", props=P, key="PostgresQueryBuilder::prepare_alter_type_opt", vpath=O + "::prepare_alter_type_opt_impl",
         rules=[r_dynw, r_label, r_semi, r_fmt, r_unit_tail],
         spec=[("ensures\n    // ADD VALUE [IF NOT EXISTS] 'v' [BEFORE | AFTER 'n'],  RENAME VALUE 'old' TO 'new'\n    !(*opt is Rename) ==> final(sql).tr() == old(sql).tr() + typealteropt_events(*opt),", P),
               ("    // RENAME TO new_name: an IDENTIFIER in the grammar\n    *opt is Rename ==> final(sql).tr() == old(sql).tr() + typealteropt_events(*opt),", P)],
         proofs={"body-start": "let ghost t0 = sql.tr(); let ghost o_ = *opt;", "body-end": "proof { assert(o_ == *opt); if !(o_ is Rename) { assert(sql.tr() =~= t0 + typealteropt_events(o_)); } }"})
    simple(u, PEX, BE, "prepare_extension_create_statement", "extcreate_events(*create)", [r_dynw, r_semi, r_fmt], O + "::prepare_extension_create_statement", key="PostgresQueryBuilder::prepare_extension_create_statement")
    simple(u, PEX, BE, "prepare_extension_drop_statement", "extdrop_events(*drop)", [r_dynw, r_semi, r_fmt], O + "::prepare_extension_drop_statement", key="PostgresQueryBuilder::prepare_extension_drop_statement")
    u.emit("}\n")


def r_bind_match(text, ctx):
    """R-bind: `write!(sql, "{}", match X { .. }).unwrap()`  ->  `{ let ty_: String = match X { .. }; vtext_disp(sql, &ty_); }` (names the
    formatted value so that a proof hint can talk about it; Display of a String is its text - R-fmt)"""
    m = re.search(r'write!\(\s*sql,\s*"\{\}",\s*match ', text)
    if not m:
        raise rl.LostAnchor(ctx.key + ": R-bind: no `write!(sql, \"{}\", match ..)`")
    toks = rl.code_toks(rl.lex(text[m.start():]))
    k = next(i for i, t in enumerate(toks) if t.text == "(")
    close = rl.match_close(toks, k)
    inner_start = m.end() - len("match ")
    expr = text[inner_start:m.start() + toks[close].start].rstrip().rstrip(",").rstrip()
    end = m.start() + toks[close].end
    m2 = re.match(r"\s*\.unwrap\(\)\s*;?", text[end:])
    if not m2:
        raise rl.Unsupported(ctx.key + ": R-bind: write! without .unwrap()")
    ctx.app("R-bind", 'write!(sql, "{}", match ..).unwrap()', "{ let ty_: String = match ..; vtext_disp(sql, &ty_); }")
    return text[:m.start()] + "let ty_: String = " + expr + ";\n        vtext_disp(sql, &ty_);" + text[end + m2.end():]


def sized_lemma(fn_text):
    """GENERATED from the literals found in the extracted function: each `name(<digits>)` literal is that name with SOME explicit length
    (proved by Verus from the literal's characters, so a different default length in /repo is followed, not flagged)"""
    lits = sorted(set(re.findall(r'"((?:varchar|varbinary)\()(\d+)\)"', fn_text)))
    ens = ", ".join('with_some_len("%s"@, "%s%s)"@)' % (pre, pre, d) for pre, d in lits) or "true"
    body = ""
    for pre, d in lits:
        body += '    reveal_strlit("%s%s)"); reveal_strlit("%s"); reveal_strlit("%s"); reveal_strlit(")");\n' % (pre, d, pre, d)
        body += '    assert("%s%s)"@ =~= "%s"@ + "%s"@ + ")"@); assert(all_digits("%s"@));\n' % (pre, d, pre, d, d)
    return "pub proof fn lemma_sized_lits()\n    ensures %s\n{\n%s}\n" % (ens, body)


def column_types(u):
    u.prelude_file("units/schema/types_spec.rs", props=P)
    u.spec("impl VTextOf for PgInterval { open spec fn text(&self) -> Seq<char> { interval_fields_text(*self) } }\n"
           "#[verifier::external_body]\nfn vstr_owned(x: &str) -> (r: String) ensures r@ == x@ { unimplemented!() }\n"
           "#[verifier::external_body]\nfn viden_string(x: &DynIden) -> (r: String) ensures r@ == iden_text(*x) { unimplemented!() }\n"
           "// R-arm-out: the MySQL ENUM('a', 'b') label list (iterator adapters + escape_string per label) is C03's position: abstract text\n"
           "#[verifier::external_body]\nfn venum_text(v: &Vec<DynIden>) -> (r: String) ensures r@ == enum_text(v@) { unimplemented!() }\n"
           "#[verifier::external_body]\nfn vtext_dispg<W: VTextW, T: VTextOf + ?Sized>(w: &mut W, x: &T) ensures final(w).text() == old(w).text() + x.text() { unimplemented!() }\n",
           "schema::types-shims", props=P)
    r_tfmt = make_r_fmt(wmap=lambda w: "&mut typ" if w == "typ" else w, merge=True, disp="vtext_dispg", lit="vtext_lit")
    r_w = make_r_sub("R-dynw", r"W: VWrite", "W: VTextW")
    r_into = make_r_sub("R-strfn", r'"([^"]*)"\.into\(\)', r'vstr_owned("\1")')
    r_tostr = make_r_sub("R-strfn", r'"(\w+)"\.to_string\(\)', r'vstr_owned("\1")', min_count=0)
    r_idstr = make_r_sub("R-strfn", r"\b(iden|name)\.to_string\(\)", r"viden_string(\1)")
    r_unimpl = make_r_sub("R-panic", r'unimplemented!\("[^"]*"\)', '({ vpanic(); vstr_owned("") })', min_count=0)
    MT, PT = "src/backend/mysql/table.rs", "src/backend/postgres/table.rs"
    src_m = rl.find_fn(MT, u.src(MT), rl.find_block(MT, u.src(MT), "impl TableBuilder for MysqlQueryBuilder")[0], "prepare_column_type").text
    src_p = rl.find_fn(PT, u.src(PT), rl.find_block(PT, u.src(PT), "impl TableBuilder for PostgresQueryBuilder")[0], "prepare_column_type").text
    u.spec(sized_lemma(src_m + src_p), "schema::lemma_sized_lits(GENERATED from the literals in /repo)", props=P)
    # Display for PgInterval: the field restriction of an interval type, spelled as PostgreSQL 8.5.4 lists them
    u.emit("impl PgInterval {\n")
    u.fn("src/extension/postgres/interval.rs", "impl fmt::Display for PgInterval", "fmt", rename="fmt_impl", props=P, key="Display for PgInterval::fmt", vpath="PgInterval::fmt_impl",
         rules=[make_r_sub("R-dynw", r"fn fmt\(&self, f: &mut fmt::Formatter\) -> fmt::Result", "fn fmt<W: VTextW>(&self, f: &mut W)"),
                make_r_sub("R-fmt", r'write!\(f, "\{fields\}"\)', "vtext_lit(f, fields);")],
         spec="ensures final(f).text() == old(f).text() + interval_fields_text(*self),")
    u.emit("}\n")
    u.emit("pub struct MysqlTypes;\nimpl MysqlTypes {\n")
    u.fn(MT, "impl TableBuilder for MysqlQueryBuilder", "prepare_column_type", props=P, key="MysqlQueryBuilder::prepare_column_type", vpath="MysqlTypes::prepare_column_type", prefix="#[verifier::rlimit(60)]\n    ",
         rules=[r_dynw, r_w, r_bind_match,
                make_r_sub("R-arm-out", r"format!\(\s*\"ENUM\('\{\}'\)\",\s*variants\s*\.iter\(\)\s*\.map\(\|v\| self\.escape_string\(&v\.to_string\(\)\)\)\s*\.collect::<Vec<_>>\(\)\s*\.join\(\"', '\"\)\s*,?\s*\)", "venum_text(variants)"),
                r_format, r_into, r_idstr, r_unimpl, r_tfmt],
         spec=[("""ensures
    // REFUSAL: unimplemented!() for the types MySQL does not have: the function returns only if
    mysql_has(*column_type),
    // a type MySQL defines for this abstract type; length / precision / scale and UNSIGNED preserved
    !(*column_type is Interval) ==> exists|t: Seq<char>| final(sql).text() == old(sql).text() + t && mysql_type_ok(*column_type, t),""", P),
               ("    // MySQL defines no interval type (the contract is split so that this recorded finding cannot hide another deviation)\n    *column_type is Interval ==> exists|t: Seq<char>| final(sql).text() == old(sql).text() + t && mysql_type_ok(*column_type, t),", P)],
         proofs={"body-start": "let ghost t0 = sql.text(); let ghost ct_ = *column_type;\nproof { lemma_sized_lits(); }",
                 "after#1:vtext_disp(sql, &ty_);": "let ghost tb = ty_@;\nproof { if !(ct_ is Interval) { assert(mysql_base_ok(ct_, tb)); } }",
                 "body-end": "proof { let ghost t = sql.text().subrange(t0.len() as int, sql.text().len() as int); assert(sql.text() =~= t0 + t); assert(t =~= tb + unsigned_sfx(ct_)); if !(ct_ is Interval) { assert(mysql_type_ok(ct_, t)); } }"})
    u.emit("}\n")
    u.emit("pub struct PostgresTypes;\nimpl PostgresTypes {\n")
    u.fn(PT, "impl TableBuilder for PostgresQueryBuilder", "prepare_column_type", props=P, key="PostgresQueryBuilder::prepare_column_type", vpath="PostgresTypes::prepare_column_type", prefix="#[verifier::rlimit(60)]\n    ",
         rules=[r_dynw, r_w, r_bind_match, r_format, r_into, r_tostr, r_idstr, r_unimpl, r_tfmt,
                make_r_sub("R-shadow", r"let mut sql = String::new\(\);\s*self\.prepare_column_type\(elem_type, &mut sql\);", "let mut sql2 = String::new();\n                    self.prepare_column_type(elem_type, &mut sql2);"),
                make_r_sub("R-shadow", r"vpush_disp\(&mut f_, &\(sql\)\); f_\.push_str\(\"\[\]\"\);", "vpush_disp(&mut f_, &(sql2)); f_.push_str(\"[]\");")],
         spec="""ensures
    // REFUSAL (Year: unimplemented!()): the function returns only if
    pg_has(*column_type),
    // a type PostgreSQL defines for this abstract type; length / precision / scale preserved; arrays of such a type
    exists|t: Seq<char>| final(sql).text() == old(sql).text() + t && pg_type_ok(*column_type, t),
decreases *column_type,""",
         proofs={"body-start": "let ghost t0 = sql.text(); let ghost ct_ = *column_type; let ghost mut te_ = Seq::<char>::empty();",
                 "after#1:self.prepare_column_type(elem_type, &mut sql2);": "proof { let te = choose|te: Seq<char>| sql2@ == Seq::<char>::empty() + te && pg_type_ok(**elem_type, te); assert(sql2@ =~= te); assert(pg_type_ok(**elem_type, sql2@)); assert(Seq::<char>::empty() + sql2@ =~= sql2@); te_ = sql2@; }",
                 "before#1:                    typ\n": "proof { assert(typ@ =~= \"interval\"@ + (match *fields { Some(f) => \" \"@ + interval_fields_text(f), None => Seq::<char>::empty() }) + (match *precision { Some(p) => \"(\"@ + num_text(p as int) + \")\"@, None => Seq::<char>::empty() })); }",
                 "after#1:vtext_disp(sql, &ty_);": "proof { if ct_ is Array { reveal_strlit(\"[]\"); assert(ty_@ =~= te_ + \"[]\"@); assert(ty_@.subrange(0, ty_@.len() - 2) =~= te_); assert(ty_@.subrange(ty_@.len() - 2, ty_@.len() as int) =~= \"[]\"@); } assert(pg_type_ok(ct_, ty_@)); assert(sql.text() == t0 + ty_@); }"})
    u.emit("}\n")
