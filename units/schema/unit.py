"""unit `schema`  ->  C14 (element granularity): MySQL / Postgres schema statements carry every declared element once, in
declaration order, correctly separated and parenthesised; column types map to types the dialect defines.

Variant `stmts`: the statement / element renderers over a ghost EVENT trace (like unit render).
Variant `types`: prepare_column_type (MySQL, Postgres) and the Postgres serial types over a TEXT writer, against the dialects' type
grammar written from the manuals.
"""
import re
from vlib import rustlex as rl
from vlib.gen import make_r_fmt, make_r_sub, r_fold, r_dynw, r_unit_tail
from units.render.unit import list_fns

P = ["C14"]
TB = "src/backend/table_builder.rs"
IB = "src/backend/index_builder.rs"
FB = "src/backend/foreign_key_builder.rs"
r_fmt = make_r_fmt(wmap=lambda w: w, merge=True, disp="vfmt_disp")
r_vis = make_r_sub("R-vis", r"pub\(crate\) ", "pub ", min_count=0)
OPAQUE = ["SimpleExpr", "DynIden", "ConditionHolder", "TablePartition"]


def abstract(name, params, ev, extra_req=""):
    return "    #[verifier::external_body]\n    fn %s<W: VWrite>(&self, %s, sql: &mut W) %sensures final(sql).tr() == old(sql).tr().push(%s) { unimplemented!() }\n" % (name, params, extra_req, ev)


# R-rawname: a name written between the backend's quotes with its quote characters doubled (`write!(sql, "<pfx>{}{}{}<sfx>", self.quote().left(),
# Alias::new(name).quoted(self.quote()), self.quote().right())`): ONE identifier-token event.  That these sites emit exactly the token
# Iden::prepare would is proved in unit `ident` (C04), which discovers and verifies every such site on each run.
def r_rawname(text, ctx):
    pat = re.compile(r'write!\(\s*sql,\s*"([^"{}]*)\{\}\{\}\{\}([^"{}]*)",\s*self\.quote\(\)\.left\(\),\s*Alias::new\((\w+)\)\.quoted\(self\.quote\(\)\),\s*self\.quote\(\)\.right\(\),?\s*\)\s*\.unwrap\(\)', re.S)
    n = 0

    def rep(m):
        nonlocal n
        n += 1
        pre, suf, nm = m.group(1), m.group(2), m.group(3)
        parts = []
        if pre:
            parts.append('vfmt_lit(sql, "%s");' % pre)
        parts.append("self.prepare_name(%s, sql);" % nm)
        if suf:
            parts.append('vfmt_lit(sql, "%s");' % suf)
        return "({ " + " ".join(parts) + " })"
    text = pat.sub(rep, text)
    if n == 0:
        raise rl.LostAnchor(ctx.key + ": R-rawname: no raw quoting site")
    ctx.app("R-rawname", "%d raw quoting site(s)" % n, "self.prepare_name(name, sql)")
    return text


# R-unit-tail (blocks): `{ ..; write!(..).unwrap() }` -> `{ ..; write!(..).unwrap(); }` (a block of type () either way) so that a proof hint can follow
r_semi = make_r_sub("R-unit-tail", r"\.unwrap\(\)(\s*\})", r".unwrap();\1", min_count=0)
r_iden = make_r_sub("R-opaque", r"\b([a-z_\.]+)\.prepare\(sql, self\.quote\(\)\)", r"self.prepare_iden(&\1, sql)")
r_qb = make_r_sub("R-path", r"QueryBuilder::prepare_simple_expr\(self, (\w+), sql\)", r"self.prepare_simple_expr(\1, sql)")

def r_format(text, ctx):
    """R-format: `format!("a{x}b{}", y)` -> `{ let mut f_ = String::new(); f_.push_str("a"); vpush_disp(&mut f_, &(x)); f_.push_str("b"); vpush_disp(&mut f_, &(y)); f_ }`
    (trusted like R-fmt: std::fmt writes the segments in order; Display of a String / &str is the text itself, of an integer its decimal text)"""
    from vlib.gen import parse_fmt, split_top
    n = 0
    while True:
        toks = rl.code_toks(rl.lex(text))
        hit = None
        for k, t in enumerate(toks):
            if t.kind == "ident" and t.text == "format" and k + 2 < len(toks) and toks[k + 1].text == "!" and toks[k + 2].text == "(":
                hit = k
                break
        if hit is None:
            break
        close = rl.match_close(toks, hit + 2)
        inner = text[toks[hit + 2].end:toks[close].start]
        args = [a.strip() for a in split_top(inner)]
        if args and args[-1] == "":
            args.pop()
        segs, rest, ai, calls = parse_fmt(args[0]), args[1:], 0, []
        for sg in segs:
            if sg[0] == "lit":
                calls.append('f_.push_str("%s");' % sg[1])
            else:
                if sg[2] != "":
                    raise rl.Unsupported("format spec {:%s}" % sg[2])
                if sg[1] is not None:
                    e = sg[1]
                else:
                    e = rest[ai]
                    ai += 1
                calls.append("vpush_disp(&mut f_, &(%s));" % e)
        if ai != len(rest):
            raise rl.Unsupported("format args mismatch in " + args[0])
        new = "({ let mut f_ = String::new(); " + " ".join(calls) + " f_ })"
        ctx.app("R-format", rl.norm_ws(text[toks[hit].start:toks[close].end])[:120], new[:160])
        text = text[:toks[hit].start] + new + text[toks[close].end:]
        n += 1
    if n == 0:
        raise rl.LostAnchor(ctx.key + ": R-format: no format!")
    return text


LISTS = [("l_coldefs", "ColumnDef", "Ev::ColDef(%s)", "each"), ("l_tblidx", "IndexCreateStatement", "Ev::TblIndex(%s)", "each"),
         ("l_fks", "ForeignKeyCreateStatement", "Ev::FkCreate(%s, Mode::Creation)", "each"), ("l_checks", "SimpleExpr", "Ev::Check(%s)", "each"),
         ("l_trefs", "TableRef", "Ev::TRef(%s)", "sep"), ("l_dropopts", "TableDropOpt", "Ev::DropOpt(%s)", "each"),
         ("l_idens", "DynIden", "Ev::Iden(%s)", "sep")]
# (l_tableopts: each option preceded by a space - generated below with kind `opts`)

SEP = r'''
// a comma-separated list of already-rendered elements
pub open spec fn sep_list(xs: Seq<Ev>) -> Seq<Ev>
    decreases xs.len()
{ if xs.len() == 0 { emp() } else if xs.len() == 1 { seq![xs[0]] } else { sep_list(xs.drop_last()).push(lit(", ")).push(xs.last()) } }
pub proof fn lemma_sep_push(xs: Seq<Ev>, x: Ev)
    ensures sep_list(xs.push(x)) == (if xs.len() == 0 { seq![x] } else { sep_list(xs).push(lit(", ")).push(x) })
{
    assert(xs.push(x).drop_last() =~= xs);
    assert(xs.push(x).last() == x);
    if xs.len() == 0 { assert(xs.push(x)[0] == x); }
}
'''


def len_lemma(name, ty):
    return """pub proof fn lemma_%(n)s_len(xs: Seq<%(t)s>) ensures %(n)s(xs).len() == xs.len() decreases xs.len()
{ if xs.len() > 0 { lemma_%(n)s_len(xs.drop_last()); } }
""" % {"n": name, "t": ty}


def types(u):
    for n in OPAQUE:
        u.emit("#[verifier::external_body]\npub struct %s { _opaque: u8 }\n" % n, kind="spec", key="R-opaque:" + n, props=P)
    u.type_item("src/types.rs", "enum", "TableRef", props=P, rules=[make_r_sub("R-opaque", r"SubQuery\(SelectStatement, DynIden\)", "SubQuery(SelectStatementO, DynIden)"),
                                                                    make_r_sub("R-opaque", r"ValuesList\(Vec<ValueTuple>, DynIden\)", "ValuesList(ValuesO, DynIden)"),
                                                                    make_r_sub("R-opaque", r"FunctionCall\(FunctionCall, DynIden\)", "FunctionCall(FunctionCallO, DynIden)")])
    for n in ["SelectStatementO", "ValuesO", "FunctionCallO"]:
        u.emit("#[verifier::external_body]\npub struct %s { _opaque: u8 }\n" % n, kind="spec", key="R-opaque:" + n, props=P)
    C = "src/table/column.rs"
    u.type_item(C, "enum", "StringLen", props=P, keep_derive=("Clone", "Copy"))
    u.type_item(C, "enum", "PgInterval", props=P)
    u.type_item(C, "enum", "ColumnType", props=P, rules=[make_r_sub("R-path", r"RcOrArc<ColumnType>", "Box<ColumnType>")])
    u.type_item(C, "enum", "ColumnSpec", props=P)
    u.type_item(C, "struct", "ColumnDef", props=P, rules=[r_vis])
    u.type_item("src/index/common.rs", "enum", "IndexOrder", props=P)
    u.type_item("src/index/common.rs", "struct", "IndexColumn", props=P, rules=[r_vis])
    u.type_item("src/index/common.rs", "struct", "TableIndex", props=P, rules=[r_vis])
    u.type_item("src/index/create.rs", "enum", "IndexType", props=P)
    u.type_item("src/index/create.rs", "struct", "IndexCreateStatement", props=P, rules=[r_vis])
    u.type_item("src/index/drop.rs", "struct", "IndexDropStatement", props=P, rules=[r_vis])
    u.type_item("src/foreign_key/common.rs", "enum", "ForeignKeyAction", props=P)
    u.type_item("src/foreign_key/common.rs", "struct", "TableForeignKey", props=P, rules=[r_vis])
    u.type_item("src/foreign_key/create.rs", "struct", "ForeignKeyCreateStatement", props=P, rules=[r_vis])
    u.type_item("src/foreign_key/drop.rs", "struct", "ForeignKeyDropStatement", props=P, rules=[r_vis])
    u.type_item(FB, "enum", "Mode", props=P, keep_derive=("PartialEq", "Eq", "Structural"))
    u.type_item("src/table/create.rs", "enum", "TableOpt", props=P)
    u.type_item("src/table/create.rs", "struct", "TableCreateStatement", props=P, rules=[r_vis])
    u.type_item("src/table/drop.rs", "enum", "TableDropOpt", props=P)
    u.type_item("src/table/drop.rs", "struct", "TableDropStatement", props=P, rules=[r_vis])
    u.type_item("src/table/truncate.rs", "struct", "TableTruncateStatement", props=P, rules=[r_vis])
    u.type_item("src/table/rename.rs", "struct", "TableRenameStatement", props=P, rules=[r_vis])
    u.type_item("src/table/alter.rs", "struct", "AddColumnOption", props=P, rules=[r_vis])
    u.type_item("src/table/alter.rs", "enum", "TableAlterOption", props=P)
    u.type_item("src/table/alter.rs", "struct", "TableAlterStatement", props=P, rules=[r_vis])


CREATE_SPEC = r'''
// ---- CREATE TABLE -------------------------------------------------------------------------------------------------------------
// grammar (MySQL 15.1.20, PostgreSQL CREATE TABLE):
//   CREATE [TEMPORARY] TABLE [IF NOT EXISTS] tbl_name ( create_definition [, create_definition] ... ) [table_options]
//   create_definition: column_definition | index / key definition | [CONSTRAINT ..] FOREIGN KEY .. | CHECK (expr)
// every declared column, table-level index, foreign key and check: once, in declaration order (columns first), comma separated
pub open spec fn create_elements(c: TableCreateStatement) -> Seq<Ev> {
    l_coldefs(c.columns@) + l_tblidx(c.indexes@) + l_fks(c.foreign_keys@) + l_checks(c.check@)
}
pub open spec fn create_events(c: TableCreateStatement) -> Seq<Ev> {
    seq![lit("CREATE "), Ev::TemporaryKw(c), lit("TABLE "), Ev::IfNotExistsKw(c)]
        + (match c.table { Some(t) => seq![Ev::TRef(t)], None => emp() })
        + seq![lit(" ( ")] + sep_list(create_elements(c)) + seq![lit(" )"), Ev::TableOpts(c)]
        + (match c.extra { Some(x) => seq![lit(" "), Ev::Text(x@)], None => emp() })
}
'''


def build(u, variant=None):
    u.emit("use vstd::prelude::*;\nverus! {\n")
    types(u)
    u.prelude_file("units/schema/spec.rs", props=P)
    u.spec('''pub trait VDisp { spec fn ev(&self) -> Ev; }
impl VDisp for String { open spec fn ev(&self) -> Ev { Ev::Text(self@) } }
impl VDisp for u32 { open spec fn ev(&self) -> Ev { Ev::U32(*self) } }
impl VDisp for str { open spec fn ev(&self) -> Ev { Ev::Lit(self@) } }
impl<T: VDisp + ?Sized> VDisp for &T { open spec fn ev(&self) -> Ev { (**self).ev() } }
// R-fmt `{}` (trusted): Display of a String is its text, of a u32 its decimal text: one event naming the value
#[verifier::external_body]
fn vfmt_disp<W: VWrite, T: VDisp + ?Sized>(w: &mut W, x: &T) ensures final(w).tr() == old(w).tr().push(x.ev()) { unimplemented!() }
''', "schema::vfmt_disp", props=P)
    u.spec("".join(list_fns(*l) for l in LISTS) + "".join(len_lemma(l[0], l[1]) for l in LISTS if l[3] == "each") + SEP, "schema::list-fns", props=P)
    u.spec(CREATE_SPEC, "schema::create-table-spec", props=P)
    u.spec(TEXT_SHIMS, "schema::text-shims", props=P)
    u.spec(list_fns("l_tableopts", "TableOpt", "Ev::Text(tableopt_text(%s))", "pre"), "schema::l_tableopts", props=P)
    u.spec(DEFAULTS_SPEC, "schema::defaults-spec", props=P)
    # ------------------------------------------------------------------------------------------------------------------------------
    u.emit("pub struct Dflt;\nimpl Dflt {\n")
    u.spec(abstract("prepare_create_temporary_table", "x: &TableCreateStatement", "Ev::TemporaryKw(*x)") + abstract("prepare_create_table_if_not_exists", "x: &TableCreateStatement", "Ev::IfNotExistsKw(*x)")
           + abstract("prepare_table_ref_table_stmt", "x: &TableRef", "Ev::TRef(*x)") + abstract("prepare_column_def", "x: &ColumnDef", "Ev::ColDef(*x)")
           + abstract("prepare_table_index_expression", "x: &IndexCreateStatement", "Ev::TblIndex(*x)")
           + abstract("prepare_foreign_key_create_statement_internal", "x: &ForeignKeyCreateStatement", "Ev::FkCreate(*x, mode)").replace("sql: &mut W)", "sql: &mut W, mode: Mode)")
           + abstract("prepare_check_constraint", "x: &SimpleExpr", "Ev::Check(*x)") + abstract("prepare_table_opt", "x: &TableCreateStatement", "Ev::TableOpts(*x)"),
           "schema::abstract-sub-renderers(create)", props=P)

    def grp(k):
        """the elements rendered before loop k starts (as a spec expression over `create`)"""
        gs = ["l_coldefs(create.columns@)", "l_tblidx(create.indexes@)", "l_fks(create.foreign_keys@)", "l_checks(create.check@)"]
        return " + ".join(gs[:k]) if k else "emp()"
    loops, proofs = [], {"body-start": "let ghost t0 = sql.tr();"}
    info = [("it1", "create.columns", "l_coldefs", "Ev::ColDef(*column_def)"), ("it2", "create.indexes", "l_tblidx", "Ev::TblIndex(*index)"),
            ("it3", "create.foreign_keys", "l_fks", "Ev::FkCreate(*foreign_key, Mode::Creation)"), ("it4", "create.check", "l_checks", "Ev::Check(*check)")]
    for k, (it, coll, mk, ev) in enumerate(info):
        pre = grp(k)
        cur = "(%s + %s(%s@.subrange(0, %s.index@ as int)))" % (pre, mk, coll, it)
        loops.append("invariant %s.index@ <= %s@.len(), sql.tr() == t1 + sep_list%s, first == (%s.len() == 0)," % (it, coll, cur, cur))
        # before the loop: the group's empty prefix adds nothing
        start = "proof { lemma_%s_empty(%s@); assert(%s + emp() =~= %s); %s }" % (
            mk, coll, pre, pre, ("assert(sep_list(emp()) =~= emp()); assert(t1 + emp() =~= t1);" if k == 0 else "assert(%s@.subrange(0, %s@.len() as int) =~= %s@);" % (info[k - 1][1], info[k - 1][1], info[k - 1][1])))
        anchor = "before#1:for column_def in it1" if k == 0 else "before#1:for %s in %s" % (["column_def", "index", "foreign_key", "check"][k], it)
        proofs[anchor] = ("let ghost t1 = sql.tr();\n" if k == 0 else "") + start
        # end of an iteration: one more element of this group
        proofs["loop%d-end" % (k + 1)] = ("proof { let ghost pfx = %s + %s(%s@.subrange(0, %s.index@ as int)); lemma_%s_step(%s@, %s.index@ as int); lemma_sep_push(pfx, %s); "
                                           "assert(%s + %s(%s@.subrange(0, %s.index@ + 1)) =~= pfx.push(%s)); }") % (pre, mk, coll, it, mk, coll, it, ev, pre, mk, coll, it, ev)
    proofs['before#1:vfmt_lit(sql, " )")'] = "proof { assert(create.check@.subrange(0, create.check@.len() as int) =~= create.check@); }"
    proofs["body-end"] = "proof { assert(sql.tr() =~= t0 + create_events(*create)); }"
    u.fn(TB, "trait TableBuilder", "prepare_table_create_statement", props=P, key="TableBuilder::prepare_table_create_statement", vpath="Dflt::prepare_table_create_statement",
         prefix="#[verifier::rlimit(60)]\n    ", rules=[r_dynw, r_fold, r_fmt],
         spec="ensures\n    // every declared element exactly once, in declaration order, comma separated, inside one pair of parentheses; options after it\n    final(sql).tr() == old(sql).tr() + create_events(*create),",
         loops=loops, proofs=proofs)
    more_defaults(u)
    u.emit("}\n")
    mysql_table(u)
    u.emit("} // verus!\nfn main() {}\n")


def simple(u, path, block, name, events, rules, vpath, key=None, requires="", comment="", pre="", rename=None, extra_proofs=None, loops=None, t0_extra=""):
    """a renderer without loops (or with `loops`): its trace is the old one plus `events` (a spec expression over its parameters)"""
    pr = {"body-start": "let ghost t0 = sql.tr();" + t0_extra, "body-end": "proof { %s assert(sql.tr() =~= t0 + (%s)); }" % (pre, events)}
    pr.update(extra_proofs or {})
    u.fn(path, block, name, props=P, key=key or "%s::%s" % (vpath.split("::")[0], name), vpath=vpath, rules=list(rules) + [r_unit_tail], rename=rename, loops=loops,
         spec=(("requires %s,\n" % requires) if requires else "") + "ensures\n" + ("    // %s\n" % comment if comment else "") + "    final(sql).tr() == old(sql).tr() + (%s)," % events,
         proofs=pr)


DEFAULTS_SPEC = r'''
// ---- column specifications (grammar: column_definition = data_type [NOT NULL | NULL] [DEFAULT ..] [AUTO_INCREMENT] [UNIQUE [KEY]] [[PRIMARY] KEY]
//      [COMMENT 'string'] [CHECK (expr)] | data_type [GENERATED ALWAYS] AS (expr) [VIRTUAL | STORED] ..; PostgreSQL column_constraint likewise) ---------
pub open spec fn colspec_events(cs: ColumnSpec) -> Seq<Ev> {
    match cs {
        ColumnSpec::Null => seq![lit("NULL")],
        ColumnSpec::NotNull => seq![lit("NOT NULL")],
        ColumnSpec::Default(e) => seq![lit("DEFAULT "), Ev::Expr(e)],
        ColumnSpec::AutoIncrement => seq![Ev::AutoIncKw],
        ColumnSpec::UniqueKey => seq![lit("UNIQUE")],
        ColumnSpec::PrimaryKey => seq![lit("PRIMARY KEY")],
        ColumnSpec::Check(e) => seq![Ev::Check(e)],
        ColumnSpec::Generated { expr, stored } => seq![Ev::Generated(expr, stored)],
        ColumnSpec::Extra(s) => seq![Ev::Text(s@)],
        ColumnSpec::Comment(c) => seq![Ev::Comment(c@)],
        ColumnSpec::Using(_) => emp(),       // only meaningful in PostgreSQL's ALTER COLUMN .. TYPE .. USING
    }
}
// table options (MySQL table_option: ENGINE [=] name | COLLATE [=] name | [DEFAULT] CHARSET [=] name), space separated, in call order
pub open spec fn tableopt_text(o: TableOpt) -> Seq<char> {
    match o { TableOpt::Engine(s) => "ENGINE="@ + s@, TableOpt::Collate(s) => "COLLATE="@ + s@, TableOpt::CharacterSet(s) => "DEFAULT CHARSET="@ + s@ }
}
// DROP TABLE [IF EXISTS] tbl [, tbl] ... [RESTRICT | CASCADE]
pub open spec fn drop_events(d: TableDropStatement) -> Seq<Ev> {
    seq![lit("DROP TABLE ")] + (if d.if_exists { seq![lit("IF EXISTS ")] } else { emp() }) + l_trefs(d.tables@) + l_dropopts(d.options@)
}
'''
TEXT_SHIMS = r'''
// R-format (trusted): Display of a String / &str is its text, of an integer its decimal text (uninterpreted num_text)
pub uninterp spec fn num_text(n: int) -> Seq<char>;
pub trait VTextOf { spec fn text(&self) -> Seq<char>; }
impl VTextOf for String { open spec fn text(&self) -> Seq<char> { self@ } }
impl VTextOf for u32 { open spec fn text(&self) -> Seq<char> { num_text(*self as int) } }
impl<T: VTextOf> VTextOf for &T { open spec fn text(&self) -> Seq<char> { (**self).text() } }
#[verifier::external_body]
fn vpush_disp<T: VTextOf>(f: &mut String, x: &T) ensures final(f)@ == old(f)@ + x.text() { unimplemented!() }
'''


def more_defaults(u):
    def d(name, events, rules, **kw):
        kw.setdefault("key", "TableBuilder::" + name)
        simple(u, TB, "trait TableBuilder", name, events, rules, "Dflt::" + (kw.get("rename") or name), **kw)
    u.spec(abstract("prepare_table_ref_iden", "x: &TableRef", "Ev::TRefIden(*x)") + abstract("prepare_simple_expr", "x: &SimpleExpr", "Ev::Expr(*x)")
           + abstract("prepare_auto_increment_keyword", "", "Ev::AutoIncKw").replace("(&self, , sql", "(&self, sql")
           + abstract("prepare_generated_column", "x: &SimpleExpr, stored: bool", "Ev::Generated(*x, stored)") + abstract("column_comment", "x: &String", "Ev::Comment(x@)")
           + abstract("prepare_table_drop_opt", "x: &TableDropOpt", "Ev::DropOpt(*x)"), "schema::abstract-sub-renderers(defaults)", props=P)
    # a schema statement names a plain / schema-qualified table; a sub-query or VALUES list panics (precondition)
    simple(u, TB, "trait TableBuilder", "prepare_table_ref_table_stmt", "seq![Ev::TRefIden(*table_ref)]", [r_dynw, make_r_sub("R-panic", r'panic!\("Not supported"\)', "vpanic()")], "Dflt::prepare_table_ref_table_stmt_impl",
           key="TableBuilder::prepare_table_ref_table_stmt", rename="prepare_table_ref_table_stmt_impl",
           requires="(*table_ref is Table) || (*table_ref is SchemaTable) || (*table_ref is DatabaseSchemaTable)", comment="the (qualified) table name: one name token per part (unit ident)")
    d("prepare_column_spec", "colspec_events(*column_spec)",
      [r_dynw, r_qb, make_r_sub("R-opaque", r'write!\(sql, "\{\}", self\.column_spec_auto_increment_keyword\(\)\)\.unwrap\(\)', "self.prepare_auto_increment_keyword(sql)"), r_fmt],
      comment="each specification in its grammar form", t0_extra=" let ghost cs_ = *column_spec;", pre="assert(cs_ == *column_spec);")
    d("prepare_table_opt", "seq![Ev::TableOptsDef(*create)]", [r_dynw], rename="prepare_table_opt_dflt", key="TableBuilder::prepare_table_opt[default]")
    u.spec(abstract("prepare_table_opt_def", "x: &TableCreateStatement", "Ev::TableOptsDef(*x)"), "schema::abstract(prepare_table_opt_def)", props=P)
    u.fn(TB, "trait TableBuilder", "prepare_table_opt_def", rename="prepare_table_opt_def_impl", props=P, key="TableBuilder::prepare_table_opt_def", vpath="Dflt::prepare_table_opt_def_impl",
         rules=[r_dynw, r_semi, r_format, r_fmt, make_r_sub("R-forghost", r"for table_opt in create\.options\.iter\(\)", "for table_opt in it1: create.options.iter()")],
         spec="ensures\n    // every table option, in call order, each preceded by one space, in the dialect's `NAME=value` form\n    final(sql).tr() == old(sql).tr() + l_tableopts(create.options@),",
         loops=["invariant it1.index@ <= create.options@.len(), sql.tr() == t0 + l_tableopts(create.options@.subrange(0, it1.index@ as int)),"],
         proofs={"body-start": "let ghost t0 = sql.tr();\nproof { lemma_l_tableopts_empty(create.options@); assert(t0 + emp() =~= t0); }",
                 "loop1-end": "proof { lemma_l_tableopts_step(create.options@, it1.index@ as int); }",
                 "body-end": "proof { lemma_l_tableopts_empty(create.options@); }"})
    d("prepare_table_drop_statement", "drop_events(*drop)", [r_dynw, r_fold, r_fmt, make_r_sub("R-forghost", r"for drop_opt in drop\.options\.iter\(\)", "for drop_opt in it2: drop.options.iter()")],
      comment="DROP TABLE [IF EXISTS] every table, comma separated, then every option",
      loops=["invariant it1.index@ <= drop.tables@.len(), first == (it1.index@ == 0), sql.tr() == tl + l_trefs(drop.tables@.subrange(0, it1.index@ as int)),",
             "invariant it2.index@ <= drop.options@.len(), sql.tr() == tl + l_trefs(drop.tables@) + l_dropopts(drop.options@.subrange(0, it2.index@ as int)),"],
      extra_proofs={"before#1:let mut first = true;": "let ghost tl = sql.tr();\nproof { lemma_l_trefs_empty(drop.tables@); assert(tl + emp() =~= tl); }",
                    "loop1-end": "proof { lemma_l_trefs_step(drop.tables@, it1.index@ as int); }",
                    "before#1:for drop_opt in it2": "proof { lemma_l_trefs_empty(drop.tables@); lemma_l_dropopts_empty(drop.options@); assert(tl + l_trefs(drop.tables@) + emp() =~= tl + l_trefs(drop.tables@)); }",
                    "loop2-end": "proof { lemma_l_dropopts_step(drop.options@, it2.index@ as int); assert((tl + l_trefs(drop.tables@) + l_dropopts(drop.options@.subrange(0, it2.index@ as int))).push(Ev::DropOpt(*drop_opt)) =~= tl + l_trefs(drop.tables@) + l_dropopts(drop.options@.subrange(0, it2.index@ as int)).push(Ev::DropOpt(*drop_opt))); }"},
      pre="lemma_l_dropopts_empty(drop.options@);")
    simple(u, TB, "trait TableBuilder", "prepare_table_drop_opt", 'seq![lit(" "), lit(match *drop_opt { TableDropOpt::Restrict => "RESTRICT", TableDropOpt::Cascade => "CASCADE" })]', [r_dynw, r_fmt], "Dflt::prepare_table_drop_opt_impl",
           key="TableBuilder::prepare_table_drop_opt", rename="prepare_table_drop_opt_impl")
    d("prepare_table_truncate_statement", 'seq![lit("TRUNCATE TABLE ")] + (match truncate.table { Some(t) => seq![Ev::TRef(t)], None => emp() })', [r_dynw, r_fmt])
    simple(u, TB, "trait TableBuilder", "prepare_check_constraint", 'seq![lit("CHECK ("), Ev::Expr(*check), lit(")")]', [r_dynw, r_qb, r_fmt], "Dflt::prepare_check_constraint_impl",
           key="TableBuilder::prepare_check_constraint", rename="prepare_check_constraint_impl", comment="CHECK ( expr ): the expression inside one pair of parentheses")
    simple(u, TB, "trait TableBuilder", "prepare_generated_column", 'seq![lit("GENERATED ALWAYS AS ("), Ev::Expr(*gen), lit(")"), lit(if stored { " STORED" } else { " VIRTUAL" })]', [r_dynw, r_qb, r_fmt], "Dflt::prepare_generated_column_impl",
           key="TableBuilder::prepare_generated_column", rename="prepare_generated_column_impl")
    simple(u, TB, "trait TableBuilder", "prepare_create_table_if_not_exists", 'if create.if_not_exists { seq![lit("IF NOT EXISTS ")] } else { emp() }', [r_dynw, r_fmt], "Dflt::prepare_create_table_if_not_exists_impl",
           key="TableBuilder::prepare_create_table_if_not_exists", rename="prepare_create_table_if_not_exists_impl")
    simple(u, TB, "trait TableBuilder", "prepare_create_temporary_table", 'if create.temporary { seq![lit("TEMPORARY ")] } else { emp() }', [r_dynw, r_fmt], "Dflt::prepare_create_temporary_table_impl",
           key="TableBuilder::prepare_create_temporary_table", rename="prepare_create_temporary_table_impl")


MYSQL_SPEC = r"""
// ---- MySQL ---------------------------------------------------------------------------------------------------------------------
// the text escape_string returns (the escaping itself is unit `escape`, C17 / C03)
pub uninterp spec fn esc_text(s: Seq<char>) -> Seq<char>;
// column_definition: col_name data_type [specification] ...   - each specification once, in declaration order, space separated
pub open spec fn coldef_events_mysql(cd: ColumnDef) -> Seq<Ev> {
    seq![Ev::Iden(cd.name)] + (match cd.types { Some(t) => seq![lit(" "), Ev::ColType(t)], None => emp() }) + l_specs(cd.spec@)
}
// table_options: [COMMENT [=] 'string'] then ENGINE / COLLATE / CHARSET; the comment is a string literal made of the ESCAPED text
pub open spec fn tableopts_events_mysql(c: TableCreateStatement) -> Seq<Ev> {
    (match c.comment { Some(x) => seq![lit(" COMMENT '"), Ev::Text(esc_text(x@)), lit("'")], None => emp() }) + seq![Ev::TableOptsDef(c)]
}
// ALTER TABLE tbl alter_option [, alter_option] ...  (MySQL 15.1.9)
pub open spec fn alter_opt_mysql(o: TableAlterOption) -> Seq<Ev> {
    match o {
        TableAlterOption::AddColumn(a) => seq![lit("ADD COLUMN ")] + (if a.if_not_exists { seq![lit("IF NOT EXISTS ")] } else { emp() }) + seq![Ev::ColDef(a.column)],
        TableAlterOption::ModifyColumn(cd) => seq![lit("MODIFY COLUMN "), Ev::ColDef(cd)],
        TableAlterOption::RenameColumn(f, t) => seq![lit("RENAME COLUMN "), Ev::Iden(f), lit(" TO "), Ev::Iden(t)],
        TableAlterOption::DropColumn(c) => seq![lit("DROP COLUMN "), Ev::Iden(c)],
        TableAlterOption::DropForeignKey(n) => seq![Ev::FkDropNamed(n)],
        TableAlterOption::AddForeignKey(fk) => seq![Ev::FkCreate(ForeignKeyCreateStatement { foreign_key: fk }, Mode::TableAlter)],
    }
}
pub open spec fn alter_events_mysql(a: TableAlterStatement) -> Seq<Ev> {
    seq![lit("ALTER TABLE ")] + (match a.table { Some(t) => seq![Ev::TRef(t), lit(" ")], None => emp() }) + l_alter_my(a.options@)
}
"""


def alter_fn(u, path, block, owner, listfn, optfn, extra_rules=()):
    """the ALTER TABLE renderer of a backend: keyword, table, then every option once, in call order, comma separated"""
    u.fn(path, block, "prepare_table_alter_statement", props=P, key="%s::prepare_table_alter_statement" % owner, vpath="%s::prepare_table_alter_statement" % owner, prefix="#[verifier::rlimit(80)]\n    ",
         rules=[r_dynw, make_r_sub("R-panic", r'panic!\("No alter option found"\)', "vpanic()"), r_fold, r_semi, r_iden] + list(extra_rules) + [r_fmt],
         spec="requires alter.options@.len() > 0,      // panics otherwise (`No alter option found`)\nensures\n    // every alter option exactly once, in call order, comma separated, each in the dialect's form\n    final(sql).tr() == old(sql).tr() + alter_events_%s(*alter)," % optfn,
         loops=["invariant it1.index@ <= alter.options@.len(), first == (it1.index@ == 0), sql.tr() == ta + %s(alter.options@.subrange(0, it1.index@ as int))," % listfn],
         proofs={"body-start": "let ghost t0 = sql.tr();",
                 "before#1:let mut first = true;": "let ghost ta = sql.tr();\nproof { lemma_%s_empty(alter.options@); assert(ta + emp() =~= ta); }" % listfn,
                 "loop1-start": "let ghost tl = sql.tr(); let ghost opt_ = *option;",
                 "loop1-end": "proof { lemma_%s_step(alter.options@, it1.index@ as int); assert(sql.tr() =~= (if it1.index@ == 0 { tl } else { tl.push(lit(\", \")) }) + alter_opt_%s(opt_)); }" % (listfn, optfn),
                 "body-end": "proof { lemma_%s_empty(alter.options@); assert(sql.tr() =~= t0 + alter_events_%s(*alter)); }" % (listfn, optfn)})


def mysql_table(u):
    MT = "src/backend/mysql/table.rs"
    B = "impl TableBuilder for MysqlQueryBuilder"
    u.spec(list_fns("l_specs", "ColumnSpec", "Ev::ColSpec(%s)", "pre") + list_fns("l_alter_my", "TableAlterOption", "alter_opt_mysql(%s)", "multi"), "schema::mysql-lists", props=P)
    u.spec(MYSQL_SPEC, "schema::mysql-spec", props=P)
    u.emit("pub struct MysqlQueryBuilder;\nimpl MysqlQueryBuilder {\n")
    u.spec(abstract("prepare_iden", "x: &DynIden", "Ev::Iden(*x)") + abstract("prepare_column_type", "x: &ColumnType", "Ev::ColType(*x)") + abstract("prepare_column_spec", "x: &ColumnSpec", "Ev::ColSpec(*x)")
           + abstract("prepare_table_opt_def", "x: &TableCreateStatement", "Ev::TableOptsDef(*x)") + abstract("prepare_table_ref_table_stmt", "x: &TableRef", "Ev::TRef(*x)")
           + abstract("prepare_column_def", "x: &ColumnDef", "Ev::ColDef(*x)") + abstract("prepare_drop_fk_named", "x: &DynIden", "Ev::FkDropNamed(*x)")
           + abstract("prepare_foreign_key_create_statement_internal", "x: &ForeignKeyCreateStatement", "Ev::FkCreate(*x, mode)").replace("sql: &mut W)", "sql: &mut W, mode: Mode)")
           + "    #[verifier::external_body]\n    fn escape_string(&self, s: &String) -> (r: String) ensures r@ == esc_text(s@) { unimplemented!() }\n"
           + "    // #[derive(Clone)] (trusted): `.to_owned()` of a TableForeignKey is a structural copy\n    #[verifier::external_body]\n    fn vclone_fk(x: &TableForeignKey) -> (r: TableForeignKey) ensures r == *x { unimplemented!() }\n",
           "schema::abstract-sub-renderers(mysql table)", props=P)
    simple(u, MT, B, "prepare_table_opt", "tableopts_events_mysql(*create)", [r_dynw, r_fmt], "MysqlQueryBuilder::prepare_table_opt", key="MysqlQueryBuilder::prepare_table_opt",
           comment="COMMENT '<escaped text>' (one string literal, C03), then the options")
    simple(u, MT, B, "prepare_column_def", "coldef_events_mysql(*column_def)", [r_dynw, r_iden, r_semi, r_fmt, make_r_sub("R-forghost", r"for column_spec in column_def\.spec\.iter\(\)", "for column_spec in it1: column_def.spec.iter()")],
           "MysqlQueryBuilder::prepare_column_def_impl", key="MysqlQueryBuilder::prepare_column_def", rename="prepare_column_def_impl", comment="name, ONE type, then each specification once, in declaration order",
           loops=["invariant it1.index@ <= column_def.spec@.len(), sql.tr() == ts + l_specs(column_def.spec@.subrange(0, it1.index@ as int)),"],
           extra_proofs={"before#1:for column_spec in it1": "let ghost ts = sql.tr();\nproof { lemma_l_specs_empty(column_def.spec@); assert(ts + emp() =~= ts); }",
                         "loop1-end": "proof { lemma_l_specs_step(column_def.spec@, it1.index@ as int); }"},
           pre="lemma_l_specs_empty(column_def.spec@);")
    alter_fn(u, MT, B, "MysqlQueryBuilder", "l_alter_my", "mysql",
             extra_rules=[make_r_sub("R-arm-out", r"let mut foreign_key = TableForeignKey::new\(\);\s*foreign_key\.name\(name\.to_string\(\)\);\s*let drop = ForeignKeyDropStatement \{\s*foreign_key,\s*table: None,\s*\};\s*self\.prepare_foreign_key_drop_statement_internal\(&drop, sql, Mode::TableAlter\);",
                                      "self.prepare_drop_fk_named(name, sql);"),
                          make_r_sub("R-attr", r"foreign_key\.to_owned\(\)", "Self::vclone_fk(foreign_key)")])
    simple(u, MT, B, "prepare_table_rename_statement", 'seq![lit("RENAME TABLE ")] + (match rename.from_name { Some(t) => seq![Ev::TRef(t)], None => emp() }) + seq![lit(" TO ")] + (match rename.to_name { Some(t) => seq![Ev::TRef(t)], None => emp() })',
           [r_dynw, r_fmt], "MysqlQueryBuilder::prepare_table_rename_statement", key="MysqlQueryBuilder::prepare_table_rename_statement", comment="RENAME TABLE old TO new")
    u.emit("}\n")
