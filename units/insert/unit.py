"""unit `insert`  ->  C10: INSERT rows always match the column list; mismatches are reported and leave no trace.

Under contract (src/query/insert.rs, src/error.rs): InsertStatement::{new, columns, values, values_panic, select_from,
or_default_values, or_default_values_many}; enum Error; InsertValueSource.
"""
import re
from vlib import rustlex as rl
from vlib.gen import make_r_sub, r_retself, make_r_tailbind

F = "src/query/insert.rs"
P = ["C10"]
# the builder calls that accept rows / a source query also carry C08 and C01: what they accept is what the renderer is given
PV = ["C10", "C08", "C01"]
OPAQUE = ["SimpleExpr", "DynIden", "TableRef", "OnConflict", "ReturningClause", "WithClause", "SelectExpr"]
r_vis = make_r_sub("R-vis", r"pub\(crate\) ", "pub ", min_count=0)

SPEC = r'''
// ---- specification (hand-written, from the property text of C10) -------------------------------------------
// every VALUES row has exactly as many cells as there are declared columns; an INSERT..SELECT has as many select
// items as columns
pub open spec fn rect(s: InsertStatement) -> bool {
    match s.source {
        Some(InsertValueSource::Values(rows)) => forall|i: int| 0 <= i < rows@.len() ==> (#[trigger] rows@[i])@.len() == s.columns@.len(),
        Some(InsertValueSource::Select(q)) => q.selects@.len() == s.columns@.len(),
        None => true,
    }
}
pub open spec fn rows_of(s: InsertStatement) -> Seq<Vec<SimpleExpr>> {
    match s.source { Some(InsertValueSource::Values(rows)) => rows@, _ => Seq::<Vec<SimpleExpr>>::empty() }
}
// everything of the statement except its VALUES rows
pub open spec fn same_but_rows(a: InsertStatement, b: InsertStatement) -> bool {
    a.replace == b.replace && a.table == b.table && a.columns == b.columns && a.on_conflict == b.on_conflict
    && a.returning == b.returning && a.default_values == b.default_values && a.with == b.with
}
// R-attr (trusted): #[derive(Default)]: every field default (false / None / empty)
#[verifier::external_body]
fn vdefault_insert() -> (r: InsertStatement)
    ensures r.replace == false, r.table is None, r.columns@.len() == 0, r.source is None, r.on_conflict is None,
            r.returning is None, r.default_values is None, r.with is None,
{ unimplemented!() }
'''


def build(u):
    u.emit("use vstd::prelude::*;\nverus! {\n")
    for n in OPAQUE:
        u.emit("#[verifier::external_body]\npub struct %s { _opaque: u8 }\n" % n, kind="spec", key="R-opaque:" + n, props=P)
    u.type_item("src/error.rs", "enum", "Error", props=P, keep_derive=("Debug",))
    u.emit("pub type Result<T> = std::result::Result<T, Error>;\n", kind="spec", key="Result alias", props=P)
    u.type_item("src/query/select.rs", "struct", "SelectStatement", props=P, keep_fields=["selects"])
    u.type_item(F, "enum", "InsertValueSource", props=P, rules=[r_vis])
    u.type_item(F, "struct", "InsertStatement", props=P, rules=[r_vis])
    u.spec(SPEC, "insert::spec", props=P)
    u.emit("impl InsertStatement {\n")
    u.fn(F, "impl InsertStatement", "new", ret="r", props=P, rules=[make_r_sub("R-attr", r"Self::default\(\)", "vdefault_insert()")],
         spec="ensures r.columns@.len() == 0, r.source is None, r.default_values is None, rect(r),")
    u.fn(F, "impl InsertStatement", "values", ret="r", props=PV,
         rules=[make_r_sub("R-collect", r"values<I>\(&mut self, values: I\)", "values(&mut self, values: Vec<SimpleExpr>)"),
                make_r_sub("R-collect", r"where\s+I: IntoIterator<Item = SimpleExpr>,", ""),
                make_r_sub("R-collect", r"let values = values\.into_iter\(\)\.collect::<Vec<SimpleExpr>>\(\);", ""),
                make_r_sub("R-retself", r"-> Result<&mut Self>", "-> Result<()>"), make_r_sub("R-retself", r"Ok\(self\)", "Ok(())")],
         spec="""requires rect(*old(self)),
ensures
    // succeeds only if the row has exactly as many expressions as the declared column list
    r is Ok <==> values@.len() == old(self).columns@.len(),
    // otherwise: the count-mismatch error carrying both counts, and the statement is unchanged
    r is Err ==> r == Err::<(), Error>(Error::ColValNumMismatch { col_len: old(self).columns@.len() as usize, val_len: values@.len() as usize }) && *final(self) == *old(self),
    // an accepted non-empty row is appended after the existing rows, nothing else changes; an empty row adds nothing
    r is Ok && values@.len() > 0 ==> same_but_rows(*final(self), *old(self)) && rows_of(*final(self)) == rows_of(*old(self)).push(values)
        && final(self).source is Some && final(self).source->Some_0 is Values,
    r is Ok && values@.len() == 0 ==> *final(self) == *old(self),
    rect(*final(self)),""")
    u.fn(F, "impl InsertStatement", "values_panic", props=PV,
         rules=[make_r_sub("R-collect", r"values_panic<I>\(&mut self, values: I\)", "values_panic(&mut self, values: Vec<SimpleExpr>)"),
                make_r_sub("R-collect", r"where\s+I: IntoIterator<Item = SimpleExpr>,", ""),
                make_r_sub("R-retself", r" -> &mut Self", ""), make_r_sub("R-retself", r"self\.values\(values\)\.unwrap\(\)", "self.values(values).unwrap();")],
         spec="""requires rect(*old(self)), values@.len() == old(self).columns@.len(),   // panics otherwise (Result::unwrap)
ensures
    values@.len() > 0 ==> same_but_rows(*final(self), *old(self)) && rows_of(*final(self)) == rows_of(*old(self)).push(values),
    values@.len() == 0 ==> *final(self) == *old(self),
    rect(*final(self)),""")
    # values_from_panic: every row of the iterator goes through values_panic (i.e. is checked), in order
    u.fn(F, "impl InsertStatement", "values_from_panic", props=PV,
         rules=[make_r_sub("R-collect", r"values_from_panic<I>\(&mut self, values_iter: impl IntoIterator<Item = I>\)", "values_from_panic(&mut self, values_iter: Vec<Vec<SimpleExpr>>)"),
                make_r_sub("R-collect", r"where\s+I: IntoIterator<Item = SimpleExpr>,", ""),
                # R-fold (by-value form): `c.into_iter().for_each(|x| { BODY });` is `for x in c { BODY }`
                make_r_sub("R-fold", r"values_iter\.into_iter\(\)\.for_each\(\|values\| \{\s*self\.values_panic\(values\);\s*\}\);", "for values in itv: values_iter { self.values_panic(values); }"),
                r_retself],
         spec="""requires rect(*old(self)), forall|i: int| 0 <= i < values_iter@.len() ==> (#[trigger] values_iter@[i])@.len() == old(self).columns@.len(),   // panics otherwise
ensures
    // every row is appended, in call order (rows of a column-less INSERT are empty and add nothing)
    old(self).columns@.len() > 0 ==> rows_of(*final(self)) == rows_of(*old(self)) + values_iter@,
    old(self).columns@.len() == 0 ==> *final(self) == *old(self),
    (values_iter@.len() > 0 && old(self).columns@.len() > 0) ==> same_but_rows(*final(self), *old(self)),
    values_iter@.len() == 0 ==> *final(self) == *old(self),
    rect(*final(self)),""",
         loops=["""invariant
    itv.index@ <= values_iter@.len(), rect(*self), self.columns == s0.columns,
    forall|i: int| 0 <= i < values_iter@.len() ==> (#[trigger] values_iter@[i])@.len() == s0.columns@.len(),
    s0.columns@.len() > 0 ==> rows_of(*self) == rows_of(s0) + values_iter@.subrange(0, itv.index@ as int),
    s0.columns@.len() == 0 ==> *self == s0,
    (itv.index@ > 0 && s0.columns@.len() > 0) ==> same_but_rows(*self, s0),
    itv.index@ == 0 ==> *self == s0,"""],
         proofs={"body-start": "let ghost s0 = *self;\nproof { assert(rows_of(s0) + values_iter@.subrange(0, 0) =~= rows_of(s0)); }",
                 "loop1-end": "proof { assert(values_iter@.subrange(0, itv.index@ + 1) =~= values_iter@.subrange(0, itv.index@ as int).push(values)); assert(rows_of(s0) + values_iter@.subrange(0, itv.index@ as int).push(values) =~= (rows_of(s0) + values_iter@.subrange(0, itv.index@ as int)).push(values)); }",
                 "body-end": "proof { assert(values_iter@.subrange(0, values_iter@.len() as int) =~= values_iter@); }"})
    u.fn(F, "impl InsertStatement", "select_from", ret="r", props=PV,
         rules=[make_r_sub("R-into", r"select_from<S>\(&mut self, select: S\)", "select_from(&mut self, select: SelectStatement)"),
                make_r_sub("R-into", r"where\s+S: Into<SelectStatement>,", ""), make_r_sub("R-into", r"select\.into\(\)", "select"),
                make_r_sub("R-retself", r"-> Result<&mut Self>", "-> Result<()>"), make_r_sub("R-retself", r"Ok\(self\)", "Ok(())")],
         spec="""ensures
    r is Ok <==> select.selects@.len() == old(self).columns@.len(),
    r is Err ==> r == Err::<(), Error>(Error::ColValNumMismatch { col_len: old(self).columns@.len() as usize, val_len: select.selects@.len() as usize }) && *final(self) == *old(self),
    r is Ok ==> same_but_rows(*final(self), *old(self)) && final(self).source == Some(InsertValueSource::Select(Box::new(select))),
    r is Ok ==> rect(*final(self)),""")
    for nm, n in [("or_default_values", "1"), ("or_default_values_many", "num_rows")]:
        u.fn(F, "impl InsertStatement", nm, props=PV, rules=[r_retself],
             spec="ensures final(self).default_values == Some(%s as u32), final(self).source == old(self).source, final(self).columns == old(self).columns,\n    rect(*old(self)) ==> rect(*final(self))," % n)
    # columns(): replaces the declared column list.  R-collect / R-into: `cols.into_iter().map(|c| c.into_iden()).collect()` is
    # the list of converted identifiers, in order (trusted)
    u.fn(F, "impl InsertStatement", "columns", props=PV,
         rules=[make_r_sub("R-collect", r"columns<C, I>\(&mut self, columns: I\)", "columns(&mut self, columns: Vec<DynIden>)"),
                make_r_sub("R-collect", r"where\s+C: IntoIden,\s+I: IntoIterator<Item = C>,", ""),
                make_r_sub("R-collect", r"columns\.into_iter\(\)\.map\(\|c\| c\.into_iden\(\)\)\.collect\(\)", "columns"), r_retself],
         spec=[("""requires rect(*old(self)),
ensures
    final(self).columns@ == columns@, final(self).source == old(self).source, final(self).default_values == old(self).default_values,
    final(self).replace == old(self).replace, final(self).table == old(self).table, final(self).on_conflict == old(self).on_conflict,
    final(self).returning == old(self).returning, final(self).with == old(self).with,
    // declared before any row / SELECT source exists, the statement stays rectangular""", PV),
               ("    old(self).source is None ==> rect(*final(self)),", PV),
               ("    // C10 `consequently every rendered INSERT has a rectangular VALUES list matching its columns`, for EVERY call history\n    rect(*final(self)),", P)])
    u.emit("}\n")
    u.emit("} // verus!\nfn main() {}\n")
