"""unit `builders`  ->  C14 (declared elements): the BUILDER METHODS of the schema statements.

The renderers (unit schema) are proved to write every element the statement VALUE holds; this unit proves that the statement value
holds exactly what the builder calls declared: every builder method of TableCreateStatement, TableAlterStatement, ColumnDef,
IndexCreateStatement / TableIndex, ForeignKeyCreateStatement / TableForeignKey, the drop / rename / truncate statements and the
Postgres type / extension statements appends to exactly one list (in call order) or sets exactly one field, and leaves every other
field alone (frame over the field list GENERATED from the extracted struct on each run).

Generic parameters stay generic: the conversion traits (IntoIden, IntoTableRef, IntoColumnDef, IntoIndexColumn, IntoTypeRef, Into<String>)
get a contract `the result is a function of the argument` (spec fn sp_*), the identity impls and the tuple impls found in /repo are
verified against it, and every builder's postcondition names the converted value.
"""
import re
from vlib import rustlex as rl
from vlib.gen import make_r_sub, r_retself, r_mutself, split_top, Ctx, r_attr, r_cfg
from units.take.unit import fields_of, dflt_pred

P = ["C14"]
r_vis = make_r_sub("R-vis", r"pub\(crate\) ", "pub ", min_count=0)
r_inh = make_r_sub("R-inherent", r"^(\s*)pub fn", r"\1fn", flags=re.M, min_count=0)
# Into<X> of std: the contracted interface VInto<X> (spec.rs); `x.into()` stays a call of it
r_into = make_r_sub("R-into", r"\bInto<(String|SimpleExpr)>", r"VInto<\1>", min_count=0)
r_box = make_r_sub("R-path", r"RcOrArc<ColumnType>", "Box<ColumnType>", min_count=0)
r_rcnew = make_r_sub("R-path", r"RcOrArc::new\(", "Box::new(", min_count=0)

TRAITS = r'''
// ---- the conversion traits, under contract: a conversion is a FUNCTION of its argument (sp_*), nothing else is assumed about it ------
pub trait IntoIden: Sized { spec fn sp_iden(self) -> DynIden; fn into_iden(self) -> (r: DynIden) ensures r == self.sp_iden(); }
pub trait IntoTableRef: Sized { spec fn sp_table_ref(self) -> TableRef; fn into_table_ref(self) -> (r: TableRef) ensures r == self.sp_table_ref(); }
pub trait IntoIndexColumn: Sized { spec fn sp_index_column(self) -> IndexColumn; fn into_index_column(self) -> (r: IndexColumn) ensures r == self.sp_index_column(); }
pub trait IntoTypeRef: Sized { spec fn sp_type_ref(self) -> TypeRef; fn into_type_ref(self) -> (r: TypeRef) ensures r == self.sp_type_ref(); }
// (IntoColumnDef for &mut ColumnDef TAKES the definition: the result is the definition the reference pointed to)
pub trait IntoColumnDef: Sized { spec fn sp_column_def(self) -> ColumnDef; fn into_column_def(self) -> (r: ColumnDef) ensures r == self.sp_column_def(); }
// std's Into<T> (R-into): `x.into()` is a function of x
pub trait VInto<T>: Sized { spec fn sp_into(self) -> T; fn into(self) -> (r: T) ensures r == self.sp_into(); }
// the identifiers of a list, mapped through the conversion
pub open spec fn sp_idens<T: IntoIden>(xs: Seq<T>) -> Seq<DynIden> { xs.map_values(|x: T| x.sp_iden()) }
pub open spec fn sp_type_refs<T: IntoTypeRef>(xs: Seq<T>) -> Seq<TypeRef> { xs.map_values(|x: T| x.sp_type_ref()) }
// #[derive(Clone)] / to_owned(): a structural copy (trusted, R-attr)
#[verifier::external_body]
fn vclone<T>(x: &T) -> (r: T) ensures r == *x { unimplemented!() }
// Option::clone_from (std): the destination becomes a copy of the source
#[verifier::external_body]
fn vclone_from<T>(dst: &mut T, src: &T) ensures *final(dst) == *src { unimplemented!() }
'''

# identity / tuple impls of the conversion traits in /repo: (file, impl header, trait method, spec fn name, spec body, generics)
IMPLS = [
    ("src/types.rs", "impl IntoIden for DynIden", "into_iden", "sp_iden", "DynIden", "self"),
    ("src/types.rs", "impl IntoTableRef for TableRef", "into_table_ref", "sp_table_ref", "TableRef", "self"),
    ("src/index/common.rs", "impl IntoIndexColumn for IndexColumn", "into_index_column", "sp_index_column", "IndexColumn", "self"),
    ("src/extension/postgres/types.rs", "impl IntoTypeRef for TypeRef", "into_type_ref", "sp_type_ref", "TypeRef", "self"),
    ("src/table/column.rs", "impl IntoColumnDef for ColumnDef", "into_column_def", "sp_column_def", "ColumnDef", "self"),
    # a name alone / with prefix length / with direction: the index column carries exactly what was given
    ("src/index/common.rs", "impl<I> IntoIndexColumn for I where I: IntoIden,", "into_index_column", "sp_index_column", "IndexColumn",
     "IndexColumn { name: self.sp_iden(), prefix: None, order: None }"),
    ("src/index/common.rs", "impl<I> IntoIndexColumn for (I, u32) where I: IntoIden,", "into_index_column", "sp_index_column", "IndexColumn",
     "IndexColumn { name: self.0.sp_iden(), prefix: Some(self.1), order: None }"),
    ("src/index/common.rs", "impl<I> IntoIndexColumn for (I, IndexOrder) where I: IntoIden,", "into_index_column", "sp_index_column", "IndexColumn",
     "IndexColumn { name: self.0.sp_iden(), prefix: None, order: Some(self.1) }"),
    ("src/index/common.rs", "impl<I> IntoIndexColumn for (I, u32, IndexOrder) where I: IntoIden,", "into_index_column", "sp_index_column", "IndexColumn",
     "IndexColumn { name: self.0.sp_iden(), prefix: Some(self.1), order: Some(self.2) }"),
    # a type name alone / schema-qualified / database-qualified
    ("src/extension/postgres/types.rs", "impl<I> IntoTypeRef for I where I: IntoIden,", "into_type_ref", "sp_type_ref", "TypeRef", "TypeRef::Type(self.sp_iden())"),
    ("src/extension/postgres/types.rs", "impl<A, B> IntoTypeRef for (A, B) where A: IntoIden, B: IntoIden,", "into_type_ref", "sp_type_ref", "TypeRef",
     "TypeRef::SchemaType(self.0.sp_iden(), self.1.sp_iden())"),
    ("src/extension/postgres/types.rs", "impl<A, B, C> IntoTypeRef for (A, B, C) where A: IntoIden, B: IntoIden, C: IntoIden,", "into_type_ref", "sp_type_ref", "TypeRef",
     "TypeRef::DatabaseSchemaType(self.0.sp_iden(), self.1.sp_iden(), self.2.sp_iden())"),
]

STRUCTS = [  # (file, name, kind)
    ("src/table/column.rs", "enum", "StringLen"), ("src/table/column.rs", "enum", "PgInterval"), ("src/table/column.rs", "enum", "ColumnType"),
    ("src/table/column.rs", "enum", "ColumnSpec"), ("src/table/column.rs", "struct", "ColumnDef"),
    ("src/index/common.rs", "enum", "IndexOrder"), ("src/index/common.rs", "struct", "IndexColumn"), ("src/index/common.rs", "struct", "TableIndex"),
    ("src/index/create.rs", "enum", "IndexType"), ("src/index/create.rs", "struct", "IndexCreateStatement"), ("src/index/drop.rs", "struct", "IndexDropStatement"),
    ("src/foreign_key/common.rs", "enum", "ForeignKeyAction"), ("src/foreign_key/common.rs", "struct", "TableForeignKey"),
    ("src/foreign_key/create.rs", "struct", "ForeignKeyCreateStatement"), ("src/foreign_key/drop.rs", "struct", "ForeignKeyDropStatement"),
    ("src/table/create.rs", "enum", "TableOpt"), ("src/table/create.rs", "struct", "TableCreateStatement"),
    ("src/table/drop.rs", "enum", "TableDropOpt"), ("src/table/drop.rs", "struct", "TableDropStatement"),
    ("src/table/truncate.rs", "struct", "TableTruncateStatement"), ("src/table/rename.rs", "struct", "TableRenameStatement"),
    ("src/table/alter.rs", "struct", "AddColumnOption"), ("src/table/alter.rs", "enum", "TableAlterOption"), ("src/table/alter.rs", "struct", "TableAlterStatement"),
    ("src/extension/postgres/types.rs", "enum", "TypeRef"), ("src/extension/postgres/types.rs", "enum", "TypeAs"), ("src/extension/postgres/types.rs", "enum", "TypeDropOpt"),
    ("src/extension/postgres/types.rs", "enum", "TypeAlterAddOpt"), ("src/extension/postgres/types.rs", "enum", "TypeAlterOpt"),
    ("src/extension/postgres/types.rs", "struct", "TypeCreateStatement"), ("src/extension/postgres/types.rs", "struct", "TypeDropStatement"),
    ("src/extension/postgres/types.rs", "struct", "TypeAlterStatement"),
    ("src/extension/postgres/extension.rs", "struct", "ExtensionCreateStatement"), ("src/extension/postgres/extension.rs", "struct", "ExtensionDropStatement"),
]
OPAQUE = ["SimpleExpr", "DynIden", "ConditionHolder", "TablePartition", "TableRef"]


def r_iter_param(text, ctx):
    """R-collect: a generic `I: IntoIterator<Item = T>` parameter is taken as the Vec<T> of its items (iteration order);
    `C: IdenList` as the Vec<DynIden> of its identifiers."""
    n = 0

    def drop_generic(text, g):
        return re.sub(r"<([^<>()]*?)\b%s\b\s*,?\s*([^<>()]*)>\(" % g, lambda mm: (lambda inner: ("<" + inner + ">(") if inner else "(")((mm.group(1) + mm.group(2)).strip().rstrip(",").strip()), text, count=1)
    while True:
        m = re.search(r"\b([A-Z])\s*:\s*IntoIterator<Item = ", text)
        if not m:
            break
        k, depth = m.end(), 1
        while depth:
            depth += {"<": 1, ">": -1}.get(text[k], 0)
            k += 1
        g, item = m.group(1), text[m.end():k - 1]
        end = k + 1 if text[k:k + 1] == "," else k
        text = text[:m.start()] + text[end:]
        text = drop_generic(text, g)
        text = re.sub(r":\s*%s\b" % g, ": Vec<%s>" % item, text)
        n += 1
    for m in list(re.finditer(r"\b([A-Z])\s*:\s*IdenList,?", text)):
        g = m.group(1)
        text = text.replace(m.group(0), "")
        text = drop_generic(text, g)
        text = re.sub(r":\s*%s\b" % g, ": Vec<DynIden>", text)
        n += 1
    if n:
        ctx.app("R-collect", "I: IntoIterator<Item = T> / C: IdenList", "Vec<T> / Vec<DynIden>")
    text = re.sub(r"\bwhere\s*\{", "{", text)
    return text


def eff(fields, changes):
    cl = []
    used = set()
    for n, _ in fields:
        if n in changes:
            cl.append("final(self).%s == %s" % (n, changes[n])); used.add(n)
        elif n + "@" in changes:
            cl.append("final(self).%s@ == %s" % (n, changes[n + "@"])); used.add(n + "@")
        else:
            cl.append("final(self).%s == old(self).%s" % (n, n))
    assert used == set(changes), (changes, [n for n, _ in fields])
    return "ensures\n    " + ",\n    ".join(cl) + ","


def eff_val(fields, changes, res="r", src="self"):
    """by-value builders (`fn f(mut self, ..) -> Self`)"""
    cl = []
    for n, _ in fields:
        if n in changes:
            cl.append("%s.%s == %s" % (res, n, changes[n]))
        else:
            cl.append("%s.%s == %s.%s" % (res, n, src, n))
    return "ensures\n    " + ",\n    ".join(cl) + ","


class B:
    """one impl block's builders"""
    def __init__(self, u, path, name, fields, block=None):
        self.u, self.path, self.name, self.fields, self.block = u, path, name, fields, block or ("impl %s" % name)

    def fn(self, fname, changes, rules=(), loops=None, proofs=None, requires="", comment="", block=None, props=None, extra="", path=None):
        spec = (("// %s\n" % comment) if comment else "") + (("requires %s,\n" % requires) if requires else "") + eff(self.fields, changes) + (("\n    " + extra) if extra else "")
        self.u.fn(path or self.path, block or self.block, fname, props=props or P, rules=[r_retself, r_inh, r_into, r_iter_param, r_rcnew] + list(rules), key="%s::%s" % (self.name, fname),
                  vpath="%s::%s" % (self.name, fname), spec=spec, loops=loops, proofs=proofs)


def build(u, variant=None):
    if variant == "query":
        return build_query(u)
    if variant == "func":
        return build_func(u)
    if variant == "expr":
        return build_expr(u)
    if variant == "refs":
        return build_refs(u)
    u.emit("use vstd::prelude::*;\nuse vstd::std_specs::iter::IteratorSpec;\nverus! {\n")
    for n in OPAQUE:
        u.emit("#[verifier::external_body]\npub struct %s { _opaque: u8 }\n" % n, kind="spec", key="R-opaque:" + n, props=P)
    F = {}
    for f, k, n in STRUCTS:
        t = u.type_item(f, k, n, props=P, rules=[r_vis, r_box], keep_derive=(("Clone", "Copy") if n in ("StringLen", "ForeignKeyAction") else ()))
        if k == "struct":
            F[n] = fields_of(t)
    u.spec(TRAITS, "builders::conversion-traits", props=P)
    # the trait declarations in /repo are the ones given a contract above (one method, by value)
    for f, tr, m, ty in [("src/types.rs", "IntoIden", "into_iden", "DynIden"), ("src/types.rs", "IntoTableRef", "into_table_ref", "TableRef"),
                         ("src/index/common.rs", "IntoIndexColumn", "into_index_column", "IndexColumn"), ("src/extension/postgres/types.rs", "IntoTypeRef", "into_type_ref", "TypeRef"),
                         ("src/table/column.rs", "IntoColumnDef", "into_column_def", "ColumnDef")]:
        blk = rl.find_block(f, u.src(f), "trait %s" % tr)
        if not blk:
            raise rl.LostAnchor("%s: trait %s not found" % (f, tr))
        body = rl.norm_ws(re.sub(r"//[^\n]*", "", blk[0].text))
        if not re.search(r"fn %s\(self\) -> %s;" % (m, ty), body) or body.count("fn ") != 1:
            raise rl.LostAnchor("%s: trait %s is no longer `fn %s(self) -> %s;`" % (f, tr, m, ty))
    # ---- the conversion impls found in /repo, verified against the interface ---------------------------------------------------
    for f, hdr, m, sp, ty, body in IMPLS:
        vh = hdr
        u.emit("%s {\n    open spec fn %s(self) -> %s { %s }\n" % (vh, sp, ty, body), kind="spec", key="builders::%s" % hdr, props=P)
        u.fn(f, hdr, m, props=P, key="%s::%s" % (hdr, m), vpath="%s::%s" % (re.sub(r"impl(<[^>]*>)? ", "", hdr), m), no_canary=True)
        u.emit("}\n")
    # `impl IntoColumnDef for &mut ColumnDef` takes the definition (ColumnDef::take is under contract in unit take: r == *old(self))
    u.spec("""impl ColumnDef {
    // contract proved in unit `take` (C15): the taken definition holds all the state
    #[verifier::external_body]
    pub fn take(&mut self) -> (r: Self) ensures r == *old(self) { unimplemented!() }
}
impl IndexCreateStatement {
    #[verifier::external_body]
    pub fn take(&mut self) -> (r: Self) ensures r == *old(self) { unimplemented!() }
}
impl ForeignKeyCreateStatement {
    #[verifier::external_body]
    pub fn take(&mut self) -> (r: Self) ensures r == *old(self) { unimplemented!() }
}
""", "builders::take-contracts", props=P)

    # a `&mut ColumnDef` given to col() / add_column() .. hands over the definition built so far
    u.emit("impl IntoColumnDef for &mut ColumnDef {\n    open spec fn sp_column_def(self) -> ColumnDef { *self }\n", kind="spec", key="builders::impl IntoColumnDef for &mut ColumnDef", props=P)
    u.fn("src/table/column.rs", "impl IntoColumnDef for &mut ColumnDef", "into_column_def", props=P, key="impl IntoColumnDef for &mut ColumnDef::into_column_def", vpath="<&mut ColumnDef>::into_column_def", no_canary=True)
    u.emit("}\n")
    # ---- TableForeignKey / ForeignKeyCreateStatement -------------------------------------------------------------------------------
    tfk = F["TableForeignKey"]
    u.emit("impl TableForeignKey {\n")
    b = B(u, "src/foreign_key/common.rs", "TableForeignKey", tfk)
    b.fn("name", {"name": "Some(name.sp_into())"})
    b.fn("from_tbl", {"table": "Some(table.sp_table_ref())"})
    b.fn("to_tbl", {"ref_table": "Some(ref_table.sp_table_ref())"})
    b.fn("from_col", {"columns@": "old(self).columns@.push(column.sp_iden())"}, comment="referencing columns: appended in call order")
    b.fn("to_col", {"ref_columns@": "old(self).ref_columns@.push(ref_column.sp_iden())"}, comment="referenced columns: appended in call order")
    b.fn("on_delete", {"on_delete": "Some(action)"})
    b.fn("on_update", {"on_update": "Some(action)"})
    u.emit("}\n")

    def upd(ty, fld, val):
        """spec expression: struct `old(self).<fld0>` with one field replaced"""
        return "(%s { %s: %s, ..old(self).%s })" % (ty, fld, val, {"TableForeignKey": "foreign_key", "TableIndex": "index"}[ty])
    u.emit("impl ForeignKeyCreateStatement {\n")
    b = B(u, "src/foreign_key/create.rs", "ForeignKeyCreateStatement", F["ForeignKeyCreateStatement"])
    b.fn("name", {"foreign_key": upd("TableForeignKey", "name", "Some(name.sp_into())")})
    b.fn("from_tbl", {"foreign_key": upd("TableForeignKey", "table", "Some(table.sp_table_ref())")})
    b.fn("to_tbl", {"foreign_key": upd("TableForeignKey", "ref_table", "Some(ref_table.sp_table_ref())")})
    b.fn("from_col", {"foreign_key": "(TableForeignKey { columns: final(self).foreign_key.columns, ..old(self).foreign_key })"},
         extra="final(self).foreign_key.columns@ == old(self).foreign_key.columns@.push(column.sp_iden()),")
    b.fn("to_col", {"foreign_key": "(TableForeignKey { ref_columns: final(self).foreign_key.ref_columns, ..old(self).foreign_key })"},
         extra="final(self).foreign_key.ref_columns@ == old(self).foreign_key.ref_columns@.push(ref_column.sp_iden()),")
    b.fn("on_delete", {"foreign_key": upd("TableForeignKey", "on_delete", "Some(action)")})
    b.fn("on_update", {"foreign_key": upd("TableForeignKey", "on_update", "Some(action)")})
    # from(table, columns) / to(table, columns): the table, then every column of the list in order
    def fk_list(fn, tbl_fld, col_fld, tbl_fn, col_fn):
        inv = ("invariant it.index@ <= columns@.len(), it.snapshot@.remaining() == columns@,\n"
               "    self.foreign_key == (TableForeignKey { %(t)s: Some(table.sp_table_ref()), %(c)s: self.foreign_key.%(c)s, ..old(self).foreign_key }),\n"
               "    self.foreign_key.%(c)s@ =~= old(self).foreign_key.%(c)s@ + columns@.subrange(0, it.index@ as int),") % {"t": tbl_fld, "c": col_fld}
        b.fn(fn, {"foreign_key": "(TableForeignKey { %s: Some(table.sp_table_ref()), %s: final(self).foreign_key.%s, ..old(self).foreign_key })" % (tbl_fld, col_fld, col_fld)},
             extra="final(self).foreign_key.%s@ == old(self).foreign_key.%s@ + columns@," % (col_fld, col_fld),
             rules=[make_r_sub("R-forghost", r"for col in columns\.into_iter\(\)", "for col in it: columns.into_iter()")], loops=[inv],
             proofs={"loop1-end": "proof { assert(columns@.subrange(0, it.index@ + 1) =~= columns@.subrange(0, it.index@ as int).push(col)); }",
                     "body-end": "proof { assert(columns@.subrange(0, columns@.len() as int) =~= columns@); }"},
             comment="the table, then every column of the list, in order, after the ones already declared")
    fk_list("from", "table", "columns", "from_tbl", "from_col")
    fk_list("to", "ref_table", "ref_columns", "to_tbl", "to_col")
    u.emit("}\n")

    # ---- TableIndex / IndexCreateStatement --------------------------------------------------------------------------------------
    u.emit("impl TableIndex {\n")
    b = B(u, "src/index/common.rs", "TableIndex", F["TableIndex"])
    b.fn("name", {"name": "Some(name.sp_into())"})
    b.fn("col", {"columns@": "old(self).columns@.push(col)"}, comment="index columns: appended in call order")
    u.emit("}\n")
    u.emit("impl IndexCreateStatement {\n")
    b = B(u, "src/index/create.rs", "IndexCreateStatement", F["IndexCreateStatement"])
    b.fn("if_not_exists", {"if_not_exists": "true"})
    b.fn("name", {"index": upd("TableIndex", "name", "Some(name.sp_into())")})
    b.fn("table", {"table": "Some(table.sp_table_ref())"})
    b.fn("col", {"index": "(TableIndex { columns: final(self).index.columns, ..old(self).index })"},
         extra="final(self).index.columns@ == old(self).index.columns@.push(col.sp_index_column()),", comment="index columns: appended in call order")
    b.fn("primary", {"primary": "true"})
    b.fn("unique", {"unique": "true"})
    b.fn("nulls_not_distinct", {"nulls_not_distinct": "true"})
    b.fn("index_type", {"index_type": "Some(index_type)"})
    b.fn("full_text", {"index_type": "Some(IndexType::FullText)"})
    b.fn("include", {"include_columns@": "old(self).include_columns@.push(col.sp_iden())"})
    u.emit("}\n")
    u.emit("impl IndexDropStatement {\n")
    b = B(u, "src/index/drop.rs", "IndexDropStatement", F["IndexDropStatement"])
    b.fn("name", {"index": "(TableIndex { name: Some(name.sp_into()), ..old(self).index })"})
    b.fn("table", {"table": "Some(table.sp_table_ref())"})
    b.fn("if_exists", {"if_exists": "true"})
    u.emit("}\n")
    u.emit("impl ForeignKeyDropStatement {\n")
    b = B(u, "src/foreign_key/drop.rs", "ForeignKeyDropStatement", F["ForeignKeyDropStatement"])
    b.fn("name", {"foreign_key": "(TableForeignKey { name: Some(name.sp_into()), ..old(self).foreign_key })"})
    b.fn("table", {"table": "Some(table.sp_table_ref())"})
    u.emit("}\n")

    # ---- TableCreateStatement -------------------------------------------------------------------------------------------------------
    u.emit("impl TableCreateStatement {\n")
    b = B(u, "src/table/create.rs", "TableCreateStatement", F["TableCreateStatement"])
    b.fn("if_not_exists", {"if_not_exists": "true"})
    b.fn("table", {"table": "Some(table.sp_table_ref())"})
    b.fn("comment", {"comment": "Some(comment.sp_into())"})
    b.fn("col", {"columns@": "old(self).columns@.push(ColumnDef { table: old(self).table, ..column.sp_column_def() })"},
         rules=[make_r_sub("R-attr", r"\b(\w+)\.table\.clone_from\(&self\.table\);", r"vclone_from(&mut \1.table, &self.table);")],
         comment="columns: appended in declaration order; the definition is the one given (its table back-reference is set)")
    b.fn("check", {"check@": "old(self).check@.push(value)"}, comment="table-level checks: appended in declaration order")
    b.fn("index", {"indexes@": "old(self).indexes@.push(*old(index))"}, comment="table-level indexes: appended in declaration order, exactly the index that was built")
    b.fn("primary_key", {"indexes@": "old(self).indexes@.push(IndexCreateStatement { primary: true, ..*old(index) })"}, comment="the index that was built, marked PRIMARY")
    b.fn("foreign_key", {"foreign_keys@": "old(self).foreign_keys@.push(*old(foreign_key))"}, comment="foreign keys: appended in declaration order")
    b.fn("opt", {"options@": "old(self).options@.push(option)"}, comment="table options: appended in call order")
    b.fn("engine", {"options@": "old(self).options@.push(TableOpt::Engine(string.sp_into()))"})
    b.fn("collate", {"options@": "old(self).options@.push(TableOpt::Collate(string.sp_into()))"})
    b.fn("character_set", {"options@": "old(self).options@.push(TableOpt::CharacterSet(name.sp_into()))"})
    b.fn("extra", {"extra": "Some(extra.sp_into())"})
    b.fn("temporary", {"temporary": "true"})
    u.emit("}\n")

    # ---- TableAlterStatement: every alteration appended in call order -----------------------------------------------------------------
    u.emit("impl TableAlterStatement {\n")
    b = B(u, "src/table/alter.rs", "TableAlterStatement", F["TableAlterStatement"])
    b.fn("table", {"table": "Some(table.sp_table_ref())"})
    b.fn("add_alter_option", {"options@": "old(self).options@.push(alter_option)"})
    b.fn("add_column", {"options@": "old(self).options@.push(TableAlterOption::AddColumn(AddColumnOption { column: column_def.sp_column_def(), if_not_exists: false }))"})
    b.fn("add_column_if_not_exists", {"options@": "old(self).options@.push(TableAlterOption::AddColumn(AddColumnOption { column: column_def.sp_column_def(), if_not_exists: true }))"})
    b.fn("modify_column", {"options@": "old(self).options@.push(TableAlterOption::ModifyColumn(column_def.sp_column_def()))"})
    b.fn("rename_column", {"options@": "old(self).options@.push(TableAlterOption::RenameColumn(from_name.sp_iden(), to_name.sp_iden()))"})
    b.fn("drop_column", {"options@": "old(self).options@.push(TableAlterOption::DropColumn(col_name.sp_iden()))"})
    b.fn("add_foreign_key", {"options@": "old(self).options@.push(TableAlterOption::AddForeignKey(*foreign_key))"},
         rules=[make_r_sub("R-attr", r"foreign_key\.to_owned\(\)", "vclone(foreign_key)")])
    b.fn("drop_foreign_key", {"options@": "old(self).options@.push(TableAlterOption::DropForeignKey(name.sp_iden()))"})
    u.emit("}\n")

    # ---- drop / rename / truncate -----------------------------------------------------------------------------------------------------
    u.emit("impl TableDropStatement {\n")
    b = B(u, "src/table/drop.rs", "TableDropStatement", F["TableDropStatement"])
    b.fn("table", {"tables@": "old(self).tables@.push(table.sp_table_ref())"}, comment="tables: appended in call order")
    b.fn("if_exists", {"if_exists": "true"})
    b.fn("restrict", {"options@": "old(self).options@.push(TableDropOpt::Restrict)"})
    b.fn("cascade", {"options@": "old(self).options@.push(TableDropOpt::Cascade)"})
    u.emit("}\n")
    u.emit("impl TableRenameStatement {\n")
    b = B(u, "src/table/rename.rs", "TableRenameStatement", F["TableRenameStatement"])
    b.fn("table", {"from_name": "Some(from_name.sp_table_ref())", "to_name": "Some(to_name.sp_table_ref())"})
    u.emit("}\n")
    u.emit("impl TableTruncateStatement {\n")
    b = B(u, "src/table/truncate.rs", "TableTruncateStatement", F["TableTruncateStatement"])
    b.fn("table", {"table": "Some(table.sp_table_ref())"})
    u.emit("}\n")

    # ---- ColumnDef: exactly ONE type (the last one set), every specification once, in call order ---------------------------------------
    u.spec("""// #[derive(Default)] with #[default] None (trusted, R-attr)
#[verifier::external_body]
fn vdefault_stringlen() -> (r: StringLen) ensures r == StringLen::None { unimplemented!() }
// `variants.into_iter().map(IntoIden::into_iden).collect()` (R-collect, trusted): the list of the converted items, in order
#[verifier::external_body]
fn vmap_idens<T: IntoIden>(xs: Vec<T>) -> (r: Vec<DynIden>) ensures r@ == sp_idens(xs@) { unimplemented!() }
""", "builders::column-shims", props=P)
    C = "src/table/column.rs"
    cd = F["ColumnDef"]
    u.emit("impl ColumnDef {\n")
    for nm, ty in [("new", "None::<ColumnType>"), ("new_with_type", "Some(types)")]:
        u.fn(C, "impl ColumnDef", nm, ret="r", props=P, rules=[r_inh], key="ColumnDef::" + nm, vpath="ColumnDef::" + nm,
             spec="ensures\n    // a new definition: the given name, %s, no specification yet\n    r.table is None, r.name == name.sp_iden(), r.types == %s, r.spec@.len() == 0," % ("no type" if nm == "new" else "the given type", ty))
    b = B(u, C, "ColumnDef", cd)
    for nm, v in [("not_null", "ColumnSpec::NotNull"), ("null", "ColumnSpec::Null"), ("auto_increment", "ColumnSpec::AutoIncrement"), ("unique_key", "ColumnSpec::UniqueKey"),
                  ("primary_key", "ColumnSpec::PrimaryKey"), ("default", "ColumnSpec::Default(value.sp_into())"), ("check", "ColumnSpec::Check(value.sp_into())"),
                  ("generated", "ColumnSpec::Generated { expr: expr.sp_into(), stored: stored }"), ("extra", "ColumnSpec::Extra(string.sp_into())"),
                  ("using", "ColumnSpec::Using(value.sp_into())"), ("comment", "ColumnSpec::Comment(string.sp_into())")]:
        b.fn(nm, {"spec@": "old(self).spec@.push(%s)" % v}, comment="one more specification, after the ones already declared; the type is untouched")
    # type setters.  ORACLE: the method named after a type sets that type (snake_case name -> CamelCase variant); exceptions and arguments by hand
    EXC = {"char_len": "Char(Some(length))", "char": "Char(None)", "string_len": "String(StringLen::N(length))", "string": "String(StringLen::None)",
           "decimal_len": "Decimal(Some((precision, scale)))", "decimal": "Decimal(None)", "interval": "Interval(fields, precision)",
           "binary_len": "Binary(length)", "binary": "Binary(1)", "var_binary": "VarBinary(StringLen::N(length))", "bit": "Bit(length)", "varbit": "VarBit(length)",
           "money_len": "Money(Some((precision, scale)))", "money": "Money(None)", "custom": "Custom(name.sp_iden())", "mac_address": "MacAddr", "ltree": "LTree",
           "enumeration": "Enum { name: name.sp_iden(), variants: final(self).types->Some_0->Enum_variants }", "array": "Array(Box::new(elem_type))"}
    PLAIN = ["text", "tiny_integer", "small_integer", "integer", "big_integer", "tiny_unsigned", "small_unsigned", "unsigned", "big_unsigned", "float", "double",
             "date_time", "timestamp", "timestamp_with_time_zone", "time", "date", "year", "blob", "boolean", "json", "json_binary", "uuid", "cidr", "inet"]
    for nm in PLAIN + list(EXC):
        var = EXC.get(nm) or "".join(w.capitalize() for w in nm.split("_"))
        rules, extra = [], ""
        if nm == "string":
            rules = [make_r_sub("R-attr", r"Default::default\(\)", "vdefault_stringlen()")]
        if nm == "enumeration":
            rules = [make_r_sub("R-collect", r"variants\.into_iter\(\)\.map\(IntoIden::into_iden\)\.collect\(\)", "vmap_idens(variants)")]
            extra = "final(self).types is Some && final(self).types->Some_0 is Enum && final(self).types->Some_0->Enum_variants@ == sp_idens(variants@),"
        b.fn(nm, {"types": "Some(ColumnType::%s)" % var}, rules=rules, extra=extra, comment="the column has ONE type: the one set last; name and specifications untouched")
    u.emit("}\n")
    u.emit("impl ColumnType {\n")
    u.fn(C, "impl ColumnType", "string", ret="r", props=P, rules=[r_inh], key="ColumnType::string", vpath="ColumnType::string",
         spec="ensures r == ColumnType::String(match length { Some(s) => StringLen::N(s), None => StringLen::None }),")
    u.fn(C, "impl ColumnType", "var_binary", ret="r", props=P, rules=[r_inh], key="ColumnType::var_binary", vpath="ColumnType::var_binary",
         spec="ensures r == ColumnType::VarBinary(StringLen::N(length)),")
    u.emit("}\n")

    # ---- Postgres types / extensions ----------------------------------------------------------------------------------------------------
    T = "src/extension/postgres/types.rs"
    u.emit("impl TypeCreateStatement {\n")
    b = B(u, T, "TypeCreateStatement", F["TypeCreateStatement"])
    b.fn("as_enum", {"name": "Some(name.sp_type_ref())", "as_type": "Some(TypeAs::Enum)"})
    b.fn("values", {"values@": "old(self).values@ + sp_idens(values@)"}, comment="labels: appended in the order given, after the ones already declared",
         rules=[make_r_sub("R-forghost", r"for v in values\.into_iter\(\)", "for v in it: values.into_iter()")],
         loops=["invariant it.index@ <= values@.len(), it.snapshot@.remaining() == values@, self.name == old(self).name, self.as_type == old(self).as_type,\n"
                "    self.values@ =~= old(self).values@ + sp_idens(values@.subrange(0, it.index@ as int)),"],
         proofs={"loop1-end": "proof { assert(values@.subrange(0, it.index@ + 1) =~= values@.subrange(0, it.index@ as int).push(v)); assert(sp_idens(values@.subrange(0, it.index@ + 1)) =~= sp_idens(values@.subrange(0, it.index@ as int)).push(v.sp_iden())); }",
                 "body-end": "proof { assert(values@.subrange(0, values@.len() as int) =~= values@); }"})
    u.emit("}\n")
    u.emit("impl TypeDropStatement {\n")
    b = B(u, T, "TypeDropStatement", F["TypeDropStatement"])
    b.fn("name", {"names@": "old(self).names@.push(name.sp_type_ref())"})
    b.fn("names", {"names@": "old(self).names@ + sp_type_refs(names@)"},
         rules=[make_r_sub("R-forghost", r"for n in names\.into_iter\(\)", "for n in it: names.into_iter()")],
         loops=["invariant it.index@ <= names@.len(), it.snapshot@.remaining() == names@, self.option == old(self).option, self.if_exists == old(self).if_exists,\n"
                "    self.names@ =~= old(self).names@ + sp_type_refs(names@.subrange(0, it.index@ as int)),"],
         proofs={"loop1-end": "proof { assert(names@.subrange(0, it.index@ + 1) =~= names@.subrange(0, it.index@ as int).push(n)); assert(sp_type_refs(names@.subrange(0, it.index@ + 1)) =~= sp_type_refs(names@.subrange(0, it.index@ as int)).push(n.sp_type_ref())); }",
                 "body-end": "proof { assert(names@.subrange(0, names@.len() as int) =~= names@); }"})
    b.fn("if_exists", {"if_exists": "true"})
    b.fn("cascade", {"option": "Some(TypeDropOpt::Cascade)"})
    b.fn("restrict", {"option": "Some(TypeDropOpt::Restrict)"})
    u.emit("}\n")
    # TypeAlterOpt (by value): BEFORE / AFTER / IF NOT EXISTS apply to ADD VALUE only and keep the value
    u.spec("pub open spec fn sp_placed(o: TypeAlterOpt, p: TypeAlterAddOpt) -> TypeAlterOpt { if o is Add { TypeAlterOpt::Add { value: o->Add_value, if_not_exists: o->Add_if_not_exists, placement: Some(p) } } else { o } }\n", "builders::sp_placed", props=P)
    u.emit("impl TypeAlterOpt {\n")
    for nm, var in [("before", "Before"), ("after", "After")]:
        u.fn(T, "impl TypeAlterOpt", nm, ret="r", props=P, rules=[r_inh], key="TypeAlterOpt::" + nm, vpath="TypeAlterOpt::" + nm,
             spec="ensures\n    self is Add ==> r == (TypeAlterOpt::Add { value: self->Add_value, if_not_exists: self->Add_if_not_exists, placement: Some(TypeAlterAddOpt::%s(value.sp_iden())) }),\n    !(self is Add) ==> r == self," % var)
    u.fn(T, "impl TypeAlterOpt", "if_not_exists", ret="r", props=P, rules=[r_inh], key="TypeAlterOpt::if_not_exists", vpath="TypeAlterOpt::if_not_exists",
         spec="ensures\n    self is Add ==> r == (TypeAlterOpt::Add { value: self->Add_value, placement: self->Add_placement, if_not_exists: true }),\n    !(self is Add) ==> r == self,")
    u.emit("}\n")
    u.emit("impl TypeAlterStatement {\n")
    ta = F["TypeAlterStatement"]

    def tav(nm, changes, rules=(), mut=False):
        u.fn(T, "impl TypeAlterStatement", nm, ret="r", props=P, rules=[r_inh] + ([r_mutself] if mut else []) + list(rules), key="TypeAlterStatement::" + nm, vpath="TypeAlterStatement::" + nm,
             spec=eff_val(ta, changes))
    tav("alter_option", {"option": "Some(option)"}, mut=True)
    tav("name", {"name": "Some(name.sp_type_ref())"}, mut=True)
    # BEFORE / AFTER / IF NOT EXISTS refine the alteration declared so far (and only an ADD VALUE)
    tav("before", {"option": "(match self.option { Some(o) => Some(sp_placed(o, TypeAlterAddOpt::Before(value.sp_iden()))), None => None })"}, mut=True)
    tav("after", {"option": "(match self.option { Some(o) => Some(sp_placed(o, TypeAlterAddOpt::After(value.sp_iden()))), None => None })"}, mut=True)
    tav("if_not_exists", {"option": "(match self.option { Some(o) => Some(if o is Add { TypeAlterOpt::Add { value: o->Add_value, placement: o->Add_placement, if_not_exists: true } } else { o }), None => None })"}, mut=True)
    tav("add_value", {"option": "Some(TypeAlterOpt::Add { value: value.sp_iden(), placement: None, if_not_exists: false })"})
    tav("rename_to", {"option": "Some(TypeAlterOpt::Rename(name.sp_iden()))"})
    tav("rename_value", {"option": "Some(TypeAlterOpt::RenameValue(existing.sp_iden(), new_name.sp_iden()))"})
    u.emit("}\n")
    E = "src/extension/postgres/extension.rs"
    u.emit("impl ExtensionCreateStatement {\n")
    b = B(u, E, "ExtensionCreateStatement", F["ExtensionCreateStatement"])
    b.fn("name", {"name": "name.sp_into()"})
    b.fn("schema", {"schema": "Some(schema.sp_into())"})
    b.fn("version", {"version": "Some(version.sp_into())"})
    b.fn("cascade", {"cascade": "true"})
    b.fn("if_not_exists", {"if_not_exists": "true"})
    u.emit("}\n")
    u.emit("impl ExtensionDropStatement {\n")
    b = B(u, E, "ExtensionDropStatement", F["ExtensionDropStatement"])
    b.fn("name", {"name": "name.sp_into()"})
    b.fn("if_exists", {"if_exists": "true"})
    b.fn("cascade", {"cascade": "true"})
    b.fn("restrict", {"restrict": "true"})
    u.emit("}\n")
    u.emit("} // verus!\nfn main() {}\n")


# =====================================================================================================================================
# variant `query`  ->  C08 / C01: the builder methods of the QUERY statements (what the renderers of units render / insert read)
# =====================================================================================================================================
PQ = ["C08", "C01"]
QTYPES = [("src/query/select.rs", "struct", "SelectStatement"), ("src/query/select.rs", "enum", "SelectDistinct"), ("src/query/select.rs", "enum", "WindowSelectType"),
          ("src/query/select.rs", "struct", "SelectExpr"), ("src/query/select.rs", "struct", "JoinExpr"), ("src/query/select.rs", "enum", "LockType"),
          ("src/query/select.rs", "enum", "LockBehavior"), ("src/query/select.rs", "struct", "LockClause"), ("src/query/select.rs", "enum", "UnionType"),
          ("src/types.rs", "struct", "OrderExpr"), ("src/types.rs", "enum", "JoinOn"), ("src/types.rs", "enum", "JoinType"), ("src/expr.rs", "enum", "SimpleExpr"),
          ("src/query/update.rs", "struct", "UpdateStatement"), ("src/query/delete.rs", "struct", "DeleteStatement"),
          ("src/query/insert.rs", "enum", "InsertValueSource"), ("src/query/insert.rs", "struct", "InsertStatement"), ("src/query/returning.rs", "enum", "ReturningClause"),
          ("src/query/with.rs", "struct", "CommonTableExpression"), ("src/query/with.rs", "enum", "SearchOrder"), ("src/query/with.rs", "struct", "Search"), ("src/query/with.rs", "struct", "Cycle"),
          ("src/query/with.rs", "struct", "WithClause"), ("src/query/with.rs", "struct", "WithQuery"),
          ("src/query/window.rs", "enum", "Frame"), ("src/query/window.rs", "enum", "FrameType"), ("src/query/window.rs", "struct", "FrameClause"), ("src/query/window.rs", "struct", "WindowStatement"),
          ("src/query/on_conflict.rs", "enum", "OnConflictTarget"), ("src/query/on_conflict.rs", "enum", "OnConflictAction"), ("src/query/on_conflict.rs", "enum", "OnConflictUpdate"),
          ("src/query/on_conflict.rs", "struct", "OnConflict"),
          ("src/extension/mysql/index.rs", "struct", "IndexHint"), ("src/extension/mysql/index.rs", "enum", "IndexHintType"), ("src/extension/mysql/index.rs", "enum", "IndexHintScope"),
          ("src/extension/postgres/select.rs", "struct", "TableSample"), ("src/extension/postgres/select.rs", "enum", "SampleMethod")]
QSTD = {"Vec", "Option", "Box", "String", "bool", "u8", "u16", "u32", "u64", "usize", "i32", "i64", "str", "Self", "crate", "extension", "postgres", "mysql"}
r_path = make_r_sub("R-path", r"crate::extension::(postgres|mysql)::", "", min_count=0)
r_pubc = make_r_sub("R-vis", r"pub\(crate\) enum", "pub enum", min_count=0)

QTRAITS = r"""
pub trait IntoIden: Sized { spec fn sp_iden(self) -> DynIden; fn into_iden(self) -> (r: DynIden) ensures r == self.sp_iden(); }
pub trait IntoTableRef: Sized { spec fn sp_table_ref(self) -> TableRef; fn into_table_ref(self) -> (r: TableRef) ensures r == self.sp_table_ref(); }
pub trait IntoColumnRef: Sized { spec fn sp_column_ref(self) -> ColumnRef; fn into_column_ref(self) -> (r: ColumnRef) ensures r == self.sp_column_ref(); }
pub trait IntoCondition: Sized { spec fn sp_condition(self) -> Condition; fn into_condition(self) -> (r: Condition) ensures r == self.sp_condition(); }
pub trait VInto<T>: Sized { spec fn sp_into(self) -> T; fn into(self) -> (r: T) ensures r == self.sp_into(); }
// QueryStatementBuilder::into_sub_query_statement (wraps the statement into the SubQueryStatement variant of its kind): a function of it
pub trait VQueryStatementBuilder: Sized { spec fn sp_sub_query(self) -> SubQueryStatement; fn into_sub_query_statement(self) -> (r: SubQueryStatement) ensures r == self.sp_sub_query(); }
pub trait VToString { spec fn sp_string(&self) -> String; fn to_string(&self) -> (r: String) ensures r == self.sp_string(); }
// `impl<T: Into<SimpleExpr>> From<T> for SelectExpr` (extracted below): a bare select-list item, no alias, no window
impl VInto<SimpleExpr> for SimpleExpr { open spec fn sp_into(self) -> SimpleExpr { self } fn into(self) -> SimpleExpr { self } }
impl VInto<SelectExpr> for SelectExpr { open spec fn sp_into(self) -> SelectExpr { self } fn into(self) -> SelectExpr { self } }
// ConditionHolder::new_with_condition (verified in unit cond: the holder means exactly that condition); here an uninterpreted function of it
pub uninterp spec fn sp_holder(c: Condition) -> ConditionHolder;
impl ConditionHolder { #[verifier::external_body] pub fn new_with_condition(c: Condition) -> (r: Self) ensures r == sp_holder(c) { unimplemented!() } }
// TableRef::alias (a match over the reference kinds that sets / replaces the alias): an uninterpreted function here
pub uninterp spec fn sp_alias(t: TableRef, a: DynIden) -> TableRef;
impl TableRef { #[verifier::external_body] pub fn alias(self, a: DynIden) -> (r: Self) ensures r == sp_alias(self, a) { unimplemented!() } }
// constructors of the opaque TableRef (R-ctor: an enum constructor is a function of its arguments)
pub uninterp spec fn sp_tr_subquery(q: SelectStatement, a: DynIden) -> TableRef;
pub uninterp spec fn sp_tr_function(f: FunctionCall, a: DynIden) -> TableRef;
#[verifier::external_body] fn vtr_subquery(q: SelectStatement, a: DynIden) -> (r: TableRef) ensures r == sp_tr_subquery(q, a) { unimplemented!() }
#[verifier::external_body] fn vtr_function(f: FunctionCall, a: DynIden) -> (r: TableRef) ensures r == sp_tr_function(f, a) { unimplemented!() }
// R-collect (trusted): `xs.into_iter().map(|x| CONV(x)).collect()` is the list of the converted items, in order
pub open spec fn sp_colrefs<T: IntoColumnRef>(xs: Seq<T>) -> Seq<ColumnRef> { xs.map_values(|x: T| x.sp_column_ref()) }
pub open spec fn sp_colexprs<T: IntoColumnRef>(xs: Seq<T>) -> Seq<SimpleExpr> { xs.map_values(|x: T| SimpleExpr::Column(x.sp_column_ref())) }
pub open spec fn sp_tablerefs<T: IntoTableRef>(xs: Seq<T>) -> Seq<TableRef> { xs.map_values(|x: T| x.sp_table_ref()) }
#[verifier::external_body] fn vmap_colrefs<T: IntoColumnRef>(xs: Vec<T>) -> (r: Vec<ColumnRef>) ensures r@ == sp_colrefs(xs@) { unimplemented!() }
#[verifier::external_body] fn vmap_colexprs<T: IntoColumnRef>(xs: Vec<T>) -> (r: Vec<SimpleExpr>) ensures r@ == sp_colexprs(xs@) { unimplemented!() }
#[verifier::external_body] fn vmap_tablerefs<T: IntoTableRef>(xs: Vec<T>) -> (r: Vec<TableRef>) ensures r@ == sp_tablerefs(xs@) { unimplemented!() }
#[verifier::external_body] fn vmap_into<T: VInto<SelectExpr>>(xs: Vec<T>) -> (r: Vec<SelectExpr>) ensures r@ == xs@.map_values(|e: T| e.sp_into()) { unimplemented!() }
// u64 -> Value (macro-generated From; Kani harnesses / unit value): a function of the number
pub uninterp spec fn sp_value_u64(x: u64) -> Value;
impl VInto<Value> for u64 { open spec fn sp_into(self) -> Value { sp_value_u64(self) } #[verifier::external_body] fn into(self) -> Value { unimplemented!() } }
"""

r_into_q = make_r_sub("R-into", r"\bInto<(String|SimpleExpr|SelectExpr|WithClause)>", r"VInto<\1>", min_count=0)
r_qsb = make_r_sub("R-into", r"\b([A-Z]): QueryStatementBuilder( \+ 'static)?", r"\1: VQueryStatementBuilder", min_count=0)
r_tostr = make_r_sub("R-into", r"\bT: ToString\b", "T: VToString", min_count=0)
r_u64 = make_r_sub("R-into", r"Some\((\(?limit\b[^;]*?)\.into\(\)\)", r"Some(VInto::<Value>::into(\1))", min_count=0)
r_rawty = [r_u64, make_r_sub("R-rawident", r"r#type: LockType", "type_: LockType", min_count=0), make_r_sub("R-rawident", r"(\{\s*)r#type,", r"\1r#type: type_,", min_count=0)]


def build_query(u):
    from units.take.unit import select_appenders, APPENDER_SHIMS
    u.emit("use vstd::prelude::*;\nuse vstd::std_specs::iter::IteratorSpec;\nverus! {\n")
    texts, known = {}, set(n for _, _, n in QTYPES)
    for f, k, n in QTYPES:
        texts[n] = re.sub(r"^\s*//[^\n]*\n", "", rl.find_type(f, u.src(f), k, n).text, flags=re.M)     # (doc comments may contain braces / type names)
    mentioned = set()
    for n, t in texts.items():
        body = t[t.index("{"):]
        body2 = r_cfg(r_attr(body, Ctx(u, n)), Ctx(u, n))
        mentioned |= set(m.group(1) for m in re.finditer(r"\b([A-Z][A-Za-z0-9_]*)\b", body2))
    # names that occur ONLY as variant names of the extracted enums are not types
    variants, payload = set(), set()
    for n, t in texts.items():
        body = r_cfg(r_attr(t[t.index("{") + 1:t.rindex("}")], Ctx(u, n)), Ctx(u, n))
        if re.search(r"\benum\b", t[:t.index("{")]):
            for v in split_top(body):
                m = re.match(r"\s*([A-Z][A-Za-z0-9_]*)\s*(.*)$", v.strip(), re.S)
                if m:
                    variants.add(m.group(1))
                    payload |= set(x.group(1) for x in re.finditer(r"\b([A-Z][A-Za-z0-9_]*)\b", m.group(2)))
        else:
            payload |= set(x.group(1) for x in re.finditer(r"\b([A-Z][A-Za-z0-9_]*)\b", body))
    variants -= payload
    opaque = sorted((mentioned - known - QSTD - variants) | {"Condition", "ColumnRef", "TableRef", "DynIden", "Value", "FunctionCall", "ConditionHolder", "SubQueryStatement"})
    for n in opaque:
        u.emit("#[verifier::external_body]\npub struct %s { _opaque: u8 }\n" % n, kind="spec", key="R-opaque:" + n, props=PQ)
    F = {}
    for f, k, n in QTYPES:
        t = u.type_item(f, k, n, props=PQ, rules=[r_vis, r_path, r_pubc], keep_derive=(("Clone", "Copy") if n in ("LockType", "LockBehavior", "UnionType", "JoinType", "IndexHintType", "IndexHintScope", "SampleMethod") else ()))
        if k == "struct":
            F[n] = fields_of(t)
    u.spec(QTRAITS, "builders::query-traits", props=PQ)
    u.spec(APPENDER_SHIMS, "take::appender-shims", props=PQ)
    S = "src/query/select.rs"
    # the From impl every bare select-list expression goes through
    u.emit("impl<T: VInto<SimpleExpr>> VInto<SelectExpr> for T {\n    open spec fn sp_into(self) -> SelectExpr { SelectExpr { expr: VInto::<SimpleExpr>::sp_into(self), alias: None, window: None } }\n", kind="spec", key="builders::From<T> for SelectExpr", props=PQ)
    u.fn(S, "impl<T> From<T> for SelectExpr where T: Into<SimpleExpr>,", "from", props=PQ, key="From<T> for SelectExpr::from", vpath="SelectExpr::into", no_canary=True, rename="into",
         rules=[make_r_sub("R-into", r"fn from\(expr: T\) -> Self", "fn from(self) -> SelectExpr"), make_r_sub("R-into", r"expr: expr\.into\(\)", "expr: VInto::<SimpleExpr>::into(self)")])
    u.emit("}\n")

    class BQ(B):
        def fn(self, fname, changes, rules=(), **kw):
            kw.setdefault("props", PQ)
            B.fn(self, fname, changes, rules=[r_into_q, r_tostr, r_qsb] + r_rawty + list(rules), **kw)
    # ---- SELECT ---------------------------------------------------------------------------------------------------------------------------
    sel = F["SelectStatement"]
    u.emit("impl SelectStatement {\n")
    select_appenders(u, sel, PQ, generic=True)     # expr / exprs / from_from / add_group_by / add_order_by / union(s) / limit / offset (also verified in unit take)
    b = BQ(u, S, "SelectStatement", sel)
    SE = "SelectExpr { expr: %s, alias: %s, window: %s }"
    b.fn("distinct", {"distinct": "Some(SelectDistinct::Distinct)"})
    b.fn("distinct_on", {"distinct": "(if cols@.len() > 0 { Some(SelectDistinct::DistinctOn(final(self).distinct->Some_0->DistinctOn_0)) } else { None })"},
         extra="cols@.len() > 0 ==> final(self).distinct is Some && final(self).distinct->Some_0 is DistinctOn && final(self).distinct->Some_0->DistinctOn_0@ == sp_colrefs(cols@),",
         rules=[make_r_sub("R-collect", r"cols\s*\.into_iter\(\)\s*\.map\(\|col\| col\.into_column_ref\(\)\)\s*\.collect::<Vec<ColumnRef>>\(\)", "vmap_colrefs(cols)")],
         comment="DISTINCT ON the given columns, in order (no column: no DISTINCT)")
    b.fn("column", {"selects@": "old(self).selects@.push(%s)" % (SE % ("SimpleExpr::Column(col.sp_column_ref())", "None", "None"))}, comment="select list: appended in call order")
    b.fn("columns", {"selects@": "old(self).selects@ + sp_colexprs(cols@).map_values(|e: SimpleExpr| %s)" % (SE % ("e", "None", "None"))},
         rules=[make_r_sub("R-collect", r"cols\.into_iter\(\)\s*\.map\(\|c\| SimpleExpr::Column\(c\.into_column_ref\(\)\)\)\s*\.collect::<Vec<SimpleExpr>>\(\),?", "vmap_colexprs(cols)")],
         proofs={"body-end": "proof { assert(final(self).selects@ =~= old(self).selects@ + sp_colexprs(cols@).map_values(|e: SimpleExpr| %s)); }" % (SE % ("e", "None", "None"))} if False else None)
    for nm, al, win in [("expr_as", "Some(alias.sp_iden())", "None"), ("expr_window", "None", "Some(WindowSelectType::Query(window))"),
                        ("expr_window_as", "Some(alias.sp_iden())", "Some(WindowSelectType::Query(window))"),
                        ("expr_window_name", "None", "Some(WindowSelectType::Name(window.sp_iden()))"),
                        ("expr_window_name_as", "Some(alias.sp_iden())", "Some(WindowSelectType::Name(window.sp_iden()))")]:
        b.fn(nm, {"selects@": "old(self).selects@.push(%s)" % (SE % ("expr.sp_into()", al, win))}, comment="one more select-list item with exactly the alias / window given")
    b.fn("from", {"from@": "old(self).from@.push(tbl_ref.sp_table_ref())"}, comment="FROM list: appended in call order")
    b.fn("from_as", {"from@": "old(self).from@.push(sp_alias(tbl_ref.sp_table_ref(), alias.sp_iden()))"})
    b.fn("from_subquery", {"from@": "old(self).from@.push(sp_tr_subquery(query, alias.sp_iden()))"}, rules=[make_r_sub("R-ctor", r"TableRef::SubQuery\(", "vtr_subquery(")])
    b.fn("from_function", {"from@": "old(self).from@.push(sp_tr_function(func, alias.sp_iden()))"}, rules=[make_r_sub("R-ctor", r"TableRef::FunctionCall\(", "vtr_function(")])
    JE = "JoinExpr { join: %s, table: Box::new(%s), on: Some(JoinOn::Condition(Box::new(sp_holder(condition.sp_condition())))), lateral: %s }"
    b.fn("join_join", {"join@": "old(self).join@.push(JoinExpr { join: join, table: Box::new(table), on: Some(on), lateral: lateral })"}, comment="joins: appended in call order")
    b.fn("join", {"join@": "old(self).join@.push(%s)" % (JE % ("join", "tbl_ref.sp_table_ref()", "false"))})
    for nm, jt in [("cross_join", "CrossJoin"), ("left_join", "LeftJoin"), ("right_join", "RightJoin"), ("inner_join", "InnerJoin"), ("full_outer_join", "FullOuterJoin")]:
        b.fn(nm, {"join@": "old(self).join@.push(%s)" % (JE % ("JoinType::" + jt, "tbl_ref.sp_table_ref()", "false"))}, comment="the join type the method is named after")
    b.fn("join_as", {"join@": "old(self).join@.push(%s)" % (JE % ("join", "sp_alias(tbl_ref.sp_table_ref(), alias.sp_iden())", "false"))})
    b.fn("join_subquery", {"join@": "old(self).join@.push(%s)" % (JE % ("join", "sp_tr_subquery(query, alias.sp_iden())", "false"))}, rules=[make_r_sub("R-ctor", r"TableRef::SubQuery\(", "vtr_subquery(")])
    b.fn("join_lateral", {"join@": "old(self).join@.push(%s)" % (JE % ("join", "sp_tr_subquery(query, alias.sp_iden())", "true"))}, rules=[make_r_sub("R-ctor", r"TableRef::SubQuery\(", "vtr_subquery(")])
    b.fn("group_by_columns", {"groups@": "old(self).groups@ + sp_colexprs(cols@)"},
         rules=[make_r_sub("R-collect", r"cols\.into_iter\(\)\s*\.map\(\|c\| SimpleExpr::Column\(c\.into_column_ref\(\)\)\)\s*\.collect::<Vec<_>>\(\),?", "vmap_colexprs(cols)")], comment="GROUP BY: appended in call order")
    r_arr = make_r_sub("R-collect", r"\(\[([a-z_, ().]+)\]\)", r"(vec![\1])")     # an array literal given to an `IntoIterator` parameter: the list of its elements
    b.fn("group_by_col", {"groups@": "old(self).groups@.push(SimpleExpr::Column(col.sp_column_ref()))"}, rules=[r_arr],
         proofs={"body-end": "proof { assert(sp_colexprs(seq![col]) =~= seq![SimpleExpr::Column(col.sp_column_ref())]); }"})
    b.fn("lock", {"lock": "(if final(self).lock is Some { Some(LockClause { r#type: type_, tables: final(self).lock->Some_0.tables, behavior: None }) } else { None })"},
         extra="final(self).lock is Some && final(self).lock->Some_0.tables@.len() == 0,")
    b.fn("lock_with_behavior", {"lock": "(if final(self).lock is Some { Some(LockClause { r#type: type_, tables: final(self).lock->Some_0.tables, behavior: Some(behavior) }) } else { None })"},
         extra="final(self).lock is Some && final(self).lock->Some_0.tables@.len() == 0,")
    r_lt = make_r_sub("R-collect", r"tables\.into_iter\(\)\.map\(\|t\| t\.into_table_ref\(\)\)\.collect\(\)", "vmap_tablerefs(tables)")
    b.fn("lock_with_tables", {"lock": "(if final(self).lock is Some { Some(LockClause { r#type: type_, tables: final(self).lock->Some_0.tables, behavior: None }) } else { None })"},
         extra="final(self).lock is Some && final(self).lock->Some_0.tables@ == sp_tablerefs(tables@),", rules=[r_lt])
    b.fn("lock_with_tables_behavior", {"lock": "(if final(self).lock is Some { Some(LockClause { r#type: type_, tables: final(self).lock->Some_0.tables, behavior: Some(behavior) }) } else { None })"},
         extra="final(self).lock is Some && final(self).lock->Some_0.tables@ == sp_tablerefs(tables@),", rules=[r_lt])
    b.fn("lock_shared", {"lock": "(if final(self).lock is Some { Some(LockClause { r#type: LockType::Share, tables: final(self).lock->Some_0.tables, behavior: None }) } else { None })"},
         extra="final(self).lock is Some && final(self).lock->Some_0.tables@.len() == 0,")
    b.fn("lock_exclusive", {"lock": "(if final(self).lock is Some { Some(LockClause { r#type: LockType::Update, tables: final(self).lock->Some_0.tables, behavior: None }) } else { None })"},
         extra="final(self).lock is Some && final(self).lock->Some_0.tables@.len() == 0,")
    b.fn("with_cte", {"with": "Some(clause.sp_into())"})
    b.fn("window", {"window": "Some((name.sp_iden(), window))"})
    # dialect extensions: MySQL index hints (appended in call order, with the kind the method is named after), Postgres TABLESAMPLE
    r_rt = [make_r_sub("R-rawident", r"r#type: IndexHintType::", "r#type: IndexHintType::", min_count=0)]
    for nm, kind in [("use_index", "Use"), ("force_index", "Force"), ("ignore_index", "Ignore")]:
        b.fn(nm, {"index_hints@": "old(self).index_hints@.push(IndexHint { index: index.sp_iden(), r#type: IndexHintType::%s, scope: scope })" % kind},
             block="impl MySqlSelectStatementExt for SelectStatement", path="src/extension/mysql/select.rs", rules=r_rt)
    b.fn("table_sample", {"table_sample": "Some(TableSample { method: method, percentage: percentage, repeatable: repeatable })"},
         block="impl PostgresSelectStatementExt for SelectStatement", path="src/extension/postgres/select.rs")
    u.emit("}\n")

    # ---- ORDER BY: the trait's default methods, verified ONCE for every implementor against add_order_by's contract ------------------------
    O = "src/query/ordered.rs"
    u.emit("""pub trait OrderedStatement: Sized {
    // the implementor's ORDER BY list, and `nothing but that list differs` (an equivalence: laws below)
    spec fn orders_view(&self) -> Seq<OrderExpr>;
    spec fn same_but_orders(&self, other: &Self) -> bool;
    proof fn law_refl(&self) ensures self.same_but_orders(self);
    proof fn law_trans(&self, b: &Self, c: &Self) requires self.same_but_orders(b), b.same_but_orders(c) ensures self.same_but_orders(c);
    // (the implementors' add_order_by: verified below for SELECT / UPDATE / DELETE)
    fn add_order_by(&mut self, order: OrderExpr)
        ensures final(self).orders_view() == old(self).orders_view().push(order), old(self).same_but_orders(final(self));
""", kind="spec", key="builders::trait OrderedStatement", props=PQ)
    OE = "OrderExpr { expr: %s, order: %s, nulls: %s }"

    def ord_fn(nm, item, listparam=None, elem=None):
        if listparam is None:
            spec = "ensures\n    // one more ORDER BY item, after the ones already given, with exactly the direction / NULLS ordering given\n    final(self).orders_view() == old(self).orders_view().push(%s),\n    old(self).same_but_orders(final(self))," % item
            u.fn(O, "trait OrderedStatement", nm, props=PQ, key="OrderedStatement::" + nm, vpath="OrderedStatement::" + nm, rules=[r_retself, r_tostr], spec=spec)
            return
        ty, pat, mk = elem
        mapf = "|p: %s| %s" % (ty, mk)
        spec = ("ensures\n    // every item of the list, in order, after the ones already given\n    final(self).orders_view() == old(self).orders_view() + cols@.map_values(%s),\n    old(self).same_but_orders(final(self)),") % mapf
        inv = ("invariant it.index@ <= cols@.len(), it.snapshot@.remaining() == cols@, old(self).same_but_orders(self),\n"
               "    self.orders_view() =~= old(self).orders_view() + cols@.subrange(0, it.index@ as int).map_values(%s),") % mapf
        u.fn(O, "trait OrderedStatement", nm, props=PQ, key="OrderedStatement::" + nm, vpath="OrderedStatement::" + nm, spec=spec, loops=[inv],
             rules=[r_retself, r_tostr, r_iter_param,
                    make_r_sub("R-fold", r"cols\.into_iter\(\)\.for_each\(\|(\([a-z, ]+\))\| \{", r"for \1 in it: cols.into_iter() {"),
                    make_r_sub("R-fold", r"\}\);\s*\}\s*$", "}\n    }")],
             proofs={"body-start": "proof { self.law_refl(); }", "loop1-start": "let ghost before_ = *self;",
                     "loop1-end": "proof { old(self).law_trans(&before_, self); assert(cols@.subrange(0, it.index@ + 1) =~= cols@.subrange(0, it.index@ as int).push(%s)); }" % pat,
                     "body-end": "proof { assert(cols@.subrange(0, cols@.len() as int) =~= cols@); }"})
    ord_fn("order_by", OE % ("SimpleExpr::Column(col.sp_column_ref())", "order", "None"))
    ord_fn("order_by_expr", OE % ("expr", "order", "None"))
    ord_fn("order_by_with_nulls", OE % ("SimpleExpr::Column(col.sp_column_ref())", "order", "Some(nulls)"))
    ord_fn("order_by_expr_with_nulls", OE % ("expr", "order", "Some(nulls)"))
    ord_fn("order_by_customs", None, "cols", ("(T, Order)", "(c, order)", OE % ("SimpleExpr::Custom(p.0.sp_string())", "p.1", "None")))
    ord_fn("order_by_columns", None, "cols", ("(T, Order)", "(c, order)", OE % ("SimpleExpr::Column(p.0.sp_column_ref())", "p.1", "None")))
    ord_fn("order_by_customs_with_nulls", None, "cols", ("(T, Order, NullOrdering)", "(c, order, nulls)", OE % ("SimpleExpr::Custom(p.0.sp_string())", "p.1", "Some(p.2)")))
    ord_fn("order_by_columns_with_nulls", None, "cols", ("(T, Order, NullOrdering)", "(c, order, nulls)", OE % ("SimpleExpr::Column(p.0.sp_column_ref())", "p.1", "Some(p.2)")))
    u.emit("}\n")
    # the three implementors: orders_view is the `orders` field, same_but_orders the equality of every other field (GENERATED field list)
    for f, name in [("src/query/select.rs", "SelectStatement"), ("src/query/update.rs", "UpdateStatement"), ("src/query/delete.rs", "DeleteStatement")]:
        others = [n for n, _ in F[name] if n != "orders"]
        u.emit("impl OrderedStatement for %s {\n    open spec fn orders_view(&self) -> Seq<OrderExpr> { self.orders@ }\n    open spec fn same_but_orders(&self, other: &Self) -> bool { %s }\n    proof fn law_refl(&self) {}\n    proof fn law_trans(&self, b: &Self, c: &Self) {}\n"
               % (name, " && ".join("self.%s == other.%s" % (n, n) for n in others)), kind="spec", key="builders::impl OrderedStatement for " + name, props=PQ)
        u.fn(f, "impl OrderedStatement for %s" % name, "add_order_by", props=PQ, key="%s::add_order_by[trait]" % name, vpath="<%s as OrderedStatement>::add_order_by" % name, rules=[r_retself, r_inh], no_canary=True)
        u.emit("}\n")

    # ---- UPDATE -----------------------------------------------------------------------------------------------------------------------------
    u.spec("""pub open spec fn sp_assignments<T: IntoIden>(xs: Seq<(T, SimpleExpr)>) -> Seq<(DynIden, Box<SimpleExpr>)> { xs.map_values(|p: (T, SimpleExpr)| (p.0.sp_iden(), Box::new(p.1))) }
""", "builders::sp_assignments", props=PQ)
    U = "src/query/update.rs"
    u.emit("impl UpdateStatement {\n")
    b = BQ(u, U, "UpdateStatement", F["UpdateStatement"])
    b.fn("table", {"table": "Some(Box::new(tbl_ref.sp_table_ref()))"})
    b.fn("from_from", {"from@": "old(self).from@.push(select)"})
    b.fn("from", {"from@": "old(self).from@.push(tbl_ref.sp_table_ref())"}, comment="additional tables: appended in call order")
    b.fn("value", {"values@": "old(self).values@.push((col.sp_iden(), Box::new(value.sp_into())))"}, comment="SET list: one more assignment, after the ones already given")
    b.fn("values", {"values@": "old(self).values@ + sp_assignments(values@)"}, comment="SET list: every assignment of the list, in order, after the ones already given",
         rules=[make_r_sub("R-forghost", r"for \(k, v\) in values\.into_iter\(\)", "for (k, v) in it: values.into_iter()")],
         loops=["invariant it.index@ <= values@.len(), it.snapshot@.remaining() == values@, %s,\n    self.values@ =~= old(self).values@ + sp_assignments(values@.subrange(0, it.index@ as int))," %
                ", ".join("self.%s == old(self).%s" % (n, n) for n, _ in F["UpdateStatement"] if n != "values")],
         proofs={"loop1-end": "proof { assert(values@.subrange(0, it.index@ + 1) =~= values@.subrange(0, it.index@ as int).push((k, v))); assert(sp_assignments(values@.subrange(0, it.index@ + 1)) =~= sp_assignments(values@.subrange(0, it.index@ as int)).push((k.sp_iden(), Box::new(v)))); }",
                 "body-end": "proof { assert(values@.subrange(0, values@.len() as int) =~= values@); }"})
    b.fn("limit", {"limit": "Some(sp_value_u64(limit))"})
    b.fn("returning", {"returning": "Some(returning)"})
    b.fn("returning_col", {"returning": "(if final(self).returning is Some { Some(ReturningClause::Columns(final(self).returning->Some_0->Columns_0)) } else { None })"},
         extra="final(self).returning is Some && final(self).returning->Some_0 is Columns && final(self).returning->Some_0->Columns_0@ == seq![col.sp_column_ref()],")
    b.fn("returning_all", {"returning": "Some(ReturningClause::All)"})
    b.fn("with_cte", {"with": "Some(clause.sp_into())"})
    u.emit("}\n")
    # ---- DELETE -----------------------------------------------------------------------------------------------------------------------------
    D = "src/query/delete.rs"
    u.emit("impl DeleteStatement {\n")
    b = BQ(u, D, "DeleteStatement", F["DeleteStatement"])
    b.fn("from_table", {"table": "Some(Box::new(tbl_ref.sp_table_ref()))"})
    b.fn("limit", {"limit": "Some(sp_value_u64(limit))"})
    b.fn("returning", {"returning": "Some(returning_cols)"})
    b.fn("returning_col", {"returning": "(if final(self).returning is Some { Some(ReturningClause::Columns(final(self).returning->Some_0->Columns_0)) } else { None })"},
         extra="final(self).returning is Some && final(self).returning->Some_0 is Columns && final(self).returning->Some_0->Columns_0@ == seq![col.sp_column_ref()],")
    b.fn("returning_all", {"returning": "Some(ReturningClause::All)"})
    b.fn("with_cte", {"with": "Some(clause.sp_into())"})
    u.emit("}\n")
    # ---- INSERT (columns / values / select_from / or_default_values: unit insert) -----------------------------------------------------------
    I = "src/query/insert.rs"
    u.emit("impl InsertStatement {\n")
    b = BQ(u, I, "InsertStatement", F["InsertStatement"])
    b.fn("replace", {"replace": "true"})
    b.fn("into_table", {"table": "Some(Box::new(tbl_ref.sp_table_ref()))"})
    b.fn("on_conflict", {"on_conflict": "Some(on_conflict)"})
    b.fn("returning", {"returning": "Some(returning)"})
    b.fn("returning_col", {"returning": "(if final(self).returning is Some { Some(ReturningClause::Columns(final(self).returning->Some_0->Columns_0)) } else { None })"},
         extra="final(self).returning is Some && final(self).returning->Some_0 is Columns && final(self).returning->Some_0->Columns_0@ == seq![col.sp_column_ref()],")
    b.fn("returning_all", {"returning": "Some(ReturningClause::All)"})
    b.fn("with_cte", {"with": "Some(clause.sp_into())"})
    u.emit("}\n")

    # ---- WITH: common table expressions, SEARCH / CYCLE, the clause and the statement it is attached to ------------------------------------------
    W = "src/query/with.rs"
    u.spec("#[verifier::external_body] fn vmap_idens_q<T: IntoIden>(xs: Vec<T>) -> (r: Vec<DynIden>) ensures r@ == xs@.map_values(|x: T| x.sp_iden()) { unimplemented!() }\n"
           "#[verifier::external_body] fn vextend_q<T>(v: &mut Vec<T>, items: Vec<T>) ensures final(v)@ == old(v)@ + items@ { unimplemented!() }\n", "builders::with-shims", props=PQ)
    u.emit("impl CommonTableExpression {\n")
    b = BQ(u, W, "CommonTableExpression", F["CommonTableExpression"])
    b.fn("table_name", {"table_name": "Some(table_name.sp_iden())"})
    b.fn("column", {"cols@": "old(self).cols@.push(col.sp_iden())"}, comment="CTE column list: appended in call order")
    b.fn("columns", {"cols@": "old(self).cols@ + cols@.map_values(|x: T| x.sp_iden())"},
         rules=[make_r_sub("R-collect", r"self\.cols\s*\.extend\(cols\.into_iter\(\)\.map\(\|col\| col\.into_iden\(\)\)\);", "vextend_q(&mut self.cols, vmap_idens_q(cols));")])
    b.fn("materialized", {"materialized": "Some(materialized)"})
    b.fn("query", {"query": "Some(Box::new(query.sp_sub_query()))"})
    u.emit("}\n")
    u.emit("impl Search {\n")
    b = BQ(u, W, "Search", F["Search"])
    b.fn("order", {"order": "Some(order)"})
    b.fn("expr", {"expr": "Some(expr.sp_into())"}, requires="expr.sp_into().alias is Some", comment="(the builder panics on an expression without alias: its precondition)")
    u.emit("}\n")
    u.emit("impl Cycle {\n")
    b = BQ(u, W, "Cycle", F["Cycle"])
    b.fn("expr", {"expr": "Some(expr.sp_into())"})
    b.fn("set", {"set_as": "Some(set.sp_iden())"})
    b.fn("using", {"using": "Some(using.sp_iden())"})
    u.emit("}\n")
    u.emit("impl WithClause {\n")
    b = BQ(u, W, "WithClause", F["WithClause"])
    b.fn("recursive", {"recursive": "recursive"})
    b.fn("search", {"search": "Some(search)"})
    b.fn("cycle", {"cycle": "Some(cycle)"})
    b.fn("cte", {"cte_expressions@": "old(self).cte_expressions@.push(cte)"}, comment="CTEs: appended in call order")
    u.emit("}\n")
    u.emit("impl WithQuery {\n")
    b = BQ(u, W, "WithQuery", F["WithQuery"])
    b.fn("with_clause", {"with_clause": "with_clause"})
    b.fn("recursive", {"with_clause": "(WithClause { recursive: recursive, ..old(self).with_clause })"})
    b.fn("search", {"with_clause": "(WithClause { search: Some(search), ..old(self).with_clause })"})
    b.fn("cycle", {"with_clause": "(WithClause { cycle: Some(cycle), ..old(self).with_clause })"})
    b.fn("cte", {"with_clause": "(WithClause { cte_expressions: final(self).with_clause.cte_expressions, ..old(self).with_clause })"},
         extra="final(self).with_clause.cte_expressions@ == old(self).with_clause.cte_expressions@.push(cte),")
    b.fn("query", {"query": "Some(Box::new(query.sp_sub_query()))"})
    u.emit("}\n")

    # ---- windows: PARTITION BY (trait OverStatement, verified generically like OrderedStatement), frames ------------------------------------------
    WN = "src/query/window.rs"
    u.emit("""pub trait OverStatement: Sized {
    spec fn partitions_view(&self) -> Seq<SimpleExpr>;
    spec fn same_but_partitions(&self, other: &Self) -> bool;
    proof fn plaw_refl(&self) ensures self.same_but_partitions(self);
    proof fn plaw_trans(&self, b: &Self, c: &Self) requires self.same_but_partitions(b), b.same_but_partitions(c) ensures self.same_but_partitions(c);
    fn add_partition_by(&mut self, partition: SimpleExpr)
        ensures final(self).partitions_view() == old(self).partitions_view().push(partition), old(self).same_but_partitions(final(self));
""", kind="spec", key="builders::trait OverStatement", props=PQ)
    u.fn(WN, "trait OverStatement", "partition_by", props=PQ, key="OverStatement::partition_by", vpath="OverStatement::partition_by", rules=[r_retself],
         spec="ensures final(self).partitions_view() == old(self).partitions_view().push(SimpleExpr::Column(col.sp_column_ref())), old(self).same_but_partitions(final(self)),")
    for nm, mk in [("partition_by_customs", "SimpleExpr::Custom(c.sp_string())"), ("partition_by_columns", "SimpleExpr::Column(c.sp_column_ref())")]:
        mapf = "|c: T| %s" % mk
        u.fn(WN, "trait OverStatement", nm, props=PQ, key="OverStatement::" + nm, vpath="OverStatement::" + nm,
             spec="ensures\n    // every item, in order, after the ones already given\n    final(self).partitions_view() == old(self).partitions_view() + cols@.map_values(%s),\n    old(self).same_but_partitions(final(self))," % mapf,
             loops=["invariant it.index@ <= cols@.len(), it.snapshot@.remaining() == cols@, old(self).same_but_partitions(self),\n    self.partitions_view() =~= old(self).partitions_view() + cols@.subrange(0, it.index@ as int).map_values(%s)," % mapf],
             rules=[r_retself, r_tostr, r_iter_param, make_r_sub("R-fold", r"cols\.into_iter\(\)\.for_each\(\|c\| \{", "for c in it: cols.into_iter() {"), make_r_sub("R-fold", r"\}\);\s*\}\s*$", "}\n    }")],
             proofs={"body-start": "proof { self.plaw_refl(); }", "loop1-start": "let ghost before_ = *self;",
                     "loop1-end": "proof { old(self).plaw_trans(&before_, self); assert(cols@.subrange(0, it.index@ + 1) =~= cols@.subrange(0, it.index@ as int).push(c)); }",
                     "body-end": "proof { assert(cols@.subrange(0, cols@.len() as int) =~= cols@); }"})
    u.emit("}\n")
    ws = F["WindowStatement"]
    u.emit("impl OverStatement for WindowStatement {\n    open spec fn partitions_view(&self) -> Seq<SimpleExpr> { self.partition_by@ }\n    open spec fn same_but_partitions(&self, other: &Self) -> bool { %s }\n    proof fn plaw_refl(&self) {}\n    proof fn plaw_trans(&self, b: &Self, c: &Self) {}\n"
           % " && ".join("self.%s == other.%s" % (n, n) for n, _ in ws if n != "partition_by"), kind="spec", key="builders::impl OverStatement for WindowStatement", props=PQ)
    u.fn(WN, "impl OverStatement for WindowStatement", "add_partition_by", props=PQ, key="WindowStatement::add_partition_by[trait]", vpath="<WindowStatement as OverStatement>::add_partition_by", rules=[r_retself], no_canary=True)
    u.emit("}\n")
    u.emit("impl OrderedStatement for WindowStatement {\n    open spec fn orders_view(&self) -> Seq<OrderExpr> { self.order_by@ }\n    open spec fn same_but_orders(&self, other: &Self) -> bool { %s }\n    proof fn law_refl(&self) {}\n    proof fn law_trans(&self, b: &Self, c: &Self) {}\n"
           % " && ".join("self.%s == other.%s" % (n, n) for n, _ in ws if n != "order_by"), kind="spec", key="builders::impl OrderedStatement for WindowStatement", props=PQ)
    u.fn(WN, "impl OrderedStatement for WindowStatement", "add_order_by", props=PQ, key="WindowStatement::add_order_by[trait]", vpath="<WindowStatement as OrderedStatement>::add_order_by", rules=[r_retself, r_inh], no_canary=True)
    u.emit("}\n")
    u.emit("impl WindowStatement {\n")
    b = BQ(u, WN, "WindowStatement", ws)
    r_ft = [make_r_sub("R-rawident", r"r#type: FrameType", "type_: FrameType", min_count=0), make_r_sub("R-rawident", r"FrameClause \{ r#type, start, end \}", "FrameClause { r#type: type_, start, end }", min_count=0),
            make_r_sub("R-rawident", r"self\.frame\(r#type,", "self.frame(type_,", min_count=0)]
    b.fn("frame", {"frame": "Some(FrameClause { r#type: type_, start: start, end: end })"}, rules=r_ft)
    b.fn("frame_start", {"frame": "Some(FrameClause { r#type: type_, start: start, end: None })"}, rules=r_ft)
    b.fn("frame_between", {"frame": "Some(FrameClause { r#type: type_, start: start, end: Some(end) })"}, rules=r_ft)
    u.emit("}\n")

    # ---- ON CONFLICT --------------------------------------------------------------------------------------------------------------------------------
    OC = "src/query/on_conflict.rs"
    # DO UPDATE: the columns / assignments given are appended to an UPDATE action already declared, and replace anything else
    u.spec("""pub open spec fn sp_upd_cols<C: IntoIden>(xs: Seq<C>) -> Seq<OnConflictUpdate> { xs.map_values(|x: C| OnConflictUpdate::Column(x.sp_iden())) }
pub open spec fn sp_upd_exprs<C: IntoIden>(xs: Seq<(C, SimpleExpr)>) -> Seq<OnConflictUpdate> { xs.map_values(|p: (C, SimpleExpr)| OnConflictUpdate::Expr(p.0.sp_iden(), p.1)) }
pub open spec fn sp_updates(a: Option<OnConflictAction>) -> Seq<OnConflictUpdate> { match a { Some(OnConflictAction::Update(v)) => v@, _ => Seq::empty() } }
#[verifier::external_body] fn vmap_upd_cols<C: IntoIden>(xs: Vec<C>) -> (r: Vec<OnConflictUpdate>) ensures r@ == sp_upd_cols(xs@) { unimplemented!() }
#[verifier::external_body] fn vmap_upd_exprs<C: IntoIden>(xs: Vec<(C, SimpleExpr)>) -> (r: Vec<OnConflictUpdate>) ensures r@ == sp_upd_exprs(xs@) { unimplemented!() }
""", "builders::on-conflict-spec", props=PQ)
    u.emit("impl OnConflict {\n")
    b = BQ(u, OC, "OnConflict", F["OnConflict"])
    b.fn("do_nothing", {"action": "(if final(self).action is Some && final(self).action->Some_0 is DoNothing { Some(OnConflictAction::DoNothing(final(self).action->Some_0->DoNothing_0)) } else { None })"},
         extra="final(self).action is Some && final(self).action->Some_0 is DoNothing && final(self).action->Some_0->DoNothing_0@.len() == 0,")
    b.fn("do_nothing_on", {"action": "(if final(self).action is Some && final(self).action->Some_0 is DoNothing { Some(OnConflictAction::DoNothing(final(self).action->Some_0->DoNothing_0)) } else { None })"},
         extra="final(self).action is Some && final(self).action->Some_0 is DoNothing && final(self).action->Some_0->DoNothing_0@ == pk_cols@.map_values(|x: C| x.sp_iden()),",
         rules=[make_r_sub("R-collect", r"pk_cols\.into_iter\(\)\.map\(IntoIden::into_iden\)\.collect\(\),?", "vmap_idens_q(pk_cols)")])
    ACT = "(if final(self).action is Some && final(self).action->Some_0 is Update { Some(OnConflictAction::Update(final(self).action->Some_0->Update_0)) } else { None })"
    b.fn("update_columns", {"action": ACT}, extra="final(self).action is Some && final(self).action->Some_0 is Update && sp_updates(final(self).action) == sp_updates(old(self).action) + sp_upd_cols(columns@),",
         rules=[make_r_sub("R-collect", r"columns\s*\.into_iter\(\)\s*\.map\(\|x\| OnConflictUpdate::Column\(IntoIden::into_iden\(x\)\)\)\s*\.collect\(\)", "vmap_upd_cols(columns)")])
    r_arr = make_r_sub("R-collect", r"\(\[([a-z_, ().]+)\]\)", r"(vec![\1])")
    b.fn("update_column", {"action": ACT}, rules=[r_arr],
         extra="final(self).action is Some && final(self).action->Some_0 is Update && sp_updates(final(self).action) == sp_updates(old(self).action).push(OnConflictUpdate::Column(column.sp_iden())),",
         proofs={"body-end": "proof { assert(sp_upd_cols(seq![column]) =~= seq![OnConflictUpdate::Column(column.sp_iden())]); }"})
    b.fn("value", {"action": ACT}, rules=[r_arr],
         extra="final(self).action is Some && final(self).action->Some_0 is Update && sp_updates(final(self).action) == sp_updates(old(self).action).push(OnConflictUpdate::Expr(col.sp_iden(), value.sp_into())),",
         proofs={"body-end": "proof { assert(sp_upd_exprs(seq![(col, value.sp_into())]) =~= seq![OnConflictUpdate::Expr(col.sp_iden(), value.sp_into())]); }"})
    b.fn("values", {"action": ACT}, extra="final(self).action is Some && final(self).action->Some_0 is Update && sp_updates(final(self).action) == sp_updates(old(self).action) + sp_upd_exprs(values@),",
         rules=[make_r_sub("R-collect", r"values\s*\.into_iter\(\)\s*\.map\(\|\(c, e\)\| OnConflictUpdate::Expr\(c\.into_iden\(\), e\)\)\s*\.collect\(\)", "vmap_upd_exprs(values)")])
    u.emit("}\n")
    # ---- RETURNING constructors -------------------------------------------------------------------------------------------------------------------------
    R = "src/query/returning.rs"
    u.emit("pub struct Returning;\nimpl Returning {\n")
    rr = [r_inh, r_into_q, r_iter_param]
    u.fn(R, "impl Returning", "all", ret="r", props=PQ, rules=rr, key="Returning::all", vpath="Returning::all", spec="ensures r == ReturningClause::All,")
    u.fn(R, "impl Returning", "column", ret="r", props=PQ, rules=rr, key="Returning::column", vpath="Returning::column", spec="ensures r is Columns, r->Columns_0@ == seq![col.sp_column_ref()],")
    u.fn(R, "impl Returning", "columns", ret="r", props=PQ, key="Returning::columns", vpath="Returning::columns", spec="ensures\n    // the columns given, in order\n    r is Columns, r->Columns_0@ == sp_colrefs(cols@),",
         rules=rr + [make_r_sub("R-collect", r"let cols: Vec<_> = cols\.into_iter\(\)\.map\(\|c\| c\.into_column_ref\(\)\)\.collect\(\);", "let cols: Vec<ColumnRef> = vmap_colrefs(cols);")])
    u.fn(R, "impl Returning", "expr", ret="r", props=PQ, rules=rr, key="Returning::expr", vpath="Returning::expr", spec="ensures r is Exprs, r->Exprs_0@ == seq![expr.sp_into()],")
    u.emit("}\n")
    u.emit("} // verus!\nfn main() {}\n")


# =====================================================================================================================================
# variant `func`  ->  C01 / C08: the function-call constructors (Func::*, PgFunc::*): every argument at the position it was given for
# =====================================================================================================================================
FUNC_TRAITS = r"""
pub trait IntoIden: Sized { spec fn sp_iden(self) -> DynIden; fn into_iden(self) -> (r: DynIden) ensures r == self.sp_iden(); }
pub trait VInto<T>: Sized { spec fn sp_into(self) -> T; fn into(self) -> (r: T) ensures r == self.sp_into(); }
impl VInto<SimpleExpr> for SimpleExpr { open spec fn sp_into(self) -> SimpleExpr { self } fn into(self) -> SimpleExpr { self } }
// u32 -> Value (macro-generated From; Kani harnesses / unit value): a function of the number
pub uninterp spec fn sp_value_u32(x: u32) -> Value;
impl VInto<Value> for u32 { open spec fn sp_into(self) -> Value { sp_value_u32(self) } #[verifier::external_body] fn into(self) -> Value { unimplemented!() } }
// #[derive(Default)] on FuncArgMod: distinct = false (trusted, R-attr)
#[verifier::external_body]
fn vdefault_mod() -> (r: FuncArgMod) ensures r == (FuncArgMod { distinct: false }) { unimplemented!() }
// vec![Default::default(); n] (std): n copies of the default modifier
#[verifier::external_body]
fn vvec_default_mods(n: usize) -> (r: Vec<FuncArgMod>) ensures r@ == Seq::new(n as nat, |i: int| FuncArgMod { distinct: false }) { unimplemented!() }
pub open spec fn plain_mods(n: nat) -> Seq<FuncArgMod> { Seq::new(n, |i: int| FuncArgMod { distinct: false }) }
// a call of `f` with exactly these arguments, in this order, none DISTINCT
pub open spec fn is_call(r: FunctionCall, f: Function, args: Seq<SimpleExpr>) -> bool { r.func == f && r.args@ =~= args && r.mods@ =~= plain_mods(args.len()) }
"""


def build_func(u):
    u.emit("use vstd::prelude::*;\nverus! {\n")
    for n in ["DynIden", "Value", "ColumnRef", "UnOper", "BinOper", "SubQueryOper", "SubQueryStatement", "Keyword", "CaseStatement", "PgDateTruncUnit"]:
        u.emit("#[verifier::external_body]\npub struct %s { _opaque: u8 }\n" % n, kind="spec", key="R-opaque:" + n, props=PQ)
    u.type_item("src/extension/postgres/func.rs", "enum", "PgFunction", props=PQ)
    u.type_item("src/func.rs", "enum", "Function", props=PQ)
    u.type_item("src/func.rs", "struct", "FuncArgMod", props=PQ, keep_derive=("Clone", "Copy"))
    u.type_item("src/func.rs", "struct", "FunctionCall", props=PQ, rules=[r_vis])
    u.type_item("src/expr.rs", "enum", "SimpleExpr", props=PQ)
    u.spec(FUNC_TRAITS, "builders::func-traits", props=PQ)
    FR = "src/func.rs"
    r_vis2 = make_r_sub("R-vis", r"pub\(crate\) fn", "pub fn", min_count=0)
    rg = [r_vis2, r_into_q, r_iter_param, make_r_sub("R-attr", r"Default::default\(\)", "vdefault_mod()", min_count=0)]
    u.emit("impl FunctionCall {\n")
    u.fn(FR, "impl FunctionCall", "new", ret="r", props=PQ, rules=rg, key="FunctionCall::new", vpath="FunctionCall::new", spec="ensures r.func == func, r.args@.len() == 0, r.mods@.len() == 0,")
    u.fn(FR, "impl FunctionCall", "arg_with", ret="r", props=PQ, rules=rg + [r_mutself], key="FunctionCall::arg_with", vpath="FunctionCall::arg_with",
         spec="ensures\n    // one more argument, AFTER the ones already given, with its modifier\n    r.func == self.func, r.args@ == self.args@.push(arg.sp_into()), r.mods@ == self.mods@.push(mod_),")
    u.fn(FR, "impl FunctionCall", "arg", ret="r", props=PQ, rules=rg, key="FunctionCall::arg", vpath="FunctionCall::arg",
         spec="ensures r.func == self.func, r.args@ == self.args@.push(arg.sp_into()), r.mods@ == self.mods@.push(FuncArgMod { distinct: false }),")
    u.fn(FR, "impl FunctionCall", "args", ret="r", props=PQ, key="FunctionCall::args", vpath="FunctionCall::args",
         rules=rg + [make_r_sub("R-collect", r"args\.into_iter\(\)\.collect\(\)", "args"), make_r_sub("R-collect", r"vec!\[vdefault_mod\(\); self\.args\.len\(\)\]", "vvec_default_mods(self.args.len())"), r_mutself],
         spec="ensures\n    // the arguments given, in the order given (replacing any earlier ones)\n    r.func == self.func, r.args@ == args@, r.mods@ == plain_mods(args@.len()),")
    u.emit("}\n")
    r_arr = make_r_sub("R-collect", r"\.args\(\[([^\]]*)\]\)", r".args(vec![\1])", min_count=0)     # an array literal given to `args`: the list of its elements
    rf = rg + [r_arr, make_r_sub("R-inherent", r"^(\s*)pub fn", r"\1fn", flags=re.M, min_count=0)]

    def one(nm, var, args, block="impl Func", path=FR, extra=""):
        seq = "seq![%s]" % ", ".join(args) if args else "Seq::<SimpleExpr>::empty()"
        u.fn(path, block, nm, ret="r", props=PQ, rules=rf, key="%s::%s" % (block[5:], nm), vpath="%s::%s" % (block[5:], nm),
             spec="ensures\n    // the function the constructor is named after; every argument at the position it was given for\n    is_call(r, %s, %s),%s" % (var, seq, extra),
             proofs={"body-end": "proof { assert(r_.mods@ =~= plain_mods(r_.args@.len())); }"} if False else None)
    u.emit("pub struct Func;\nimpl Func {\n")
    u.fn(FR, "impl Func", "cust", ret="r", props=PQ, rules=rf, key="Func::cust", vpath="Func::cust", spec="ensures is_call(r, Function::Custom(func.sp_iden()), Seq::<SimpleExpr>::empty()),")
    for nm in ["max", "min", "sum", "avg", "abs", "count", "char_length", "lower", "upper", "bit_and", "bit_or", "round", "md5"]:
        one(nm, "Function::" + "".join(w.capitalize() for w in nm.split("_")), ["expr.sp_into()"])
    u.fn(FR, "impl Func", "count_distinct", ret="r", props=PQ, rules=rf, key="Func::count_distinct", vpath="Func::count_distinct",
         spec="ensures r.func == Function::Count, r.args@ == seq![expr.sp_into()], r.mods@ == seq![FuncArgMod { distinct: true }],")
    for nm, var in [("greatest", "Greatest"), ("least", "Least"), ("coalesce", "Coalesce")]:
        u.fn(FR, "impl Func", nm, ret="r", props=PQ, rules=rf, key="Func::" + nm, vpath="Func::" + nm, spec="ensures is_call(r, Function::%s, args@)," % var)
    one("if_null", "Function::IfNull", ["a.sp_into()", "b.sp_into()"])
    one("round_with_precision", "Function::Round", ["a.sp_into()", "b.sp_into()"])
    one("random", "Function::Random", [])
    u.emit("}\n")
    # Postgres: to_tsquery([config regconfig,] query text) and its siblings take the configuration FIRST (PostgreSQL 16, 9.13 / 12.3)
    PF = "src/extension/postgres/func.rs"
    u.emit("pub struct PgFunc;\nimpl PgFunc {\n")
    for nm, var in [("to_tsquery", "ToTsquery"), ("to_tsvector", "ToTsvector"), ("phraseto_tsquery", "PhrasetoTsquery"), ("plainto_tsquery", "PlaintoTsquery"), ("websearch_to_tsquery", "WebsearchToTsquery")]:
        u.fn(PF, "impl PgFunc", nm, ret="r", props=PQ, rules=rf + [make_r_sub("R-into", r"SimpleExpr::Value\(config\.into\(\)\)", "SimpleExpr::Value(VInto::<Value>::into(config))")], key="PgFunc::" + nm, vpath="PgFunc::" + nm,
             spec="ensures\n    // %s([config,] text): the configuration, when given, is the FIRST argument\n    regconfig is Some ==> is_call(r, Function::PgFunction(PgFunction::%s), seq![SimpleExpr::Value(sp_value_u32(regconfig->Some_0)), expr.sp_into()]),\n    regconfig is None ==> is_call(r, Function::PgFunction(PgFunction::%s), seq![expr.sp_into()])," % (nm, var, var))
    for nm, var in [("ts_rank", "TsRank"), ("ts_rank_cd", "TsRankCd")]:
        one(nm, "Function::PgFunction(PgFunction::%s)" % var, ["vector.sp_into()", "query.sp_into()"], block="impl PgFunc", path=PF)
    u.emit("}\n")
    u.emit("} // verus!\nfn main() {}\n")


# =====================================================================================================================================
# variant `expr`  ->  C05 / C06: the EXPRESSION API builds the tree its methods name: every operator gets exactly the operands given
# =====================================================================================================================================
PE = ["C05", "C06", "C08"]
EXPR_TRAITS = r"""
pub trait IntoIden: Sized { spec fn sp_iden(self) -> DynIden; fn into_iden(self) -> (r: DynIden) ensures r == self.sp_iden(); }
pub trait IntoColumnRef: Sized { spec fn sp_column_ref(self) -> ColumnRef; fn into_column_ref(self) -> (r: ColumnRef) ensures r == self.sp_column_ref(); }
pub trait IntoLikeExpr: Sized { spec fn sp_like(self) -> LikeExpr; fn into_like_expr(self) -> (r: LikeExpr) ensures r == self.sp_like(); }
pub trait VInto<T>: Sized { spec fn sp_into(self) -> T; fn into(self) -> (r: T) ensures r == self.sp_into(); }
pub trait VQueryStatementBuilder: Sized { spec fn sp_sub_query(self) -> SubQueryStatement; fn into_sub_query_statement(self) -> (r: SubQueryStatement) ensures r == self.sp_sub_query(); }
impl VQueryStatementBuilder for SelectStatement { uninterp spec fn sp_sub_query(self) -> SubQueryStatement; #[verifier::external_body] fn into_sub_query_statement(self) -> SubQueryStatement { unimplemented!() } }
impl VInto<SimpleExpr> for SimpleExpr { open spec fn sp_into(self) -> SimpleExpr { self } fn into(self) -> SimpleExpr { self } }
impl VInto<BinOper> for BinOper { open spec fn sp_into(self) -> BinOper { self } fn into(self) -> BinOper { self } }
// `impl From<PgBinOper> for BinOper` / `From<SqliteBinOper>` (src/extension): the operator wrapped in its dialect's variant
impl VInto<BinOper> for PgBinOper { open spec fn sp_into(self) -> BinOper { BinOper::PgOperator(self) } #[verifier::external_body] fn into(self) -> BinOper { unimplemented!() } }
impl VInto<BinOper> for SqliteBinOper { open spec fn sp_into(self) -> BinOper { BinOper::SqliteOperator(self) } #[verifier::external_body] fn into(self) -> BinOper { unimplemented!() } }
// Value -> SimpleExpr (`impl<T: Into<Value>> From<T> for SimpleExpr`): the value as an expression
impl VInto<Value> for Value { open spec fn sp_into(self) -> Value { self } fn into(self) -> Value { self } }
impl VInto<ColumnRef> for ColumnRef { open spec fn sp_into(self) -> ColumnRef { self } fn into(self) -> ColumnRef { self } }
// LikeExpr -> SimpleExpr (pattern [ESCAPE c]): a function of the pattern (uninterpreted here; its rendering is unit prec's lemma_escape_ok)
impl VInto<SimpleExpr> for LikeExpr { uninterp spec fn sp_into(self) -> SimpleExpr; #[verifier::external_body] fn into(self) -> SimpleExpr { unimplemented!() } }
// R-collect (trusted): `v.into_iter().map(|v| v.into()).collect()` is the list of the converted items, in order
#[verifier::external_body]
fn vmap_exprs<V: VInto<SimpleExpr>>(xs: Vec<V>) -> (r: Vec<SimpleExpr>) ensures r@ == xs@.map_values(|x: V| x.sp_into()) { unimplemented!() }
pub open spec fn bin(l: SimpleExpr, o: BinOper, r: SimpleExpr) -> SimpleExpr { SimpleExpr::Binary(Box::new(l), o, Box::new(r)) }
"""
# ORACLE: the operator each method is named after
BINOPS = [("add", "Add"), ("and", "And"), ("div", "Div"), ("eq", "Equal"), ("gt", "GreaterThan"), ("gte", "GreaterThanOrEqual"), ("is", "Is"), ("is_not", "IsNot"),
          ("left_shift", "LShift"), ("lt", "SmallerThan"), ("lte", "SmallerThanOrEqual"), ("modulo", "Mod"), ("mul", "Mul"), ("ne", "NotEqual"), ("or", "Or"),
          ("right_shift", "RShift"), ("sub", "Sub"), ("bit_and", "BitAnd"), ("bit_or", "BitOr")]


def build_expr(u):
    u.emit("use vstd::prelude::*;\nverus! {\n")
    for n in ["DynIden", "Value", "ColumnRef", "SubQueryStatement", "CaseStatement", "FunctionCall", "SelectStatement", "LikeExpr", "Asterisk"]:
        u.emit("#[verifier::external_body]\npub struct %s { _opaque: u8 }\n" % n, kind="spec", key="R-opaque:" + n, props=PE)
    u.type_item("src/extension/postgres/mod.rs", "enum", "PgBinOper", props=PE)
    u.type_item("src/extension/sqlite/mod.rs", "enum", "SqliteBinOper", props=PE)
    u.type_item("src/types.rs", "enum", "UnOper", props=PE)
    u.type_item("src/types.rs", "enum", "BinOper", props=PE)
    u.type_item("src/types.rs", "enum", "SubQueryOper", props=PE)
    u.type_item("src/types.rs", "enum", "Keyword", props=PE)
    u.type_item("src/expr.rs", "enum", "SimpleExpr", props=PE)
    u.type_item("src/expr.rs", "struct", "Expr", props=PE)
    u.spec(EXPR_TRAITS, "builders::expr-traits", props=PE)
    E = "src/expr.rs"
    r_vi = make_r_sub("R-into", r"\bInto<(SimpleExpr|BinOper)>", r"VInto<\1>", min_count=0)
    # From<Keyword> / From<ColumnRef> for SimpleExpr: extracted, as the contracted conversion
    for ty, var in [("Keyword", "Keyword"), ("ColumnRef", "Column")]:
        u.emit("impl VInto<SimpleExpr> for %s {\n    open spec fn sp_into(self) -> SimpleExpr { SimpleExpr::%s(self) }\n" % (ty, var), kind="spec", key="builders::From<%s> for SimpleExpr" % ty, props=PE)
        u.fn(E, "impl From<%s> for SimpleExpr" % ty, "from", props=PE, key="From<%s> for SimpleExpr::from" % ty, vpath="<%s as VInto<SimpleExpr>>::into" % ty, rename="into", no_canary=True,
             rules=[make_r_sub("R-into", r"fn from\((\w+): %s\) -> Self" % ty, "fn from(self) -> SimpleExpr"), make_r_sub("R-into", r"SimpleExpr::%s\(\w+\)" % var, "SimpleExpr::%s(self)" % var)])
        u.emit("}\n")
    # ---- Expr: the builder HOLDS an expression (`left`); the legacy fields right / uopr / bopr are never set (type invariant, established by the
    # only constructor new_with_left and used by the conversion into SimpleExpr, whose `right.unwrap()` is then unreachable)
    u.spec("""impl Expr {
    #[verifier::type_invariant]
    pub closed spec fn inv(self) -> bool { self.right is None && self.uopr is None && self.bopr is None }
    pub closed spec fn held(self) -> SimpleExpr { self.left }
}
""", "builders::Expr-invariant", props=PE)
    u.emit("impl VInto<SimpleExpr> for Expr {\n    open spec fn sp_into(self) -> SimpleExpr { self.held() }\n", kind="spec", key="builders::From<Expr> for SimpleExpr", props=PE)
    u.fn(E, "impl From<Expr> for SimpleExpr", "from", props=PE, key="From<Expr> for SimpleExpr::from", vpath="<Expr as VInto<SimpleExpr>>::into", rename="into", no_canary=True,
         rules=[make_r_sub("R-into", r"fn from\(src: Expr\) -> Self", "fn from(self) -> SimpleExpr"), make_r_sub("R-into", r"\bsrc\.", "self.")],
         proofs={"body-start": "proof { use_type_invariant(&self); }"})
    u.emit("}\n")
    u.emit("impl Expr {\n")
    u.fn(E, "impl Expr", "new_with_left", ret="r", props=PE, key="Expr::new_with_left", vpath="Expr::new_with_left", rules=[r_vi], spec="ensures r.held() == left.sp_into(),")
    u.fn(E, "impl Expr", "expr", ret="r", props=PE, key="Expr::expr", vpath="Expr::expr", rules=[r_vi, make_r_sub("R-inherent", r"^(\s*)pub fn", r"\1fn", flags=re.M, min_count=0)],
         spec="ensures\n    // the builder stands for exactly the expression given\n    r.held() == expr.sp_into(),")
    u.fn(E, "impl Expr", "col", ret="r", props=PE, key="Expr::col", vpath="Expr::col", rules=[r_vi, make_r_sub("R-inherent", r"^(\s*)pub fn", r"\1fn", flags=re.M, min_count=0)],
         spec="ensures r.held() == SimpleExpr::Column(n.sp_column_ref()),")
    u.fn(E, "impl Expr", "column", ret="r", props=PE, key="Expr::column", vpath="Expr::column", rules=[r_vi, make_r_sub("R-inherent", r"^(\s*)pub fn", r"\1fn", flags=re.M, min_count=0)],
         spec="ensures r == SimpleExpr::Column(n.sp_column_ref()),")
    u.fn(E, "impl Expr", "value", ret="r", props=PE, key="Expr::value", vpath="Expr::value", rules=[r_vi, make_r_sub("R-inherent", r"^(\s*)pub fn", r"\1fn", flags=re.M, min_count=0)],
         spec="ensures r == v.sp_into(),")
    u.emit("}\n")
    # ---- trait ExprTrait: binary / unary are the implementor's; every other method is verified ONCE against their contract --------------------
    u.emit("""pub trait ExprTrait: Sized {
    // the expression the receiver stands for
    spec fn sp_expr(self) -> SimpleExpr;
    fn binary<O, R>(self, op: O, right: R) -> (r: SimpleExpr)
    where
        O: VInto<BinOper>,
        R: VInto<SimpleExpr>,
        ensures r == bin(self.sp_expr(), op.sp_into(), right.sp_into());
    fn unary(self, o: UnOper) -> (r: SimpleExpr) ensures r == SimpleExpr::Unary(o, Box::new(self.sp_expr()));
""", kind="spec", key="builders::trait ExprTrait", props=PE)
    rr = [r_vi, r_iter_param, r_qsb]

    def tfn(nm, post, rules=()):
        u.fn(E, "trait ExprTrait", nm, ret="r", props=PE, key="ExprTrait::" + nm, vpath="ExprTrait::" + nm, rules=rr + list(rules),
             spec="ensures\n    // the operator the method is named after, with exactly the operands given\n    r == %s," % post)
    for nm, op in BINOPS:
        tfn(nm, "bin(self.sp_expr(), BinOper::%s, right.sp_into())" % op)
    tfn("equals", "bin(self.sp_expr(), BinOper::Equal, SimpleExpr::Column(col.sp_column_ref()))")
    tfn("not_equals", "bin(self.sp_expr(), BinOper::NotEqual, SimpleExpr::Column(col.sp_column_ref()))")
    tfn("between", "bin(self.sp_expr(), BinOper::Between, bin(a.sp_into(), BinOper::And, b.sp_into()))")
    tfn("not_between", "bin(self.sp_expr(), BinOper::NotBetween, bin(a.sp_into(), BinOper::And, b.sp_into()))")
    tfn("is_null", "bin(self.sp_expr(), BinOper::Is, SimpleExpr::Keyword(Keyword::Null))")
    tfn("is_not_null", "bin(self.sp_expr(), BinOper::IsNot, SimpleExpr::Keyword(Keyword::Null))")
    tfn("like", "bin(self.sp_expr(), BinOper::Like, like.sp_like().sp_into())")
    tfn("not_like", "bin(self.sp_expr(), BinOper::NotLike, like.sp_like().sp_into())")
    tfn("not", "SimpleExpr::Unary(UnOper::Not, Box::new(self.sp_expr()))")
    tfn("in_subquery", "bin(self.sp_expr(), BinOper::In, SimpleExpr::SubQuery(None, Box::new(sel.sp_sub_query())))")
    tfn("not_in_subquery", "bin(self.sp_expr(), BinOper::NotIn, SimpleExpr::SubQuery(None, Box::new(sel.sp_sub_query())))")
    r_tuple = make_r_sub("R-collect", r"SimpleExpr::Tuple\(v\.into_iter\(\)\.map\(\|v\| v\.into\(\)\)\.collect\(\)\)", "SimpleExpr::Tuple(vmap_exprs(v))")
    u.fn(E, "trait ExprTrait", "is_in", ret="r", props=PE, key="ExprTrait::is_in", vpath="ExprTrait::is_in", rules=rr + [r_tuple],
         spec="ensures\n    // IN the list given, members in order\n    r is Binary && *r->Binary_0 == self.sp_expr() && r->Binary_1 == BinOper::In && *r->Binary_2 is Tuple && (*r->Binary_2)->Tuple_0@ == v@.map_values(|x: V| x.sp_into()),")
    u.fn(E, "trait ExprTrait", "is_not_in", ret="r", props=PE, key="ExprTrait::is_not_in", vpath="ExprTrait::is_not_in", rules=rr + [r_tuple],
         spec="ensures r is Binary && *r->Binary_0 == self.sp_expr() && r->Binary_1 == BinOper::NotIn && *r->Binary_2 is Tuple && (*r->Binary_2)->Tuple_0@ == v@.map_values(|x: V| x.sp_into()),")
    u.emit("}\n")
    # the blanket implementor: everything that converts into an expression
    B = "impl<T> ExprTrait for T where T: Into<SimpleExpr>,"
    u.emit("impl<T> ExprTrait for T where T: VInto<SimpleExpr>, {\n    open spec fn sp_expr(self) -> SimpleExpr { self.sp_into() }\n", kind="spec", key="builders::impl ExprTrait for T", props=PE)
    u.fn(E, B, "binary", props=PE, key="ExprTrait::binary[impl]", vpath="<T as ExprTrait>::binary", rules=rr, no_canary=True)
    u.fn(E, B, "unary", props=PE, key="ExprTrait::unary[impl]", vpath="<T as ExprTrait>::unary", rules=rr, no_canary=True, params=["o"])
    u.emit("}\n")
    # ---- the dialect extensions: PgExpr / SqliteExpr default methods, verified once against ExprTrait::binary's contract --------------------------------
    for path, tr, ops in [("src/extension/postgres/expr.rs", "PgExpr", [("concatenate", "right", "PgBinOper::Concatenate"), ("concat", "right", "PgBinOper::Concatenate"), ("matches", "expr", "PgBinOper::Matches"),
                                                                      ("contains", "expr", "PgBinOper::Contains"), ("contained", "expr", "PgBinOper::Contained"),
                                                                      ("get_json_field", "right", "PgBinOper::GetJsonField"), ("cast_json_field", "right", "PgBinOper::CastJsonField")]),
                          ("src/extension/sqlite/expr.rs", "SqliteExpr", [("glob", "right", "SqliteBinOper::Glob"), ("matches", "right", "SqliteBinOper::Match"),
                                                                         ("get_json_field", "right", "SqliteBinOper::GetJsonField"), ("cast_json_field", "right", "SqliteBinOper::CastJsonField")])]:
        wrap = "BinOper::PgOperator" if tr == "PgExpr" else "BinOper::SqliteOperator"
        u.emit("pub trait %s: ExprTrait {\n" % tr)
        for nm, arg, op in ops:
            u.fn(path, "trait %s: ExprTrait" % tr, nm, ret="r", props=PE, key="%s::%s" % (tr, nm), vpath="%s::%s" % (tr, nm), rules=rr,
                 spec="ensures\n    // the %s operator the method is named after, with exactly the operands given\n    r == bin(self.sp_expr(), %s(%s), %s.sp_into())," % (tr[:-4], wrap, op, arg))
        if tr == "PgExpr":
            for nm, op in [("ilike", "ILike"), ("not_ilike", "NotILike")]:
                u.fn(path, "trait PgExpr: ExprTrait", nm, ret="r", props=PE, key="PgExpr::" + nm, vpath="PgExpr::" + nm, rules=rr,
                     spec="ensures r == bin(self.sp_expr(), BinOper::PgOperator(PgBinOper::%s), like.sp_like().sp_into())," % op)
        u.emit("}\n")
    # ---- the inherent wrappers of SimpleExpr and Expr ----------------------------------------------------------------------------------------------
    r_pub = make_r_sub("R-inherent", r"^(\s*)pub fn", r"\1fn", flags=re.M, min_count=0)
    for ty, blk in [("SimpleExpr", "impl SimpleExpr"), ("Expr", "impl Expr")]:
        u.emit("impl %s {\n" % ty)
        names = {"SimpleExpr": ["not", "and", "or", "eq", "ne", "add", "mul", "div", "sub", "binary", "like", "not_like"],
                 "Expr": ["eq", "ne", "equals", "not_equals", "gt", "gte", "lt", "lte", "add", "sub", "mul", "div", "modulo", "left_shift", "right_shift", "between", "not_between",
                          "like", "not_like", "is_null", "is", "is_not_null", "is_not", "binary", "not", "in_subquery", "not_in_subquery"]}[ty]
        left = "self" if ty == "SimpleExpr" else "self.sp_into()"
        ops = dict(BINOPS)
        for nm in names:
            src_fn = rl.find_fn(E, u.src(E), rl.find_block(E, u.src(E), blk)[0], nm).text
            pm = re.search(r"fn %s(?:<[^>]*>)?\(self(?:, ([a-z_]+): [^,)]+)?(?:, ([a-z_]+): [^,)]+)?\)" % nm, rl.norm_ws(src_fn))
            a1, a2 = (pm.group(1), pm.group(2)) if pm else (None, None)
            conv = lambda a: a if re.search(r"\b%s: SimpleExpr\b" % a, src_fn) else "%s.sp_into()" % a
            if nm in ops:
                post = "bin(%s, BinOper::%s, %s)" % (left, ops[nm], conv(a1))
            elif nm in ("equals", "not_equals"):
                post = "bin(%s, BinOper::%s, SimpleExpr::Column(%s.sp_column_ref()))" % (left, "Equal" if nm == "equals" else "NotEqual", a1)
            elif nm in ("between", "not_between"):
                post = "bin(%s, BinOper::%s, bin(%s.sp_into(), BinOper::And, %s.sp_into()))" % (left, "Between" if nm == "between" else "NotBetween", a1, a2)
            elif nm in ("is_null", "is_not_null"):
                post = "bin(%s, BinOper::%s, SimpleExpr::Keyword(Keyword::Null))" % (left, "Is" if nm == "is_null" else "IsNot")
            elif nm in ("like", "not_like"):
                post = "bin(%s, BinOper::%s, %s.sp_like().sp_into())" % (left, "Like" if nm == "like" else "NotLike", a1)
            elif nm == "not":
                post = "SimpleExpr::Unary(UnOper::Not, Box::new(%s))" % left
            elif nm == "binary":
                post = "bin(%s, %s.sp_into(), %s.sp_into())" % (left, a1, a2)
            elif nm in ("in_subquery", "not_in_subquery"):
                post = "bin(%s, BinOper::%s, SimpleExpr::SubQuery(None, Box::new(%s.sp_sub_query())))" % (left, "In" if nm == "in_subquery" else "NotIn", a1)
            u.fn(E, blk, nm, ret="r", props=PE, key="%s::%s" % (ty, nm), vpath="%s::%s" % (ty, nm), rules=rr + [r_pub], spec="ensures r == %s," % post)
        u.emit("}\n")
    u.emit("} // verus!\nfn main() {}\n")


# =====================================================================================================================================
# variant `refs`  ->  C04 / C08: qualified names: a (schema, table) / (table, column) .. tuple becomes the reference with exactly those
# parts in that order; TableRef::alias keeps every part and sets the alias
# =====================================================================================================================================
PRF = ["C04", "C08"]


def build_refs(u):
    u.emit("use vstd::prelude::*;\nverus! {\n")
    for n in ["DynIden", "SelectStatementO", "ValuesO", "FunctionCallO"]:
        u.emit("#[verifier::external_body]\npub struct %s { _opaque: u8 }\n" % n, kind="spec", key="R-opaque:" + n, props=PRF)
    T = "src/types.rs"
    u.type_item(T, "enum", "TableRef", props=PRF, rules=[make_r_sub("R-opaque", r"SubQuery\(SelectStatement, DynIden\)", "SubQuery(SelectStatementO, DynIden)"),
                                                         make_r_sub("R-opaque", r"ValuesList\(Vec<ValueTuple>, DynIden\)", "ValuesList(ValuesO, DynIden)"),
                                                         make_r_sub("R-opaque", r"FunctionCall\(FunctionCall, DynIden\)", "FunctionCall(FunctionCallO, DynIden)")])
    u.type_item(T, "enum", "ColumnRef", props=PRF)
    u.type_item(T, "struct", "Asterisk", props=PRF)
    u.spec("""pub trait IntoIden: Sized { spec fn sp_iden(self) -> DynIden; fn into_iden(self) -> (r: DynIden) ensures r == self.sp_iden(); }
pub trait IntoTableRef: Sized { spec fn sp_table_ref(self) -> TableRef; fn into_table_ref(self) -> (r: TableRef) ensures r == self.sp_table_ref(); }
pub trait IntoColumnRef: Sized { spec fn sp_column_ref(self) -> ColumnRef; fn into_column_ref(self) -> (r: ColumnRef) ensures r == self.sp_column_ref(); }
""", "builders::refs-traits", props=PRF)
    r_static = make_r_sub("R-generic", r": 'static", "", min_count=0)
    IMPLS2 = [
        ("impl IntoTableRef for TableRef", "into_table_ref", "sp_table_ref", "TableRef", "self"),
        ("impl<T: 'static> IntoTableRef for T where T: IntoIden,", "into_table_ref", "sp_table_ref", "TableRef", "TableRef::Table(self.sp_iden())"),
        ("impl<S: 'static, T: 'static> IntoTableRef for (S, T) where S: IntoIden, T: IntoIden,", "into_table_ref", "sp_table_ref", "TableRef", "TableRef::SchemaTable(self.0.sp_iden(), self.1.sp_iden())"),
        ("impl<S: 'static, T: 'static, U: 'static> IntoTableRef for (S, T, U) where S: IntoIden, T: IntoIden, U: IntoIden,", "into_table_ref", "sp_table_ref", "TableRef",
         "TableRef::DatabaseSchemaTable(self.0.sp_iden(), self.1.sp_iden(), self.2.sp_iden())"),
        ("impl IntoColumnRef for ColumnRef", "into_column_ref", "sp_column_ref", "ColumnRef", "self"),
        ("impl<T: 'static> IntoColumnRef for T where T: IntoIden,", "into_column_ref", "sp_column_ref", "ColumnRef", "ColumnRef::Column(self.sp_iden())"),
        ("impl IntoColumnRef for Asterisk", "into_column_ref", "sp_column_ref", "ColumnRef", "ColumnRef::Asterisk"),
        ("impl<S: 'static, T: 'static> IntoColumnRef for (S, T) where S: IntoIden, T: IntoIden,", "into_column_ref", "sp_column_ref", "ColumnRef", "ColumnRef::TableColumn(self.0.sp_iden(), self.1.sp_iden())"),
        ("impl<T: 'static> IntoColumnRef for (T, Asterisk) where T: IntoIden,", "into_column_ref", "sp_column_ref", "ColumnRef", "ColumnRef::TableAsterisk(self.0.sp_iden())"),
        ("impl<S: 'static, T: 'static, U: 'static> IntoColumnRef for (S, T, U) where S: IntoIden, T: IntoIden, U: IntoIden,", "into_column_ref", "sp_column_ref", "ColumnRef",
         "ColumnRef::SchemaTableColumn(self.0.sp_iden(), self.1.sp_iden(), self.2.sp_iden())"),
    ]
    for hdr, m, sp, ty, body in IMPLS2:
        u.emit("%s {\n    // the parts given, in the order given\n    open spec fn %s(self) -> %s { %s }\n" % (hdr.replace(": 'static", ""), sp, ty, body), kind="spec", key="builders::%s" % hdr, props=PRF)
        u.fn(T, hdr, m, props=PRF, key="%s::%s" % (hdr, m), vpath="%s::%s" % (re.sub(r"impl(<[^>]*>)? ", "", hdr), m), no_canary=True, rules=[r_static])
        u.emit("}\n")
    u.emit("impl TableRef {\n")
    u.spec("""    // the parts that name the table (database / schema / table, or the sub-query / VALUES list / function call), without the alias
    pub open spec fn same_source(a: TableRef, b: TableRef) -> bool {
        match (a, b) {
            (TableRef::Table(t), TableRef::TableAlias(t2, _)) => t == t2,
            (TableRef::TableAlias(t, _), TableRef::TableAlias(t2, _)) => t == t2,
            (TableRef::SchemaTable(s, t), TableRef::SchemaTableAlias(s2, t2, _)) => s == s2 && t == t2,
            (TableRef::SchemaTableAlias(s, t, _), TableRef::SchemaTableAlias(s2, t2, _)) => s == s2 && t == t2,
            (TableRef::DatabaseSchemaTable(d, s, t), TableRef::DatabaseSchemaTableAlias(d2, s2, t2, _)) => d == d2 && s == s2 && t == t2,
            (TableRef::DatabaseSchemaTableAlias(d, s, t, _), TableRef::DatabaseSchemaTableAlias(d2, s2, t2, _)) => d == d2 && s == s2 && t == t2,
            (TableRef::SubQuery(q, _), TableRef::SubQuery(q2, _)) => q == q2,
            (TableRef::ValuesList(v, _), TableRef::ValuesList(v2, _)) => v == v2,
            (TableRef::FunctionCall(f, _), TableRef::FunctionCall(f2, _)) => f == f2,
            _ => false,
        }
    }
    pub open spec fn alias_of(a: TableRef) -> Option<DynIden> {
        match a {
            TableRef::TableAlias(_, x) => Some(x), TableRef::SchemaTableAlias(_, _, x) => Some(x), TableRef::DatabaseSchemaTableAlias(_, _, _, x) => Some(x),
            TableRef::SubQuery(_, x) => Some(x), TableRef::ValuesList(_, x) => Some(x), TableRef::FunctionCall(_, x) => Some(x), _ => None,
        }
    }
""", "builders::TableRef-spec", props=PRF)
    u.fn(T, "impl TableRef", "alias", ret="r", props=PRF, key="TableRef::alias", vpath="TableRef::alias", rules=[make_r_sub("R-inherent", r"^(\s*)pub fn", r"\1fn", flags=re.M, min_count=0)],
         spec="ensures\n    // every part that names the source is kept, in place; the alias is the one given (replacing an earlier one)\n    TableRef::same_source(self, r), TableRef::alias_of(r) == Some(alias.sp_iden()),")
    u.emit("}\n")
    u.emit("} // verus!\nfn main() {}\n")
