"""unit `escape`  ->  C17 (unescape . escape = id, 3 backends) and C03 (every inlined text / binary literal is
one literal token of the target engine decoding to exactly the supplied value).

Which body a backend runs is read from /repo at extraction time: the `impl EscapeBuilder for X` /
`impl QueryBuilder for X` block if it defines the method, else the trait's default body.
"""
import os, re
from vlib import rustlex as rl
from vlib.gen import make_r_fmt, make_r_sub, make_r_tailbind, r_unit_tail, r_dynw

MOD = "src/backend/mod.rs"
QB = "src/backend/query_builder.rs"
BACKENDS = {
    "MysqlQueryBuilder": {"escape": "src/backend/mysql/mod.rs", "query": "src/backend/mysql/query.rs"},
    "PostgresQueryBuilder": {"escape": "src/backend/postgres/mod.rs", "query": "src/backend/postgres/query.rs"},
    "SqliteQueryBuilder": {"escape": "src/backend/sqlite/mod.rs", "query": "src/backend/sqlite/query.rs"},
}

r_fmt = make_r_fmt(wmap=lambda w: w if w == "buffer" else "&mut " + w)
r_replace_c = make_r_sub("R-strfn", r"\.replace\(\s*'", ".vreplace_c('")
r_replace_s2 = make_r_sub("R-strfn", r"\.replace\(\s*\"", ".vreplace_s2(\"")
r_tail = make_r_tailbind()
# `x.find(<char>).is_some()` / `x.find([<char>, ..]).is_some()` / `x.contains(<char>)`: the text contains (one of) the character(s)
CHAR_LIT = r"'(?:\\.|[^'\\])'"
FIND_RX = r"(\w+)\.(?:find\(\s*(%s|\[\s*%s(?:\s*,\s*%s)*\s*,?\s*\])\s*\)\.is_some\(\)|contains\(\s*(%s)\s*\))" % (CHAR_LIT, CHAR_LIT, CHAR_LIT, CHAR_LIT)
def r_find_some(m):
    cs = re.findall(CHAR_LIT, m.group(2) or m.group(3))
    t = " || ".join("%s.vcontains_c(%s)" % (m.group(1), c) for c in cs)
    return t if len(cs) == 1 else "(" + t + ")"


def resolve(u, trait, ty, fn, trait_file, impl_file):
    """(path, block header) of the body that `ty` runs for trait method `fn`."""
    src = u.src(impl_file)
    hdr = "impl %s for %s" % (trait, ty)
    for h, it in rl.find_blocks(impl_file, src):
        if h == hdr:
            try:
                rl.find_fn(impl_file, src, it, fn)
                return impl_file, hdr, "override"
            except rl.LostAnchor:
                return trait_file, "trait " + trait, "default"
    raise rl.LostAnchor("%s: `%s` not found" % (impl_file, hdr))


ESC_DEFAULT_PROOF = r'''proof {
    reveal_strlit("\\\\"); reveal_strlit("\\\""); reveal_strlit("\\'"); reveal_strlit("\\0"); reveal_strlit("\\b");
    reveal_strlit("\\t"); reveal_strlit("\\n"); reveal_strlit("\\r");
    reveal_with_fuel(chain_k, 10);
    assert("\\\\"@ =~= seq!['\\', '\\']); assert("\\\""@ =~= seq!['\\', '"']); assert("\\'"@ =~= seq!['\\', '\'']);
    assert("\\0"@ =~= seq!['\\', '0']); assert("\\b"@ =~= seq!['\\', 'b']); assert("\\t"@ =~= seq!['\\', 't']);
    assert("\\n"@ =~= seq!['\\', 'n']); assert("\\r"@ =~= seq!['\\', 'r']);
    assert(r_@ == chain_k(string@, CHAIN_LEN));
    lemma_chain_is_map(string@);
    lemma_unesc_esc(Seq::<char>::empty(), string@, Seq::<char>::empty());
    assert(Seq::<char>::empty() + esc_map(string@) == esc_map(string@));
    assert(Seq::<char>::empty() + string@ == string@);
}'''

UNESC_LOOP = '''invariant
    it.index@ <= string@.len(),
    unesc_from(string@, it.index@ as int, escape, output@) == unesc_default(string@),'''


C03_SHIMS = r'''
// R-strfn (trusted): std::str::from_utf8(&[b]).unwrap() yields the one-character string of an ASCII byte and
// PANICS for b >= 0x80 (a lone byte >= 0x80 is never valid UTF-8) - hence the precondition.
#[verifier::external_body]
fn vstr_from_utf8_1(b: u8) -> (r: String)
    requires b < 0x80,
    ensures r@ == seq![b as char],
{ std::str::from_utf8(&[b]).unwrap().to_owned() }
// `c as u8` on a char truncates to the low 8 bits
#[verifier::external_body]
fn vchar_as_u8(c: char) -> (r: u8)
    ensures r as int == (c as u32 as int) % 256,
{ c as u8 }
'''

ALLTYPES_SHIMS = r'''
// ---- optional value types (variant alltypes): opaque payloads ------------------------------------------------------------------
// TRUSTED: the Display / format(..) text of a date, time, timestamp, uuid, IP network or MAC address is PLAIN: it consists of digits,
// letters and `-`, `:`, `.`, ` `, `+`, `/` - in particular no quote, no backslash, no control character (plain_text).  Json's text is
// ARBITRARY (object keys and strings are user data): its arm must go through the string-literal writer.
pub open spec fn plain_char(c: char) -> bool { esc1(c) == seq![c] && c != '\'' }
pub open spec fn plain_text(t: Seq<char>) -> bool { forall|i: int| 0 <= i < t.len() ==> plain_char(#[trigger] t[i]) }
pub proof fn lemma_plain_maps(t: Seq<char>)
    requires plain_text(t)
    ensures esc_map(t) == t, dbl_map(t) == t, !t.contains('\0'), !t.contains('\\')
    decreases t.len()
{
    if t.len() > 0 {
        assert(plain_char(t[0]));
        assert forall|i: int| 0 <= i < t.drop_first().len() implies plain_char(#[trigger] t.drop_first()[i]) by { assert(t.drop_first()[i] == t[i + 1]); }
        lemma_plain_maps(t.drop_first());
        assert(seq![t[0]] + t.drop_first() =~= t);
        assert(esc_map(t) =~= t);
        assert(dbl_map(t) =~= t) by { reveal_with_fuel(replace_char, 2); }
    } else { assert(dbl_map(t) =~= t); }
    assert forall|i: int| 0 <= i < t.len() implies t[i] != '\0' && t[i] != '\\' by { assert(plain_char(t[i])); }
}
// 'text' of a plain text is ONE string literal of every engine, decoding to the text
pub proof fn lemma_plain_lits(t: Seq<char>)
    requires plain_text(t)
    ensures is_mysql_lit(seq!['\''] + t + seq!['\''], t), is_pg_lit(seq!['\''] + t + seq!['\''], t), is_sqlite_lit(seq!['\''] + t + seq!['\''], t)
{
    lemma_plain_maps(t);
    lemma_is_mysql_lit(t);
    lemma_is_sqlite_lit(t);
    lemma_is_pg_lit(t);
    assert(pg_lit_of(t) == seq!['\''] + t + seq!['\'']);
}
pub enum VTimeFmt { DATE, TIME, DATETIME, DATETIME_TZ }
#[derive(Debug)]
pub struct VFmtErr;
@@OPAQUE@@
impl<T: VDisp> VDisp for Box<T> {
    open spec fn disp(&self) -> Seq<char> { (**self).disp() }
    fn vdisp(&self) -> (r: String) { (**self).vdisp() }
}
// chrono: `v.format("%Y-%m-%d ..")` (a DelayedFormat whose Display is the formatted text): the text, PLAIN (trusted, see above)
pub uninterp spec fn sp_chrono_text<T>(v: T, f: Seq<char>) -> Seq<char>;
pub trait VChronoFormat: Sized { fn format(&self, f: &str) -> (r: String) ensures r@ == sp_chrono_text(*self, f@), plain_text(r@); }
@@CHRONO@@
// time: `v.format(FORMAT_..).unwrap()`: formatting with the crate's own descriptions succeeds; the text is PLAIN (trusted)
pub uninterp spec fn sp_time_text<T>(v: T, f: VTimeFmt) -> Seq<char>;
pub trait VTimeFormat: Sized { fn format(&self, f: VTimeFmt) -> (r: Result<String, VFmtErr>) ensures r is Ok, r->Ok_0@ == sp_time_text(*self, f), plain_text(r->Ok_0@); }
@@TIME@@
// Display of uuid / ip network / mac address: PLAIN (trusted)
#[verifier::external_body] pub proof fn ax_plain_uuid(v: Uuid) ensures plain_text(v.disp()) {}
#[verifier::external_body] pub proof fn ax_plain_ipnetwork(v: IpNetwork) ensures plain_text(v.disp()) {}
#[verifier::external_body] pub proof fn ax_plain_mac(v: MacAddress) ensures plain_text(v.disp()) {}
'''

_OPQ = ["Json", "NaiveDate", "NaiveTime", "NaiveDateTime", "DateTimeUtc", "DateTimeLocal", "DateTimeFixedOffset", "TimeDate", "TimeTime", "PrimitiveDateTime", "OffsetDateTime",
        "Uuid", "Decimal", "BigDecimal", "IpNetwork", "MacAddress"]
ALLTYPES_SHIMS = ALLTYPES_SHIMS.replace("@@OPAQUE@@", "".join(
    "#[verifier::external_body] pub struct %s { _o: u8 }\nimpl VDisp for %s {\n    uninterp spec fn disp(&self) -> Seq<char>;\n    #[verifier::external_body] fn vdisp(&self) -> (r: String) { unimplemented!() }\n}\n" % (t, t) for t in _OPQ))
ALLTYPES_SHIMS = ALLTYPES_SHIMS.replace("@@CHRONO@@", "".join(
    "impl VChronoFormat for %s { #[verifier::external_body] fn format(&self, f: &str) -> (r: String) { unimplemented!() } }\n" % t for t in _OPQ[1:7]))
ALLTYPES_SHIMS = ALLTYPES_SHIMS.replace("@@TIME@@", "".join(
    "impl VTimeFormat for %s { #[verifier::external_body] fn format(&self, f: VTimeFmt) -> (r: Result<String, VFmtErr>) { unimplemented!() } }\n" % t for t in _OPQ[7:11]))

LIT = {"MysqlQueryBuilder": "is_mysql_lit", "PostgresQueryBuilder": "is_pg_lit", "SqliteQueryBuilder": "is_sqlite_lit"}
NUL_OK = {"MysqlQueryBuilder": True, "PostgresQueryBuilder": False, "SqliteQueryBuilder": False}
BLOB = {"MysqlQueryBuilder": "is_x_blob_lit", "PostgresQueryBuilder": "is_pg_bytea_lit", "SqliteQueryBuilder": "is_x_blob_lit"}

APPENDED = "final(%(b)s)@.len() >= old(%(b)s)@.len(), final(%(b)s)@.subrange(0, old(%(b)s)@.len() as int) == old(%(b)s)@,"
NEWPART = "final(%(b)s)@.subrange(old(%(b)s)@.len() as int, final(%(b)s)@.len() as int)"


def lit_clause(ty, text, value):
    g = "" if NUL_OK[ty] else "!%s.contains('\\0') ==> " % value
    return "%s%s(%s, %s)" % (g, LIT[ty], text, value)


def build_c03(u, ty, files):
    # C02: the inline form is the parameterised form with each placeholder replaced by the backend's LITERAL for the bound value: that the
    # text written inline denotes the value is these same obligations
    P = ["C03", "C02"]
    # ---- write_string_quoted -------------------------------------------------------------------
    path, blk, how = resolve(u, "QueryBuilder", ty, "write_string_quoted", QB, files["query"])
    key = "%s::write_string_quoted[%s]" % (ty, how)
    spec = "ensures " + APPENDED % {"b": "buffer"} + "\n    " + lit_clause(ty, NEWPART % {"b": "buffer"}, "string@") + ","
    if how == "default":
        mapname = "dbl_map" if ty == "SqliteQueryBuilder" else "esc_map"
        lemma = {"MysqlQueryBuilder": "lemma_is_mysql_lit(s0);", "SqliteQueryBuilder": "if !s0.contains('\\0') { lemma_is_sqlite_lit(s0); }"}[ty]
        u.fn(path, blk, "write_string_quoted", rules=[r_fmt, r_unit_tail], key=key, vpath=ty + "::write_string_quoted", props=P, spec=spec,
             proofs={"body-start": "let ghost s0 = string@; let ghost b0 = buffer@;",
                     "body-end": 'proof { reveal_strlit("\'"); assert("\'"@ =~= seq![\'\\\'\']); %s\n assert(buffer@ =~= b0 + (seq![\'\\\'\'] + %s(s0) + seq![\'\\\'\']));\n assert(buffer@.subrange(b0.len() as int, buffer@.len() as int) =~= seq![\'\\\'\'] + %s(s0) + seq![\'\\\'\']); }' % (lemma, mapname, mapname)})
    else:
        # Postgres override: E'..' when the escaped text contains a backslash, plain '..' otherwise
        u.fn(path, blk, "write_string_quoted", key=key, vpath=ty + "::write_string_quoted", props=P, spec=spec,
             rules=[make_r_sub("R-strfn", FIND_RX, r_find_some),
                    make_r_sub("R-strfn", r'"(E?\')"\.to_owned\(\) \+ &escaped \+ "\'"', lambda m: 'vstr_concat3("%s", &escaped, "\'")' % m.group(1), min_count=2),
                    r_fmt, r_unit_tail],
             proofs={"body-start": "let ghost s0 = string@; let ghost b0 = buffer@;",
                     "body-end": '''proof {
    reveal_strlit("'"); reveal_strlit("E'");
    assert("'"@ =~= seq!['\\'']); assert("E'"@ =~= seq!['E', '\\'']);
    assert(buffer@ =~= b0 + string@);
    assert(buffer@.subrange(b0.len() as int, buffer@.len() as int) =~= string@);
    if !s0.contains('\\0') { lemma_is_pg_lit(s0); }
}'''})
    # ---- write_bytes ----------------------------------------------------------------------------
    path, blk, how = resolve(u, "QueryBuilder", ty, "write_bytes", QB, files["query"])
    key = "%s::write_bytes[%s]" % (ty, how)
    spec = "ensures " + APPENDED % {"b": "buffer"} + "\n    %s(%s, bytes@)," % (BLOB[ty], NEWPART % {"b": "buffer"})
    pre = {"default": "seq!['x', '\\'']", "override": "seq!['\\'', '\\\\', 'x']"}[how]
    lemma = "lemma_is_x_blob_lit(bytes@);" if BLOB[ty] == "is_x_blob_lit" else "lemma_is_pg_bytea_lit(bytes@);"
    u.fn(path, blk, "write_bytes", key=key, vpath=ty + "::write_bytes", props=P, spec=spec,
         rules=[r_fmt, make_r_sub("R-forghost", r"for b in bytes \{", "for b in it: bytes {")],
         loops=["invariant it.index@ <= bytes@.len(), buffer@ == b0 + %s + hex_all(bytes@.subrange(0, it.index@ as int))," % pre],
         proofs={"body-start": "let ghost b0 = buffer@;",
                 "before#1:for b in": 'proof { reveal_strlit("x\'"); reveal_strlit("\'\\\\x"); reveal_strlit("\'"); assert("x\'"@ =~= seq![\'x\', \'\\\'\']); assert("\'\\\\x"@ =~= seq![\'\\\'\', \'\\\\\', \'x\']); assert("\'"@ =~= seq![\'\\\'\']); assert(bytes@.subrange(0, 0) =~= Seq::<u8>::empty()); assert(buffer@ =~= b0 + %s + hex_all(bytes@.subrange(0, 0))); }' % pre,
                 "loop1-end": "proof { assert(bytes@.subrange(0, it.index@ + 1).drop_last() =~= bytes@.subrange(0, it.index@ as int)); assert(bytes@.subrange(0, it.index@ + 1).last() == *b); assert(buffer@ =~= b0 + %s + hex_all(bytes@.subrange(0, it.index@ + 1))); }" % pre,
                 "body-end": "proof { assert(bytes@.subrange(0, bytes@.len() as int) =~= bytes@); %s\n assert(buffer@ =~= b0 + (%s + hex_all(bytes@) + seq!['\\''])); assert(buffer@.subrange(b0.len() as int, buffer@.len() as int) =~= %s + hex_all(bytes@) + seq!['\\'']); }" % (lemma, pre, pre)})
    # ---- value_to_string_common (text / char / bytes arms carry C03) --------------------------------
    path, blk, how = resolve(u, "QueryBuilder", ty, "value_to_string_common", QB, files["query"])
    key = "%s::value_to_string_common[%s]" % (ty, how)
    extra_rules, extra_spec, extra_proof = [], "", ""
    if getattr(u, "alltypes", False):
        extra_rules = [make_r_sub("R-path", r"time_format::FORMAT_([A-Z_]+)", r"VTimeFmt::\1", min_count=0)]
        g = "" if NUL_OK[ty] else "!j.disp().contains('\\0') ==> "
        # Json: arbitrary text -> the literal of the text (through the string-literal writer); dates / times / uuid / network values: 'text' of a PLAIN text
        extra_spec = "\n    *v matches Value::Json(Some(j)) ==> %s%s(r@, j.disp())," % (g, LIT[ty])
        plain = [("ChronoDate", 'sp_chrono_text(**x, "%Y-%m-%d"@)'), ("ChronoTime", 'sp_chrono_text(**x, "%H:%M:%S"@)'), ("ChronoDateTime", 'sp_chrono_text(**x, "%Y-%m-%d %H:%M:%S"@)'),
                 ("ChronoDateTimeUtc", 'sp_chrono_text(**x, "%Y-%m-%d %H:%M:%S %:z"@)'), ("ChronoDateTimeLocal", 'sp_chrono_text(**x, "%Y-%m-%d %H:%M:%S %:z"@)'),
                 ("ChronoDateTimeWithTimeZone", 'sp_chrono_text(**x, "%Y-%m-%d %H:%M:%S %:z"@)'),
                 ("TimeDate", "sp_time_text(**x, VTimeFmt::DATE)"), ("TimeTime", "sp_time_text(**x, VTimeFmt::TIME)"), ("TimeDateTime", "sp_time_text(**x, VTimeFmt::DATETIME)"),
                 ("TimeDateTimeWithTimeZone", "sp_time_text(**x, VTimeFmt::DATETIME_TZ)"), ("Uuid", "x.disp()"), ("IpNetwork", "x.disp()"), ("MacAddress", "x.disp()")]
        for var, txt in plain:
            extra_spec += "\n    *v matches Value::%s(Some(x)) ==> %s(r@, %s)," % (var, LIT[ty], txt.replace("**x", "*x"))
        arms = "".join("Value::%s(Some(x)) => { %slemma_plain_lits(%s); assert(s@ =~= seq!['\\''] + %s + seq!['\\'']); }\n        " % (
            var, {"Uuid": "ax_plain_uuid(**x); ", "IpNetwork": "ax_plain_ipnetwork(**x); ", "MacAddress": "ax_plain_mac(**x); "}.get(var, ""), txt, txt) for var, txt in plain)
        extra_proof = ' reveal_strlit("\'"); assert("\'"@ =~= seq![\'\\\'\']); match v { %s_ => {} }' % arms
    u.fn(path, blk, "value_to_string_common", ret="r", key=key, vpath=ty + "::value_to_string_common", props=P,
         rules=[make_r_fmt(wmap=lambda w: "&mut " + w),
                make_r_sub("R-strfn", r"std::str::from_utf8\(&\[\*v as u8\]\)\.unwrap\(\)", "vstr_from_utf8_1(vchar_as_u8(*v)).as_str()", min_count=0),
                make_r_sub("R-strfn", r"&v\.to_string\(\)", "v.vdisp().as_str()", min_count=0)] + extra_rules,
         spec="ensures\n    *v matches Value::String(Some(x)) ==> %s,\n    *v matches Value::Char(Some(c)) ==> %s,\n    *v matches Value::Bytes(Some(b)) ==> %s(r@, b@),%s" % (
             lit_clause(ty, "r@", "x@"), lit_clause(ty, "r@", "seq![c]"), BLOB[ty], extra_spec),
         proofs={"after#1:};": "proof { assert(s@.subrange(0, s@.len() as int) =~= s@);%s }" % extra_proof})
    path, blk, how = resolve(u, "QueryBuilder", ty, "value_to_string", QB, files["query"])
    key = "%s::value_to_string[%s]" % (ty, how)
    u.fn(path, blk, "value_to_string", ret="r", key=key, vpath=ty + "::value_to_string", props=P,
         spec="ensures\n    *v matches Value::String(Some(x)) ==> %s,\n    *v matches Value::Char(Some(c)) ==> %s,\n    *v matches Value::Bytes(Some(b)) ==> %s(r@, b@),%s" % (
             lit_clause(ty, "r@", "x@"), lit_clause(ty, "r@", "seq![c]"), BLOB[ty], extra_spec))

    # ---- prepare_constant: the inline position used by constants, LIKE ESCAPE, DEFAULT ... ------------
    path, blk, how = resolve(u, "QueryBuilder", ty, "prepare_constant", QB, files["query"])
    key = "%s::prepare_constant[%s]" % (ty, how)
    WT = {"b": "sql"}
    wapp = "final(sql).text().len() >= old(sql).text().len(), final(sql).text().subrange(0, old(sql).text().len() as int) == old(sql).text(),"
    wnew = "final(sql).text().subrange(old(sql).text().len() as int, final(sql).text().len() as int)"
    u.fn(path, blk, "prepare_constant", key=key, vpath=ty + "::prepare_constant", props=P,
         rules=[r_dynw, make_r_fmt(wmap=lambda w: w), r_unit_tail],
         spec="ensures " + wapp + "\n    *value matches Value::String(Some(x)) ==> %s,\n    *value matches Value::Char(Some(c)) ==> %s,\n    *value matches Value::Bytes(Some(b)) ==> %s(%s, b@)," % (
             lit_clause(ty, wnew, "x@"), lit_clause(ty, wnew, "seq![c]"), BLOB[ty], wnew),
         proofs={"body-start": "let ghost t0 = sql.text();",
                 "body-end": "proof { assert(sql.text().subrange(t0.len() as int, sql.text().len() as int) =~= string@); assert(sql.text().subrange(0, t0.len() as int) =~= t0); }"})
    if ty == "MysqlQueryBuilder":
        # MySQL column COMMENT '...' (src/backend/mysql/table.rs)
        u.fn("src/backend/mysql/table.rs", "impl TableBuilder for MysqlQueryBuilder", "column_comment", key="MysqlQueryBuilder::column_comment",
             vpath=ty + "::column_comment", props=P,
             rules=[r_dynw, make_r_fmt(wmap=lambda w: w), r_unit_tail],
             spec="ensures final(sql).text().len() >= old(sql).text().len() as int + 8,\n    final(sql).text().subrange(0, old(sql).text().len() as int) == old(sql).text(),\n    final(sql).text().subrange(old(sql).text().len() as int, old(sql).text().len() as int + 8) == seq!['C', 'O', 'M', 'M', 'E', 'N', 'T', ' '],\n    is_mysql_lit(final(sql).text().subrange(old(sql).text().len() as int + 8, final(sql).text().len() as int), comment@),",
             proofs={"body-start": "let ghost t0 = sql.text(); let ghost c0 = comment@;",
                     "body-end": '''proof {
    reveal_strlit("COMMENT '"); reveal_strlit("'");
    assert("COMMENT '"@ =~= seq!['C', 'O', 'M', 'M', 'E', 'N', 'T', ' ', '\\'']); assert("'"@ =~= seq!['\\'']);
    lemma_is_mysql_lit(c0);
    assert(sql.text() =~= t0 + seq!['C', 'O', 'M', 'M', 'E', 'N', 'T', ' '] + (seq!['\\''] + esc_map(c0) + seq!['\\'']));
    assert(sql.text().subrange(t0.len() as int + 8, sql.text().len() as int) =~= seq!['\\''] + esc_map(c0) + seq!['\\'']);
    assert(sql.text().subrange(t0.len() as int, t0.len() as int + 8) =~= seq!['C', 'O', 'M', 'M', 'E', 'N', 'T', ' ']);
    assert(sql.text().subrange(0, t0.len() as int) =~= t0);
}'''})


ALLTYPES = ["with-json", "with-chrono", "with-time", "with-uuid", "with-rust_decimal", "with-bigdecimal", "with-ipnetwork", "with-mac_address"]


def build(u, variant=None):
    """variant `alltypes`: the same unit with every optional value-type feature switched on (postgres-array / postgres-vector stay off:
    their arms use iterator adapters / float formatting): value_to_string_common's arms for Json, chrono, time, uuid, network values
    carry C03 as well."""
    u.alltypes = variant == "alltypes"
    if u.alltypes:
        u.features = set(u.features) | set(ALLTYPES)
    u.emit("use vstd::prelude::*;\nverus! {\n")
    u.prelude_file("vlib/prelude/vfmt.rs")
    u.prelude_file("vlib/prelude/vstr.rs")
    u.prelude_file("units/escape/spec.rs", props=["C17", "C03"])
    for ty in BACKENDS:
        u.emit("pub struct %s;\n" % ty)
    if u.alltypes:
        u.spec(ALLTYPES_SHIMS, "escape::alltypes-shims", props=["C03"])
    u.type_item("src/value.rs", "enum", "Value", props=["C03"], rules=[make_r_sub("R-path", r"DateTime<(Utc|Local|FixedOffset)>", r"DateTime\1", min_count=0), make_r_sub("R-path", r"time::(Date|Time)\b", r"Time\1", min_count=0)])
    u.spec(C03_SHIMS, "escape::c03-shims", props=["C03"])

    for ty, files in BACKENDS.items():
        u.emit("impl %s {\n" % ty)
        # ---- escape_string -----------------------------------------------------------------
        path, blk, how = resolve(u, "EscapeBuilder", ty, "escape_string", MOD, files["escape"])
        key = "%s::escape_string[%s]" % (ty, how)
        if ty == "SqliteQueryBuilder":
            u.fn(path, blk, "escape_string", ret="r", rules=[r_replace_c, r_tail], key=key, vpath=ty + "::escape_string",
                 props=["C17", "C03"],
                 spec=[("ensures", ["C17", "C03"]),
                       ("    replace_pair(r@, '\\'', '\\'', seq!['\\'']) == string@,   // C17: the SQLite unescape undoes it", ["C17"]),
                       ("    r@ == dbl_map(string@),", ["C03"])],
                 proofs={"before#1:r_\n": 'proof { reveal_strlit("\'\'"); assert("\'\'"@ =~= seq![\'\\\'\', \'\\\'\']); lemma_sqlite_roundtrip(string@); }'})
        else:
            u.fn(path, blk, "escape_string", ret="r", rules=[r_replace_c, r_tail], key=key, vpath=ty + "::escape_string",
                 props=["C17", "C03"],
                 spec=[("ensures", ["C17", "C03"]),
                       ("    unesc_default(r@) == string@,   // C17: the default unescape undoes it", ["C17"]),
                       ("    r@ == esc_map(string@),", ["C03"])],
                 proofs={"before#1:r_\n": ESC_DEFAULT_PROOF})
        # ---- unescape_string ---------------------------------------------------------------
        path, blk, how = resolve(u, "EscapeBuilder", ty, "unescape_string", MOD, files["escape"])
        key = "%s::unescape_string[%s]" % (ty, how)
        if ty == "SqliteQueryBuilder":
            u.fn(path, blk, "unescape_string", ret="r", rules=[r_replace_s2], key=key, vpath=ty + "::unescape_string",
                 props=["C17"],
                 spec="ensures r@ == replace_pair(string@, '\\'', '\\'', seq!['\\'']),",
                 proofs={"body-start": 'proof { reveal_strlit("\'\'"); reveal_strlit("\'"); assert("\'\'"@ =~= seq![\'\\\'\', \'\\\'\']); assert("\'"@ =~= seq![\'\\\'\']); }'})
        else:
            u.fn(path, blk, "unescape_string", ret="r", rules=[r_fmt,
                     make_r_sub("R-forghost", r"for c in string\.chars\(\)", "for c in it: string.chars()")],
                 key=key, vpath=ty + "::unescape_string", props=["C17"],
                 spec="ensures r@ == unesc_default(string@),",
                 loops=[UNESC_LOOP],
                 proofs={"loop1-start": "let ghost out0 = output@; let ghost esc0 = escape;",
                         "loop1-end": "proof { if !esc0 && c == '\\\\' {} else if esc0 { assert(output@ =~= out0.push(unesc1(c))); } else { assert(output@ =~= out0.push(c)); } }"})
        # ---- the C17 theorem for this backend: two contracts compose --------------------------
        u.spec('''    // C17 for %s: unescape_string(escape_string(s)) == s, for every s (composition of the two contracts)
    pub fn roundtrip(&self, s: &str) -> (r: String)
        ensures r@ == s@
    {
        let e = self.escape_string(s);
        self.unescape_string(e.as_str())
    }
''' % ty, "escape::roundtrip[%s]" % ty, props=["C17"])
        build_c03(u, ty, files)
        u.emit("}\n")
    u.emit("} // verus!\nfn main() {}\n")
