// =============================================================================================
// unit `escape` - specification (hand-written).  Oracles are the engines' lexical rules, written
// from the manuals, NOT from the crate's unescape_string:
//   MySQL 8.0 Reference Manual 11.1.1 "String Literals" (Table 11.1 special character escapes),
//   PostgreSQL 16 manual 4.1.2.1 / 4.1.2.2 (string constants, C-style escapes), 8.4.1 (bytea hex),
//   SQLite "SQL As Understood By SQLite - Literal Values" (string: '' doubling; blob: x'hex').
// =============================================================================================

// ---- the per-character escape table of the default escape_string (intermediate abstraction) ----
pub open spec fn esc1(c: char) -> Seq<char> {
    if c == '\\' { seq!['\\', '\\'] }
    else if c == '"' { seq!['\\', '"'] }
    else if c == '\'' { seq!['\\', '\''] }
    else if c == '\0' { seq!['\\', '0'] }
    else if c == '\x08' { seq!['\\', 'b'] }
    else if c == '\x09' { seq!['\\', 't'] }
    else if c == '\n' { seq!['\\', 'n'] }
    else if c == '\r' { seq!['\\', 'r'] }
    else { seq![c] }
}
pub open spec fn esc_map(s: Seq<char>) -> Seq<char>
    decreases s.len()
{ if s.len() == 0 { s } else { esc1(s[0]) + esc_map(s.drop_first()) } }

pub proof fn lemma_esc_map_concat(a: Seq<char>, b: Seq<char>)
    ensures esc_map(a + b) == esc_map(a) + esc_map(b)
    decreases a.len()
{
    if a.len() == 0 { assert(a + b == b); }
    else { assert((a + b).drop_first() == a.drop_first() + b); lemma_esc_map_concat(a.drop_first(), b); }
}

// ---- C17: specification of the default unescape_string as a state machine -----------------------
pub open spec fn unesc1(c: char) -> char {
    if c == '0' { '\0' } else if c == 'b' { '\x08' } else if c == 't' { '\x09' } else if c == 'z' { '\x1a' }
    else if c == 'n' { '\n' } else if c == 'r' { '\r' } else { c }
}
pub open spec fn unesc_from(s: Seq<char>, i: int, escape: bool, out: Seq<char>) -> Seq<char>
    decreases s.len() - i
{
    if i < 0 || i >= s.len() { out }
    else if !escape && s[i] == '\\' { unesc_from(s, i + 1, true, out) }
    else if escape { unesc_from(s, i + 1, false, out.push(unesc1(s[i]))) }
    else { unesc_from(s, i + 1, false, out.push(s[i])) }
}
pub open spec fn unesc_default(s: Seq<char>) -> Seq<char> { unesc_from(s, 0, false, Seq::<char>::empty()) }

pub proof fn lemma_unesc_esc(pre: Seq<char>, s: Seq<char>, out: Seq<char>)
    ensures unesc_from(pre + esc_map(s), pre.len() as int, false, out) == out + s
    decreases s.len()
{
    let t = pre + esc_map(s);
    let p = pre.len() as int;
    reveal_with_fuel(unesc_from, 3);
    if s.len() == 0 {
        assert(out + s == out);
    } else {
        let c = s[0];
        let e = esc1(c);
        let pre2 = pre + e;
        assert(pre2 + esc_map(s.drop_first()) == t);
        assert(forall|k: int| 0 <= k < e.len() ==> t[p + k] == e[k]);
        lemma_unesc_esc(pre2, s.drop_first(), out.push(c));
        assert(out.push(c) + s.drop_first() == out + s);
        if e.len() == 2 {
            assert(t[p] == '\\');
            assert(unesc1(t[p + 1]) == c);
        } else {
            assert(t[p] == c);
        }
    }
}

// ---- C17: SQLite, quote doubling ------------------------------------------------------------------
pub open spec fn dbl_map(s: Seq<char>) -> Seq<char> { replace_char(s, '\'', seq!['\'', '\'']) }
pub proof fn lemma_sqlite_roundtrip(s: Seq<char>)
    ensures replace_pair(dbl_map(s), '\'', '\'', seq!['\'']) == s
    decreases s.len()
{
    if s.len() > 0 {
        let d = dbl_map(s);
        let rest = dbl_map(s.drop_first());
        lemma_sqlite_roundtrip(s.drop_first());
        if s[0] == '\'' {
            assert(d == seq!['\'', '\''] + rest);
            assert(d.subrange(2, d.len() as int) == rest);
            assert(seq!['\''] + s.drop_first() == s);
        } else {
            assert(d == seq![s[0]] + rest);
            assert(d.drop_first() == rest);
            assert(seq![s[0]] + s.drop_first() == s);
        }
    }
}

// ---- C03 oracle: MySQL string literal -----------------------------------------------------------------
// Table 11.1: \0 \' \" \b \n \r \t \Z \\ ; \% and \_ keep the backslash; any other \x is x.
pub open spec fn mysql_unesc(c: char) -> Seq<char> {
    if c == '0' { seq!['\0'] } else if c == '\'' { seq!['\''] } else if c == '"' { seq!['"'] }
    else if c == 'b' { seq!['\x08'] } else if c == 'n' { seq!['\n'] } else if c == 'r' { seq!['\r'] }
    else if c == 't' { seq!['\x09'] } else if c == 'Z' { seq!['\x1a'] } else if c == '\\' { seq!['\\'] }
    else if c == '%' { seq!['\\', '%'] } else if c == '_' { seq!['\\', '_'] } else { seq![c] }
}
// body of a '...' literal from index i (opening quote consumed); returns (decoded value, index after the closing quote)
pub open spec fn mysql_body(t: Seq<char>, i: int, acc: Seq<char>) -> Option<(Seq<char>, int)>
    decreases t.len() - i
{
    if i < 0 || i >= t.len() { None }
    else if t[i] == '\\' { if i + 1 >= t.len() { None } else { mysql_body(t, i + 2, acc + mysql_unesc(t[i + 1])) } }
    else if t[i] == '\'' { if i + 1 < t.len() && t[i + 1] == '\'' { mysql_body(t, i + 2, acc.push('\'')) } else { Some((acc, i + 1)) } }
    else { mysql_body(t, i + 1, acc.push(t[i])) }
}
pub open spec fn mysql_string_lit(t: Seq<char>) -> Option<(Seq<char>, int)> {
    if t.len() > 0 && t[0] == '\'' { mysql_body(t, 1, Seq::<char>::empty()) } else { None }
}
pub open spec fn no_quote_next(rest: Seq<char>) -> bool { rest.len() == 0 || rest[0] != '\'' }
// `lit` is ONE MySQL string-literal token decoding to exactly v, whatever follows (unless a quote follows)
pub open spec fn is_mysql_lit(lit: Seq<char>, v: Seq<char>) -> bool {
    forall|rest: Seq<char>| no_quote_next(rest) ==> #[trigger] mysql_string_lit(lit + rest) == Some((v, lit.len() as int))
}

pub proof fn lemma_mysql_body(pre: Seq<char>, s: Seq<char>, rest: Seq<char>, acc: Seq<char>)
    requires no_quote_next(rest)
    ensures mysql_body(pre + esc_map(s) + seq!['\''] + rest, pre.len() as int, acc)
            == Some((acc + s, (pre.len() + esc_map(s).len() + 1) as int))
    decreases s.len()
{
    let t = pre + esc_map(s) + seq!['\''] + rest;
    let p = pre.len() as int;
    if s.len() == 0 {
        assert(acc + s == acc);
        assert(t[p] == '\'');
        if rest.len() > 0 { assert(t[p + 1] == rest[0]); }
    } else {
        let c = s[0];
        let e = esc1(c);
        let pre2 = pre + e;
        assert(pre2 + esc_map(s.drop_first()) + seq!['\''] + rest == t);
        assert(forall|k: int| 0 <= k < e.len() ==> t[p + k] == e[k]);
        assert(acc.push(c) + s.drop_first() == acc + s);
        assert(acc + seq![c] == acc.push(c));
        lemma_mysql_body(pre2, s.drop_first(), rest, acc.push(c));
        if e.len() == 2 {
            assert(t[p] == '\\');
            assert(mysql_unesc(t[p + 1]) == seq![c]);
        } else {
            assert(t[p] == c);
        }
    }
}
pub proof fn lemma_is_mysql_lit(s: Seq<char>)
    ensures is_mysql_lit(seq!['\''] + esc_map(s) + seq!['\''], s)
{
    let lit = seq!['\''] + esc_map(s) + seq!['\''];
    assert forall|rest: Seq<char>| no_quote_next(rest) implies #[trigger] mysql_string_lit(lit + rest) == Some((s, lit.len() as int)) by {
        lemma_mysql_body(seq!['\''], s, rest, Seq::<char>::empty());
        assert(seq!['\''] + esc_map(s) + seq!['\''] + rest == lit + rest);
        assert(Seq::<char>::empty() + s == s);
        assert((lit + rest)[0] == '\'');
    }
}

// ---- C03 oracle: PostgreSQL string constants ------------------------------------------------------------
// 4.1.2.2: in E'...' \b \f \n \r \t, octal \o \oo \ooo, \xh \xhh, \uXXXX, \UXXXXXXXX; "Any other
// character following a backslash is taken literally"; '' is one quote.  Octal / hex / unicode escapes
// are left uninterpreted: the writer never emits them for NUL-free input, and the proof shows it.
pub uninterp spec fn pg_complex_escape(t: Seq<char>, i: int, acc: Seq<char>) -> Option<(Seq<char>, int)>;
pub open spec fn pg_is_complex(c: char) -> bool { ('0' <= c && c <= '7') || c == 'x' || c == 'u' || c == 'U' }
pub open spec fn pg_unesc(c: char) -> char {
    if c == 'b' { '\x08' } else if c == 'f' { '\x0c' } else if c == 'n' { '\n' } else if c == 'r' { '\r' } else if c == 't' { '\x09' } else { c }
}
pub open spec fn pg_e_body(t: Seq<char>, i: int, acc: Seq<char>) -> Option<(Seq<char>, int)>
    decreases t.len() - i
{
    if i < 0 || i >= t.len() { None }
    else if t[i] == '\\' {
        if i + 1 >= t.len() { None }
        else if pg_is_complex(t[i + 1]) { pg_complex_escape(t, i, acc) }
        else { pg_e_body(t, i + 2, acc.push(pg_unesc(t[i + 1]))) }
    }
    else if t[i] == '\'' { if i + 1 < t.len() && t[i + 1] == '\'' { pg_e_body(t, i + 2, acc.push('\'')) } else { Some((acc, i + 1)) } }
    else { pg_e_body(t, i + 1, acc.push(t[i])) }
}
// standard-conforming '...' (Postgres default since 9.1) and SQLite: only '' is special
pub open spec fn plain_body(t: Seq<char>, i: int, acc: Seq<char>) -> Option<(Seq<char>, int)>
    decreases t.len() - i
{
    if i < 0 || i >= t.len() { None }
    else if t[i] == '\'' { if i + 1 < t.len() && t[i + 1] == '\'' { plain_body(t, i + 2, acc.push('\'')) } else { Some((acc, i + 1)) } }
    else { plain_body(t, i + 1, acc.push(t[i])) }
}
pub open spec fn pg_string_lit(t: Seq<char>) -> Option<(Seq<char>, int)> {
    if t.len() > 1 && t[0] == 'E' && t[1] == '\'' { pg_e_body(t, 2, Seq::<char>::empty()) }
    else if t.len() > 0 && t[0] == '\'' { plain_body(t, 1, Seq::<char>::empty()) }
    else { None }
}
pub open spec fn sqlite_string_lit(t: Seq<char>) -> Option<(Seq<char>, int)> {
    if t.len() > 0 && t[0] == '\'' { plain_body(t, 1, Seq::<char>::empty()) } else { None }
}
pub open spec fn is_pg_lit(lit: Seq<char>, v: Seq<char>) -> bool {
    forall|rest: Seq<char>| no_quote_next(rest) ==> #[trigger] pg_string_lit(lit + rest) == Some((v, lit.len() as int))
}
pub open spec fn is_sqlite_lit(lit: Seq<char>, v: Seq<char>) -> bool {
    forall|rest: Seq<char>| no_quote_next(rest) ==> #[trigger] sqlite_string_lit(lit + rest) == Some((v, lit.len() as int))
}

pub proof fn lemma_pg_e_body(pre: Seq<char>, s: Seq<char>, rest: Seq<char>, acc: Seq<char>)
    requires no_quote_next(rest), !s.contains('\0'),
    ensures pg_e_body(pre + esc_map(s) + seq!['\''] + rest, pre.len() as int, acc)
            == Some((acc + s, (pre.len() + esc_map(s).len() + 1) as int))
    decreases s.len()
{
    let t = pre + esc_map(s) + seq!['\''] + rest;
    let p = pre.len() as int;
    if s.len() == 0 {
        assert(acc + s == acc);
        assert(t[p] == '\'');
        if rest.len() > 0 { assert(t[p + 1] == rest[0]); }
    } else {
        let c = s[0];
        let e = esc1(c);
        let pre2 = pre + e;
        assert(s.contains(c));
        assert forall|x: char| s.drop_first().contains(x) implies s.contains(x) by {
            let k = choose|k: int| 0 <= k < s.drop_first().len() && s.drop_first()[k] == x;
            assert(s[k + 1] == x);
        }
        assert(pre2 + esc_map(s.drop_first()) + seq!['\''] + rest == t);
        assert(forall|k: int| 0 <= k < e.len() ==> t[p + k] == e[k]);
        assert(acc.push(c) + s.drop_first() == acc + s);
        lemma_pg_e_body(pre2, s.drop_first(), rest, acc.push(c));
        if e.len() == 2 {
            assert(t[p] == '\\');
            assert(!pg_is_complex(t[p + 1]));
            assert(pg_unesc(t[p + 1]) == c);
        } else {
            assert(t[p] == c);
        }
    }
}
// if the escaped text has no backslash, nothing was escaped: s has no special character (in particular no quote)
pub proof fn lemma_no_backslash(s: Seq<char>)
    requires !esc_map(s).contains('\\')
    ensures esc_map(s) == s, !s.contains('\'')
    decreases s.len()
{
    if s.len() > 0 {
        let e = esc1(s[0]);
        let m = esc_map(s);
        assert(m == e + esc_map(s.drop_first()));
        assert(m[0] == e[0]);
        if e.len() == 2 { assert(m.contains('\\')); }
        assert forall|x: char| esc_map(s.drop_first()).contains(x) implies m.contains(x) by {
            let k = choose|k: int| 0 <= k < esc_map(s.drop_first()).len() && esc_map(s.drop_first())[k] == x;
            assert(m[e.len() + k] == x);
        }
        lemma_no_backslash(s.drop_first());
        assert(seq![s[0]] + s.drop_first() == s);
        if s.contains('\'') {
            let k = choose|k: int| 0 <= k < s.len() && s[k] == '\'';
            if k > 0 { assert(s.drop_first()[k - 1] == '\''); }
        }
    }
}
pub proof fn lemma_plain_body_noquote(pre: Seq<char>, s: Seq<char>, rest: Seq<char>, acc: Seq<char>)
    requires no_quote_next(rest), !s.contains('\''),
    ensures plain_body(pre + s + seq!['\''] + rest, pre.len() as int, acc) == Some((acc + s, (pre.len() + s.len() + 1) as int))
    decreases s.len()
{
    let t = pre + s + seq!['\''] + rest;
    let p = pre.len() as int;
    if s.len() == 0 {
        assert(acc + s == acc);
        assert(t[p] == '\'');
        if rest.len() > 0 { assert(t[p + 1] == rest[0]); }
    } else {
        assert(s.contains(s[0]));
        assert(t[p] == s[0]);
        assert forall|x: char| s.drop_first().contains(x) implies s.contains(x) by {
            let k = choose|k: int| 0 <= k < s.drop_first().len() && s.drop_first()[k] == x;
            assert(s[k + 1] == x);
        }
        assert(pre.push(s[0]) + s.drop_first() + seq!['\''] + rest == t);
        assert(acc.push(s[0]) + s.drop_first() == acc + s);
        lemma_plain_body_noquote(pre.push(s[0]), s.drop_first(), rest, acc.push(s[0]));
    }
}
// quote doubling under the plain lexer (SQLite)
pub proof fn lemma_plain_body_dbl(pre: Seq<char>, s: Seq<char>, rest: Seq<char>, acc: Seq<char>)
    requires no_quote_next(rest),
    ensures plain_body(pre + dbl_map(s) + seq!['\''] + rest, pre.len() as int, acc) == Some((acc + s, (pre.len() + dbl_map(s).len() + 1) as int))
    decreases s.len()
{
    let t = pre + dbl_map(s) + seq!['\''] + rest;
    let p = pre.len() as int;
    if s.len() == 0 {
        assert(acc + s == acc);
        assert(t[p] == '\'');
        if rest.len() > 0 { assert(t[p + 1] == rest[0]); }
    } else {
        let c = s[0];
        let e = rep1(c, '\'', seq!['\'', '\'']);
        let pre2 = pre + e;
        assert(dbl_map(s) == e + dbl_map(s.drop_first()));
        assert(pre2 + dbl_map(s.drop_first()) + seq!['\''] + rest == t);
        assert(forall|k: int| 0 <= k < e.len() ==> t[p + k] == e[k]);
        assert(acc.push(c) + s.drop_first() == acc + s);
        lemma_plain_body_dbl(pre2, s.drop_first(), rest, acc.push(c));
        if c == '\'' { assert(t[p] == '\'' && t[p + 1] == '\''); } else { assert(t[p] == c); }
    }
}

// ---- C03 oracle: binary literals -----------------------------------------------------------------------------
pub open spec fn hex_val(c: char) -> Option<int> {
    if '0' <= c && c <= '9' { Some(c as int - '0' as int) }
    else if 'A' <= c && c <= 'F' { Some(c as int - 'A' as int + 10) }
    else if 'a' <= c && c <= 'f' { Some(c as int - 'a' as int + 10) }
    else { None }
}
pub open spec fn hex_all(v: Seq<u8>) -> Seq<char>
    decreases v.len()
{ if v.len() == 0 { Seq::<char>::empty() } else { hex_all(v.drop_last()) + hex2(v.last()) } }
// x'HEX' (MySQL 11.1.4 hexadecimal literals, SQLite BLOB literals): pairs of hex digits up to the closing quote
pub open spec fn blob_body(t: Seq<char>, i: int, acc: Seq<u8>) -> Option<(Seq<u8>, int)>
    decreases t.len() - i
{
    if i < 0 || i >= t.len() { None }
    else if t[i] == '\'' { Some((acc, i + 1)) }
    else if i + 1 >= t.len() { None }
    else {
        match (hex_val(t[i]), hex_val(t[i + 1])) {
            (Some(h), Some(l)) => blob_body(t, i + 2, acc.push((h * 16 + l) as u8)),
            _ => None,
        }
    }
}
pub open spec fn x_blob_lit(t: Seq<char>) -> Option<(Seq<u8>, int)> {
    if t.len() > 1 && (t[0] == 'x' || t[0] == 'X') && t[1] == '\'' { blob_body(t, 2, Seq::<u8>::empty()) } else { None }
}
pub open spec fn is_x_blob_lit(lit: Seq<char>, v: Seq<u8>) -> bool {
    forall|rest: Seq<char>| #[trigger] x_blob_lit(lit + rest) == Some((v, lit.len() as int))
}
// Postgres: '\xHEX' is a plain string constant whose text is then read by bytea's hex input format
pub open spec fn bytea_hex_in(s: Seq<char>, i: int, acc: Seq<u8>) -> Option<Seq<u8>>
    decreases s.len() - i
{
    if i < 0 || i > s.len() { None }
    else if i == s.len() { Some(acc) }
    else if i + 1 >= s.len() { None }
    else {
        match (hex_val(s[i]), hex_val(s[i + 1])) {
            (Some(h), Some(l)) => bytea_hex_in(s, i + 2, acc.push((h * 16 + l) as u8)),
            _ => None,
        }
    }
}
pub open spec fn pg_bytea_of_text(s: Seq<char>) -> Option<Seq<u8>> {
    if s.len() >= 2 && s[0] == '\\' && s[1] == 'x' { bytea_hex_in(s, 2, Seq::<u8>::empty()) } else { None }
}
pub open spec fn is_pg_bytea_lit(lit: Seq<char>, v: Seq<u8>) -> bool {
    forall|rest: Seq<char>| no_quote_next(rest) ==> (#[trigger] pg_string_lit(lit + rest) matches Some((txt, end))
        && end == lit.len() && pg_bytea_of_text(txt) == Some(v))
}
pub proof fn lemma_hex2(b: u8)
    ensures hex_val(hex2(b)[0]) == Some(b as int / 16), hex_val(hex2(b)[1]) == Some(b as int % 16),
            hex2(b)[0] != '\'', hex2(b)[1] != '\'',
{
}
pub proof fn lemma_blob_body(pre: Seq<char>, v: Seq<u8>, rest: Seq<char>, acc: Seq<u8>)
    ensures blob_body(pre + hex_all(v) + seq!['\''] + rest, pre.len() as int, acc) == Some((acc + v, (pre.len() + hex_all(v).len() + 1) as int))
    decreases v.len()
{
    lemma_hex_all_front(pre, v, rest, acc);
}
pub open spec fn hex_all_f(v: Seq<u8>) -> Seq<char>
    decreases v.len()
{ if v.len() == 0 { Seq::<char>::empty() } else { hex2(v[0]) + hex_all_f(v.drop_first()) } }
pub proof fn lemma_hex_all_f_push(v: Seq<u8>, b: u8)
    ensures hex_all_f(v.push(b)) == hex_all_f(v) + hex2(b)
    decreases v.len()
{
    if v.len() == 0 {
        assert(v.push(b).drop_first() == Seq::<u8>::empty());
        assert(hex_all_f(v.push(b)) == hex2(b) + hex_all_f(Seq::<u8>::empty()));
    } else {
        assert(v.push(b).drop_first() == v.drop_first().push(b));
        lemma_hex_all_f_push(v.drop_first(), b);
    }
}
pub proof fn lemma_hex_all_eq(v: Seq<u8>)
    ensures hex_all(v) == hex_all_f(v)
    decreases v.len()
{
    if v.len() > 0 {
        lemma_hex_all_eq(v.drop_last());
        lemma_hex_all_f_push(v.drop_last(), v.last());
        assert(v.drop_last().push(v.last()) == v);
    }
}
pub proof fn lemma_hex_all_front(pre: Seq<char>, v: Seq<u8>, rest: Seq<char>, acc: Seq<u8>)
    ensures blob_body(pre + hex_all(v) + seq!['\''] + rest, pre.len() as int, acc) == Some((acc + v, (pre.len() + hex_all(v).len() + 1) as int))
    decreases v.len()
{
    lemma_hex_all_eq(v);
    let t = pre + hex_all_f(v) + seq!['\''] + rest;
    let p = pre.len() as int;
    if v.len() == 0 {
        assert(acc + v == acc);
        assert(t[p] == '\'');
    } else {
        let e = hex2(v[0]);
        let pre2 = pre + e;
        lemma_hex2(v[0]);
        lemma_hex_all_eq(v.drop_first());
        assert(pre2 + hex_all_f(v.drop_first()) + seq!['\''] + rest == t);
        assert(t[p] == e[0] && t[p + 1] == e[1]);
        assert(acc.push(v[0]) + v.drop_first() == acc + v);
        assert((v[0] as int / 16 * 16 + v[0] as int % 16) as u8 == v[0]);
        lemma_hex_all_front(pre2, v.drop_first(), rest, acc.push(v[0]));
    }
}
pub proof fn lemma_bytea_hex_in(pre: Seq<char>, v: Seq<u8>, acc: Seq<u8>)
    ensures bytea_hex_in(pre + hex_all(v), pre.len() as int, acc) == Some(acc + v)
    decreases v.len()
{
    lemma_hex_all_eq(v);
    let t = pre + hex_all_f(v);
    let p = pre.len() as int;
    if v.len() == 0 {
        assert(acc + v == acc);
    } else {
        let e = hex2(v[0]);
        let pre2 = pre + e;
        lemma_hex2(v[0]);
        lemma_hex_all_eq(v.drop_first());
        assert(pre2 + hex_all_f(v.drop_first()) == t);
        assert(t[p] == e[0] && t[p + 1] == e[1]);
        assert(acc.push(v[0]) + v.drop_first() == acc + v);
        assert((v[0] as int / 16 * 16 + v[0] as int % 16) as u8 == v[0]);
        lemma_bytea_hex_in(pre2, v.drop_first(), acc.push(v[0]));
    }
}
pub proof fn lemma_hex_no_quote(v: Seq<u8>)
    ensures !hex_all(v).contains('\''), hex_all(v).len() == 2 * v.len()
    decreases v.len()
{
    if v.len() > 0 {
        lemma_hex_no_quote(v.drop_last());
        lemma_hex2(v.last());
        let h = hex_all(v);
        if h.contains('\'') {
            let k = choose|k: int| 0 <= k < h.len() && h[k] == '\'';
            if k < hex_all(v.drop_last()).len() { assert(hex_all(v.drop_last())[k] == '\''); }
        }
    }
}

// ---- the default escape_string is a chain of sequential single-character replacements; the chain equals
//      the single-pass map esc_map because no later replacement matches an earlier replacement's output ----
pub open spec fn tbl_from(k: int) -> char {
    if k == 1 { '\\' } else if k == 2 { '"' } else if k == 3 { '\'' } else if k == 4 { '\0' } else if k == 5 { '\x08' }
    else if k == 6 { '\x09' } else if k == 7 { '\n' } else { '\r' }
}
pub open spec fn tbl_to(k: int) -> Seq<char> { esc1(tbl_from(k)) }
pub spec const CHAIN_LEN: int = 8;
pub open spec fn chain_k(s: Seq<char>, k: int) -> Seq<char>
    decreases k
{ if k <= 0 { s } else { replace_char(chain_k(s, k - 1), tbl_from(k), tbl_to(k)) } }
pub open spec fn tbl_idx(c: char) -> int {
    if c == '\\' { 1 } else if c == '"' { 2 } else if c == '\'' { 3 } else if c == '\0' { 4 } else if c == '\x08' { 5 }
    else if c == '\x09' { 6 } else if c == '\n' { 7 } else if c == '\r' { 8 } else { 0 }
}
pub proof fn lemma_rc_absent(s: Seq<char>, from: char, to: Seq<char>)
    requires !s.contains(from)
    ensures replace_char(s, from, to) == s
    decreases s.len()
{
    if s.len() > 0 {
        assert(s.contains(s[0]));
        assert forall|x: char| s.drop_first().contains(x) implies s.contains(x) by {
            let k = choose|k: int| 0 <= k < s.drop_first().len() && s.drop_first()[k] == x;
            assert(s[k + 1] == x);
        }
        lemma_rc_absent(s.drop_first(), from, to);
        assert(seq![s[0]] + s.drop_first() == s);
    }
}
pub proof fn lemma_chain_concat(a: Seq<char>, b: Seq<char>, k: int)
    requires 0 <= k
    ensures chain_k(a + b, k) == chain_k(a, k) + chain_k(b, k)
    decreases k
{
    if k > 0 {
        lemma_chain_concat(a, b, k - 1);
        lemma_replace_char_concat(chain_k(a, k - 1), chain_k(b, k - 1), tbl_from(k), tbl_to(k));
    }
}
pub proof fn lemma_chain_single(c: char, k: int)
    requires 0 <= k <= CHAIN_LEN
    ensures chain_k(seq![c], k) == (if 1 <= tbl_idx(c) <= k { esc1(c) } else { seq![c] })
    decreases k
{
    if k > 0 {
        lemma_chain_single(c, k - 1);
        let prev = chain_k(seq![c], k - 1);
        let from = tbl_from(k);
        if 1 <= tbl_idx(c) <= k - 1 {
            assert(prev == esc1(c));
            assert(prev.len() == 2 && prev[0] == '\\');
            assert(!prev.contains(from)) by {
                if prev.contains(from) { let j = choose|j: int| 0 <= j < prev.len() && prev[j] == from; assert(j == 0 || j == 1); }
            }
            lemma_rc_absent(prev, from, tbl_to(k));
        } else {
            assert(prev == seq![c]);
            assert(prev.drop_first().len() == 0);
            assert(replace_char(prev, from, tbl_to(k)) == rep1(c, from, tbl_to(k)) + replace_char(prev.drop_first(), from, tbl_to(k)));
            assert(rep1(c, from, tbl_to(k)) + Seq::<char>::empty() == rep1(c, from, tbl_to(k)));
        }
    }
}
pub proof fn lemma_chain_is_map(s: Seq<char>)
    ensures chain_k(s, CHAIN_LEN) == esc_map(s)
    decreases s.len()
{
    if s.len() == 0 {
        lemma_chain_empty(CHAIN_LEN);
        assert(s =~= Seq::<char>::empty());
    } else {
        assert(seq![s[0]] + s.drop_first() == s);
        lemma_chain_concat(seq![s[0]], s.drop_first(), CHAIN_LEN);
        lemma_chain_single(s[0], CHAIN_LEN);
        lemma_chain_is_map(s.drop_first());
        assert(0 <= tbl_idx(s[0]) <= CHAIN_LEN);
        assert(tbl_idx(s[0]) == 0 ==> esc1(s[0]) == seq![s[0]]);
        assert(chain_k(seq![s[0]], CHAIN_LEN) == esc1(s[0]));
    }
}
pub proof fn lemma_chain_empty(k: int)
    requires 0 <= k
    ensures chain_k(Seq::<char>::empty(), k) == Seq::<char>::empty()
    decreases k
{
    if k > 0 { lemma_chain_empty(k - 1); }
}

// ---- packaged literal lemmas ------------------------------------------------------------------------------------
pub proof fn lemma_is_sqlite_lit(s: Seq<char>)
    ensures is_sqlite_lit(seq!['\''] + dbl_map(s) + seq!['\''], s)
{
    let lit = seq!['\''] + dbl_map(s) + seq!['\''];
    assert forall|rest: Seq<char>| no_quote_next(rest) implies #[trigger] sqlite_string_lit(lit + rest) == Some((s, lit.len() as int)) by {
        lemma_plain_body_dbl(seq!['\''], s, rest, Seq::<char>::empty());
        assert(seq!['\''] + dbl_map(s) + seq!['\''] + rest == lit + rest);
        assert(Seq::<char>::empty() + s == s);
        assert((lit + rest)[0] == '\'');
    }
}
// what the Postgres writer emits for s: E'esc' if esc contains a backslash, else 'esc'
pub open spec fn pg_lit_of(s: Seq<char>) -> Seq<char> {
    if esc_map(s).contains('\\') { seq!['E', '\''] + esc_map(s) + seq!['\''] } else { seq!['\''] + esc_map(s) + seq!['\''] }
}
pub proof fn lemma_is_pg_lit(s: Seq<char>)
    requires !s.contains('\0')
    ensures is_pg_lit(pg_lit_of(s), s)
{
    let lit = pg_lit_of(s);
    assert forall|rest: Seq<char>| no_quote_next(rest) implies #[trigger] pg_string_lit(lit + rest) == Some((s, lit.len() as int)) by {
        assert(Seq::<char>::empty() + s == s);
        if esc_map(s).contains('\\') {
            lemma_pg_e_body(seq!['E', '\''], s, rest, Seq::<char>::empty());
            assert(seq!['E', '\''] + esc_map(s) + seq!['\''] + rest == lit + rest);
            assert((lit + rest)[0] == 'E' && (lit + rest)[1] == '\'');
        } else {
            lemma_no_backslash(s);
            lemma_plain_body_noquote(seq!['\''], s, rest, Seq::<char>::empty());
            assert(seq!['\''] + s + seq!['\''] + rest == lit + rest);
            assert((lit + rest)[0] == '\'');
        }
    }
}
pub proof fn lemma_is_x_blob_lit(v: Seq<u8>)
    ensures is_x_blob_lit(seq!['x', '\''] + hex_all(v) + seq!['\''], v)
{
    let lit = seq!['x', '\''] + hex_all(v) + seq!['\''];
    assert forall|rest: Seq<char>| #[trigger] x_blob_lit(lit + rest) == Some((v, lit.len() as int)) by {
        lemma_blob_body(seq!['x', '\''], v, rest, Seq::<u8>::empty());
        assert(seq!['x', '\''] + hex_all(v) + seq!['\''] + rest == lit + rest);
        assert(Seq::<u8>::empty() + v == v);
        assert((lit + rest)[0] == 'x' && (lit + rest)[1] == '\'');
    }
}
pub proof fn lemma_is_pg_bytea_lit(v: Seq<u8>)
    ensures is_pg_bytea_lit(seq!['\'', '\\', 'x'] + hex_all(v) + seq!['\''], v)
{
    let lit = seq!['\'', '\\', 'x'] + hex_all(v) + seq!['\''];
    let txt = seq!['\\', 'x'] + hex_all(v);
    lemma_hex_no_quote(v);
    assert(!txt.contains('\'')) by {
        if txt.contains('\'') { let k = choose|k: int| 0 <= k < txt.len() && txt[k] == '\''; assert(k >= 2); assert(hex_all(v)[k - 2] == '\''); }
    }
    assert forall|rest: Seq<char>| no_quote_next(rest) implies (#[trigger] pg_string_lit(lit + rest) matches Some((t2, end))
        && end == lit.len() && pg_bytea_of_text(t2) == Some(v)) by {
        lemma_plain_body_noquote(seq!['\''], txt, rest, Seq::<char>::empty());
        assert(seq!['\''] + txt + seq!['\''] + rest == lit + rest);
        assert(Seq::<char>::empty() + txt == txt);
        assert((lit + rest)[0] == '\'');
        lemma_bytea_hex_in(seq!['\\', 'x'], v, Seq::<u8>::empty());
        assert(Seq::<u8>::empty() + v == v);
    }
}
