// =============================================================================================
// unit `spell` - specification (hand-written from the manuals): how each dialect SPELLS the operators, sub-query operators, join
// types, built-in functions and keywords the builder knows.  d: 0 = MySQL 8.0, 1 = PostgreSQL 16, 2 = SQLite 3.
// A documented synonym is accepted (`!=` for `<>`, `LEFT OUTER JOIN` for `LEFT JOIN` ..): only a spelling the dialect does not
// define for that operation fails.
// =============================================================================================
// MySQL 14.4 Operators, PostgreSQL 9 Functions and Operators, SQLite "SQL Language Expressions": the operators all three share
pub open spec fn binop_common_ok(o: BinOper, t: Seq<char>) -> bool {
    match o {
        BinOper::And => t == "AND"@, BinOper::Or => t == "OR"@,
        BinOper::Like => t == "LIKE"@, BinOper::NotLike => t == "NOT LIKE"@,
        BinOper::Is => t == "IS"@, BinOper::IsNot => t == "IS NOT"@,
        BinOper::In => t == "IN"@, BinOper::NotIn => t == "NOT IN"@,
        BinOper::Between => t == "BETWEEN"@, BinOper::NotBetween => t == "NOT BETWEEN"@,
        BinOper::Equal => t == "="@, BinOper::NotEqual => t == "<>"@ || t == "!="@,
        BinOper::SmallerThan => t == "<"@, BinOper::GreaterThan => t == ">"@,
        BinOper::SmallerThanOrEqual => t == "<="@, BinOper::GreaterThanOrEqual => t == ">="@,
        BinOper::Add => t == "+"@, BinOper::Sub => t == "-"@, BinOper::Mul => t == "*"@, BinOper::Div => t == "/"@, BinOper::Mod => t == "%"@,
        BinOper::LShift => t == "<<"@, BinOper::RShift => t == ">>"@,
        BinOper::As => t == "AS"@, BinOper::Escape => t == "ESCAPE"@,
        BinOper::BitAnd => t == "&"@, BinOper::BitOr => t == "|"@,
        // a custom operator is written as given
        BinOper::Custom(raw) => t == raw@,
        _ => false,
    }
}
// PostgreSQL 9.7 (pattern matching), 9.16 (JSON), 9.19 (arrays), 12 (text search), F.35 pg_trgm, pgvector README
pub open spec fn binop_pg_ok(o: PgBinOper, t: Seq<char>) -> bool {
    match o {
        PgBinOper::ILike => t == "ILIKE"@, PgBinOper::NotILike => t == "NOT ILIKE"@,
        PgBinOper::Matches => t == "@@"@, PgBinOper::Contains => t == "@>"@, PgBinOper::Contained => t == "<@"@,
        PgBinOper::Concatenate => t == "||"@, PgBinOper::Overlap => t == "&&"@,
        PgBinOper::Similarity => t == "%"@, PgBinOper::WordSimilarity => t == "<%"@, PgBinOper::StrictWordSimilarity => t == "<<%"@,
        PgBinOper::SimilarityDistance => t == "<->"@, PgBinOper::WordSimilarityDistance => t == "<<->"@, PgBinOper::StrictWordSimilarityDistance => t == "<<<->"@,
        PgBinOper::GetJsonField => t == "->"@, PgBinOper::CastJsonField => t == "->>"@,
        PgBinOper::Regex => t == "~"@, PgBinOper::RegexCaseInsensitive => t == "~*"@,
        // pgvector (README, "Querying"): <-> L2 distance, <#> (negative) inner product, <=> cosine distance
        PgBinOper::EuclideanDistance => t == "<->"@, PgBinOper::NegativeInnerProduct => t == "<#>"@, PgBinOper::CosineDistance => t == "<=>"@,
    }
}
// SQLite: GLOB, MATCH, the JSON extraction operators (json1)
pub open spec fn binop_sqlite_ok(o: SqliteBinOper, t: Seq<char>) -> bool {
    match o { SqliteBinOper::Glob => t == "GLOB"@, SqliteBinOper::Match => t == "MATCH"@, SqliteBinOper::GetJsonField => t == "->"@, SqliteBinOper::CastJsonField => t == "->>"@ }
}
pub open spec fn binop_has(d: int, o: BinOper) -> bool { match o { BinOper::PgOperator(_) => d == 1, BinOper::SqliteOperator(_) => d == 2, _ => true } }
pub open spec fn binop_ok(d: int, o: BinOper, t: Seq<char>) -> bool {
    match o { BinOper::PgOperator(p) => d == 1 && binop_pg_ok(p, t), BinOper::SqliteOperator(s) => d == 2 && binop_sqlite_ok(s, t), _ => binop_common_ok(o, t) }
}
pub open spec fn unop_ok(o: UnOper, t: Seq<char>) -> bool { match o { UnOper::Not => t == "NOT"@ } }
// sub-query operators: SQLite has EXISTS only (no ANY / SOME / ALL)
pub open spec fn subq_has(d: int, o: SubQueryOper) -> bool { d != 2 || o is Exists }
pub open spec fn subq_ok(o: SubQueryOper, t: Seq<char>) -> bool {
    match o { SubQueryOper::Exists => t == "EXISTS"@, SubQueryOper::Any => t == "ANY"@, SubQueryOper::Some => t == "SOME"@, SubQueryOper::All => t == "ALL"@ }
}
// joins (MySQL 15.2.13.2: no FULL OUTER JOIN; OUTER is optional noise word everywhere)
pub open spec fn join_has(d: int, j: JoinType) -> bool { d != 0 || !(j is FullOuterJoin) }
pub open spec fn join_ok(j: JoinType, t: Seq<char>) -> bool {
    match j {
        JoinType::Join => t == "JOIN"@, JoinType::CrossJoin => t == "CROSS JOIN"@, JoinType::InnerJoin => t == "INNER JOIN"@,
        JoinType::LeftJoin => t == "LEFT JOIN"@ || t == "LEFT OUTER JOIN"@, JoinType::RightJoin => t == "RIGHT JOIN"@ || t == "RIGHT OUTER JOIN"@,
        JoinType::FullOuterJoin => t == "FULL OUTER JOIN"@ || t == "FULL JOIN"@,
    }
}
// built-in functions (MySQL 14, PostgreSQL 9, SQLite core / aggregate functions): the names differ for five of them
pub uninterp spec fn iden_text(i: DynIden) -> Seq<char>;
pub open spec fn func_has(d: int, f: Function) -> bool { !(f is PgFunction) || d == 1 }
pub open spec fn func_ok(d: int, f: Function, t: Seq<char>) -> bool {
    match f {
        Function::Max => t == "MAX"@, Function::Min => t == "MIN"@, Function::Sum => t == "SUM"@, Function::Avg => t == "AVG"@, Function::Abs => t == "ABS"@,
        Function::Count => t == "COUNT"@, Function::Coalesce => t == "COALESCE"@, Function::Cast => t == "CAST"@,
        Function::Lower => t == "LOWER"@, Function::Upper => t == "UPPER"@, Function::Round => t == "ROUND"@,
        // NULL replacement: IFNULL (MySQL, SQLite), COALESCE (all; PostgreSQL has no IFNULL)
        Function::IfNull => t == "COALESCE"@ || (d != 1 && t == "IFNULL"@),
        // scalar maximum / minimum of a list: GREATEST / LEAST (MySQL, PostgreSQL); SQLite: the multi-argument MAX / MIN
        Function::Greatest => if d == 2 { t == "MAX"@ } else { t == "GREATEST"@ },
        Function::Least => if d == 2 { t == "MIN"@ } else { t == "LEAST"@ },
        // number of characters: CHAR_LENGTH (MySQL, PostgreSQL; also CHARACTER_LENGTH), LENGTH (SQLite; PostgreSQL too)
        Function::CharLength => if d == 2 { t == "LENGTH"@ } else { t == "CHAR_LENGTH"@ || t == "CHARACTER_LENGTH"@ || (d == 1 && t == "LENGTH"@) },
        // bitwise aggregates: BIT_AND / BIT_OR (MySQL, PostgreSQL); SQLite has none - the name is written as is
        Function::BitAnd => t == "BIT_AND"@, Function::BitOr => t == "BIT_OR"@,
        // random number: RAND() (MySQL), RANDOM() (PostgreSQL, SQLite)
        Function::Random => if d == 0 { t == "RAND"@ } else { t == "RANDOM"@ },
        // MD5 (MySQL, PostgreSQL; SQLite: an extension function of the same name)
        Function::Md5 => t == "MD5"@,
        // a custom function: its name as given, unquoted
        Function::Custom(i) => t == iden_text(i),
        Function::PgFunction(p) => d == 1 && pgfunc_ok(p, t),
    }
}
// PostgreSQL 9.4 / 9.13 / 9.16 / 9.21 / 9.9
pub open spec fn pgfunc_ok(p: PgFunction, t: Seq<char>) -> bool {
    match p {
        PgFunction::ToTsquery => t == "TO_TSQUERY"@, PgFunction::ToTsvector => t == "TO_TSVECTOR"@, PgFunction::PhrasetoTsquery => t == "PHRASETO_TSQUERY"@,
        PgFunction::PlaintoTsquery => t == "PLAINTO_TSQUERY"@, PgFunction::WebsearchToTsquery => t == "WEBSEARCH_TO_TSQUERY"@,
        PgFunction::TsRank => t == "TS_RANK"@, PgFunction::TsRankCd => t == "TS_RANK_CD"@, PgFunction::StartsWith => t == "STARTS_WITH"@,
        PgFunction::GenRandomUUID => t == "GEN_RANDOM_UUID"@, PgFunction::JsonBuildObject => t == "JSON_BUILD_OBJECT"@, PgFunction::JsonAgg => t == "JSON_AGG"@,
        PgFunction::ArrayAgg => t == "ARRAY_AGG"@, PgFunction::DateTrunc => t == "DATE_TRUNC"@,
        // 9.24 row and array comparisons: ANY / SOME / ALL (array)
        PgFunction::Any => t == "ANY"@, PgFunction::Some => t == "SOME"@, PgFunction::All => t == "ALL"@,
    }
}
// (written arm by arm: stated over the text before / after)
pub open spec fn keyword_ok(k: Keyword, old: Seq<char>, new: Seq<char>) -> bool {
    match k { Keyword::Null => new == old + "NULL"@, Keyword::CurrentDate => new == old + "CURRENT_DATE"@, Keyword::CurrentTime => new == old + "CURRENT_TIME"@,
              Keyword::CurrentTimestamp => new == old + "CURRENT_TIMESTAMP"@, Keyword::Custom(i) => new == old + iden_text(i) }
}
// R-panic: panic!(..) / unimplemented!(..) never return: a call after which `false` holds.  A refusal is then part of the POSTCONDITION
// (`the function returns only for an operation the dialect has`), so a refusal that is dropped fails its obligation
#[verifier::external_body]
fn vpanic() ensures false { unimplemented!() }
