"""unit `spell`  ->  C08 (the dialect's FORM of what the builder was given): how operators, sub-query operators, join types, built-in
function names and keywords are spelled on each backend.

Under contract, for each of the three backends (the body a backend runs - its own override or the trait default - is resolved from
/repo on every run): prepare_un_oper, prepare_bin_oper_common, prepare_bin_oper, prepare_sub_query_oper, prepare_join_type_common,
prepare_join_type, the five function-name hooks, prepare_function_name_common, prepare_function_name, prepare_keyword.  Each writes
exactly ONE spelling the dialect's manual defines for the operation (units/spell/spec.rs, written from the manuals; documented
synonyms accepted); what a dialect lacks (Postgres / SQLite operators elsewhere, ANY / SOME / ALL on SQLite, FULL OUTER JOIN on
MySQL, Postgres functions elsewhere) must be REFUSED: panic!(..) is a call after which `false` holds, and `the function returns only
for an operation the dialect has` is part of each postcondition.
"""
import re
from vlib import rustlex as rl
from vlib.gen import make_r_fmt, make_r_sub, r_dynw, r_unit_tail
from units.escape.unit import resolve, BACKENDS

P = ["C08"]
QB = "src/backend/query_builder.rs"
DIAL = {"MysqlQueryBuilder": 0, "PostgresQueryBuilder": 1, "SqliteQueryBuilder": 2}
r_fmt = make_r_fmt(wmap=lambda w: w)
# R-panic: panic!(..) / unimplemented!(..) in the position of a &str value: a call requiring false
r_panic = make_r_sub("R-panic", r'(?:panic|unimplemented)!\((?:"[^"]*")?\)', '({ vpanic(); "" })', min_count=0)


def make_r_bind(pred):
  def r_bind(text, ctx):
      """R-bind: `write!(sql, "{}", match X { .. }).unwrap()`  ->  `let t_: &str = match X { .. }; vfmt_disp(sql, t_);` (names the text written)"""
      m = re.search(r'write!\(\s*sql,\s*"\{\}",\s*match ', text)
      if not m:
          raise rl.LostAnchor(ctx.key + ": R-bind: no `write!(sql, \"{}\", match ..)`")
      toks = rl.code_toks(rl.lex(text[m.start():]))
      k = next(i for i, t in enumerate(toks) if t.text == "(")
      close = rl.match_close(toks, k)
      inner_start = m.end() - len("match ")
      expr = text[inner_start:m.start() + toks[close].start].rstrip().rstrip(",").rstrip()
      end = m.start() + toks[close].end
      m2 = re.match(r"\s*\.unwrap\(\)\s*[;,]?", text[end:])
      if not m2:
          raise rl.Unsupported(ctx.key + ": R-bind: write! without .unwrap()")
      sep = "," if text[end:end + m2.end()].rstrip().endswith(",") else ""
      ctx.app("R-bind", 'write!(sql, "{}", match ..).unwrap()', "{ let t_: &str = match ..; vfmt_disp(sql, t_); }")
      return text[:m.start()] + "{ let t_: &str = " + expr + ";\n        vfmt_disp(sql, t_);\n        proof { assert(sql.text() == t0 + t_@); assert(" + (pred % "t_@") + "); } }" + sep + text[end + m2.end():]
  return r_bind


WROTE = "exists|t: Seq<char>| final(sql).text() == old(sql).text() + t && %s"
END = "proof { }"


def build(u):
    # the feature-gated operators / functions (pgvector distances, ANY / SOME / ALL over arrays) are part of the tables
    u.features = set(u.features) | {"postgres-vector", "postgres-array"}
    u.emit("use vstd::prelude::*;\nverus! {\n")
    u.prelude_file("vlib/prelude/vfmt.rs")
    u.emit("#[verifier::external_body]\npub struct DynIden { _opaque: u8 }\nimpl DynIden {\n    // Iden::unquoted: the name as given (its own definition of it)\n    #[verifier::external_body]\n"
           "    fn unquoted<W: VWrite>(&self, s: &mut W) ensures final(s).text() == old(s).text() + iden_text(*self) { unimplemented!() }\n}\n", kind="spec", key="R-opaque:DynIden", props=P)
    u.type_item("src/types.rs", "enum", "UnOper", props=P)
    u.type_item("src/extension/postgres/mod.rs", "enum", "PgBinOper", props=P)
    u.type_item("src/extension/sqlite/mod.rs", "enum", "SqliteBinOper", props=P)
    u.type_item("src/types.rs", "enum", "BinOper", props=P)
    u.type_item("src/types.rs", "enum", "SubQueryOper", props=P)
    u.type_item("src/types.rs", "enum", "JoinType", props=P)
    u.type_item("src/extension/postgres/func.rs", "enum", "PgFunction", props=P)
    u.type_item("src/func.rs", "enum", "Function", props=P)
    u.type_item("src/types.rs", "enum", "Keyword", props=P)
    u.prelude_file("units/spell/spec.rs", props=P)
    for ty, files in BACKENDS.items():
        d = DIAL[ty]
        u.emit("pub struct %s;\nimpl %s {\n" % (ty, ty))

        def fn(name, spec, rules, proofs=None, ret=None):
            path, blk, how = resolve(u, "QueryBuilder", ty, name, QB, files["query"])
            u.fn(path, blk, name, props=P, key="%s::%s[%s]" % (ty, name, how), vpath="%s::%s" % (ty, name), rules=rules, spec=spec, proofs=proofs, ret=ret)
        def W(pred):
            return [r_dynw, r_panic, make_r_bind(pred), r_fmt, r_unit_tail]
        PR = {"body-start": "let ghost t0 = sql.text();"}
        r_panic_unit = make_r_sub("R-panic", r'panic!\("[^"]*"\)', "vpanic()", min_count=0)

        def fwd(pred_from, pred_to):
            """a body that (also) forwards to the common renderer: carry the callee's witness over to this function's predicate"""
            return "proof { if exists|t: Seq<char>| sql.text() == t0 + t && %s { let t = choose|t: Seq<char>| sql.text() == t0 + t && %s; assert(%s); } }" % (pred_from % "t", pred_from % "t", pred_to % "t")
        # the function-name hooks: the name this dialect uses
        for hook, var in [("if_null_function", "IfNull"), ("greatest_function", "Greatest"), ("least_function", "Least"), ("char_length_function", "CharLength"), ("random_function", "Random")]:
            fn(hook, "ensures func_ok(%d, Function::%s, r@)," % (d, var), [], ret="r")
        fn("prepare_un_oper", "ensures " + WROTE % "unop_ok(*un_oper, t),", W("unop_ok(*un_oper, %s)"), PR)
        fn("prepare_bin_oper_common", "ensures\n    // (refuses the operators of one dialect: returns only for a common one)\n    !(*bin_oper is PgOperator), !(*bin_oper is SqliteOperator),\n    " + WROTE % "binop_common_ok(*bin_oper, t),", W("binop_common_ok(*bin_oper, %s)"), PR)
        fn("prepare_bin_oper", "ensures\n    // an operator of another dialect is refused (the function returns only for one this dialect has)\n    binop_has(%d, *bin_oper),\n    // one spelling this dialect defines for the operator\n    %s," % (d, WROTE % ("binop_ok(%d, *bin_oper, t)" % d)),
           W("binop_ok(%d, o0, %%s)" % d) if resolve(u, "QueryBuilder", ty, "prepare_bin_oper", QB, files["query"])[2] == "override" else [r_dynw, r_unit_tail],
           {"body-start": "let ghost t0 = sql.text(); let ghost o0 = *bin_oper;", "body-end": fwd("binop_common_ok(o0, %s)", "binop_ok(%d, o0, %%s)" % d)})
        fn("prepare_sub_query_oper", "ensures subq_has(%d, *oper),\n    %s," % (d, WROTE % "subq_ok(*oper, t)"), W("subq_ok(*oper, %s)"), PR)
        fn("prepare_join_type_common", "ensures " + WROTE % "join_ok(*join_type, t),", W("join_ok(*join_type, %s)"), PR)
        fn("prepare_join_type", "ensures join_has(%d, *join_type),\n    %s," % (d, WROTE % "join_ok(*join_type, t)"), [r_dynw, r_panic_unit, r_unit_tail], PR)
        fn("prepare_function_name_common", "ensures\n    !(*function is PgFunction),\n    // the name this dialect gives the function (IFNULL / COALESCE, GREATEST / MAX, CHAR_LENGTH / LENGTH, RAND / RANDOM ..)\n    %s," % (WROTE % ("func_ok(%d, *function, t)" % d)), W("func_ok(%d, *function, %%s)" % d),
           {"body-start": "let ghost t0 = sql.text();", "after#1:iden.unquoted(sql);": "proof { assert(func_ok(%d, *function, iden_text(*iden))); }" % d})
        fn("prepare_function_name", "ensures func_has(%d, *function),\n    %s," % (d, WROTE % ("func_ok(%d, *function, t)" % d)),
           W("func_ok(%d, f0, %%s)" % d) if resolve(u, "QueryBuilder", ty, "prepare_function_name", QB, files["query"])[2] == "override" else [r_dynw, r_unit_tail],
           {"body-start": "let ghost t0 = sql.text(); let ghost f0 = *function;"})
        fn("prepare_keyword", "ensures keyword_ok(*keyword, old(sql).text(), final(sql).text()),", [r_dynw, r_fmt, r_unit_tail])
        u.emit("}\n")
    u.emit("} // verus!\nfn main() {}\n")
