"""unit `custom`  ->  C11: custom SQL templates replace exactly the placeholders.

Under contract: the CustomWithExpr arm of QueryBuilder::prepare_simple_expr_common (R-arm, R-peek), instantiated for a
`?` backend and for the numbered `$` backend.  The tokenizer is imported as a deterministic token source (its losslessness,
termination and quoting behaviour are C16's unit).
"""
import re
from vlib import rustlex as rl
from vlib.gen import make_r_fmt, make_r_sub, r_dynw

QB = "src/backend/query_builder.rs"
P = ["C11"]
r_fmt = make_r_fmt(wmap=lambda w: w)


def build(u):
    u.emit("use vstd::prelude::*;\nverus! {\n")
    u.emit("#[verifier::external_body]\npub struct SimpleExpr { _opaque: u8 }\n", kind="spec", key="R-opaque:SimpleExpr", props=P)
    u.prelude_file("vlib/prelude/vfmt.rs")
    u.type_item("src/token.rs", "enum", "Token", props=P)
    u.prelude_file("units/custom/spec.rs", props=P)
    for ty, mark, numbered in [("QmarkBackend", "?", "false"), ("PostgresQueryBuilder", "$", "true")]:
        u.spec('''
pub struct %(ty)s;
impl %(ty)s {
    pub open spec fn mark() -> Seq<char> { seq!['%(mark)s'] }
    // placeholder(): ("?", false) by default (MySQL, SQLite), ("$", true) for Postgres - extracted and verified in unit `writer`
    #[verifier::external_body]
    fn placeholder(&self) -> (r: (&str, bool)) ensures r.0@ == Self::mark(), r.1 == %(numbered)s { unimplemented!() }
    #[verifier::external_body]
    fn prepare_simple_expr<W: VWrite>(&self, x: &SimpleExpr, sql: &mut W) ensures final(sql).text() == old(sql).text() + expr_text(*x) { unimplemented!() }
''' % {"ty": ty, "mark": mark, "numbered": numbered}, "custom::" + ty, props=P)
        u.arm(QB, "trait QueryBuilder", "prepare_simple_expr_common", "SimpleExpr::CustomWithExpr(expr, values)", "custom_with_expr_arm",
              "&self, expr: &String, values: &Vec<SimpleExpr>, sql: &mut W", props=P + ["C01"], prefix0="#[verifier::rlimit(50)]\n    ",
              key="%s::prepare_simple_expr_common[CustomWithExpr arm]" % ty, vpath="%s::custom_with_expr_arm" % ty,
              rules=[make_r_sub("R-arm", r"fn custom_with_expr_arm\(", "fn custom_with_expr_arm<W: VWrite>("),
                     make_r_sub("R-peek", r"Tokenizer::new\(expr\)\.iter\(\)\.peekable\(\)", "VPeek::new(Tokenizer::new(expr.as_str()).iter())"),
                     make_r_sub("R-strfn", r"\bmark == placeholder\b", "vstr_eq(mark.as_str(), placeholder)", min_count=2),
                     make_r_sub("R-strfn", r"if let Ok\(num\) = tok\.parse::<usize>\(\)", "if let Some(num) = vparse_usize(tok.as_str())"),
                     # R-block: an expression arm `_ => e,` becomes the block arm `_ => { e; }` (same meaning for e: ()) so that a proof hint can follow it
                     make_r_sub("R-block", r'_ => write!\(sql, "\{token\}"\)\.unwrap\(\),', '_ => { write!(sql, "{token}").unwrap(); }'),
                     r_fmt],
              spec="""requires subst_ok(tokens_of(expr@), 0, 0, Self::mark(), %(n)s, values@.len() as int), values@.len() < usize::MAX,
ensures
    // each placeholder is replaced by the value it designates; every other token of the template is emitted unchanged
    final(sql).text() == old(sql).text() + subst_from(tokens_of(expr@), 0, 0, Self::mark(), %(n)s, texts_of(values@)),""" % {"n": numbered},
              loops=["""invariant
    head == tokenizer.remaining(),
    tokenizer.wf(), 0 <= count <= values@.len(), values@.len() < usize::MAX, placeholder@ == Self::mark(), numbered == %(n)s,
    subst_ok(tokenizer.remaining(), 0, count as int, Self::mark(), %(n)s, values@.len() as int),
    sql.text() + subst_from(tokenizer.remaining(), 0, count as int, Self::mark(), %(n)s, texts_of(values@)) == t0 + subst_from(all, 0, 0, Self::mark(), %(n)s, texts_of(values@)),
ensures
    tokenizer.remaining().len() == 0,
    sql.text() + subst_from(tokenizer.remaining(), 0, count as int, Self::mark(), %(n)s, texts_of(values@)) == t0 + subst_from(all, 0, 0, Self::mark(), %(n)s, texts_of(values@)),
decreases tokenizer.remaining().len(),""" % {"n": numbered}],
              proofs={"body-start": "let ghost t0 = sql.text(); let ghost all = tokens_of(expr@);",
                      # `head`: the token list still to come at the loop head, i.e. BEFORE `tokenizer.next()` in the `while let` condition
                      "before#1:while let Some(token)": "let ghost mut head = tokenizer.remaining();",
                      "loop1-start": "let ghost rem0 = head; let ghost c0 = count as int; let ghost s0 = sql.text();",
                      "loop1-end": "proof { head = tokenizer.remaining(); }",
                      # A: mark mark -> one literal mark, two tokens consumed
                      "after#1:tokenizer.next();": """proof {
    let m = Self::mark(); let vt = texts_of(values@); let nv = values@.len() as int;
    reveal_with_fuel(subst_from, 2); reveal_with_fuel(subst_ok, 2);
    lemma_subst_shift(rem0, 2, c0, m, %(n)s, vt, nv);
    assert(rem0.drop_first().drop_first() =~= rem0.subrange(2, rem0.len() as int));
    let r2 = subst_from(rem0, 2, c0, m, %(n)s, vt);
    assert(s0 + (m + r2) =~= (s0 + m) + r2);
}""" % {"n": numbered},
                      # B: mark <n> on a numbered backend: the n-th value, two tokens consumed
                      "after#2:tokenizer.next();": """proof {
    let m = Self::mark(); let vt = texts_of(values@); let nv = values@.len() as int;
    reveal_with_fuel(subst_from, 2); reveal_with_fuel(subst_ok, 2);
    lemma_subst_shift(rem0, 2, c0, m, %(n)s, vt, nv);
    assert(rem0.drop_first().drop_first() =~= rem0.subrange(2, rem0.len() as int));
    let r2 = subst_from(rem0, 2, c0, m, %(n)s, vt);
    let n = spec_parse_usize(tok_text(rem0[1]))->Some_0;
    assert(vt[n - 1] == expr_text(values@[n - 1]));
    assert(s0 + (vt[n - 1] + r2) =~= (s0 + vt[n - 1]) + r2);
}""" % {"n": numbered},
                      # B': mark <word>, word not a number: the mark is kept, one token consumed
                      "after#2:vfmt_disp(sql, &(mark));": """proof {
    let m = Self::mark(); let vt = texts_of(values@); let nv = values@.len() as int;
    reveal_with_fuel(subst_from, 2); reveal_with_fuel(subst_ok, 2);
    lemma_subst_shift(rem0, 1, c0, m, %(n)s, vt, nv);
    assert(rem0.drop_first() =~= rem0.subrange(1, rem0.len() as int));
    let r1 = subst_from(rem0, 1, c0, m, %(n)s, vt);
    assert(s0 + (m + r1) =~= (s0 + m) + r1);
}""" % {"n": numbered},
                      "before#1:self.prepare_simple_expr(&values[num - 1], sql);": "proof { reveal_with_fuel(subst_ok, 2); }",
                      "before#1:self.prepare_simple_expr(&values[count], sql);": "proof { reveal_with_fuel(subst_ok, 2); assert(is_mark(rem0[0], Self::mark())); assert(0 <= c0 < values@.len()); }",
                      # C: positional placeholder
                      "after#1:count += 1;": """proof {
    let m = Self::mark(); let vt = texts_of(values@); let nv = values@.len() as int;
    reveal_with_fuel(subst_from, 2); reveal_with_fuel(subst_ok, 2);
    lemma_subst_shift(rem0, 1, c0 + 1, m, %(n)s, vt, nv);
    assert(rem0.drop_first() =~= rem0.subrange(1, rem0.len() as int));
    let r1c = subst_from(rem0, 1, c0 + 1, m, %(n)s, vt);
    assert(vt[c0] == expr_text(values@[c0]));
    assert(s0 + (vt[c0] + r1c) =~= (s0 + vt[c0]) + r1c);
}""" % {"n": numbered},
                      # D: any other token is emitted unchanged
                      "after#1:vfmt_disp(sql, &(token));": """proof {
    let m = Self::mark(); let vt = texts_of(values@); let nv = values@.len() as int;
    reveal_with_fuel(subst_from, 2); reveal_with_fuel(subst_ok, 2);
    lemma_subst_shift(rem0, 1, c0, m, %(n)s, vt, nv);
    assert(rem0.drop_first() =~= rem0.subrange(1, rem0.len() as int));
    let r1 = subst_from(rem0, 1, c0, m, %(n)s, vt);
    assert(s0 + (tok_text(rem0[0]) + r1) =~= (s0 + tok_text(rem0[0])) + r1);
}""" % {"n": numbered},
                      "body-end": "proof { assert(subst_from(tokenizer.remaining(), 0, count as int, Self::mark(), %(n)s, texts_of(values@)) =~= Seq::<char>::empty()); assert(sql.text() + Seq::<char>::empty() =~= sql.text()); }" % {"n": numbered}})
        u.emit("}\n")
    # ---- inject_parameters (src/prepare.rs) -----------------------------------------------------------------------------------
    from vlib.gen import make_r_dyn, make_r_tailbind
    u.fn("src/prepare.rs", None, "inject_parameters", ret="r", props=P,
         rules=[make_r_sub("R-collect", r"inject_parameters<I>\(sql: &str, params: I, query_builder: &dyn QueryBuilder\)", "inject_parameters<QB: InjQb>(sql: &str, params: Vec<Value>, query_builder: &QB)"),
                make_r_sub("R-collect", r"where\s+I: IntoIterator<Item = Value>,", ""),
                make_r_sub("R-collect", r"let params: Vec<Value> = params\.into_iter\(\)\.collect\(\);", ""),
                make_r_sub("R-iterimpl", r"let tokens: Vec<Token> = tokenizer\.iter\(\)\.collect\(\);", "let tokens: Vec<Token> = vcollect_tokens(tokenizer.iter());"),
                make_r_sub("R-strfn", r"\(mark\.as_ref\(\), (false|true)\) == query_builder\.placeholder\(\)", r"vph_eq(mark.as_str(), \1, query_builder.placeholder())", min_count=2),
                make_r_sub("R-strfn", r"if let Ok\(num\) = next\.parse::<usize>\(\)", "if let Some(num) = vparse_usize(next.as_str())"),
                make_r_sub("R-fmt", r"mark\.to_string\(\)", "mark.vdisp()"), make_r_sub("R-fmt", r"token\.to_string\(\)", "token.vdisp()"),
                make_r_sub("R-collect", r"output\.into_iter\(\)\.collect\(\)", "vconcat_strings(output)")],
         spec="""requires inject_ok(tokens_of(sql@), 0, 0, query_builder.mark(), query_builder.numbered(), params@.len() as int), params@.len() < usize::MAX,
ensures
    // every placeholder token is replaced by the backend's literal of the value it designates; every other token is unchanged
    r@ == inject_from(tokens_of(sql@), 0, 0, query_builder.mark(), query_builder.numbered(), lits_of(query_builder.dialect(), params@)),""",
         loops=["""invariant
    0 <= i <= tokens@.len(), 0 <= counter <= params@.len(), params@.len() < usize::MAX, tokens@ == tokens_of(sql@),
    inject_ok(tokens@, i as int, counter as int, query_builder.mark(), query_builder.numbered(), params@.len() as int),
    concat_all(output@) + inject_from(tokens@, i as int, counter as int, query_builder.mark(), query_builder.numbered(), lits_of(query_builder.dialect(), params@))
        == inject_from(tokens@, 0, 0, query_builder.mark(), query_builder.numbered(), lits_of(query_builder.dialect(), params@)),
decreases tokens@.len() - i,"""],
         proofs={"loop1-start": """let ghost i0 = i as int; let ghost c0 = counter as int; let ghost out0 = output@;
proof {
    lemma_inject_shift(tokens@, i0, c0, query_builder.mark(), query_builder.numbered(), lits_of(query_builder.dialect(), params@));
    reveal_with_fuel(inject_ok, 2);
}""",
                 "before#1:counter += 1;": "proof { lemma_push_concat(out0, output@); assert(lits_of(query_builder.dialect(), params@)[c0] == vts(query_builder.dialect(), params@[c0])); }",
                 "before#1:i += 2;": "proof { lemma_push_concat(out0, output@); let n = num_after(tokens@, i0)->Some_0; assert(lits_of(query_builder.dialect(), params@)[n - 1] == vts(query_builder.dialect(), params@[n - 1])); }",
                 "loop1-end": "proof { lemma_push_concat(out0, output@); }",
                 "before#1:vconcat_strings(output)": "proof { assert(inject_from(tokens@, i as int, counter as int, query_builder.mark(), query_builder.numbered(), lits_of(query_builder.dialect(), params@)) =~= Seq::<char>::empty()); }"})
    u.spec('''
pub proof fn lemma_push_concat(a: Seq<String>, b: Seq<String>)
    requires b.len() == a.len() + 1, forall|k: int| 0 <= k < a.len() ==> a[k] == b[k]
    ensures concat_all(b) == concat_all(a) + b.last()@
{
    assert(b.drop_last() =~= a);
}
''', "custom::lemma_push_concat", props=P)
    u.emit("} // verus!\nfn main() {}\n")
