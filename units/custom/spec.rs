// =============================================================================================
// unit `custom` - specification (hand-written) for C11, over the TOKEN LIST of the template.
// (Unit `token` proves that the token list is a lossless split of the template and that a mark inside quotes is
// part of a Quoted token; here the tokenizer is imported through that contract as a deterministic token source.)
// =============================================================================================
pub open spec fn tok_text(t: Token) -> Seq<char> {
    match t { Token::Quoted(s) => s@, Token::Unquoted(s) => s@, Token::Space(s) => s@, Token::Punctuation(s) => s@ }
}
// str::parse::<usize>() (std, left uninterpreted except that it is a function of the text)
pub uninterp spec fn spec_parse_usize(s: Seq<char>) -> Option<usize>;

pub open spec fn is_mark(t: Token, mark: Seq<char>) -> bool { t is Punctuation && tok_text(t) == mark }
pub open spec fn num_after(ts: Seq<Token>, i: int) -> Option<usize> {
    if i + 1 < ts.len() && ts[i + 1] is Unquoted { spec_parse_usize(tok_text(ts[i + 1])) } else { None }
}
// THE PROPERTY (C11), as a function of the token list: what a template with values renders to.
//   mark mark            -> one literal mark
//   mark <n>  (numbered) -> the n-th value
//   mark                 -> the next positional value
//   any other token      -> itself, unchanged   (in particular: a mark followed by a non-numeric word on a numbered
//                           backend is NOT a placeholder; mark and word are both emitted unchanged)
pub open spec fn subst_from(ts: Seq<Token>, i: int, count: int, mark: Seq<char>, numbered: bool, vals: Seq<Seq<char>>) -> Seq<char>
    decreases ts.len() - i
{
    if i < 0 || i >= ts.len() { Seq::<char>::empty() }
    else if is_mark(ts[i], mark) {
        if i + 1 < ts.len() && is_mark(ts[i + 1], mark) { mark + subst_from(ts, i + 2, count, mark, numbered, vals) }
        else if numbered && i + 1 < ts.len() && ts[i + 1] is Unquoted {
            match spec_parse_usize(tok_text(ts[i + 1])) {
                Some(n) => (if 1 <= n <= vals.len() { vals[n - 1] } else { Seq::<char>::empty() }) + subst_from(ts, i + 2, count, mark, numbered, vals),
                None => mark + subst_from(ts, i + 1, count, mark, numbered, vals),
            }
        }
        else { (if 0 <= count < vals.len() { vals[count] } else { Seq::<char>::empty() }) + subst_from(ts, i + 1, count + 1, mark, numbered, vals) }
    }
    else { tok_text(ts[i]) + subst_from(ts, i + 1, count, mark, numbered, vals) }
}
// the template designates only values that were supplied (precondition derived from the code's indexing)
pub open spec fn subst_ok(ts: Seq<Token>, i: int, count: int, mark: Seq<char>, numbered: bool, nvals: int) -> bool
    decreases ts.len() - i
{
    if i < 0 || i >= ts.len() { true }
    else if is_mark(ts[i], mark) {
        if i + 1 < ts.len() && is_mark(ts[i + 1], mark) { subst_ok(ts, i + 2, count, mark, numbered, nvals) }
        else if numbered && i + 1 < ts.len() && ts[i + 1] is Unquoted {
            match spec_parse_usize(tok_text(ts[i + 1])) {
                Some(n) => 1 <= n <= nvals && subst_ok(ts, i + 2, count, mark, numbered, nvals),
                None => subst_ok(ts, i + 1, count, mark, numbered, nvals),
            }
        }
        else { 0 <= count < nvals && subst_ok(ts, i + 1, count + 1, mark, numbered, nvals) }
    }
    else { subst_ok(ts, i + 1, count, mark, numbered, nvals) }
}

// shifting the window: rendering from position i of ts == rendering from 0 of the suffix ts[i..]
pub proof fn lemma_subst_shift(ts: Seq<Token>, i: int, count: int, mark: Seq<char>, numbered: bool, vals: Seq<Seq<char>>, nvals: int)
    requires 0 <= i <= ts.len()
    ensures
        subst_from(ts, i, count, mark, numbered, vals) == subst_from(ts.subrange(i, ts.len() as int), 0, count, mark, numbered, vals),
        subst_ok(ts, i, count, mark, numbered, nvals) == subst_ok(ts.subrange(i, ts.len() as int), 0, count, mark, numbered, nvals),
    decreases ts.len() - i
{
    let sub = ts.subrange(i, ts.len() as int);
    if i < ts.len() {
        assert(sub[0] == ts[i]);
        if i + 1 < ts.len() { assert(sub[1] == ts[i + 1]); }
        // the two possible successors: one or two tokens consumed
        assert(sub.subrange(1, sub.len() as int) =~= ts.subrange(i + 1, ts.len() as int));
        lemma_subst_shift(ts, i + 1, count, mark, numbered, vals, nvals);
        lemma_subst_shift(ts, i + 1, count + 1, mark, numbered, vals, nvals);
        lemma_subst_shift(sub, 1, count, mark, numbered, vals, nvals);
        lemma_subst_shift(sub, 1, count + 1, mark, numbered, vals, nvals);
        if i + 2 <= ts.len() {
            assert(sub.subrange(2, sub.len() as int) =~= ts.subrange(i + 2, ts.len() as int));
            lemma_subst_shift(ts, i + 2, count, mark, numbered, vals, nvals);
            lemma_subst_shift(sub, 2, count, mark, numbered, vals, nvals);
        }
    }
}

// ---- the tokenizer as a deterministic token source (prophetic view; justified by unit `token`: next() is a total,
//      terminating function of (chars, p)) ---------------------------------------------------------------------------
pub struct Tokenizer { pub chars: Vec<char>, pub p: usize }
pub uninterp spec fn tokens_of(s: Seq<char>) -> Seq<Token>;
impl Tokenizer {
    pub uninterp spec fn remaining(&self) -> Seq<Token>;
    #[verifier::external_body]
    pub fn new(string: &str) -> (r: Self) ensures r.remaining() == tokens_of(string@) { unimplemented!() }
    #[verifier::external_body]
    pub fn next(&mut self) -> (r: Option<Token>)
        ensures old(self).remaining().len() == 0 ==> r is None && final(self).remaining() == old(self).remaining(),
                old(self).remaining().len() > 0 ==> r == Some(old(self).remaining()[0]) && final(self).remaining() == old(self).remaining().drop_first(),
    { unimplemented!() }
    pub fn iter(self) -> (r: Self) ensures r == self { self }
}
// R-peek: std::iter::Peekable, re-implemented in 20 lines and VERIFIED against next()'s contract (std's Peekable is trusted
// to behave like this: peek() shows what the next next() returns)
pub struct VPeek { pub inner: Tokenizer, pub peeked: Option<Option<Token>> }
impl VPeek {
    pub open spec fn remaining(&self) -> Seq<Token> {
        match self.peeked { Some(Some(t)) => seq![t] + self.inner.remaining(), Some(None) => Seq::<Token>::empty(), None => self.inner.remaining() }
    }
    pub open spec fn wf(&self) -> bool { self.peeked == Some(None::<Token>) ==> self.inner.remaining().len() == 0 }
    pub fn new(inner: Tokenizer) -> (r: Self) ensures r.remaining() == inner.remaining(), r.wf() { VPeek { inner, peeked: None } }
    pub fn next(&mut self) -> (r: Option<Token>)
        requires old(self).wf()
        ensures final(self).wf(),
                old(self).remaining().len() == 0 ==> r is None && final(self).remaining().len() == 0,
                old(self).remaining().len() > 0 ==> r == Some(old(self).remaining()[0]) && final(self).remaining() == old(self).remaining().drop_first(),
    {
        match self.peeked.take() {
            Some(v) => {
                proof { if v is Some { assert((seq![v->Some_0] + self.inner.remaining()).drop_first() =~= self.inner.remaining()); } }
                if v.is_none() { self.peeked = Some(None); }
                v
            }
            None => self.inner.next(),
        }
    }
    pub fn peek(&mut self) -> (r: Option<&Token>)
        requires old(self).wf()
        ensures final(self).wf(), final(self).remaining() == old(self).remaining(),
                old(self).remaining().len() == 0 ==> r is None,
                old(self).remaining().len() > 0 ==> r is Some && *r->Some_0 == old(self).remaining()[0],
    {
        if self.peeked.is_none() {
            let ghost rem0 = self.inner.remaining();
            let v = self.inner.next();
            proof { if v is Some { assert(seq![v->Some_0] + self.inner.remaining() =~= rem0); } }
            self.peeked = Some(v);
        }
        match &self.peeked { Some(Some(t)) => Some(t), _ => None }
    }
}

// ---- trusted shims --------------------------------------------------------------------------------------------------
#[verifier::external_body]
fn vstr_eq(a: &str, b: &str) -> (r: bool) ensures r == (a@ == b@) { a == b }
#[verifier::external_body]
fn vparse_usize(s: &str) -> (r: Option<usize>) ensures r == spec_parse_usize(s@) { s.parse::<usize>().ok() }
impl VDisp for Token {
    open spec fn disp(&self) -> Seq<char> { tok_text(*self) }
    // Display for Token writes the token's text (extracted and verified in unit `token`: Token::as_str / Display)
    #[verifier::external_body] fn vdisp(&self) -> (r: String) { unimplemented!() }
}
pub uninterp spec fn expr_text(x: SimpleExpr) -> Seq<char>;
pub open spec fn texts_of(v: Seq<SimpleExpr>) -> Seq<Seq<char>> { v.map_values(|x: SimpleExpr| expr_text(x)) }

// ---- inject_parameters: same substitution over the token list of a parameterised statement, with the backend's inline
//      literal of each value (no doubled-mark rule: build() never emits one) ---------------------------------------------------
pub open spec fn inject_from(ts: Seq<Token>, i: int, counter: int, mark: Seq<char>, numbered: bool, lits: Seq<Seq<char>>) -> Seq<char>
    decreases ts.len() - i
{
    if i < 0 || i >= ts.len() { Seq::<char>::empty() }
    else if is_mark(ts[i], mark) && !numbered { (if 0 <= counter < lits.len() { lits[counter] } else { Seq::<char>::empty() }) + inject_from(ts, i + 1, counter + 1, mark, numbered, lits) }
    else if is_mark(ts[i], mark) && numbered && num_after(ts, i) is Some {
        let n = num_after(ts, i)->Some_0;
        (if 1 <= n <= lits.len() { lits[n - 1] } else { Seq::<char>::empty() }) + inject_from(ts, i + 2, counter, mark, numbered, lits)
    }
    else { tok_text(ts[i]) + inject_from(ts, i + 1, counter, mark, numbered, lits) }
}
pub open spec fn inject_ok(ts: Seq<Token>, i: int, counter: int, mark: Seq<char>, numbered: bool, n: int) -> bool
    decreases ts.len() - i
{
    if i < 0 || i >= ts.len() { true }
    else if is_mark(ts[i], mark) && !numbered { 0 <= counter < n && inject_ok(ts, i + 1, counter + 1, mark, numbered, n) }
    else if is_mark(ts[i], mark) && numbered && num_after(ts, i) is Some { 1 <= num_after(ts, i)->Some_0 <= n && inject_ok(ts, i + 2, counter, mark, numbered, n) }
    else { inject_ok(ts, i + 1, counter, mark, numbered, n) }
}
#[verifier::external_body]
pub struct Value { _opaque: u8 }
pub uninterp spec fn vts(dialect: int, v: Value) -> Seq<char>;
pub open spec fn lits_of(dialect: int, v: Seq<Value>) -> Seq<Seq<char>> { v.map_values(|x: Value| vts(dialect, x)) }
pub open spec fn concat_all(v: Seq<String>) -> Seq<char>
    decreases v.len()
{ if v.len() == 0 { Seq::<char>::empty() } else { concat_all(v.drop_last()) + v.last()@ } }
// R-collect (trusted): `Vec<String>.into_iter().collect::<String>()` concatenates in order
#[verifier::external_body]
fn vconcat_strings(v: Vec<String>) -> (r: String) ensures r@ == concat_all(v@) { v.into_iter().collect() }
// R-iterimpl (trusted + unit token's driver): `tokenizer.iter().collect::<Vec<Token>>()` is the list of tokens next() yields
#[verifier::external_body]
fn vcollect_tokens(t: Tokenizer) -> (r: Vec<Token>) ensures r@ == t.remaining() { unimplemented!() }
// (mark, flag) == placeholder(): tuple equality of (&str, bool)
#[verifier::external_body]
fn vph_eq(m: &str, flag: bool, ph: (&str, bool)) -> (r: bool) ensures r == (m@ == ph.0@ && flag == ph.1) { (m, flag) == ph }
pub trait InjQb {
    spec fn dialect(&self) -> int;
    spec fn mark(&self) -> Seq<char>;
    spec fn numbered(&self) -> bool;
    fn placeholder(&self) -> (r: (&str, bool)) ensures r.0@ == self.mark(), r.1 == self.numbered();
    fn value_to_string(&self, v: &Value) -> (r: String) ensures r@ == vts(self.dialect(), *v);
}
pub proof fn lemma_inject_shift(ts: Seq<Token>, i: int, c: int, mark: Seq<char>, numbered: bool, lits: Seq<Seq<char>>)
    requires 0 <= i <= ts.len()
    ensures inject_from(ts, i, c, mark, numbered, lits) == (if i < ts.len() {
        if is_mark(ts[i], mark) && !numbered { (if 0 <= c < lits.len() { lits[c] } else { Seq::<char>::empty() }) + inject_from(ts, i + 1, c + 1, mark, numbered, lits) }
        else if is_mark(ts[i], mark) && numbered && num_after(ts, i) is Some { (if 1 <= num_after(ts, i)->Some_0 <= lits.len() { lits[num_after(ts, i)->Some_0 - 1] } else { Seq::<char>::empty() }) + inject_from(ts, i + 2, c, mark, numbered, lits) }
        else { tok_text(ts[i]) + inject_from(ts, i + 1, c, mark, numbered, lits) } } else { Seq::<char>::empty() })
{
}
