"""unit `prec`  ->  C05: rendered expressions re-parse to the tree that was built.

Under contract: Oper::{is_logical, is_between, is_like, is_in, is_is, is_shift, is_arithmetic, is_comparison},
From<UnOper|BinOper> for Oper (src/backend/mod.rs); SimpleExpr::{is_binary, get_bin_oper} (src/expr.rs);
common_inner_expr_well_known_greater_precedence, common_well_known_left_associative, QueryBuilder::binary_expr and the
Unary arm of prepare_simple_expr_common (src/backend/query_builder.rs); the PrecedenceDecider / OperLeftAssocDecider
impls of the three backends with is_pg_comparison / is_ilike (src/backend/{mysql,postgres,sqlite}).
Run twice: default features and `option-more-parentheses`.
"""
import re
from vlib import rustlex as rl
from vlib.gen import make_r_fmt, make_r_sub, r_dynw, r_unit_tail, make_r_tailbind, DEFAULT_FEATURES, r_enumerate

M = "src/backend/mod.rs"
QB = "src/backend/query_builder.rs"
# C06 (the rendered predicate MEANS the conjunction that was added) rests on the text re-parsing to the tree built: every obligation here carries it too
P = ["C05", "C06"]
OPAQUE = ["ColumnRef", "FunctionCall", "SubQueryOper", "SubQueryStatement", "Keyword", "DynIden", "Condition"]
BACK = {"MysqlQueryBuilder": ("MySql", "src/backend/mysql/mod.rs", "src/backend/mysql/mod.rs"),
        "PostgresQueryBuilder": ("Postgres", "src/backend/postgres/query.rs", "src/backend/postgres/query.rs"),
        "SqliteQueryBuilder": ("Sqlite", "src/backend/sqlite/mod.rs", "src/backend/sqlite/mod.rs")}

r_fmt = make_r_fmt(wmap=lambda w: w)
r_into_oper = make_r_sub("R-into", r"&\(\*op\)\.into\(\)", "&Oper::from_bin(*op)")
r_vis = make_r_sub("R-vis", r"pub\(crate\) ", "pub ", min_count=0)


ENGINE_UNPARSE = r"""
// ---- the theorem instantiated with each engine's precedence table ------------------------------------------------------------------------
// abstract trees over the crate's BinOper: every expression that is neither a binary operation, BETWEEN .. AND nor NOT is an atom (written
// as one self-delimiting group, or inside parentheses)
pub open spec fn ut_prec(e: Engine, op: BinOper) -> int { match prec_bin(e, op) { Some(p) => p, None => 0 } }   // operators outside the table (custom): operands always parenthesised
// x BETWEEN lo AND hi  /  x NOT BETWEEN lo AND hi: the ternary operators, their keyword is the AND token
pub open spec fn ut_kw(op: BinOper) -> Option<BinOper> { if op == BinOper::Between || op == BinOper::NotBetween { Some(BinOper::And) } else { None } }
// what the contracts of binary_expr / prepare_between_bound / the NOT arm guarantee about an operand written WITHOUT parentheses
// (safe_bare / safe_bare_left / between_bounds_ok of this unit, on abstract trees)
pub open spec fn ut_top(c: UT<BinOper>) -> Option<BinOper> { match c { UT::Bin(o, _, _) => Some(o), UT::Tern(o, _, _, _) => Some(o), _ => None } }
pub open spec fn ut_safe(e: Engine, c: UT<BinOper>, outer: Oper) -> bool {
    c is Atom || (ut_top(c) is Some && prec_bin(e, ut_top(c)->Some_0) is Some && prec(e, outer) is Some && prec_bin(e, ut_top(c)->Some_0)->Some_0 > prec(e, outer)->Some_0)
}
pub open spec fn ut_safe_left(e: Engine, c: UT<BinOper>, op: BinOper) -> bool {
    ut_safe(e, c, Oper::BinOper(op)) || (c matches UT::Bin(iop, _, _) && iop == op && left_assoc(e, op))
}
pub struct UtPrinter {     // a printer's parenthesis decisions (any)
    pub dl: spec_fn(UT<BinOper>, BinOper) -> bool, pub dr: spec_fn(UT<BinOper>, BinOper) -> bool, pub dn: spec_fn(UT<BinOper>) -> bool,
    pub da: spec_fn(UT<BinOper>, BinOper) -> bool, pub db: spec_fn(UT<BinOper>, BinOper) -> bool,
}
pub open spec fn engine_table(e: Engine, p: UtPrinter) -> UpTable<BinOper> {
    UpTable { prec: |op: BinOper| ut_prec(e, op), prec_not: prec_not(e), dl: p.dl, dr: p.dr, dn: p.dn, kw: |op: BinOper| ut_kw(op), da: p.da, db: p.db }
}
// the printer omits parentheses only where the contracts proved in this unit allow
pub open spec fn ut_printer_respects_contracts(e: Engine, p: UtPrinter) -> bool {
    &&& forall|c: UT<BinOper>, op: BinOper| #[trigger] (p.dl)(c, op) ==> ut_safe_left(e, c, op)
    &&& forall|c: UT<BinOper>, op: BinOper| #[trigger] (p.dr)(c, op) ==> ut_safe(e, c, Oper::BinOper(op))
    &&& forall|c: UT<BinOper>| #[trigger] (p.dn)(c) ==> ut_safe(e, c, Oper::UnOper(UnOper::Not))
    &&& forall|c: UT<BinOper>, op: BinOper| #[trigger] (p.da)(c, op) ==> ut_safe(e, c, Oper::BinOper(op))
    &&& forall|c: UT<BinOper>, op: BinOper| #[trigger] (p.db)(c, op) ==> ut_safe(e, c, Oper::BinOper(op))
}
// C05, the global statement: ANY parenthesis decisions that respect the local conditions proved for binary_expr, prepare_between_bound and
// the NOT arm re-parse, under engine e's table, to the tree that was built (BETWEEN / NOT BETWEEN used as ternary operators only)
pub proof fn theorem_unparse_engine(e: Engine, p: UtPrinter, t: UT<BinOper>)
    requires ut_printer_respects_contracts(e, p), up_wf(engine_table(e, p), t),
    ensures ({ let tb = engine_table(e, p); up_parse_e(tb, up_print(tb, t), 0, UP_MIN) == Some((t, up_print(tb, t).len() as int)) })
{
    reveal(prec_bin);
    let tb = engine_table(e, p);
    assert(up_printer_ok(tb)) by {
        assert forall|op: BinOper| #[trigger] (tb.prec)(op) > UP_MIN by { }
        assert forall|c: UT<BinOper>, op: BinOper| #[trigger] (tb.dl)(c, op) implies up_safe_l(tb, c, op) by { }
        assert forall|c: UT<BinOper>, op: BinOper| #[trigger] (tb.dr)(c, op) implies up_safe_r(tb, c, op) by { }
        assert forall|c: UT<BinOper>| #[trigger] (tb.dn)(c) implies up_safe_n(tb, c) by { }
        assert forall|c: UT<BinOper>, op: BinOper| #[trigger] (tb.da)(c, op) implies up_safe_r(tb, c, op) by { }
        assert forall|c: UT<BinOper>, op: BinOper| #[trigger] (tb.db)(c, op) implies up_safe_r(tb, c, op) by { }
        assert forall|op: BinOper| (#[trigger] (tb.kw)(op)) is Some implies (tb.prec)((tb.kw)(op)->Some_0) <= (tb.prec)(op) by { }
    }
    theorem_unparse(tb, t);
}
// .. in particular the MOST permissive printer the contracts allow (every omission they permit is taken): no hypothesis about the printer left
pub open spec fn ut_most_permissive(e: Engine) -> UtPrinter {
    UtPrinter { dl: |c: UT<BinOper>, op: BinOper| ut_safe_left(e, c, op), dr: |c: UT<BinOper>, op: BinOper| ut_safe(e, c, Oper::BinOper(op)), dn: |c: UT<BinOper>| ut_safe(e, c, Oper::UnOper(UnOper::Not)),
                da: |c: UT<BinOper>, op: BinOper| ut_safe(e, c, Oper::BinOper(op)), db: |c: UT<BinOper>, op: BinOper| ut_safe(e, c, Oper::BinOper(op)) }
}
pub proof fn corollary_unparse_most_permissive(e: Engine, t: UT<BinOper>)
    requires up_wf(engine_table(e, ut_most_permissive(e)), t)
    ensures ({ let tb = engine_table(e, ut_most_permissive(e)); up_parse_e(tb, up_print(tb, t), 0, UP_MIN) == Some((t, up_print(tb, t).len() as int)) })
{
    theorem_unparse_engine(e, ut_most_permissive(e), t);
}
"""


def build(u, variant=None):
    mp = variant == "more-parentheses"
    if mp:
        u.features = set(DEFAULT_FEATURES) | {"option-more-parentheses"}
    MP = "true" if mp else "false"
    u.emit("use vstd::prelude::*;\nverus! {\n")
    for n in OPAQUE:
        u.emit("#[verifier::external_body]\npub struct %s { _opaque: u8 }\n" % n, kind="spec", key="R-opaque:" + n, props=P)
    u.prelude_file("vlib/prelude/vfmt.rs")
    u.type_item("src/value.rs", "enum", "Value", props=P)
    u.type_item("src/types.rs", "enum", "UnOper", props=P, keep_derive=("Clone", "Copy"))
    u.type_item("src/extension/postgres/mod.rs", "enum", "PgBinOper", props=P, keep_derive=("Clone", "Copy"))
    u.type_item("src/extension/sqlite/mod.rs", "enum", "SqliteBinOper", props=P, keep_derive=("Clone", "Copy"))
    u.type_item("src/types.rs", "enum", "BinOper", props=P, keep_derive=("Clone", "Copy"))
    u.type_item("src/expr.rs", "enum", "SimpleExpr", props=P)
    # CASE: real types (the renderer is under contract: the whole expression sits inside ONE pair of parentheses)
    u.type_item("src/query/case.rs", "struct", "CaseStatementCondition", props=P, rules=[r_vis])
    u.type_item("src/query/case.rs", "struct", "CaseStatement", props=P, rules=[r_vis])
    u.type_item(M, "enum", "Oper", props=P)
    u.prelude_file("units/prec/spec.rs", props=P)
    u.prelude_file("units/prec/unparse.rs", props=P)
    u.spec(ENGINE_UNPARSE, "prec::unparsing-theorem(engines)", props=P)

    # ---- Oper classes -------------------------------------------------------------------------------------------------------
    u.emit("impl Oper {\n")
    for nm, src_ty, var in [("from_un", "UnOper", "UnOper"), ("from_bin", "BinOper", "BinOper")]:
        u.fn(M, "impl From<%s> for Oper" % src_ty, "from", ret="r", rename=nm, props=P, key="From<%s> for Oper" % src_ty, vpath="Oper::" + nm,
             spec="ensures r == Oper::%s(value)," % var)
    for nm in ["is_logical", "is_between", "is_like", "is_in", "is_is", "is_shift", "is_arithmetic", "is_comparison"]:
        u.fn(M, "impl Oper", nm, ret="r", rules=[r_vis], props=P, spec="ensures r == s_%s(*self)," % nm)
    u.emit("}\nimpl SimpleExpr {\n")
    u.fn("src/expr.rs", "impl SimpleExpr", "is_binary", ret="r", rules=[r_vis], props=P, spec="ensures r == (self is Binary),")
    u.fn("src/expr.rs", "impl SimpleExpr", "get_bin_oper", ret="r", rules=[r_vis], props=P,
         spec="ensures (r is Some) == (self is Binary), *self matches SimpleExpr::Binary(_, o, _) ==> r == Some(&o),")
    u.emit("}\n")

    # ---- the common decision functions --------------------------------------------------------------------------------------
    r_into_inner = make_r_sub("R-into", r"let inner_oper: Oper = \(\*inner_oper\)\.into\(\);", "let inner_oper: Oper = Oper::from_bin(*inner_oper);")
    u.fn(QB, None, "common_inner_expr_well_known_greater_precedence", ret="r", rules=[r_vis, r_into_inner], props=P,
         spec="ensures r == drop_common(%s, *inner, *outer_oper)," % MP, proofs={"body-start": "proof { reveal(drop_common); }"})
    u.fn(QB, None, "common_well_known_left_associative", ret="r", rules=[r_vis], props=P, spec="ensures r == lassoc_common(*op),")
    u.fn("src/backend/postgres/query.rs", None, "is_pg_comparison", ret="r", props=P, spec="ensures r == s_is_pg_comparison(*b),")
    u.fn("src/backend/postgres/query.rs", None, "is_ilike", ret="r", props=P, spec="ensures r == s_is_ilike(*b),")

    for ty, (eng, dec_file, lassoc_file) in BACK.items():
        E = "Engine::" + eng
        u.emit("pub struct %s;\nimpl %s {\n" % (ty, ty))
        # deciders: exact decision spec; the property is lemma_drop_is_safe / lemma_lassoc_is_safe over these tables
        u.fn(dec_file, "impl PrecedenceDecider for %s" % ty, "inner_expr_well_known_greater_precedence", ret="r", props=P,
             key="%s::inner_expr_well_known_greater_precedence" % ty, rules=[make_r_sub("R-into", r"let inner_oper: Oper = \(\*inner_bin_oper\)\.into\(\);", "let inner_oper: Oper = Oper::from_bin(*inner_bin_oper);", min_count=0)],
             spec=[("ensures r == drop_of(%s, %s, *inner, *outer_oper)," % (E, MP), P),
                   ("    // C05: an operand written bare binds tighter than the operator around it, under this engine's table\n    r ==> safe_bare(%s, *inner, *outer_oper)," % E, P)],
             proofs={"body-start": "proof { reveal(drop_pg); if drop_of(%s, %s, *inner, *outer_oper) { lemma_drop_is_safe(%s, %s, *inner, *outer_oper); } }" % (E, MP, E, MP)})
        u.fn(lassoc_file, "impl OperLeftAssocDecider for %s" % ty, "well_known_left_associative", ret="r", props=P,
             key="%s::well_known_left_associative" % ty,
             spec=[("ensures r == lassoc_of(%s, *op)," % E, P), ("    r ==> left_assoc(%s, *op)," % E, P)],
             proofs={"body-start": "proof { if lassoc_of(%s, *op) { lemma_lassoc_is_safe(%s, *op); } }" % (E, E)})
        # abstract sub-renderers
        u.spec('''    #[verifier::external_body]
    fn prepare_simple_expr<W: VWrite>(&self, x: &SimpleExpr, sql: &mut W) ensures final(sql).text() == old(sql).text() + expr_text(%(E)s, *x) { unimplemented!() }
    #[verifier::external_body]
    fn prepare_bin_oper<W: VWrite>(&self, op: &BinOper, sql: &mut W) ensures final(sql).text() == old(sql).text() + bin_oper_text(%(E)s, *op) { unimplemented!() }
    #[verifier::external_body]
    fn prepare_un_oper<W: VWrite>(&self, op: &UnOper, sql: &mut W) ensures final(sql).text() == old(sql).text() + un_oper_text(%(E)s, *op) { unimplemented!() }
''' % {"E": E}, "prec::abstract-renderers", props=P)
        u.fn(QB, "trait QueryBuilder", "prepare_between_bound", props=P, key="%s::prepare_between_bound" % ty, vpath="%s::prepare_between_bound" % ty,
             rules=[r_dynw, r_fmt, r_into_oper],
             spec="ensures final(sql).text() == old(sql).text() + bound_text(%(E)s, %(MP)s, *op, *bound)," % {"E": E, "MP": MP},
             proofs={"body-start": "let ghost t0 = sql.text();\nproof { reveal(bound_text); reveal_strlit(\"(\"); reveal_strlit(\")\"); assert(\"(\"@ =~= seq!['(']); assert(\")\"@ =~= seq![')']); }",
                     "body-end": "proof { lemma_paren(!drop_paren, expr_text(%(E)s, *bound)); assert(sql.text() =~= t0 + paren(!drop_paren, expr_text(%(E)s, *bound))); }" % {"E": E}})
        # binary_expr (trait default, instantiated for this backend's deciders)
        u.fn(QB, "trait QueryBuilder", "binary_expr", props=P, key="%s::binary_expr" % ty, vpath="%s::binary_expr" % ty, 
             rules=[r_dynw, r_fmt, r_into_oper,
                    make_r_sub("R-attr", r"op == left\.get_bin_oper\(\)\.unwrap\(\)", "vbinoper_eq(op, left.get_bin_oper().unwrap())"),
                    make_r_sub("R-attr", r"\(op == &BinOper::As\)", "vbinoper_eq(op, &BinOper::As)"),
                    make_r_sub("R-into", r"&\(\*op\)\.into\(\)", "&Oper::from_bin(*op)", min_count=0),
                    # R-refpat: Verus has no `&` patterns: matches!(e, Some(&V)) == e.is_some() && *e.unwrap() == V
                    make_r_sub("R-refpat", r"matches!\(right\.get_bin_oper\(\), Some\(&(BinOper::[A-Za-z]+)\)\)", r"(right.get_bin_oper().is_some() && vbinoper_eq(right.get_bin_oper().unwrap(), &\1))", min_count=2)],
             spec=[("""ensures
    // shape: [(] left [)] op [(] right [)], with the parentheses decided as specified
    final(sql).text().subrange(0, old(sql).text().len() as int) == old(sql).text(),
    final(sql).text().subrange(old(sql).text().len() as int, final(sql).text().len() as int)
        == binary_text(%(E)s, %(MP)s, !left_bare(%(E)s, %(MP)s, *left, *op), *left, *op, !right_bare(%(E)s, %(MP)s, *op, *right), *right),""" % {"E": E, "MP": MP}, P),
                   ("    // C05, left operand: omitted parentheses are redundant under this engine's precedence / associativity\n    left_bare(%(E)s, %(MP)s, *left, *op) ==> safe_bare_left(%(E)s, *left, *op)," % {"E": E, "MP": MP}, P),
                   ("    // C05, right operand, plain precedence\n    drop_of(%(E)s, %(MP)s, *right, Oper::BinOper(*op)) ==> safe_bare(%(E)s, *right, Oper::BinOper(*op))," % {"E": E, "MP": MP}, P),
                   ("    // C05, x BETWEEN lo AND hi: lo and hi, parenthesised by the rules for AND, must also be safe under BETWEEN\n    between_hack(*op, *right) ==> (*right matches SimpleExpr::Binary(lo, _, hi) && between_bounds_ok(%(E)s, %(MP)s, *op, *lo, *hi))," % {"E": E, "MP": MP}, P),
                   ("    // C05, x LIKE p ESCAPE c: p and c are bare only when atomic\n    escape_hack(*op, *right) ==> (*right matches SimpleExpr::Binary(p, _, c) && escape_operands_ok(%(E)s, %(MP)s, *p, *c))," % {"E": E, "MP": MP}, P)],
             proofs={"body-start": "let ghost t0 = sql.text();\nproof { reveal_strlit(\"(\"); reveal_strlit(\")\"); reveal_strlit(\" \"); assert(\"(\"@ =~= seq!['(']); assert(\")\"@ =~= seq![')']); assert(\" \"@ =~= seq![' ']); }",
                     'before#1:vfmt_lit(sql, " ");': "let ghost t1 = sql.text();\nproof { lemma_paren(left_paren, expr_text(%(E)s, *left)); assert(t1 =~= t0 + paren(left_paren, expr_text(%(E)s, *left))); }" % {"E": E},
                     "before#1:// If right has higher precedence": "let ghost t2 = sql.text();\nproof { assert(t2 =~= t1 + (seq![' '] + bin_oper_text(%(E)s, *op) + seq![' '])); }" % {"E": E},
                     "body-end": """proof {
    let lp = left_paren; let rp = right_paren;
    assert(lp == !left_bare(%(E)s, %(MP)s, *left, *op));
    assert(rp == !right_bare(%(E)s, %(MP)s, *op, *right));
    assert(drop_right_between_hack == between_hack(*op, *right));
    lemma_paren(rp, right_text(%(E)s, %(MP)s, *op, *right));
    assert(sql.text() =~= t2 + paren(rp, right_text(%(E)s, %(MP)s, *op, *right)));
    lemma_concat3(t0, paren(lp, expr_text(%(E)s, *left)), seq![' '] + bin_oper_text(%(E)s, *op) + seq![' '], paren(rp, right_text(%(E)s, %(MP)s, *op, *right)), sql.text());
    if right is Binary {
        lemma_between_ok(%(E)s, %(MP)s, *op, *right->Binary_0, *right->Binary_2);
        lemma_escape_ok(%(E)s, %(MP)s, *right->Binary_0, *right->Binary_2);
    }
    if left_bare(%(E)s, %(MP)s, *left, *op) { lemma_left_safe(%(E)s, %(MP)s, *left, *op); }
    if drop_of(%(E)s, %(MP)s, *right, Oper::BinOper(*op)) { lemma_drop_is_safe(%(E)s, %(MP)s, *right, Oper::BinOper(*op)); }
}""" % {"E": E, "MP": MP}})
        # the Unary arm of prepare_simple_expr_common:  NOT <expr>
        u.arm(QB, "trait QueryBuilder", "prepare_simple_expr_common", "SimpleExpr::Unary(op, expr)", "unary_arm", "&self, op: &UnOper, expr: &SimpleExpr, sql: &mut W",
              rules=[make_r_sub("R-arm", r"fn unary_arm\(", "fn unary_arm<W: VWrite>("), r_fmt, make_r_sub("R-into", r"&\(\*op\)\.into\(\)", "&Oper::from_un(*op)")],
              props=P, key="%s::prepare_simple_expr_common[Unary arm]" % ty, vpath="%s::unary_arm" % ty,
              spec=[("ensures final(sql).text() == old(sql).text() + un_oper_text(%(E)s, *op) + seq![' '] + paren(!drop_of(%(E)s, %(MP)s, *expr, Oper::UnOper(*op)), expr_text(%(E)s, *expr))," % {"E": E, "MP": MP}, P),
                    ("    // C05: NOT x without parentheses only if x binds tighter than NOT\n    drop_of(%(E)s, %(MP)s, *expr, Oper::UnOper(*op)) ==> safe_bare(%(E)s, *expr, Oper::UnOper(*op))," % {"E": E, "MP": MP}, P)],
              proofs={"body-start": "let ghost t0 = sql.text();\nproof { reveal_strlit(\"(\"); reveal_strlit(\")\"); reveal_strlit(\" \"); assert(\"(\"@ =~= seq!['(']); assert(\")\"@ =~= seq![')']); assert(\" \"@ =~= seq![' ']); }",
                      "body-end": "proof { lemma_paren(!drop_expr_paren, expr_text(%(E)s, *expr)); assert(sql.text() =~= t0 + un_oper_text(%(E)s, *op) + seq![' '] + paren(!drop_expr_paren, expr_text(%(E)s, *expr))); }" % {"E": E}})
        # ---- operands that delimit themselves (spec `atomic`): a tuple and a CASE expression are written inside ONE pair of parentheses --------
        u.spec("""    #[verifier::external_body]
    fn prepare_condition_where<W: VWrite>(&self, x: &Condition, sql: &mut W) ensures final(sql).text() == old(sql).text() + cond_text(%(E)s, *x) { unimplemented!() }
    // #[derive(Clone)] (trusted): a structural copy
    #[verifier::external_body]
    fn vclone_opt_expr(x: &Option<SimpleExpr>) -> (r: Option<SimpleExpr>) ensures r == *x { unimplemented!() }
""" % {"E": E}, "prec::abstract-renderers(case)", props=P)
        u.fn(QB, "trait QueryBuilder", "prepare_tuple", props=P, key="%s::prepare_tuple" % ty, vpath="%s::prepare_tuple" % ty,
             rules=[r_dynw, make_r_sub("R-slice", r"exprs: &\[SimpleExpr\]", "exprs: &Vec<SimpleExpr>"), r_enumerate, r_fmt],
             spec="ensures\n    // ( e1, e2, .. ): the members in call order, comma separated, inside ONE pair of parentheses - a tuple delimits itself\n    final(sql).text() == old(sql).text() + \"(\"@ + tuple_inner(%s, exprs@, exprs@.len()) + \")\"@," % E,
             loops=["invariant i == ite1.index@, ite1.index@ <= exprs@.len(), exprs@.len() <= usize::MAX, sql.text() == t0 + \"(\"@ + tuple_inner(%s, exprs@, ite1.index@ as nat)," % E],
             proofs={"body-start": "let ghost t0 = sql.text();\nproof { axiom_vec_len_fits(exprs); }",
                     "before#1:let mut i: usize = 0;": "proof { assert(sql.text() =~= t0 + \"(\"@ + tuple_inner(%s, exprs@, 0)); }" % E,
                     "before#1:i += 1;": "proof { assert(sql.text() =~= t0 + \"(\"@ + tuple_inner(%s, exprs@, (ite1.index@ + 1) as nat)); }" % E})
        u.fn(QB, "trait QueryBuilder", "prepare_case_statement", props=P, key="%s::prepare_case_statement" % ty, vpath="%s::prepare_case_statement" % ty,
             rules=[r_dynw, r_fmt,
                    make_r_sub("R-refpat", r"let CaseStatement \{ when, r#else \} = stmts;", "let when = &stmts.when; let else_ = &stmts.r#else;"),
                    make_r_sub("R-rawident", r"if let Some\(r#else\) = r#else\.clone\(\)", "if let Some(else_v) = Self::vclone_opt_expr(else_)"),
                    make_r_sub("R-rawident", r"self\.prepare_simple_expr\(&r#else, sql\)", "self.prepare_simple_expr(&else_v, sql)"),
                    make_r_sub("R-forghost", r"for case in when\.iter\(\)", "for case in itw: when.iter()")],
             spec="ensures\n    // (CASE WHEN (cond) THEN result .. [ELSE result] END): every condition inside its own parentheses, the whole expression inside ONE pair - it delimits itself\n    final(sql).text() == old(sql).text() + \"(CASE\"@ + whens_text(%(E)s, stmts.when@, stmts.when@.len()) + (match stmts.r#else { Some(x) => \" ELSE \"@ + expr_text(%(E)s, x), None => Seq::<char>::empty() }) + \" END)\"@," % {"E": E},
             loops=["invariant itw.index@ <= when@.len(), sql.text() == t0 + \"(CASE\"@ + whens_text(%s, when@, itw.index@ as nat)," % E],
             proofs={"body-start": "let ghost t0 = sql.text();",
                     "before#1:for case in itw": "proof { assert(sql.text() =~= t0 + \"(CASE\"@ + whens_text(%s, when@, 0)); }" % E,
                     "loop1-end": "proof { assert(sql.text() =~= t0 + \"(CASE\"@ + whens_text(%s, when@, (itw.index@ + 1) as nat)); }" % E,
                     "body-end": "proof { assert(sql.text() =~= t0 + \"(CASE\"@ + whens_text(%(E)s, stmts.when@, stmts.when@.len()) + (match stmts.r#else { Some(x) => \" ELSE \"@ + expr_text(%(E)s, x), None => Seq::<char>::empty() }) + \" END)\"@); }" % {"E": E}})
        u.emit("}\n")
    u.emit("} // verus!\nfn main() {}\n")
