// =============================================================================================
// unit `prec` - the UNPARSING THEOREM for the binary / prefix-operator fragment (C05), proved here instead of assumed:
// if a printer writes an operand without parentheses only where the contracts of binary_expr / the NOT arm allow it (atomic operand,
// operand binding tighter, or - on the left - the same operator), then a precedence-climbing parser with the engine's table (what a
// yacc grammar with %left declarations does; equal precedence groups to the left) recovers EXACTLY the tree that was printed:
// every operator keeps the operands it was given.  Generic in the operator type and the table; instantiated for the three engines below.
// =============================================================================================
// ---- the unparsing theorem for the binary / prefix-operator fragment --------------------------------------------------------------
// abstract operator table of ONE engine: precedence of a binary operator, of the prefix operator NOT; which decisions the printer takes
pub enum UT<Op> { Atom(int), Bin(Op, Box<UT<Op>>, Box<UT<Op>>), Not(Box<UT<Op>>),
    // x <op> lo <kw> hi  with a MANDATORY keyword: x BETWEEN lo AND hi (the keyword is itself an ordinary, looser binary operator)
    Tern(Op, Box<UT<Op>>, Box<UT<Op>>, Box<UT<Op>>) }
pub enum UTok<Op> { A(int), O(Op), N, L, R }
// an engine's operator table and a printer's parenthesis decisions (any: the theorem quantifies over them)
#[verifier::reject_recursive_types(Op)]
pub struct UpTable<Op> {
    pub prec: spec_fn(Op) -> int,                 // precedence of a binary operator (higher binds tighter)
    pub prec_not: int,                            // precedence of the prefix operator NOT
    pub dl: spec_fn(UT<Op>, Op) -> bool,          // the printer writes the LEFT operand of op without parentheses
    pub dr: spec_fn(UT<Op>, Op) -> bool,          // .. the RIGHT operand
    pub dn: spec_fn(UT<Op>) -> bool,              // .. the operand of NOT
    pub kw: spec_fn(Op) -> Option<Op>,            // Some(k): op is a ternary operator `x op lo k hi` (BETWEEN .. AND); its keyword k is mandatory
    pub da: spec_fn(UT<Op>, Op) -> bool,          // the printer writes the FIRST bound of a ternary operator without parentheses
    pub db: spec_fn(UT<Op>, Op) -> bool,          // .. the SECOND bound
}

// lowest precedence an operator FOLLOWING the printed tree may have without being captured by it / the level at which the tree can stand bare
pub open spec fn up_top<Op>(tb: UpTable<Op>, t: UT<Op>) -> Option<int> { match t { UT::Atom(_) => None, UT::Bin(op, _, _) => Some((tb.prec)(op)), UT::Not(_) => Some(tb.prec_not), UT::Tern(op, _, _, _) => Some((tb.prec)(op)) } }
// what the contracts of binary_expr / the NOT arm guarantee (C05, proved in this unit for the three engines): an operand is written bare
// only if it is atomic, binds tighter, or - on the left - is the same left-associative operator
pub open spec fn up_safe_l<Op>(tb: UpTable<Op>, c: UT<Op>, op: Op) -> bool { match c { UT::Atom(_) => true, UT::Bin(cop, _, _) => (tb.prec)(cop) > (tb.prec)(op) || (cop == op), UT::Not(_) => false, UT::Tern(cop, _, _, _) => (tb.prec)(cop) > (tb.prec)(op) } }
pub open spec fn up_safe_r<Op>(tb: UpTable<Op>, c: UT<Op>, op: Op) -> bool { match c { UT::Atom(_) => true, UT::Bin(cop, _, _) => (tb.prec)(cop) > (tb.prec)(op), UT::Not(_) => false, UT::Tern(cop, _, _, _) => (tb.prec)(cop) > (tb.prec)(op) } }
pub open spec fn up_safe_n<Op>(tb: UpTable<Op>, c: UT<Op>) -> bool { match c { UT::Atom(_) => true, UT::Bin(cop, _, _) => (tb.prec)(cop) > tb.prec_not, UT::Not(_) => false, UT::Tern(cop, _, _, _) => (tb.prec)(cop) > tb.prec_not } }
pub open spec fn up_printer_ok<Op>(tb: UpTable<Op>) -> bool {
    &&& tb.prec_not > UP_MIN
    &&& forall|op: Op| #[trigger] (tb.prec)(op) > UP_MIN
    &&& forall|c: UT<Op>, op: Op| #[trigger] (tb.dl)(c, op) ==> up_safe_l(tb, c, op)
    &&& forall|c: UT<Op>, op: Op| #[trigger] (tb.dr)(c, op) ==> up_safe_r(tb, c, op)
    &&& forall|c: UT<Op>| #[trigger] (tb.dn)(c) ==> up_safe_n(tb, c)
    // the bounds of a ternary operator are ordinary right-hand operands of it; its keyword binds no tighter than the operator itself
    &&& forall|c: UT<Op>, op: Op| #[trigger] (tb.da)(c, op) ==> up_safe_r(tb, c, op)
    &&& forall|c: UT<Op>, op: Op| #[trigger] (tb.db)(c, op) ==> up_safe_r(tb, c, op)
    &&& forall|op: Op| (#[trigger] (tb.kw)(op)) is Some ==> (tb.prec)((tb.kw)(op)->Some_0) <= (tb.prec)(op)
}
// a ternary operator is used in ternary nodes only, a binary one in binary nodes only
pub open spec fn up_wf<Op>(tb: UpTable<Op>, t: UT<Op>) -> bool
    decreases t
{
    match t {
        UT::Atom(_) => true,
        UT::Bin(op, l, r) => (tb.kw)(op) is None && up_wf(tb, *l) && up_wf(tb, *r),
        UT::Not(x) => up_wf(tb, *x),
        UT::Tern(op, x, a, b) => (tb.kw)(op) is Some && up_wf(tb, *x) && up_wf(tb, *a) && up_wf(tb, *b),
    }
}
pub open spec fn up_wrap<Op>(b: bool, s: Seq<UTok<Op>>) -> Seq<UTok<Op>> { if b { s } else { seq![UTok::L] + s + seq![UTok::R] } }
// the printer: [(] left [)] op [(] right [)]  /  NOT [(] x [)]
pub open spec fn up_print<Op>(tb: UpTable<Op>, t: UT<Op>) -> Seq<UTok<Op>>
    decreases t
{
    match t {
        UT::Atom(a) => seq![UTok::A(a)],
        UT::Bin(op, l, r) => up_wrap((tb.dl)(*l, op), up_print(tb, *l)) + seq![UTok::O(op)] + up_wrap((tb.dr)(*r, op), up_print(tb, *r)),
        UT::Not(x) => seq![UTok::N] + up_wrap((tb.dn)(*x), up_print(tb, *x)),
        UT::Tern(op, x, a, b) => up_wrap((tb.dl)(*x, op), up_print(tb, *x)) + seq![UTok::O(op)] + up_wrap((tb.da)(*a, op), up_print(tb, *a))
            + seq![UTok::O((tb.kw)(op)->Some_0)] + up_wrap((tb.db)(*b, op), up_print(tb, *b)),
    }
}

// the engine: precedence climbing (what a yacc grammar with %left declarations does); equal precedence groups to the left
pub spec const UP_MIN: int = -1000000000;
pub open spec fn up_parse_p<Op>(tb: UpTable<Op>, s: Seq<UTok<Op>>, i: int) -> Option<(UT<Op>, int)>
    decreases s.len() - i, 1nat
{
    if i < 0 || i >= s.len() { None } else {
        match s[i] {
            UTok::A(a) => Some((UT::Atom(a), i + 1)),
            UTok::L => match up_parse_e(tb, s, i + 1, UP_MIN) {
                Some((t, j)) => if j > i && j < s.len() && s[j] is R { Some((t, j + 1)) } else { None },
                None => None },
            UTok::N => match up_parse_e(tb, s, i + 1, tb.prec_not) { Some((t, j)) => Some((UT::Not(Box::new(t)), j)), None => None },
            _ => None,
        }
    }
}
pub open spec fn up_parse_e<Op>(tb: UpTable<Op>, s: Seq<UTok<Op>>, i: int, m: int) -> Option<(UT<Op>, int)>
    decreases s.len() - i, 2nat
{
    if i < 0 || i >= s.len() { None } else {
        match up_parse_p(tb, s, i) { None => None, Some((lhs, j)) => if j > i && j <= s.len() { up_climb(tb, s, lhs, j, m) } else { None } }
    }
}
pub open spec fn up_climb<Op>(tb: UpTable<Op>, s: Seq<UTok<Op>>, lhs: UT<Op>, j: int, m: int) -> Option<(UT<Op>, int)>
    decreases s.len() - j, 0nat
{
    if j >= 0 && j < s.len() && s[j] is O && (tb.prec)(s[j]->O_0) >= m {
        let op = s[j]->O_0;
        match up_parse_e(tb, s, j + 1, (tb.prec)(op) + 1) {
            None => None,
            Some((rhs, k)) => if !(k > j && k <= s.len()) { None }
                else if (tb.kw)(op) is Some {
                    // ternary operator: its keyword is mandatory, then the second bound (parsed like the first)
                    if k < s.len() && s[k] is O && s[k]->O_0 == (tb.kw)(op)->Some_0 {
                        match up_parse_e(tb, s, k + 1, (tb.prec)(op) + 1) {
                            None => None,
                            Some((hi, k2)) => if k2 > k && k2 <= s.len() { up_climb(tb, s, UT::Tern(op, Box::new(lhs), Box::new(rhs), Box::new(hi)), k2, m) } else { None },
                        }
                    } else { None }
                } else { up_climb(tb, s, UT::Bin(op, Box::new(lhs), Box::new(rhs)), k, m) },
        }
    } else { Some((lhs, j)) }
}

// ---- the theorem ----------------------------------------------------------------------------------------------------------------------
// (opaque: the quantifier stays out of the contexts of the lemmas below; they use lemma_up_at / lemma_up_split / lemma_up_self)
#[verifier::opaque]
pub open spec fn up_matches<Op>(s: Seq<UTok<Op>>, i: int, x: Seq<UTok<Op>>) -> bool { 0 <= i && i + x.len() <= s.len() && forall|k: int| 0 <= k < x.len() ==> s[i + k] == #[trigger] x[k] }
pub proof fn lemma_up_split<Op>(s: Seq<UTok<Op>>, i: int, a: Seq<UTok<Op>>, b: Seq<UTok<Op>>)
    requires up_matches(s, i, a + b)
    ensures up_matches(s, i, a), up_matches(s, i + a.len(), b)
{
    reveal(up_matches);
    assert forall|k: int| 0 <= k < a.len() implies s[i + k] == #[trigger] a[k] by { assert((a + b)[k] == a[k]); }
    assert forall|k: int| 0 <= k < b.len() implies s[i + a.len() + k] == #[trigger] b[k] by { assert((a + b)[a.len() + k] == b[k]); }
}
pub proof fn lemma_up_at<Op>(s: Seq<UTok<Op>>, i: int, x: Seq<UTok<Op>>, k: int)
    requires up_matches(s, i, x), 0 <= k < x.len()
    ensures 0 <= i, i + x.len() <= s.len(), s[i + k] == x[k]
{ reveal(up_matches); }
pub proof fn lemma_up_self<Op>(x: Seq<UTok<Op>>) ensures up_matches(x, 0, x) { reveal(up_matches); }
// the tree can stand WITHOUT parentheses where operators of precedence >= m are being collected
pub open spec fn up_bare_at<Op>(tb: UpTable<Op>, t: UT<Op>, m: int) -> bool { match t { UT::Atom(_) => true, UT::Bin(op, _, _) => (tb.prec)(op) >= m, UT::Not(_) => true, UT::Tern(op, _, _, _) => (tb.prec)(op) >= m } }
// the token after the tree does not reach into it: end of input, `)`, or an operator that binds no tighter than the tree's top operator
pub open spec fn up_follow_ok<Op>(tb: UpTable<Op>, t: UT<Op>, s: Seq<UTok<Op>>, j: int) -> bool {
    j >= s.len() || s[j] is R || (s[j] is O && match t { UT::Atom(_) => true, UT::Bin(op, _, _) => (tb.prec)(s[j]->O_0) <= (tb.prec)(op), UT::Not(_) => (tb.prec)(s[j]->O_0) < tb.prec_not, UT::Tern(op, _, _, _) => (tb.prec)(s[j]->O_0) <= (tb.prec)(op) })
}
pub proof fn lemma_up_len<Op>(tb: UpTable<Op>, t: UT<Op>) ensures up_print(tb, t).len() >= 1 decreases t
{ match t { UT::Atom(_) => {}, UT::Bin(op, l, r) => { lemma_up_len(tb, *l); lemma_up_len(tb, *r); }, UT::Not(x) => { lemma_up_len(tb, *x); }, UT::Tern(op, x, a, b) => { lemma_up_len(tb, *x); lemma_up_len(tb, *a); lemma_up_len(tb, *b); } } }

// MAIN LEMMA: parsing, at level m, from the first token of a tree that stands bare there yields that tree as left operand, and the parser
// goes on collecting operators of precedence >= m AFTER the tree's last token (one lemma per node kind: each stays a small query)
pub proof fn lemma_up_main<Op>(tb: UpTable<Op>, t: UT<Op>, s: Seq<UTok<Op>>, i: int, m: int)
    requires up_printer_ok(tb), up_wf(tb, t), up_matches(s, i, up_print(tb, t)), up_bare_at(tb, t, m), up_follow_ok(tb, t, s, i + up_print(tb, t).len()),
    ensures up_parse_e(tb, s, i, m) == up_climb(tb, s, t, i + up_print(tb, t).len(), m)
    decreases t, 1nat
{
    lemma_up_len(tb, t);
    match t {
        UT::Atom(a) => { lemma_up_at(s, i, up_print(tb, t), 0); }
        UT::Bin(_, _, _) => { lemma_up_case_bin(tb, t, s, i, m); }
        UT::Tern(_, _, _, _) => { lemma_up_case_tern(tb, t, s, i, m); }
        UT::Not(_) => { lemma_up_case_not(tb, t, s, i, m); }
    }
}
pub proof fn lemma_up_case_bin<Op>(tb: UpTable<Op>, t: UT<Op>, s: Seq<UTok<Op>>, i: int, m: int)
    requires t is Bin, up_printer_ok(tb), up_wf(tb, t), up_matches(s, i, up_print(tb, t)), up_bare_at(tb, t, m), up_follow_ok(tb, t, s, i + up_print(tb, t).len()),
    ensures up_parse_e(tb, s, i, m) == up_climb(tb, s, t, i + up_print(tb, t).len(), m)
    decreases t, 0nat
{
    lemma_up_len(tb, t);
    match t {
        UT::Bin(op, l, r) => {
            lemma_up_at(s, i, up_print(tb, t), 0);   // bounds: 0 <= i, the tree lies within s
            let wl = up_wrap((tb.dl)(*l, op), up_print(tb, *l));
            let wr = up_wrap((tb.dr)(*r, op), up_print(tb, *r));
            assert(up_print(tb, t) == wl + seq![UTok::O(op)] + wr);
            lemma_up_split(s, i, wl + seq![UTok::O(op)], wr);
            lemma_up_split(s, i, wl, seq![UTok::O(op)]);
            let j = i + wl.len();
            lemma_up_at(s, j, seq![UTok::O(op)], 0);
            // left operand: at level m, followed by `op`
            lemma_up_operand(tb, *l, (tb.dl)(*l, op), s, i, m, true, op);
            assert(up_parse_e(tb, s, i, m) == up_climb(tb, s, *l, j, m));
            // right operand: at level prec(op) + 1, followed by whatever follows the whole tree
            assert((wl + seq![UTok::O(op)]).len() == wl.len() + 1);
            lemma_up_operand(tb, *r, (tb.dr)(*r, op), s, j + 1, (tb.prec)(op) + 1, false, op);
            let k = j + 1 + wr.len();
            assert(k == i + up_print(tb, t).len());
            assert(up_parse_e(tb, s, j + 1, (tb.prec)(op) + 1) == up_climb(tb, s, *r, k, (tb.prec)(op) + 1));
            // the token after the tree stops the collection at level prec(op) + 1
            assert(up_climb(tb, s, *r, k, (tb.prec)(op) + 1) == Some((*r, k)));
            lemma_up_len(tb, *r);
        }
        _ => {}
    }
}
pub proof fn lemma_up_case_tern<Op>(tb: UpTable<Op>, t: UT<Op>, s: Seq<UTok<Op>>, i: int, m: int)
    requires t is Tern, up_printer_ok(tb), up_wf(tb, t), up_matches(s, i, up_print(tb, t)), up_bare_at(tb, t, m), up_follow_ok(tb, t, s, i + up_print(tb, t).len()),
    ensures up_parse_e(tb, s, i, m) == up_climb(tb, s, t, i + up_print(tb, t).len(), m)
    decreases t, 0nat
{
    lemma_up_len(tb, t);
    match t {
        UT::Tern(op, x, a, b) => {
            lemma_up_at(s, i, up_print(tb, t), 0);   // bounds: 0 <= i, the tree lies within s
            let kk = (tb.kw)(op)->Some_0;
            let wl = up_wrap((tb.dl)(*x, op), up_print(tb, *x));
            let wa = up_wrap((tb.da)(*a, op), up_print(tb, *a));
            let wb = up_wrap((tb.db)(*b, op), up_print(tb, *b));
            assert(up_print(tb, t) == wl + seq![UTok::O(op)] + wa + seq![UTok::O(kk)] + wb);
            lemma_up_split(s, i, wl + seq![UTok::O(op)] + wa + seq![UTok::O(kk)], wb);
            lemma_up_split(s, i, wl + seq![UTok::O(op)] + wa, seq![UTok::O(kk)]);
            lemma_up_split(s, i, wl + seq![UTok::O(op)], wa);
            lemma_up_split(s, i, wl, seq![UTok::O(op)]);
            let j = i + wl.len();
            lemma_up_at(s, j, seq![UTok::O(op)], 0);
            lemma_up_operand(tb, *x, (tb.dl)(*x, op), s, i, m, true, op);
            assert(up_parse_e(tb, s, i, m) == up_climb(tb, s, *x, j, m));
            assert((wl + seq![UTok::O(op)]).len() == wl.len() + 1);
            let k = j + 1 + wa.len();
            assert((wl + seq![UTok::O(op)] + wa).len() == k - i);
            lemma_up_at(s, k, seq![UTok::O(kk)], 0);
            // first bound: at level prec(op) + 1, followed by the keyword (which binds no tighter than op)
            lemma_up_operand(tb, *a, (tb.da)(*a, op), s, j + 1, (tb.prec)(op) + 1, false, op);
            assert(up_climb(tb, s, *a, k, (tb.prec)(op) + 1) == Some((*a, k)));
            // second bound: followed by whatever follows the whole tree
            assert((wl + seq![UTok::O(op)] + wa + seq![UTok::O(kk)]).len() == k + 1 - i);
            lemma_up_operand(tb, *b, (tb.db)(*b, op), s, k + 1, (tb.prec)(op) + 1, false, op);
            let k2 = k + 1 + wb.len();
            assert(k2 == i + up_print(tb, t).len());
            assert(up_climb(tb, s, *b, k2, (tb.prec)(op) + 1) == Some((*b, k2)));
            lemma_up_len(tb, *a); lemma_up_len(tb, *b);
        }
        _ => {}
    }
}
pub proof fn lemma_up_case_not<Op>(tb: UpTable<Op>, t: UT<Op>, s: Seq<UTok<Op>>, i: int, m: int)
    requires t is Not, up_printer_ok(tb), up_wf(tb, t), up_matches(s, i, up_print(tb, t)), up_bare_at(tb, t, m), up_follow_ok(tb, t, s, i + up_print(tb, t).len()),
    ensures up_parse_e(tb, s, i, m) == up_climb(tb, s, t, i + up_print(tb, t).len(), m)
    decreases t, 0nat
{
    lemma_up_len(tb, t);
    match t {
        UT::Not(x) => {
            lemma_up_at(s, i, up_print(tb, t), 0);   // bounds: 0 <= i, the tree lies within s
            let wx = up_wrap((tb.dn)(*x), up_print(tb, *x));
            assert(up_print(tb, t) == seq![UTok::N] + wx);
            lemma_up_split(s, i, seq![UTok::N], wx);
            lemma_up_at(s, i, seq![UTok::N], 0);
            lemma_up_operand_not(tb, *x, (tb.dn)(*x), s, i + 1);
            let k = i + 1 + wx.len();
            assert(up_parse_e(tb, s, i + 1, tb.prec_not) == up_climb(tb, s, *x, k, tb.prec_not));
            assert(up_climb(tb, s, *x, k, tb.prec_not) == Some((*x, k)));
            lemma_up_len(tb, *x);
        }
        _ => {}
    }
}
// a parenthesised tree: `(` at p, the tree's n tokens, `)` - three small steps, each its own query (no quantifier in the context)
pub proof fn lemma_up_unwrap<Op>(s: Seq<UTok<Op>>, p: int, x: Seq<UTok<Op>>)
    requires up_matches(s, p, seq![UTok::L] + x + seq![UTok::R])
    ensures 0 <= p, p + x.len() + 2 <= s.len(), s[p] == UTok::<Op>::L, s[p + 1 + x.len()] == UTok::<Op>::R, up_matches(s, p + 1, x)
{
    lemma_up_split(s, p, seq![UTok::L] + x, seq![UTok::R]);
    lemma_up_split(s, p, seq![UTok::L], x);
    lemma_up_at(s, p, seq![UTok::<Op>::L], 0);
    assert((seq![UTok::<Op>::L] + x).len() == x.len() + 1);
    lemma_up_at(s, p + 1 + x.len(), seq![UTok::<Op>::R], 0);
}
pub proof fn lemma_up_climb_stops<Op>(tb: UpTable<Op>, s: Seq<UTok<Op>>, c: UT<Op>, j: int, m: int)
    requires j < 0 || j >= s.len() || !(s[j] is O) || (tb.prec)(s[j]->O_0) < m
    ensures up_climb(tb, s, c, j, m) == Some((c, j))
{}
pub proof fn lemma_up_paren<Op>(tb: UpTable<Op>, c: UT<Op>, s: Seq<UTok<Op>>, p: int, n: int, lvl: int)
    requires 0 <= p, n >= 1, p + n + 2 <= s.len(), s[p] == UTok::<Op>::L, s[p + 1 + n] == UTok::<Op>::R,
             up_parse_e(tb, s, p + 1, UP_MIN) == Some((c, p + 1 + n)),
    ensures up_parse_e(tb, s, p, lvl) == up_climb(tb, s, c, p + n + 2, lvl)
{
    assert(up_parse_p(tb, s, p) == Some((c, p + n + 2)));
}
// an operand c of `op`, written bare or in parentheses at position p, parsed at level lvl (left operand: the enclosing level m, followed by
// `op`; right operand: prec(op) + 1, followed by the enclosing tree's follower)
pub proof fn lemma_up_operand<Op>(tb: UpTable<Op>, c: UT<Op>, bare: bool, s: Seq<UTok<Op>>, p: int, lvl: int, left: bool, op: Op)
    requires up_printer_ok(tb), up_wf(tb, c), up_matches(s, p, up_wrap(bare, up_print(tb, c))),
             bare ==> (if left { up_safe_l(tb, c, op) } else { up_safe_r(tb, c, op) }),
             left ==> lvl <= (tb.prec)(op) && p + up_wrap(bare, up_print(tb, c)).len() < s.len() && s[p + up_wrap(bare, up_print(tb, c)).len()] == UTok::O(op),
             !left ==> lvl == (tb.prec)(op) + 1 && ({ let e = p + up_wrap(bare, up_print(tb, c)).len(); e >= s.len() || s[e] is R || (s[e] is O && (tb.prec)(s[e]->O_0) <= (tb.prec)(op)) }),
    ensures up_parse_e(tb, s, p, lvl) == up_climb(tb, s, c, p + up_wrap(bare, up_print(tb, c)).len(), lvl)
    decreases c, 2nat
{
    lemma_up_len(tb, c);
    let n = up_print(tb, c).len() as int;
    if bare {
        lemma_up_main(tb, c, s, p, lvl);
    } else {
        lemma_up_unwrap(s, p, up_print(tb, c));
        lemma_up_main(tb, c, s, p + 1, UP_MIN);
        lemma_up_climb_stops(tb, s, c, p + 1 + n, UP_MIN);
        lemma_up_paren(tb, c, s, p, n, lvl);
    }
}
pub proof fn lemma_up_operand_not<Op>(tb: UpTable<Op>, c: UT<Op>, bare: bool, s: Seq<UTok<Op>>, p: int)
    requires up_printer_ok(tb), up_wf(tb, c), up_matches(s, p, up_wrap(bare, up_print(tb, c))), bare ==> up_safe_n(tb, c),
             ({ let e = p + up_wrap(bare, up_print(tb, c)).len(); e >= s.len() || s[e] is R || (s[e] is O && (tb.prec)(s[e]->O_0) < tb.prec_not) }),
    ensures up_parse_e(tb, s, p, tb.prec_not) == up_climb(tb, s, c, p + up_wrap(bare, up_print(tb, c)).len(), tb.prec_not)
    decreases c, 2nat
{
    lemma_up_len(tb, c);
    let n = up_print(tb, c).len() as int;
    if bare {
        lemma_up_main(tb, c, s, p, tb.prec_not);
    } else {
        lemma_up_unwrap(s, p, up_print(tb, c));
        lemma_up_main(tb, c, s, p + 1, UP_MIN);
        lemma_up_climb_stops(tb, s, c, p + 1 + n, UP_MIN);
        lemma_up_paren(tb, c, s, p, n, tb.prec_not);
    }
}
// THE THEOREM: the engine's parser recovers exactly the tree that was printed
pub proof fn theorem_unparse<Op>(tb: UpTable<Op>, t: UT<Op>)
    requires up_printer_ok(tb), up_wf(tb, t)
    ensures up_parse_e(tb, up_print(tb, t), 0, UP_MIN) == Some((t, up_print(tb, t).len() as int))
{
    lemma_up_len(tb, t);
    lemma_up_self(up_print(tb, t));
    lemma_up_main(tb, t, up_print(tb, t), 0, UP_MIN);
}
