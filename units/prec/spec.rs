// =============================================================================================
// unit `prec` - specification (hand-written) for C05.  Oracles: the three engines' operator
// precedence / associativity tables (higher number = binds tighter):
//   MySQL 8.0 manual 14.4.1 "Operator Precedence";  PostgreSQL 16 manual Table 4.2;
//   SQLite "SQL Language Expressions" (lang_expr.html), operator precedence list.
// An operator with no table entry (BinOper::Custom) has no precedence: it must always be
// parenthesised as an operand.
// =============================================================================================
pub enum Engine { MySql, Postgres, Sqlite }

#[verifier::opaque]
pub open spec fn prec_bin(e: Engine, op: BinOper) -> Option<int> {
    match e {
        // ... * / % (12) > + - (11) > << >> (10) > & (9) > | (8) > = <=> >= > <= < <> != IS LIKE REGEXP IN (7)
        //     > BETWEEN CASE (6) > NOT (5) > AND (4) > XOR (3) > OR (2)
        Engine::MySql => match op {
            BinOper::Mul | BinOper::Div | BinOper::Mod => Some(12),
            BinOper::Add | BinOper::Sub => Some(11),
            BinOper::LShift | BinOper::RShift => Some(10),
            BinOper::BitAnd => Some(9),
            BinOper::BitOr => Some(8),
            BinOper::Equal | BinOper::NotEqual | BinOper::SmallerThan | BinOper::GreaterThan | BinOper::SmallerThanOrEqual
                | BinOper::GreaterThanOrEqual | BinOper::Is | BinOper::IsNot | BinOper::Like | BinOper::NotLike | BinOper::In | BinOper::NotIn => Some(7),
            BinOper::Between | BinOper::NotBetween => Some(6),
            BinOper::And => Some(4),
            BinOper::Or => Some(2),
            _ => None,
        },
        // ^ > * / % (10) > + - (9) > any other operator (8) > BETWEEN IN LIKE ILIKE SIMILAR (7) > < > = <= >= <> (6)
        //     > IS ISNULL NOTNULL (5) > NOT (4) > AND (3) > OR (2).  An operator's precedence follows its NAME: the
        // pg_trgm similarity operator is spelled `%`, so it has the precedence of `%`.
        Engine::Postgres => match op {
            BinOper::Mul | BinOper::Div | BinOper::Mod => Some(10),
            BinOper::PgOperator(PgBinOper::Similarity) => Some(10),
            BinOper::Add | BinOper::Sub => Some(9),
            BinOper::LShift | BinOper::RShift | BinOper::BitAnd | BinOper::BitOr => Some(8),
            BinOper::PgOperator(PgBinOper::ILike) | BinOper::PgOperator(PgBinOper::NotILike) => Some(7),
            BinOper::PgOperator(_) => Some(8),
            BinOper::Between | BinOper::NotBetween | BinOper::In | BinOper::NotIn | BinOper::Like | BinOper::NotLike => Some(7),
            BinOper::Equal | BinOper::NotEqual | BinOper::SmallerThan | BinOper::GreaterThan | BinOper::SmallerThanOrEqual | BinOper::GreaterThanOrEqual => Some(6),
            BinOper::Is | BinOper::IsNot => Some(5),
            BinOper::And => Some(3),
            BinOper::Or => Some(2),
            _ => None,
        },
        // || -> ->> (11) > * / % (10) > + - (9) > & | << >> (8) > ESCAPE (7) > < > <= >= (6)
        //     > = == <> != IS BETWEEN IN MATCH LIKE REGEXP GLOB (5) > NOT (4) > AND (3) > OR (2)
        Engine::Sqlite => match op {
            BinOper::SqliteOperator(SqliteBinOper::GetJsonField) | BinOper::SqliteOperator(SqliteBinOper::CastJsonField) => Some(11),
            BinOper::Mul | BinOper::Div | BinOper::Mod => Some(10),
            BinOper::Add | BinOper::Sub => Some(9),
            BinOper::LShift | BinOper::RShift | BinOper::BitAnd | BinOper::BitOr => Some(8),
            BinOper::SmallerThan | BinOper::GreaterThan | BinOper::SmallerThanOrEqual | BinOper::GreaterThanOrEqual => Some(6),
            BinOper::Equal | BinOper::NotEqual | BinOper::Is | BinOper::IsNot | BinOper::Between | BinOper::NotBetween | BinOper::In | BinOper::NotIn
                | BinOper::Like | BinOper::NotLike | BinOper::SqliteOperator(SqliteBinOper::Glob) | BinOper::SqliteOperator(SqliteBinOper::Match) => Some(5),
            BinOper::And => Some(3),
            BinOper::Or => Some(2),
            _ => None,
        },
    }
}
pub open spec fn prec_not(e: Engine) -> int { match e { Engine::MySql => 5, Engine::Postgres => 4, Engine::Sqlite => 4 } }
pub open spec fn prec(e: Engine, o: Oper) -> Option<int> {
    match o { Oper::UnOper(UnOper::Not) => Some(prec_not(e)), Oper::BinOper(b) => prec_bin(e, b) }
}
// every binary operator with a table entry is left-associative in all three engines, except that comparison
// operators are non-associative in PostgreSQL
pub open spec fn left_assoc(e: Engine, op: BinOper) -> bool {
    prec_bin(e, op) is Some && !(e is Postgres && prec_bin(e, op) == Some(6int))
}
// operands that delimit themselves: no operator of the engine can capture part of them
pub open spec fn atomic(x: SimpleExpr) -> bool {
    x is Column || x is Tuple || x is Constant || x is FunctionCall || x is Value || x is Keyword || x is Case || x is SubQuery
}
// it is sound to write operand `inner` of `outer` WITHOUT parentheses (strict precedence; valid on either side)
pub open spec fn safe_bare(e: Engine, inner: SimpleExpr, outer: Oper) -> bool {
    atomic(inner) || (inner matches SimpleExpr::Binary(_, iop, _) && prec_bin(e, iop) is Some && prec(e, outer) is Some
                      && prec_bin(e, iop)->Some_0 > prec(e, outer)->Some_0)
}
pub open spec fn safe_bare_left(e: Engine, inner: SimpleExpr, op: BinOper) -> bool {
    safe_bare(e, inner, Oper::BinOper(op)) || (inner matches SimpleExpr::Binary(_, iop, _) && iop == op && left_assoc(e, op))
}

// ---- exact specification of the decision functions (derived from the code; the property is the lemmas below) ----
pub open spec fn s_is_logical(o: Oper) -> bool { o == Oper::UnOper(UnOper::Not) || o == Oper::BinOper(BinOper::And) || o == Oper::BinOper(BinOper::Or) }
pub open spec fn s_is_between(o: Oper) -> bool { o == Oper::BinOper(BinOper::Between) || o == Oper::BinOper(BinOper::NotBetween) }
pub open spec fn s_is_like(o: Oper) -> bool { o == Oper::BinOper(BinOper::Like) || o == Oper::BinOper(BinOper::NotLike) }
pub open spec fn s_is_in(o: Oper) -> bool { o == Oper::BinOper(BinOper::In) || o == Oper::BinOper(BinOper::NotIn) }
pub open spec fn s_is_is(o: Oper) -> bool { o == Oper::BinOper(BinOper::Is) || o == Oper::BinOper(BinOper::IsNot) }
pub open spec fn s_is_shift(o: Oper) -> bool { o == Oper::BinOper(BinOper::LShift) || o == Oper::BinOper(BinOper::RShift) }
pub open spec fn s_is_arithmetic(o: Oper) -> bool {
    o matches Oper::BinOper(b) && (b == BinOper::Mul || b == BinOper::Div || b == BinOper::Mod || b == BinOper::Add || b == BinOper::Sub)
}
pub open spec fn s_is_comparison(o: Oper) -> bool {
    o matches Oper::BinOper(b) && (b == BinOper::SmallerThan || b == BinOper::SmallerThanOrEqual || b == BinOper::Equal
        || b == BinOper::GreaterThanOrEqual || b == BinOper::GreaterThan || b == BinOper::NotEqual)
}
#[verifier::opaque]
pub open spec fn drop_common(more_parens: bool, inner: SimpleExpr, outer: Oper) -> bool {
    if atomic(inner) { true }
    else {
        match inner {
            SimpleExpr::Binary(_, iop, _) => {
                let io = Oper::BinOper(iop);
                if more_parens { false }
                else if s_is_arithmetic(io) || s_is_shift(io) { s_is_comparison(outer) || s_is_between(outer) || s_is_in(outer) || s_is_like(outer) || s_is_logical(outer) }
                else if s_is_comparison(io) || s_is_in(io) || s_is_like(io) || s_is_is(io) { s_is_logical(outer) }
                else { false }
            }
            _ => false,
        }
    }
}
pub open spec fn s_is_pg_comparison(b: BinOper) -> bool {
    b == BinOper::PgOperator(PgBinOper::Contained) || b == BinOper::PgOperator(PgBinOper::Contains) || b == BinOper::PgOperator(PgBinOper::Similarity)
    || b == BinOper::PgOperator(PgBinOper::WordSimilarity) || b == BinOper::PgOperator(PgBinOper::StrictWordSimilarity) || b == BinOper::PgOperator(PgBinOper::Matches)
}
pub open spec fn s_is_ilike(b: BinOper) -> bool { b == BinOper::PgOperator(PgBinOper::ILike) || b == BinOper::PgOperator(PgBinOper::NotILike) }
#[verifier::opaque]
pub open spec fn drop_pg(more_parens: bool, inner: SimpleExpr, outer: Oper) -> bool {
    drop_common(more_parens, inner, outer) || (match inner {
        SimpleExpr::Binary(_, iop, _) => {
            let io = Oper::BinOper(iop);
            if s_is_arithmetic(io) || s_is_shift(io) { s_is_ilike(iop) } else if s_is_pg_comparison(iop) { s_is_logical(outer) } else { false }
        }
        _ => false,
    })
}
pub open spec fn lassoc_common(op: BinOper) -> bool {
    op == BinOper::And || op == BinOper::Or || op == BinOper::Add || op == BinOper::Sub || op == BinOper::Mul || op == BinOper::Mod
}
pub open spec fn lassoc_pg(op: BinOper) -> bool { lassoc_common(op) || op == BinOper::PgOperator(PgBinOper::Concatenate) }
pub open spec fn drop_of(e: Engine, mp: bool, inner: SimpleExpr, outer: Oper) -> bool { if e is Postgres { drop_pg(mp, inner, outer) } else { drop_common(mp, inner, outer) } }
pub open spec fn lassoc_of(e: Engine, op: BinOper) -> bool { if e is Postgres { lassoc_pg(op) } else { lassoc_common(op) } }

// ---- THE PROPERTY, as lemmas over the decision tables: whenever a pair of parentheses is omitted, the operand
//      re-attaches to the same operator under the engine's precedence / associativity ----
pub proof fn lemma_drop_is_safe(e: Engine, mp: bool, inner: SimpleExpr, outer: Oper)
    requires drop_of(e, mp, inner, outer)
    ensures safe_bare(e, inner, outer)
{
    reveal(prec_bin); reveal(drop_common); reveal(drop_pg);
}
pub proof fn lemma_lassoc_is_safe(e: Engine, op: BinOper)
    requires lassoc_of(e, op)
    ensures left_assoc(e, op)
{
    reveal(prec_bin);
}
// the common decider is used by all three engines (Postgres ORs its own answer to it)
pub proof fn lemma_common_safe_everywhere(mp: bool, inner: SimpleExpr, outer: Oper)
    requires drop_common(mp, inner, outer)
    ensures safe_bare(Engine::MySql, inner, outer), safe_bare(Engine::Postgres, inner, outer), safe_bare(Engine::Sqlite, inner, outer)
{
    reveal(prec_bin); reveal(drop_common);
}

// the empty-list rewriting: `x IN ()` is WRITTEN as `1 = 2` and `x NOT IN ()` as `1 = 1` (prepare_simple_expr_common, by design), but
// the parent decides the parentheses of that operand from the node it holds - an IN / NOT IN node.  Wherever the parent omits the
// pair for the IN node, the pair must be redundant for the `=` expression that is actually written (either side, every engine)
pub proof fn lemma_empty_in_rewrite_is_safe(e: Engine, mp: bool, held: SimpleExpr, written: SimpleExpr, outer: Oper)
    requires
        held matches SimpleExpr::Binary(_, hop, _) && (hop == BinOper::In || hop == BinOper::NotIn),
        written matches SimpleExpr::Binary(_, wop, _) && wop == BinOper::Equal,
        drop_of(e, mp, held, outer) || (outer matches Oper::BinOper(op) && left_bare(e, mp, held, op)),
    ensures safe_bare(e, written, outer)
{
    reveal(prec_bin); reveal(drop_common); reveal(drop_pg);
}

// how binary_expr(l, op, r) writes its two operands (decision only)
pub open spec fn left_bare(e: Engine, mp: bool, l: SimpleExpr, op: BinOper) -> bool {
    drop_of(e, mp, l, Oper::BinOper(op)) || (l matches SimpleExpr::Binary(_, lop, _) && lop == op && lassoc_of(e, op))
}
// ternary encodings: x BETWEEN lo AND hi is Binary(x, Between, Binary(lo, And, hi)).  The pair around `lo AND hi` is
// supplied by the grammar; lo and hi are operands of BETWEEN and must be safe under BETWEEN (not merely under AND).
pub open spec fn between_bounds_ok(e: Engine, mp: bool, op: BinOper, lo: SimpleExpr, hi: SimpleExpr) -> bool {
    (drop_of(e, mp, lo, Oper::BinOper(op)) ==> safe_bare(e, lo, Oper::BinOper(op)))
    && (drop_of(e, mp, hi, Oper::BinOper(op)) ==> safe_bare(e, hi, Oper::BinOper(op)))
}
// x LIKE p ESCAPE c is Binary(x, Like, Binary(p, Escape, c)): p and c must be bare only when atomic
pub open spec fn escape_operands_ok(e: Engine, mp: bool, p: SimpleExpr, c: SimpleExpr) -> bool {
    (left_bare(e, mp, p, BinOper::Escape) ==> atomic(p)) && (drop_of(e, mp, c, Oper::BinOper(BinOper::Escape)) ==> atomic(c))
}
pub open spec fn safe_right(e: Engine, mp: bool, op: BinOper, r: SimpleExpr) -> bool {
    safe_bare(e, r, Oper::BinOper(op))
    || (s_is_between(Oper::BinOper(op)) && (r matches SimpleExpr::Binary(lo, BinOper::And, hi) && between_bounds_ok(e, mp, op, *lo, *hi)))
    || (s_is_like(Oper::BinOper(op)) && (r matches SimpleExpr::Binary(p, BinOper::Escape, c) && escape_operands_ok(e, mp, *p, *c)))
    || (op == BinOper::As && r is Custom)      // CAST(x AS <type text>): the type name is delimited by the closing parenthesis of CAST
}

// the decisions binary_expr takes for its right operand
pub open spec fn between_hack(op: BinOper, r: SimpleExpr) -> bool { s_is_between(Oper::BinOper(op)) && (r matches SimpleExpr::Binary(_, BinOper::And, _)) }
pub open spec fn escape_hack(op: BinOper, r: SimpleExpr) -> bool { s_is_like(Oper::BinOper(op)) && (r matches SimpleExpr::Binary(_, BinOper::Escape, _)) }
pub open spec fn as_hack(op: BinOper, r: SimpleExpr) -> bool { op == BinOper::As && r is Custom }
pub open spec fn right_bare(e: Engine, mp: bool, op: BinOper, r: SimpleExpr) -> bool {
    drop_of(e, mp, r, Oper::BinOper(op)) || between_hack(op, r) || escape_hack(op, r) || as_hack(op, r)
}

pub proof fn lemma_left_safe(e: Engine, mp: bool, l: SimpleExpr, op: BinOper)
    requires left_bare(e, mp, l, op)
    ensures safe_bare_left(e, l, op)
{
    if drop_of(e, mp, l, Oper::BinOper(op)) { lemma_drop_is_safe(e, mp, l, Oper::BinOper(op)); } else { lemma_lassoc_is_safe(e, op); }
}
pub proof fn lemma_between_ok(e: Engine, mp: bool, op: BinOper, lo: SimpleExpr, hi: SimpleExpr)
    ensures between_bounds_ok(e, mp, op, lo, hi)
{
    if drop_of(e, mp, lo, Oper::BinOper(op)) { lemma_drop_is_safe(e, mp, lo, Oper::BinOper(op)); }
    if drop_of(e, mp, hi, Oper::BinOper(op)) { lemma_drop_is_safe(e, mp, hi, Oper::BinOper(op)); }
}
pub proof fn lemma_escape_ok(e: Engine, mp: bool, p: SimpleExpr, c: SimpleExpr)
    ensures escape_operands_ok(e, mp, p, c)
{
    reveal(drop_common); reveal(drop_pg);
}

// ---- text of a rendered binary / unary expression ------------------------------------------------------------------------------
pub uninterp spec fn expr_text(e: Engine, x: SimpleExpr) -> Seq<char>;
pub uninterp spec fn bin_oper_text(e: Engine, op: BinOper) -> Seq<char>;
pub uninterp spec fn un_oper_text(e: Engine, op: UnOper) -> Seq<char>;
pub uninterp spec fn cond_text(e: Engine, c: Condition) -> Seq<char>;
// members of a tuple, comma separated, in call order
pub open spec fn tuple_inner(e: Engine, xs: Seq<SimpleExpr>, n: nat) -> Seq<char>
    decreases n
{ if n == 0 { Seq::<char>::empty() } else { tuple_inner(e, xs, (n - 1) as nat) + (if n > 1 { ", "@ } else { Seq::<char>::empty() }) + expr_text(e, xs[n - 1]) } }
// the branches of a CASE expression: WHEN (condition) THEN result, in call order
pub open spec fn whens_text(e: Engine, ws: Seq<CaseStatementCondition>, n: nat) -> Seq<char>
    decreases n
{ if n == 0 { Seq::<char>::empty() } else { whens_text(e, ws, (n - 1) as nat) + " WHEN ("@ + cond_text(e, ws[n - 1].condition) + ") THEN "@ + expr_text(e, ws[n - 1].result) } }
// TRUSTED (std): a Vec's length is a usize
#[verifier::external_body]
pub proof fn axiom_vec_len_fits<T>(v: &Vec<T>) ensures v@.len() <= usize::MAX {}
#[verifier::opaque]
pub open spec fn paren(p: bool, s: Seq<char>) -> Seq<char> { if p { seq!['('] + s + seq![')'] } else { s } }
pub proof fn lemma_paren(p: bool, s: Seq<char>)
    ensures p ==> paren(p, s) == seq!['('] + s + seq![')'], !p ==> paren(p, s) == s
{ reveal(paren); }
pub proof fn lemma_concat3(t0: Seq<char>, a: Seq<char>, b: Seq<char>, c: Seq<char>, tf: Seq<char>)
    requires tf == t0 + a + b + c
    ensures tf.subrange(0, t0.len() as int) == t0, tf.subrange(t0.len() as int, tf.len() as int) == a + b + c
{
    assert(tf.subrange(0, t0.len() as int) =~= t0);
    assert(tf.subrange(t0.len() as int, tf.len() as int) =~= a + b + c);
}
#[verifier::opaque]
pub open spec fn bound_text(e: Engine, mp: bool, op: BinOper, b: SimpleExpr) -> Seq<char> { paren(!drop_of(e, mp, b, Oper::BinOper(op)), expr_text(e, b)) }
// the right operand: for BETWEEN the two bounds are written relative to BETWEEN, joined by the inner operator (AND)
pub open spec fn right_text(e: Engine, mp: bool, op: BinOper, r: SimpleExpr) -> Seq<char> {
    if between_hack(op, r) {
        match r {
            SimpleExpr::Binary(lo, a, hi) => bound_text(e, mp, op, *lo) + seq![' '] + bin_oper_text(e, a) + seq![' '] + bound_text(e, mp, op, *hi),
            _ => expr_text(e, r),
        }
    } else { expr_text(e, r) }
}
pub open spec fn binary_text(e: Engine, mp: bool, lp: bool, l: SimpleExpr, op: BinOper, rp: bool, r: SimpleExpr) -> Seq<char> {
    paren(lp, expr_text(e, l)) + (seq![' '] + bin_oper_text(e, op) + seq![' ']) + paren(rp, right_text(e, mp, op, r))
}

// R-attr (trusted): #[derive(PartialEq)] on BinOper is structural equality
#[verifier::external_body]
fn vbinoper_eq(a: &BinOper, b: &BinOper) -> (r: bool) ensures r == (*a == *b) { unimplemented!() }
