//! vreplay12 <C12|C18>: bounded stand-in / witness search for the Value conversions (C12) and Value / ValueTuple equality and
//! hashing (C18) on the REAL crate built with hashable-value and every optional value type.  Prints `WITNESS {json}` lines.
use sea_query::{FromValueTuple, Nullable, Value, ValueTuple, ValueType, IntoValueTuple};
use std::collections::hash_map::DefaultHasher;
use std::hash::{Hash, Hasher};

fn esc(s: &str) -> String { s.chars().flat_map(|c| match c { '"' => "\\\"".chars().collect::<Vec<_>>(), '\\' => "\\\\".chars().collect(), '\n' => "\\n".chars().collect(), c if (c as u32) < 0x20 => format!("\\u{:04x}", c as u32).chars().collect(), c => vec![c] }).collect() }
fn witness(prop: &str, input: String, observed: String, expected: &str) { println!("WITNESS {{\"property\":\"{prop}\",\"input\":\"{}\",\"observed\":\"{}\",\"expected\":\"{}\"}}", esc(&input), esc(&observed), esc(expected)); }

/// every other variant, null and present: extracting T from it must fail
fn others() -> Vec<Value> {
    vec![Value::Bool(None), Value::Bool(Some(true)), Value::TinyInt(None), Value::TinyInt(Some(1)), Value::SmallInt(None), Value::SmallInt(Some(1)), Value::Int(None), Value::Int(Some(1)), Value::BigInt(None), Value::BigInt(Some(1)),
         Value::TinyUnsigned(None), Value::TinyUnsigned(Some(1)), Value::SmallUnsigned(None), Value::SmallUnsigned(Some(1)), Value::Unsigned(None), Value::Unsigned(Some(1)), Value::BigUnsigned(None), Value::BigUnsigned(Some(1)),
         Value::Float(None), Value::Float(Some(1.0)), Value::Double(None), Value::Double(Some(1.0)), Value::String(None), Value::String(Some(Box::new("s".into()))), Value::Char(None), Value::Char(Some('c')),
         Value::Bytes(None), Value::Bytes(Some(Box::new(vec![1]))), Value::Json(None), Value::Json(Some(Box::new(serde_json::Value::Null))), Value::Json(Some(Box::new(serde_json::json!({"a": 1})))),
         Value::ChronoDate(None), Value::ChronoTime(None), Value::ChronoDateTime(None), Value::ChronoDateTimeUtc(None), Value::ChronoDateTimeLocal(None), Value::ChronoDateTimeWithTimeZone(None),
         Value::TimeDate(None), Value::TimeTime(None), Value::TimeDateTime(None), Value::TimeDateTimeWithTimeZone(None), Value::Uuid(None), Value::Uuid(Some(Box::new(uuid::Uuid::nil()))),
         Value::Decimal(None), Value::Decimal(Some(Box::new(rust_decimal::Decimal::new(15, 1)))), Value::BigDecimal(None), Value::IpNetwork(None), Value::MacAddress(None)]
}
fn disc(v: &Value) -> std::mem::Discriminant<Value> { std::mem::discriminant(v) }

fn rt<T>(n: &mut usize, name: &str, xs: Vec<T>) where T: Clone + PartialEq + std::fmt::Debug + Into<Value> + ValueType + Nullable {
    let null = T::null();
    for x in xs {
        *n += 1;
        let v: Value = x.clone().into();
        if disc(&v) != disc(&null) { witness("C12", format!("{name}: {x:?}"), format!("converted into {v:?}, the NULL of the type is {null:?}"), "value and NULL of a type live in the same variant"); }
        match T::try_from(v.clone()) { Ok(y) if y == x => {}, other => witness("C12", format!("{name}: {x:?}"), format!("{name}::try_from(Value::from(x)) = {other:?}"), "Ok(x)") }
        let w: Value = Some(x.clone()).into();
        match <Option<T> as ValueType>::try_from(w) { Ok(Some(y)) if y == x => {}, other => witness("C12", format!("Option<{name}>: Some({x:?})"), format!("extracted as {other:?}"), "Ok(Some(x)): a present optional never extracts as absent") }
        if v.as_null() != null { witness("C12", format!("{name}: {x:?}"), format!("as_null = {:?}", v.as_null()), "the NULL of the same variant"); }
        if disc(&v.dummy_value()) != disc(&v) { witness("C12", format!("{name}: {x:?}"), format!("dummy_value = {:?}", v.dummy_value()), "a value of the same variant"); }
    }
    let none: Value = Option::<T>::None.into();
    if none != null { witness("C12", format!("Option<{name}>: None"), format!("converted into {none:?}"), "the NULL of the type's own variant"); }
    match <Option<T> as ValueType>::try_from(none) { Ok(None) => {}, other => witness("C12", format!("Option<{name}>: None"), format!("extracted as {other:?}"), "Ok(None)") }
    for o in others() {
        if disc(&o) == disc(&null) { continue; }
        *n += 1;
        if let Ok(y) = T::try_from(o.clone()) { witness("C12", format!("{name} from {o:?}"), format!("Ok({y:?})"), "Err: extracting as a different type fails"); }
        if let Ok(y) = <Option<T> as ValueType>::try_from(o.clone()) { witness("C12", format!("Option<{name}> from {o:?}"), format!("Ok({y:?})"), "Err: extracting as a different type fails"); }
    }
}

fn c12() -> usize {
    use chrono::{NaiveDate, NaiveTime, TimeZone};
    let mut n = 0usize;
    rt(&mut n, "bool", vec![true, false]); rt(&mut n, "i8", vec![i8::MIN, -1, 0, 1, i8::MAX]); rt(&mut n, "i16", vec![i16::MIN, 0, i16::MAX]); rt(&mut n, "i32", vec![i32::MIN, 0, 7, i32::MAX]);
    rt(&mut n, "i64", vec![i64::MIN, 0, i64::MAX]); rt(&mut n, "u8", vec![0, 1, u8::MAX]); rt(&mut n, "u16", vec![0, u16::MAX]); rt(&mut n, "u32", vec![0, u32::MAX]); rt(&mut n, "u64", vec![0, u64::MAX]);
    rt(&mut n, "f32", vec![0.0f32, -0.0, 1.5, f32::INFINITY, f32::MIN_POSITIVE]); rt(&mut n, "f64", vec![0.0f64, -0.0, 2.5, f64::NEG_INFINITY]); rt(&mut n, "char", vec!['a', '\0', 'é', '\u{10ffff}']);
    rt(&mut n, "String", vec![String::new(), "null".into(), "a'b\\c".into(), "日本".into()]); rt(&mut n, "Vec<u8>", vec![vec![], vec![0], vec![255, 0, 1]]);
    rt(&mut n, "Json", vec![serde_json::Value::Null, serde_json::json!("null"), serde_json::json!(0), serde_json::json!({"b": [1, null], "a": {}}), serde_json::json!([])]);
    let d = NaiveDate::from_ymd_opt(2024, 2, 29).unwrap(); let t = NaiveTime::from_hms_micro_opt(23, 59, 59, 999_999).unwrap();
    rt(&mut n, "NaiveDate", vec![d, NaiveDate::MIN, NaiveDate::MAX]); rt(&mut n, "NaiveTime", vec![t, NaiveTime::MIN]); rt(&mut n, "NaiveDateTime", vec![d.and_time(t)]);
    rt(&mut n, "DateTime<Utc>", vec![chrono::Utc.from_utc_datetime(&d.and_time(t))]); rt(&mut n, "DateTime<Local>", vec![chrono::Local.from_utc_datetime(&d.and_time(t))]);
    rt(&mut n, "DateTime<FixedOffset>", vec![chrono::FixedOffset::east_opt(5 * 3600 + 1800).unwrap().from_utc_datetime(&d.and_time(t))]);
    let td = time::macros::date!(2024 - 02 - 29); let tt = time::macros::time!(23:59:59.999_999);
    rt(&mut n, "time::Date", vec![td, time::Date::MIN]); rt(&mut n, "time::Time", vec![tt, time::Time::MIDNIGHT]); rt(&mut n, "PrimitiveDateTime", vec![time::PrimitiveDateTime::new(td, tt)]);
    rt(&mut n, "OffsetDateTime", vec![time::PrimitiveDateTime::new(td, tt).assume_offset(time::macros::offset!(-3:30)), time::OffsetDateTime::UNIX_EPOCH]);
    rt(&mut n, "Uuid", vec![uuid::Uuid::nil(), uuid::Uuid::from_u128(0x0123_4567_89ab_cdef_0123_4567_89ab_cdef)]);
    rt(&mut n, "Decimal", vec![rust_decimal::Decimal::ZERO, rust_decimal::Decimal::new(-12345, 3), rust_decimal::Decimal::MAX]);
    rt(&mut n, "BigDecimal", vec!["0".parse::<bigdecimal::BigDecimal>().unwrap(), "-123456789012345678901234567890.000001".parse().unwrap()]);
    rt(&mut n, "IpNetwork", vec!["10.1.2.3/8".parse::<ipnetwork::IpNetwork>().unwrap(), "::1/128".parse().unwrap()]);
    rt(&mut n, "MacAddress", vec![mac_address::MacAddress::new([0, 1, 2, 3, 4, 255])]);
    // arrays
    let arr: Value = vec![1i32, 2, 3].into();
    match <Vec<i32> as ValueType>::try_from(arr.clone()) { Ok(v) if v == vec![1, 2, 3] => {}, other => witness("C12", "Vec<i32> [1,2,3]".into(), format!("{other:?}"), "Ok([1, 2, 3])") }
    if <Vec<i64> as ValueType>::try_from(arr.clone()).is_ok() || <Vec<String> as ValueType>::try_from(arr).is_ok() { witness("C12", "Vec<i32> [1,2,3] as Vec<i64> / Vec<String>".into(), "Ok".into(), "Err: extracting as a different type fails"); }
    // tuples keep arity and order
    let tup = (1i32, "b".to_string(), 3.5f64).into_value_tuple();
    let back: Vec<Value> = tup.clone().into_iter().collect();
    if back != vec![Value::from(1i32), Value::from("b"), Value::from(3.5f64)] { witness("C12", "(1, \"b\", 3.5).into_value_tuple()".into(), format!("{tup:?} / {back:?}"), "three values in order"); }
    // extracting as a tuple of ANOTHER arity fails (panics) instead of truncating / padding: sources one longer and one shorter than the target
    std::panic::set_hook(Box::new(|_| {}));
    macro_rules! arity { ($nn:expr, $($t:ty),+) => {
        for len in [$nn + 1, $nn - 1, $nn + 3] {
            n += 1;
            let src = ValueTuple::Many(vec![Value::from(7i32); len]);
            let r = std::panic::catch_unwind(|| { let t: ($($t),+) = FromValueTuple::from_value_tuple(src.clone()); format!("{t:?}") });
            if let Ok(t) = r { witness("C12", format!("a value tuple of {len} values extracted as a {}-tuple", $nn), format!("returned {t}"), "fails: value tuples keep their arity"); }
        }
    } }
    arity!(4usize, i32, i32, i32, i32); arity!(5usize, i32, i32, i32, i32, i32); arity!(6usize, i32, i32, i32, i32, i32, i32); arity!(7usize, i32, i32, i32, i32, i32, i32, i32);
    arity!(8usize, i32, i32, i32, i32, i32, i32, i32, i32); arity!(9usize, i32, i32, i32, i32, i32, i32, i32, i32, i32); arity!(10usize, i32, i32, i32, i32, i32, i32, i32, i32, i32, i32);
    arity!(11usize, i32, i32, i32, i32, i32, i32, i32, i32, i32, i32, i32); arity!(12usize, i32, i32, i32, i32, i32, i32, i32, i32, i32, i32, i32, i32);
    // arities 1..3 have their own variants: a Many / a longer variant must not be accepted either
    for src in [ValueTuple::Two(Value::from(1i32), Value::from(2i32)), ValueTuple::Many(vec![Value::from(1i32)]), ValueTuple::Many(vec![Value::from(1i32), Value::from(2i32)])] {
        n += 1;
        let s2 = src.clone();
        if let Ok(t) = std::panic::catch_unwind(move || { let t: i32 = FromValueTuple::from_value_tuple(s2); t }) { witness("C12", format!("{src:?} extracted as a single i32"), format!("returned {t}"), "fails: value tuples keep their arity"); }
    }
    let _ = std::panic::take_hook();
    n
}

#[path = "../../replay/src/lexers.rs"]
#[allow(dead_code)]
mod lexers;

/// C03 for the optional value types: the inline literal of a Json / date / time / uuid / decimal / network value is ONE literal token of the
/// backend whose content is the value's text (Json: serde's serialisation, which may contain any character); array elements likewise
fn c03() -> usize {
    use sea_query::{MysqlQueryBuilder, PostgresQueryBuilder, QueryBuilder, SqliteQueryBuilder};
    let mut n = 0usize;
    let hostile = ["it's", "back\\slash", "q\"uote", "a'; DROP TABLE t; --", "\\'", "line\nbreak", "tab\there", "\u{8}", "%_", "日本'語", ""];
    let bs: [(&str, &dyn QueryBuilder); 3] = [("mysql", &MysqlQueryBuilder), ("postgres", &PostgresQueryBuilder), ("sqlite", &SqliteQueryBuilder)];
    let lex = |be: &str, lit: &str| -> Option<(String, usize)> { let t: Vec<char> = lit.chars().collect(); match be { "mysql" => lexers::mysql_string_lit(&t), "postgres" => lexers::pg_string_lit(&t), _ => lexers::sqlite_string_lit(&t) } };
    let mut check = |what: String, v: Value, want: String| {
        for (be, qb) in bs {
            n += 1;
            let lit = qb.value_to_string(&v);
            match lex(be, &(lit.clone() + " ")) {
                Some((got, end)) if got == want && end == lit.chars().count() => {}
                other => witness("C03", what.clone(), format!("{be}: literal {lit:?} lexes as {other:?}"), &format!("one literal token decoding to {want:?}")),
            }
        }
    };
    for h in hostile {
        let j = serde_json::json!({ "k": h, h: [h, 1, null] });
        check(format!("json object with {h:?}"), Value::Json(Some(Box::new(j.clone()))), j.to_string());
        let j = serde_json::json!(h);
        check(format!("json string {h:?}"), Value::Json(Some(Box::new(j.clone()))), j.to_string());
    }
    use chrono::TimeZone;
    let d = chrono::NaiveDate::from_ymd_opt(2024, 2, 29).unwrap(); let t = chrono::NaiveTime::from_hms_opt(23, 59, 58).unwrap();
    check("chrono date".into(), d.into(), "2024-02-29".into()); check("chrono time".into(), t.into(), "23:59:58".into()); check("chrono datetime".into(), d.and_time(t).into(), "2024-02-29 23:59:58".into());
    check("chrono datetime utc".into(), chrono::Utc.from_utc_datetime(&d.and_time(t)).into(), "2024-02-29 23:59:58 +00:00".into());
    check("chrono datetime +05:30".into(), chrono::FixedOffset::east_opt(19800).unwrap().from_utc_datetime(&d.and_time(t)).into(), "2024-03-01 05:29:58 +05:30".into());
    let td = time::macros::date!(2024 - 02 - 29); let tt = time::macros::time!(23:59:58.000_001);
    check("time date".into(), td.into(), "2024-02-29".into()); check("time time".into(), tt.into(), "23:59:58.000001".into());
    check("time datetime".into(), time::PrimitiveDateTime::new(td, tt).into(), "2024-02-29 23:59:58.000001".into());
    check("time datetime -03:30".into(), time::PrimitiveDateTime::new(td, tt).assume_offset(time::macros::offset!(-3:30)).into(), "2024-02-29 23:59:58.000001 -03:30".into());
    check("uuid".into(), uuid::Uuid::from_u128(0x0123_4567_89ab_cdef_0123_4567_89ab_cdef).into(), "01234567-89ab-cdef-0123-4567-89abcdef".replace("cdef-0123-4567-89abcdef", "cdef-0123-456789abcdef"));
    check("ipnetwork".into(), "10.1.2.3/8".parse::<ipnetwork::IpNetwork>().unwrap().into(), "10.1.2.3/8".into());
    check("mac address".into(), mac_address::MacAddress::new([0, 1, 2, 3, 4, 255]).into(), "00:01:02:03:04:FF".into());
    // arrays of text: every element its own literal (Postgres ARRAY [..])
    for h in hostile {
        let v = Value::Array(sea_query::ArrayType::String, Some(Box::new(vec![Value::from(h), Value::from("x")])));
        let lit = PostgresQueryBuilder.value_to_string(&v);
        n += 1;
        let inner = lit.strip_prefix("ARRAY [").and_then(|x| x.strip_suffix(']'));
        let ok = inner.map(|x| { let t: Vec<char> = (x.to_string() + " ").chars().collect(); match lexers::pg_string_lit(&t) { Some((g, e)) => g == h && t.get(e) == Some(&',') && lexers::pg_string_lit(&t[e + 1..]).map(|(g2, e2)| g2 == "x" && e + 1 + e2 == t.len() - 1).unwrap_or(false), None => false } }).unwrap_or(false);
        if !ok { witness("C03", format!("array of text [{h:?}, \"x\"]"), format!("postgres: {lit}"), "ARRAY [<literal of the first text>,<literal of x>]"); }
    }
    // decimals are written bare: digits, sign, point only
    for (what, lit) in [("decimal", MysqlQueryBuilder.value_to_string(&rust_decimal::Decimal::new(-12345, 3).into())), ("bigdecimal", MysqlQueryBuilder.value_to_string(&"-1234567890123456789012.5".parse::<bigdecimal::BigDecimal>().unwrap().into()))] {
        n += 1;
        if lit.is_empty() || !lit.chars().all(|c| c.is_ascii_digit() || c == '-' || c == '.') { witness("C03", what.into(), format!("written as {lit:?}"), "a bare numeric literal"); }
    }
    n
}

/// C08 (dialect-specific constructs in that dialect's form): the spelling of every binary operator, incl. the Postgres-only and SQLite-only
/// ones and the pgvector distance operators (feature postgres-vector).  Expected spellings from the manuals (PostgreSQL 9.7 / 9.16 / F.35
/// pg_trgm / pgvector README: `<->` L2 distance, `<#>` negative inner product, `<=>` cosine distance; SQLite lang_expr), not from the code.
fn c08() -> usize {
    use sea_query::extension::postgres::PgBinOper as P;
    use sea_query::extension::sqlite::SqliteBinOper as S;
    use sea_query::{Alias, BinOper as B, Expr, ExprTrait, MysqlQueryBuilder, PostgresQueryBuilder, Query, SqliteQueryBuilder};
    let common: Vec<(B, &str)> = vec![(B::And, "AND"), (B::Or, "OR"), (B::Like, "LIKE"), (B::NotLike, "NOT LIKE"), (B::Is, "IS"), (B::IsNot, "IS NOT"), (B::In, "IN"), (B::NotIn, "NOT IN"),
        (B::Equal, "="), (B::NotEqual, "<>"), (B::SmallerThan, "<"), (B::GreaterThan, ">"), (B::SmallerThanOrEqual, "<="), (B::GreaterThanOrEqual, ">="),
        (B::Add, "+"), (B::Sub, "-"), (B::Mul, "*"), (B::Div, "/"), (B::Mod, "%"), (B::LShift, "<<"), (B::RShift, ">>"), (B::BitAnd, "&"), (B::BitOr, "|")];
    let pg: Vec<(P, &str)> = vec![(P::ILike, "ILIKE"), (P::NotILike, "NOT ILIKE"), (P::Matches, "@@"), (P::Contains, "@>"), (P::Contained, "<@"), (P::Concatenate, "||"), (P::Overlap, "&&"),
        (P::Similarity, "%"), (P::WordSimilarity, "<%"), (P::StrictWordSimilarity, "<<%"), (P::SimilarityDistance, "<->"), (P::WordSimilarityDistance, "<<->"), (P::StrictWordSimilarityDistance, "<<<->"),
        (P::GetJsonField, "->"), (P::CastJsonField, "->>"), (P::Regex, "~"), (P::RegexCaseInsensitive, "~*"),
        (P::EuclideanDistance, "<->"), (P::NegativeInnerProduct, "<#>"), (P::CosineDistance, "<=>")];
    let sl: Vec<(S, &str)> = vec![(S::Glob, "GLOB"), (S::Match, "MATCH"), (S::GetJsonField, "->"), (S::CastJsonField, "->>")];
    let mut n = 0usize;
    let e = |op: B| Query::select().expr(Expr::col(Alias::new("a")).binary(op, Expr::col(Alias::new("b")))).to_owned();
    for (op, txt) in common {
        for (be, got, q) in [("mysql", e(op).to_string(MysqlQueryBuilder), '`'), ("postgres", e(op).to_string(PostgresQueryBuilder), '"'), ("sqlite", e(op).to_string(SqliteQueryBuilder), '"')] {
            n += 1;
            let want = format!("SELECT {q}a{q} {txt} {q}b{q}");
            if got != want { witness("C08", format!("binary operator {op:?} on {be}"), got, &want); }
        }
    }
    for (op, txt) in pg { n += 1; let got = e(B::PgOperator(op)).to_string(PostgresQueryBuilder); let want = format!("SELECT \"a\" {txt} \"b\""); if got != want { witness("C08", format!("Postgres operator {op:?}"), got, &want); } }
    for (op, txt) in sl { n += 1; let got = e(B::SqliteOperator(op)).to_string(SqliteQueryBuilder); let want = format!("SELECT \"a\" {txt} \"b\""); if got != want { witness("C08", format!("SQLite operator {op:?}"), got, &want); } }
    n
}

/// C05 for the operators compiled only with optional features (pgvector distances) and the other Postgres-only operators: PostgreSQL's
/// table 4.2 puts every "other operator" BELOW the arithmetic ones and ABOVE the comparisons / BETWEEN / IN / LIKE / IS / NOT / AND / OR, so such an
/// expression as an operand of + - * / % must be written inside parentheses (re-parse with the engine's precedence: the operand would otherwise
/// give one of its own operands to the arithmetic operator)
fn c05() -> usize {
    use sea_query::extension::postgres::PgBinOper as P;
    use sea_query::{Alias, BinOper as B, Expr, ExprTrait, PostgresQueryBuilder, Query};
    let pg: Vec<(P, &str)> = vec![(P::Matches, "@@"), (P::Contains, "@>"), (P::Contained, "<@"), (P::Concatenate, "||"), (P::Overlap, "&&"), (P::Similarity, "%"), (P::WordSimilarity, "<%"),
        (P::SimilarityDistance, "<->"), (P::GetJsonField, "->"), (P::CastJsonField, "->>"), (P::Regex, "~"), (P::EuclideanDistance, "<->"), (P::NegativeInnerProduct, "<#>"), (P::CosineDistance, "<=>")];
    let arith: Vec<(B, &str)> = vec![(B::Add, "+"), (B::Sub, "-"), (B::Mul, "*"), (B::Div, "/"), (B::Mod, "%")];
    let c = |s: &str| Expr::col(Alias::new(s));
    let mut n = 0usize;
    for (op, otxt) in &pg {
        for (ar, atxt) in &arith {
            // inner on the right: x <ar> (a <op> b)        inner on the left: (a <op> b) <ar> x
            let inner = || c("a").binary(B::PgOperator(*op), c("b"));
            let right = Query::select().expr(c("x").binary(*ar, inner())).to_owned().to_string(PostgresQueryBuilder);
            let left = Query::select().expr(inner().binary(*ar, c("x"))).to_owned().to_string(PostgresQueryBuilder);
            n += 2;
            let want_r = format!("SELECT \"x\" {atxt} (\"a\" {otxt} \"b\")");
            let want_l = format!("SELECT (\"a\" {otxt} \"b\") {atxt} \"x\"");
            if right != want_r { witness("C05", format!("x {atxt} (a {op:?} b) on postgres"), right, &want_r); }
            if left != want_l { witness("C05", format!("(a {op:?} b) {atxt} x on postgres"), left, &want_l); }
        }
    }
    n
}

fn h(v: &impl Hash) -> u64 { let mut s = DefaultHasher::new(); v.hash(&mut s); s.finish() }

fn c18() -> usize {
    let j = |x: serde_json::Value| Value::Json(Some(Box::new(x)));
    let mut pool: Vec<Value> = others();
    pool.extend([Value::Float(Some(f32::NAN)), Value::Float(Some(-f32::NAN)), Value::Float(Some(0.0)), Value::Float(Some(-0.0)), Value::Double(Some(f64::NAN)), Value::Double(Some(0.0)), Value::Double(Some(-0.0)), Value::Double(Some(1.0)),
                 Value::Int(Some(2)), Value::BigInt(Some(2)), Value::String(Some(Box::new("null".into()))), Value::String(Some(Box::new(String::new()))), Value::Bytes(Some(Box::new(vec![]))), Value::Bytes(Some(Box::new(b"s".to_vec()))),
                 j(serde_json::json!("null")), j(serde_json::json!({"a": 1, "b": 2})), j(serde_json::json!({"b": 2, "a": 1})), j(serde_json::json!([1])), Value::Char(Some('s')),
                 j(serde_json::json!(0.0)), j(serde_json::json!(-0.0)), j(serde_json::json!({"a": 0.0})), j(serde_json::json!({"a": -0.0})), j(serde_json::json!(1)), j(serde_json::json!(1.0)),
                 Value::Array(sea_query::ArrayType::Int, None), Value::Array(sea_query::ArrayType::BigInt, None), Value::Array(sea_query::ArrayType::Int, Some(Box::new(vec![]))), Value::Array(sea_query::ArrayType::Int, Some(Box::new(vec![Value::Int(Some(1))]))),
                 Value::Array(sea_query::ArrayType::BigInt, Some(Box::new(vec![])))]);
    // pgvector payloads: NULL, the empty vector, vectors where one is a PREFIX of the other, signed zeros / NaN components
    let pv = |xs: Vec<f32>| Value::Vector(Some(Box::new(pgvector::Vector::from(xs))));
    pool.extend([Value::Vector(None), pv(vec![]), pv(vec![1.0, 2.0]), pv(vec![1.0, 2.0, 3.0]), pv(vec![1.0, 2.0, 4.0]), pv(vec![0.0]), pv(vec![-0.0]), pv(vec![f32::NAN]), pv(vec![2.0, 1.0])]);
    let mut n = 0usize;
    let mut bad = 0usize;
    let mut w = |input: String, obs: String, exp: &str| { if bad < 8 { witness("C18", input, obs, exp); } bad += 1; };
    for a in &pool {
        if !(a == a) { w(format!("{a:?}"), "a != a".into(), "reflexive (even NaN)"); }
        for b in &pool {
            n += 1;
            if (a == b) != (b == a) { w(format!("{a:?} , {b:?}"), format!("a == b is {}, b == a is {}", a == b, b == a), "symmetric"); }
            if a == b && disc(a) != disc(b) { w(format!("{a:?} , {b:?}"), "equal".into(), "values of different variants are never equal"); }
            if a == b && h(a) != h(b) { w(format!("{a:?} , {b:?}"), "a == b but they hash differently".into(), "equal values hash equally"); }
            if a == b { for c in &pool { if b == c && !(a == c) { w(format!("{a:?} , {b:?} , {c:?}"), "a == b, b == c, a != c".into(), "transitive"); } } }
        }
    }
    // equal payloads are equal (clones)
    for a in &pool { let b = a.clone(); if !(*a == b) { w(format!("{a:?}"), "a != a.clone()".into(), "values with equal payloads are equal"); } }
    // value tuples as keys: every shape over a few values
    let vals = [Value::Int(Some(1)), Value::Int(None), Value::Double(Some(0.0)), Value::Double(Some(-0.0)), Value::Float(Some(f32::NAN)), Value::String(Some(Box::new("x".into())))];
    let mut tuples: Vec<ValueTuple> = vec![ValueTuple::Many(vec![])];
    for a in &vals { tuples.push(ValueTuple::One(a.clone())); tuples.push(ValueTuple::Many(vec![a.clone()]));
        for b in &vals { tuples.push(ValueTuple::Two(a.clone(), b.clone())); tuples.push(ValueTuple::Many(vec![a.clone(), b.clone()]));
            for c in &vals[..3] { tuples.push(ValueTuple::Three(a.clone(), b.clone(), c.clone())); tuples.push(ValueTuple::Many(vec![a.clone(), b.clone(), c.clone()])); } } }
    for a in &tuples {
        if !(a == a) { w(format!("{a:?}"), "a != a".into(), "reflexive"); }
        for b in &tuples {
            n += 1;
            if (a == b) != (b == a) { w(format!("{a:?} , {b:?}"), "a == b differs from b == a".into(), "symmetric"); }
            if a == b && h(a) != h(b) { w(format!("{a:?} , {b:?}"), "a == b but they hash differently".into(), "equal value tuples hash equally"); }
        }
    }
    for a in tuples.iter().step_by(7) { for b in tuples.iter().step_by(5) { if a == b { for c in tuples.iter().step_by(3) { if b == c && !(a == c) { w(format!("{a:?} , {b:?} , {c:?}"), "not transitive".into(), "transitive"); } } } } }
    n
}

fn main() {
    std::panic::set_hook(Box::new(|_| {}));
    let prop = std::env::args().nth(1).unwrap_or_default();
    let r = std::panic::catch_unwind(|| match prop.as_str() { "C12" => c12(), "C18" => c18(), "C03" => c03(), "C08" => c08(), "C05" => c05(), _ => { eprintln!("usage: vreplay12 C12|C18"); std::process::exit(2) } });
    match r { Ok(n) => println!("CASES {n}"), Err(_) => witness(&prop, "(whole search)".into(), "a conversion / comparison panicked".into(), "no panic") }
}
