#!/usr/bin/env python3
"""validate MANIFEST.json and evidence/*.json against the schemas (python3-vt has jsonschema)"""
import json, sys, glob
import jsonschema
ok = True
try:
    jsonschema.validate(json.load(open('/verif/MANIFEST.json')), json.load(open('/root/.vp/MANIFEST.schema.json')))
    print("MANIFEST ok")
except Exception as e:
    ok = False; print("MANIFEST invalid:", str(e)[:500])
sch = json.load(open('/root/.vp/EVIDENCE.schema.json'))
for f in sorted(glob.glob('/verif/evidence/*.json')):
    try:
        ev = json.load(open(f)); jsonschema.validate(ev, sch)
        c = ev['coverage']
        if ev['level'] == 'proof' and c.get('obligations') != c.get('discharged'):
            ok = False; print(f, "INVALID for level proof: discharged (%s) != obligations (%s)" % (c.get('discharged'), c.get('obligations')))
        print(f, "ok", ev['level'], c.get('obligations'), c.get('discharged'), ev['wall_s'])
    except Exception as e:
        ok = False; print(f, "INVALID", str(e)[:300])
sys.exit(0 if ok else 1)
