//! Kani harnesses on the REAL sea-query crate (path dependency on /repo): postconditions of the macro-generated
//! `Value` conversions (C12) and of `Value::{eq, hash}` (C18).  Every harness named `full_*` is loop-free over
//! full-domain symbolic inputs: a complete proof, not a bounded one.  Harnesses named `bounded_*` carry an explicit
//! bound and are never counted as proved.
#![allow(unused)]
#[cfg(kani)]
mod h {
    use sea_query::{IntoValueTuple, FromValueTuple, Nullable, Value, ValueTuple, ValueType};
    use std::mem::discriminant;

    fn any_opt<T: kani::Arbitrary>() -> Option<T> { if kani::any() { Some(kani::any()) } else { None } }

    pub const N_TAGS: u8 = 14;
    /// every scalar variant with a symbolic payload; String / Bytes only as NULL (their payloads live on the heap)
    fn any_scalar(tag: u8) -> Value {
        match tag {
            0 => Value::Bool(any_opt()), 1 => Value::TinyInt(any_opt()), 2 => Value::SmallInt(any_opt()), 3 => Value::Int(any_opt()),
            4 => Value::BigInt(any_opt()), 5 => Value::TinyUnsigned(any_opt()), 6 => Value::SmallUnsigned(any_opt()),
            7 => Value::Unsigned(any_opt()), 8 => Value::BigUnsigned(any_opt()), 9 => Value::Float(any_opt()), 10 => Value::Double(any_opt()),
            11 => Value::Char(any_opt()), 12 => Value::String(None), _ => Value::Bytes(None),
        }
    }
    fn is_null(v: &Value) -> bool {
        match v {
            Value::Bool(x) => x.is_none(), Value::TinyInt(x) => x.is_none(), Value::SmallInt(x) => x.is_none(), Value::Int(x) => x.is_none(),
            Value::BigInt(x) => x.is_none(), Value::TinyUnsigned(x) => x.is_none(), Value::SmallUnsigned(x) => x.is_none(),
            Value::Unsigned(x) => x.is_none(), Value::BigUnsigned(x) => x.is_none(), Value::Float(x) => x.is_none(), Value::Double(x) => x.is_none(),
            Value::Char(x) => x.is_none(), Value::String(x) => x.is_none(), Value::Bytes(x) => x.is_none(),
            #[allow(unreachable_patterns)] _ => false,
        }
    }
    trait Bits: Copy { type B: PartialEq; fn bits(self) -> Self::B; }
    macro_rules! bits_id { ($($t:ty),*) => { $(impl Bits for $t { type B = $t; fn bits(self) -> $t { self } })* } }
    bits_id!(bool, i8, i16, i32, i64, u8, u16, u32, u64, char);
    impl Bits for f32 { type B = u32; fn bits(self) -> u32 { self.to_bits() } }
    impl Bits for f64 { type B = u64; fn bits(self) -> u64 { self.to_bits() } }

    // ---------------------------------------------------------------- C12: scalar round trips, Option, mismatches
    macro_rules! scalar {
        ($t:ty, $tag:expr, $rt:ident, $opt:ident, $mis:ident, $optmis:ident) => {
            /// Option<T> extraction: NULL of T's own variant is None; any OTHER variant (NULL or not) is an error
            #[kani::proof]
            #[kani::unwind(3)]
            fn $optmis() {
                let tag: u8 = kani::any();
                kani::assume(tag < N_TAGS);
                let v = any_scalar(tag);
                let null = is_null(&v);
                let r = <Option<$t> as ValueType>::try_from(v);
                if tag != $tag { assert!(r.is_err()); }
                else if null { assert!(matches!(r, Ok(None))); }
                else { assert!(matches!(r, Ok(Some(_)))); }
            }
            /// x -> Value -> x is the identity (floats compared by bit pattern: NaN payloads, -0.0)
            #[kani::proof]
            fn $rt() {
                let x: $t = kani::any();
                let v: Value = x.into();
                assert!(!is_null(&v));
                match <$t as ValueType>::try_from(v) { Ok(y) => assert!(y.bits() == x.bits()), Err(_) => assert!(false) }
            }
            /// None -> NULL of T's own variant -> None ; Some(x) -> Some(x), never None
            #[kani::proof]
            #[kani::unwind(3)]
            fn $opt() {
                let x: Option<$t> = any_opt();
                let v: Value = x.into();
                let n = <$t as Nullable>::null();
                assert!(is_null(&n) && discriminant(&n) == discriminant(&Value::from(<$t>::default())));
                match x {
                    None => { assert!(is_null(&v) && discriminant(&v) == discriminant(&n)); }
                    Some(_) => { assert!(!is_null(&v) && discriminant(&v) == discriminant(&n)); }
                }
                match (<Option<$t> as ValueType>::try_from(v), x) {
                    (Ok(None), None) => {}
                    (Ok(Some(y)), Some(x)) => assert!(y.bits() == x.bits()),
                    _ => assert!(false),
                }
            }
            /// extracting as T from any other variant, or from NULL, is an error - never a wrong value
            #[kani::proof]
            #[kani::unwind(3)]
            fn $mis() {
                let tag: u8 = kani::any();
                kani::assume(tag < N_TAGS);
                let v = any_scalar(tag);
                let null = is_null(&v);
                let r = <$t as ValueType>::try_from(v);
                if tag != $tag || null { assert!(r.is_err()); } else { assert!(r.is_ok()); }
            }
        };
    }
    scalar!(bool, 0, full_rt_bool, full_opt_bool, full_mis_bool, full_optmis_bool);
    scalar!(i8, 1, full_rt_i8, full_opt_i8, full_mis_i8, full_optmis_i8);
    scalar!(i16, 2, full_rt_i16, full_opt_i16, full_mis_i16, full_optmis_i16);
    scalar!(i32, 3, full_rt_i32, full_opt_i32, full_mis_i32, full_optmis_i32);
    scalar!(i64, 4, full_rt_i64, full_opt_i64, full_mis_i64, full_optmis_i64);
    scalar!(u8, 5, full_rt_u8, full_opt_u8, full_mis_u8, full_optmis_u8);
    scalar!(u16, 6, full_rt_u16, full_opt_u16, full_mis_u16, full_optmis_u16);
    scalar!(u32, 7, full_rt_u32, full_opt_u32, full_mis_u32, full_optmis_u32);
    scalar!(u64, 8, full_rt_u64, full_opt_u64, full_mis_u64, full_optmis_u64);
    scalar!(f32, 9, full_rt_f32, full_opt_f32, full_mis_f32, full_optmis_f32);
    scalar!(f64, 10, full_rt_f64, full_opt_f64, full_mis_f64, full_optmis_f64);
    scalar!(char, 11, full_rt_char, full_opt_char, full_mis_char, full_optmis_char);

    /// String / Vec<u8> extraction from every scalar variant and from their own NULL fails
    #[kani::proof]
    fn full_mis_heap_types() {
        let tag: u8 = kani::any();
        kani::assume(tag < N_TAGS);
        assert!(<String as ValueType>::try_from(any_scalar(tag)).is_err());
        assert!(<Vec<u8> as ValueType>::try_from(any_scalar(tag)).is_err());
        assert!(matches!(<Option<String> as ValueType>::try_from(Value::String(None)), Ok(None)));
        assert!(matches!(<Option<Vec<u8>> as ValueType>::try_from(Value::Bytes(None)), Ok(None)));
    }

    /// as_null / dummy_value keep the variant; as_null is NULL, dummy_value is not
    #[kani::proof]
    fn full_as_null_dummy() {
        let tag: u8 = kani::any();
        kani::assume(tag < 12); // dummy_value of String / Bytes allocates; covered by bounded_heap_values
        let v = any_scalar(tag);
        let n = v.as_null();
        let d = v.dummy_value();
        assert!(discriminant(&n) == discriminant(&v) && is_null(&n));
        assert!(discriminant(&d) == discriminant(&v) && !is_null(&d));
    }

    // ---------------------------------------------------------------- C12: tuples keep arity and order
    #[kani::proof]
    #[kani::unwind(5)]
    fn full_tuple_into_1_2_3() {
        let (a, b, c): (i32, i64, u8) = (kani::any(), kani::any(), kani::any());
        assert!(matches!(a.into_value_tuple(), ValueTuple::One(Value::Int(Some(x))) if x == a));
        assert!(matches!((a, b).into_value_tuple(), ValueTuple::Two(Value::Int(Some(x)), Value::BigInt(Some(y))) if x == a && y == b));
        assert!(matches!((a, b, c).into_value_tuple(), ValueTuple::Three(Value::Int(Some(x)), Value::BigInt(Some(y)), Value::TinyUnsigned(Some(z))) if x == a && y == b && z == c));
    }
    #[kani::proof]
    fn full_tuple_from_1() {
        let a: i32 = kani::any();
        let r1: i32 = FromValueTuple::from_value_tuple(a);
        assert!(r1 == a);
    }
    #[kani::proof]
    fn full_tuple_from_2() {
        let (a, b): (i32, i64) = (kani::any(), kani::any());
        let r2: (i32, i64) = FromValueTuple::from_value_tuple((a, b));
        assert!(r2 == (a, b));
    }
    #[kani::proof]
    #[kani::unwind(5)]
    fn full_tuple_from_3() {
        let (a, b, c): (i32, i64, u8) = (kani::any(), kani::any(), kani::any());
        let r3: (i32, i64, u8) = FromValueTuple::from_value_tuple((a, b, c));
        assert!(r3 == (a, b, c));
    }
    #[kani::proof]
    #[kani::unwind(14)]
    fn full_tuple_4_and_12() {
        let t4: (i32, i64, u8, bool) = (kani::any(), kani::any(), kani::any(), kani::any());
        let r4: (i32, i64, u8, bool) = FromValueTuple::from_value_tuple(t4);
        assert!(r4 == t4);
        match t4.into_value_tuple() {
            ValueTuple::Many(v) => { assert!(v.len() == 4); assert!(matches!(v[0], Value::Int(Some(x)) if x == t4.0)); assert!(matches!(v[3], Value::Bool(Some(x)) if x == t4.3)); }
            _ => assert!(false),
        }
        let t12: (u8, u8, u8, u8, u8, u8, u8, u8, u8, u8, u8, i16) = (kani::any(), kani::any(), kani::any(), kani::any(), kani::any(), kani::any(), kani::any(), kani::any(), kani::any(), kani::any(), kani::any(), kani::any());
        let r12: (u8, u8, u8, u8, u8, u8, u8, u8, u8, u8, u8, i16) = FromValueTuple::from_value_tuple(t12);
        assert!(r12 == t12);
    }
    macro_rules! tuple_rt {
        ($name:ident, $($t:ty),+) => {
            /// into_value_tuple keeps arity and order; from_value_tuple(into_value_tuple(t)) == t (distinct types per position
            /// where possible, so a permutation cannot go unnoticed)
            #[kani::proof]
            #[kani::unwind(14)]
            fn $name() {
                let t: ($($t),+) = ($(kani::any::<$t>()),+);
                let r: ($($t),+) = FromValueTuple::from_value_tuple(t);
                assert!(r == t);
            }
        };
    }
    tuple_rt!(full_tuple_5, u8, i8, u16, i16, u32);
    tuple_rt!(full_tuple_6, u8, i8, u16, i16, u32, i32);
    tuple_rt!(full_tuple_7, u8, i8, u16, i16, u32, i32, u64);
    tuple_rt!(full_tuple_8, u8, i8, u16, i16, u32, i32, u64, i64);
    tuple_rt!(full_tuple_9, u8, i8, u16, i16, u32, i32, u64, i64, bool);
    tuple_rt!(full_tuple_10, u8, i8, u16, i16, u32, i32, u64, i64, bool, char);
    tuple_rt!(full_tuple_11, u8, i8, u16, i16, u32, i32, u64, i64, bool, char, u8);
    /// extracting a value tuple as a Rust tuple of ANOTHER arity fails (panics) instead of returning a wrong value: a source with one value
    /// more than the target (a truncation would go unnoticed otherwise) and one value less, for every macro-generated arity 4..12
    macro_rules! tuple_arity {
        ($longer:ident, $shorter:ident, $n:expr, $($t:ty),+) => {
            #[kani::should_panic]
            #[kani::proof]
            #[kani::unwind(16)]
            fn $longer() {
                let v: u8 = kani::any();
                let src = ValueTuple::Many(vec![Value::from(v); $n + 1]);
                let _r: ($($t),+) = FromValueTuple::from_value_tuple(src);
            }
            #[kani::should_panic]
            #[kani::proof]
            #[kani::unwind(16)]
            fn $shorter() {
                let v: u8 = kani::any();
                let src = ValueTuple::Many(vec![Value::from(v); $n - 1]);
                let _r: ($($t),+) = FromValueTuple::from_value_tuple(src);
            }
        };
    }
    tuple_arity!(full_tuple_arity_longer_4, full_tuple_arity_shorter_4, 4, u8, u8, u8, u8);
    tuple_arity!(full_tuple_arity_longer_5, full_tuple_arity_shorter_5, 5, u8, u8, u8, u8, u8);
    tuple_arity!(full_tuple_arity_longer_8, full_tuple_arity_shorter_8, 8, u8, u8, u8, u8, u8, u8, u8, u8);
    tuple_arity!(full_tuple_arity_longer_12, full_tuple_arity_shorter_12, 12, u8, u8, u8, u8, u8, u8, u8, u8, u8, u8, u8, u8);
    /// same-typed neighbours: order of the last positions of each arity (a swap of equal types is invisible to a type error)
    #[kani::proof]
    #[kani::unwind(14)]
    fn full_tuple_order_same_types() {
        let a: [u8; 12] = kani::any();
        let r5: (u8, u8, u8, u8, u8) = FromValueTuple::from_value_tuple((a[0], a[1], a[2], a[3], a[4]));
        assert!(r5 == (a[0], a[1], a[2], a[3], a[4]));
        let r8: (u8, u8, u8, u8, u8, u8, u8, u8) = FromValueTuple::from_value_tuple((a[0], a[1], a[2], a[3], a[4], a[5], a[6], a[7]));
        assert!(r8 == (a[0], a[1], a[2], a[3], a[4], a[5], a[6], a[7]));
        let r11: (u8, u8, u8, u8, u8, u8, u8, u8, u8, u8, u8) = FromValueTuple::from_value_tuple((a[0], a[1], a[2], a[3], a[4], a[5], a[6], a[7], a[8], a[9], a[10]));
        assert!(r11 == (a[0], a[1], a[2], a[3], a[4], a[5], a[6], a[7], a[8], a[9], a[10]));
    }
    #[kani::proof]
    #[kani::unwind(6)]
    fn full_value_tuple_into_iter() {
        let (a, b, c): (i32, i64, u8) = (kani::any(), kani::any(), kani::any());
        let mut it = (a, b, c).into_value_tuple().into_iter();
        assert!(matches!(it.next(), Some(Value::Int(Some(x))) if x == a));
        assert!(matches!(it.next(), Some(Value::BigInt(Some(x))) if x == b));
        assert!(matches!(it.next(), Some(Value::TinyUnsigned(Some(x))) if x == c));
        assert!(it.next().is_none());
        let mut it2 = (a, b).into_value_tuple().into_iter();
        assert!(matches!(it2.next(), Some(Value::Int(Some(x))) if x == a));
        assert!(matches!(it2.next(), Some(Value::BigInt(Some(x))) if x == b));
        assert!(it2.next().is_none());
    }

    // ---------------------------------------------------------------- bounded stand-ins (heap payloads)
    /// BOUNDED: byte strings of length <= 3
    #[kani::proof]
    #[kani::unwind(6)]
    fn bounded_heap_values() {
        let n: usize = kani::any();
        kani::assume(n <= 3);
        let mut b: Vec<u8> = Vec::new();
        for _ in 0..n { b.push(kani::any()); }
        let v: Value = b.clone().into();
        assert!(matches!(&v, Value::Bytes(Some(_))));
        match <Vec<u8> as ValueType>::try_from(v) { Ok(y) => assert!(y == b), Err(_) => assert!(false) }
        let o: Value = Some(b.clone()).into();
        match <Option<Vec<u8>> as ValueType>::try_from(o) { Ok(Some(y)) => assert!(y == b), _ => assert!(false) }
        let d = Value::Bytes(None).dummy_value();
        assert!(matches!(d, Value::Bytes(Some(_))));
        let d2 = Value::String(None).dummy_value();
        assert!(matches!(d2, Value::String(Some(_))));
    }

    // ---------------------------------------------------------------- C18 (feature hashable): Eq / Hash coherence
    #[cfg(feature = "hashable")]
    mod c18 {
        use super::*;
        use std::hash::{Hash, Hasher};
        /// records every byte a Hash impl feeds to the hasher: equal recordings => equal hash under ANY hasher
        struct Rec { buf: [u8; 40], n: usize, overflow: bool }
        impl Hasher for Rec {
            fn finish(&self) -> u64 { 0 }
            fn write(&mut self, bytes: &[u8]) {
                let mut i = 0;
                while i < bytes.len() { if self.n < 40 { self.buf[self.n] = bytes[i]; self.n += 1; } else { self.overflow = true; } i += 1; }
            }
        }
        fn rec(v: &Value) -> Rec { let mut r = Rec { buf: [0; 40], n: 0, overflow: false }; v.hash(&mut r); r }
        fn same(a: &Rec, b: &Rec) -> bool {
            if a.n != b.n || a.overflow || b.overflow { return false; }
            let mut i = 0; while i < 40 { if i < a.n && a.buf[i] != b.buf[i] { return false; } i += 1; } true
        }
        fn payload_eq(a: &Value, b: &Value) -> bool {
            match (a, b) {
                (Value::Bool(x), Value::Bool(y)) => x == y, (Value::TinyInt(x), Value::TinyInt(y)) => x == y, (Value::SmallInt(x), Value::SmallInt(y)) => x == y,
                (Value::Int(x), Value::Int(y)) => x == y, (Value::BigInt(x), Value::BigInt(y)) => x == y, (Value::TinyUnsigned(x), Value::TinyUnsigned(y)) => x == y,
                (Value::SmallUnsigned(x), Value::SmallUnsigned(y)) => x == y, (Value::Unsigned(x), Value::Unsigned(y)) => x == y, (Value::BigUnsigned(x), Value::BigUnsigned(y)) => x == y,
                (Value::Float(x), Value::Float(y)) => x.map(f32::to_bits) == y.map(f32::to_bits), (Value::Double(x), Value::Double(y)) => x.map(f64::to_bits) == y.map(f64::to_bits),
                (Value::Char(x), Value::Char(y)) => x == y, (Value::String(None), Value::String(None)) => true, (Value::Bytes(None), Value::Bytes(None)) => true,
                _ => false,
            }
        }
        /// reflexive (even NaN), symmetric, different variants never equal, equal payloads equal
        #[kani::proof]
        #[kani::unwind(3)]
        fn full_eq_relation() {
            let (ta, tb): (u8, u8) = (kani::any(), kani::any());
            kani::assume(ta < N_TAGS && tb < N_TAGS);
            let (a, b) = (any_scalar(ta), any_scalar(tb));
            assert!(a == a);
            assert!((a == b) == (b == a));
            if ta != tb { assert!(a != b); }
            if payload_eq(&a, &b) { assert!(a == b); }
        }
        /// transitive
        #[kani::proof]
        #[kani::unwind(3)]
        fn full_eq_transitive() {
            let t: u8 = kani::any();
            kani::assume(t < N_TAGS);
            // different variants are never equal (full_eq_relation), so only same-variant triples matter
            let (a, b, c) = (any_scalar(t), any_scalar(t), any_scalar(t));
            if a == b && b == c { assert!(a == c); }
        }
        /// a == b  ==>  the Hash impls feed the identical byte sequence to the hasher
        #[kani::proof]
        #[kani::unwind(42)]
        fn full_eq_implies_hash() {
            let t: u8 = kani::any();
            kani::assume(t < N_TAGS);
            let (a, b) = (any_scalar(t), any_scalar(t));
            if a == b { let (ra, rb) = (rec(&a), rec(&b)); assert!(!ra.overflow && !rb.overflow); assert!(same(&ra, &rb)); }
        }
    }
}

// ---------------------------------------------------------------- C12: feature-gated value types (cargo feature `types`)
// One harness per type: x -> Value lands in T's own variant, extracts as x; None -> NULL of T's variant -> None; a value of
// another variant does not extract as T.  Inputs: every value the type's own checked constructor accepts over fully symbolic
// arguments (the constructors' rejections are the types' own validity rules, not a bound of the harness).
#[cfg(all(kani, feature = "types"))]
mod types {
    use sea_query::{Nullable, Value, ValueType};
    use std::mem::discriminant;
    macro_rules! boxed {
        ($name:ident, $t:ty, $variant:ident, $mk:expr) => {
            #[kani::proof]
            #[kani::unwind(34)]
            fn $name() {
                let made: Option<$t> = $mk;
                if let Some(x) = made {
                    let keep = x.clone();
                    let v: Value = x.into();
                    assert!(matches!(v, Value::$variant(Some(_))));
                    assert!(discriminant(&v) == discriminant(&<$t as Nullable>::null()));
                    match <$t as ValueType>::try_from(v) { Ok(y) => assert!(y == keep), Err(_) => assert!(false) }
                    let w: Value = Some(keep.clone()).into();
                    match <Option<$t> as ValueType>::try_from(w) { Ok(Some(y)) => assert!(y == keep), _ => assert!(false) }
                }
                let n: Value = Option::<$t>::None.into();
                assert!(matches!(n, Value::$variant(None)));
                assert!(matches!(<Option<$t> as ValueType>::try_from(n), Ok(None)));
                // another variant (NULL or not) is not a T
                assert!(<$t as ValueType>::try_from(Value::BigInt(if kani::any() { Some(kani::any()) } else { None })).is_err());
                assert!(<Option<$t> as ValueType>::try_from(Value::Bool(Some(kani::any()))).is_err());
            }
        };
    }
    fn naive_date() -> Option<chrono::NaiveDate> { chrono::NaiveDate::from_num_days_from_ce_opt(kani::any()) }
    fn naive_time() -> Option<chrono::NaiveTime> { chrono::NaiveTime::from_num_seconds_from_midnight_opt(kani::any(), kani::any()) }
    fn naive_dt() -> Option<chrono::NaiveDateTime> { match (naive_date(), naive_time()) { (Some(d), Some(t)) => Some(chrono::NaiveDateTime::new(d, t)), _ => None } }
    boxed!(ft_uuid, uuid::Uuid, Uuid, Some(uuid::Uuid::from_bytes(kani::any())));
    boxed!(ft_chrono_date, chrono::NaiveDate, ChronoDate, naive_date());
    boxed!(ft_chrono_time, chrono::NaiveTime, ChronoTime, naive_time());
    boxed!(ft_chrono_datetime, chrono::NaiveDateTime, ChronoDateTime, naive_dt());
    boxed!(ft_chrono_datetime_utc, chrono::DateTime<chrono::Utc>, ChronoDateTimeUtc, naive_dt().map(|n| chrono::DateTime::<chrono::Utc>::from_naive_utc_and_offset(n, chrono::Utc)));
    boxed!(ft_chrono_datetime_tz, chrono::DateTime<chrono::FixedOffset>, ChronoDateTimeWithTimeZone,
           match (naive_dt(), chrono::FixedOffset::east_opt(kani::any())) { (Some(n), Some(o)) => Some(chrono::DateTime::<chrono::FixedOffset>::from_naive_utc_and_offset(n, o)), _ => None });
    boxed!(ft_decimal, rust_decimal::Decimal, Decimal, { let s: u32 = kani::any(); if s <= 28 { Some(rust_decimal::Decimal::from_parts(kani::any(), kani::any(), kani::any(), kani::any(), s)) } else { None } });
    fn t_date() -> Option<time::Date> { time::Date::from_julian_day(kani::any()).ok() }
    fn t_time() -> Option<time::Time> { time::Time::from_hms_nano(kani::any(), kani::any(), kani::any(), kani::any()).ok() }
    boxed!(ft_time_date, time::Date, TimeDate, t_date());
    boxed!(ft_time_time, time::Time, TimeTime, t_time());
    boxed!(ft_time_datetime, time::PrimitiveDateTime, TimeDateTime, match (t_date(), t_time()) { (Some(d), Some(t)) => Some(time::PrimitiveDateTime::new(d, t)), _ => None });
    boxed!(ft_time_datetime_tz, time::OffsetDateTime, TimeDateTimeWithTimeZone,
           match (t_date(), t_time(), time::UtcOffset::from_whole_seconds(kani::any()).ok()) { (Some(d), Some(t), Some(o)) => Some(time::PrimitiveDateTime::new(d, t).assume_offset(o)), _ => None });
    boxed!(ft_mac_address, mac_address::MacAddress, MacAddress, Some(mac_address::MacAddress::new(kani::any())));
    boxed!(ft_ipnetwork_v4, ipnetwork::IpNetwork, IpNetwork, ipnetwork::Ipv4Network::new(std::net::Ipv4Addr::from(kani::any::<u32>()), kani::any()).ok().map(ipnetwork::IpNetwork::V4));
    boxed!(ft_ipnetwork_v6, ipnetwork::IpNetwork, IpNetwork, ipnetwork::Ipv6Network::new(std::net::Ipv6Addr::from(kani::any::<u128>()), kani::any()).ok().map(ipnetwork::IpNetwork::V6));
    // JSON is not covered: serde_json::Value's recursive drop / eq made CBMC time out (300 s) even for scalars
}
