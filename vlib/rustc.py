"""C20: `T: Send + Sync` for every public type under feature thread-safe, discharged by rustc's trait solver.

A generated crate (path dependency on /repo, feature thread-safe) instantiates `fn ok<T: Send + Sync>() {}` at every
public type found in /repo/src on this run.  success => every auto-trait obligation is derivable for ALL values of each
type.  E0277 `cannot be sent/shared between threads` => VIOLATION naming the type; any other compile error => exit 2.
"""
import json
import os
import re
import shutil
import subprocess
import time

ROOT = os.path.dirname(os.path.dirname(os.path.abspath(__file__)))
REPO = "/repo"
ENV = dict(os.environ, CARGO_NET_OFFLINE="true")

EXTRA = ["sea_query::error::Error", "DynIden", "SeaRc<dyn Iden>", "Vec<Value>", "Box<SimpleExpr>", "Option<DynIden>", "(DynIden, DynIden)"]


def public_types():
    out = {}
    for dp, dn, fn in os.walk(os.path.join(REPO, "src")):
        for f in sorted(fn):
            if not f.endswith(".rs"):
                continue
            p = os.path.join(dp, f)
            rel = os.path.relpath(p, REPO)
            if rel.startswith("src/tests_cfg"):
                continue
            src = open(p, encoding="utf-8").read()
            # drop test modules
            src = re.sub(r"#\[cfg\(test\)\]\s*mod\s+\w+\s*\{.*\Z", "", src, flags=re.S)
            for m in re.finditer(r"^\s*(#\[cfg\(feature\s*=\s*\"([^\"]+)\"\)\]\s*(?:#\[[^\]]*\]\s*)*)?(?:#\[[^\]]*\]\s*)*pub\s+(struct|enum|type)\s+([A-Z][A-Za-z0-9_]*)\s*(<[^>{(;=]*>)?", src, re.M):
                feat, kind, name, gen = m.group(2), m.group(3), m.group(4), m.group(5)
                out.setdefault(name, {"file": rel, "kind": kind, "generics": gen, "feature": feat})
    return out


def gen_crate(d, types, features, skip):
    os.makedirs(os.path.join(d, "src"), exist_ok=True)
    open(os.path.join(d, "Cargo.toml"), "w").write("""[package]
name = "vsendsync"
version = "0.0.0"
edition = "2021"
publish = false
[workspace]
[dependencies]
sea-query = { path = "/repo", features = [%s] }
""" % ", ".join('"%s"' % f for f in features))
    if not os.path.exists(os.path.join(d, "Cargo.lock")):
        shutil.copy(os.path.join(REPO, "Cargo.lock"), os.path.join(d, "Cargo.lock"))
    lines = ["#![allow(unused_imports, dead_code)]", "use sea_query::*;", "use sea_query::extension::postgres::*;", "use sea_query::extension::mysql::*;", "use sea_query::extension::sqlite::*;",
             "fn ok<T: Send + Sync + ?Sized>() {}", "pub fn all() {"]
    names = []
    for name, info in sorted(types.items()):
        if name in skip:
            continue
        if info["feature"] and info["feature"] not in features:
            continue
        if info["generics"]:
            continue
        lines.append("    ok::<%s>(); // %s" % (name, info["file"]))
        names.append(name)
    for e in EXTRA:
        lines.append("    ok::<%s>();" % e)
        names.append(e)
    lines.append("}")
    open(os.path.join(d, "src", "lib.rs"), "w").write("\n".join(lines) + "\n")
    return names


def cargo_check(d):
    p = subprocess.run(["cargo", "check", "--offline", "--message-format=json", "-q"], cwd=d, capture_output=True, text=True, env=ENV)
    diags = []
    for ln in p.stdout.splitlines():
        try:
            j = json.loads(ln)
        except Exception:
            continue
        if j.get("reason") == "compiler-message" and j["message"].get("level") == "error":
            diags.append(j)
    return p.returncode, diags, p.stderr


def check(prop, tier, seed, P):
    t0 = time.time()
    types = public_types()
    feature_sets = [["thread-safe"]]
    if True:   # both tiers: the interaction with the optional value-type features is part of the property
        feature_sets.append(["thread-safe", "hashable-value", "with-json", "with-chrono", "with-time", "with-uuid", "with-rust_decimal", "with-bigdecimal", "postgres-array", "postgres-interval", "with-ipnetwork", "with-mac_address"])
    violations, undecided, total, unnameable_all, cmds = [], [], 0, {}, []
    for fs in feature_sets:
        d = os.path.join(ROOT, "build", "sendsync-%d" % len(fs))
        skip = set()
        names = []
        for attempt in range(4):
            names = gen_crate(d, types, fs, skip)
            rc, diags, err = cargo_check(d)
            cmds.append("cd %s && cargo check --offline   # features: %s" % (d, ",".join(fs)))
            if rc == 0:
                break
            newskip = set()
            hard = []
            for j in diags:
                m = j["message"]
                code = (m.get("code") or {}).get("code")
                if m.get("target", {}) and False:
                    pass
                if j.get("target", {}).get("name") != "vsendsync":
                    hard.append("dependency does not compile: " + m["message"][:200])
                    continue
                if code in ("E0412", "E0433", "E0107", "E0603", "E0425", "E0782", "E0404"):
                    # not nameable from outside / needs generics: record, do not drop silently
                    txt = m["spans"][0]["text"][0]["text"] if m.get("spans") and m["spans"][0].get("text") else ""
                    mm = re.search(r"ok::<([A-Za-z0-9_]+)", txt)
                    if mm:
                        newskip.add(mm.group(1))
                        unnameable_all[mm.group(1)] = code
                    else:
                        hard.append(m["message"][:200])
                elif code == "E0277" and re.search(r"cannot be (sent|shared) between threads", m["message"]):
                    prim = [s for s in m.get("spans", []) if s.get("is_primary")] or m.get("spans", [])
                    txt = " ".join(s["text"][0]["text"] for s in prim if s.get("text"))
                    mm = re.search(r"ok::<(.+?)>\(\)", txt)
                    if mm and any(v["type"] == mm.group(1) and v["features"] == fs for v in violations):
                        continue
                    violations.append({"type": mm.group(1) if mm else "?", "features": fs, "message": m["message"], "rendered": m.get("rendered", "")[:3000]})
                else:
                    hard.append("%s %s" % (code, m["message"][:200]))
            if violations:
                break
            if hard:
                undecided.extend(hard)
                break
            if not newskip:
                undecided.append("cargo check failed without a classified error: " + err[-300:])
                break
            skip |= newskip
        total += len(names) if not violations and not undecided else 0
    wall = time.time() - t0
    ev = {
        "property_id": prop, "tier": tier, "seed": seed, "level": "proof",
        "coverage": {
            "obligations": total + len(violations), "discharged": total,
            "obligation_unit": "one auto-trait obligation pair `T: Send + Sync` per public type, per feature set",
            "checker_cmd": " ; ".join(sorted(set(cmds))),
            "back_end": "rustc trait solver (cargo check), feature thread-safe",
            "trusted_base": P.get("trusted_base", []),
            "samples": [{"obligation": "%s: Send + Sync" % n} for n in (names[:6] if 'names' in dir() else [])],
            "types_found": len(types),
            "types_not_instantiated": {"generic": sorted(n for n, i in types.items() if i["generics"]), "not_nameable": unnameable_all},
            "feature_sets": feature_sets, "undecided": undecided,
            "failed_obligations": ["%s: Send + Sync" % v["type"] for v in violations],
        },
        "assumptions": P.get("assumptions", []), "wall_s": round(wall, 2), "violations": len(violations),
    }
    os.makedirs(os.path.join(ROOT, "evidence"), exist_ok=True)
    json.dump(ev, open(os.path.join(ROOT, "evidence", "%s.json" % prop), "w"), indent=1)
    if undecided and not violations:
        for x in undecided[:5]:
            print("UNDECIDED property=%s %s" % (prop, x))
        return 2
    if violations:
        os.makedirs(os.path.join(ROOT, "replay", "out"), exist_ok=True)
        for i, v in enumerate(violations):
            path = os.path.join(ROOT, "replay", "out", "%s-%d.json" % (prop, i + 1))
            json.dump({"property": prop, "obligation": "%s: Send + Sync" % v["type"], "input": v["type"], "features": v["features"],
                       "verifier_output": v["rendered"], "note": "the counterexample is the compiler's derivation path (which field / type parameter is not Send or Sync)"}, open(path, "w"), indent=1)
            print("OBLIGATION FAILED: %s: Send + Sync (features %s)" % (v["type"], ",".join(v["features"])))
            print("VIOLATION property=%s replay=%s" % (prop, path))
        return 1
    print("OK property=%s instantiations=%d wall=%.1fs" % (prop, total, wall))
    return 0
