"""Registry: which units decide which property, what is trusted, what is assumed."""

TB_COMMON = [
    "Verus 0.2026.09.13 + Z3; vstd specifications of Vec, String, Option, str",
    "the extractor /verif/vlib (Rust-aware brace matcher + the closed list of rewrite rules R-*, DESIGN.md 3.2)",
    "R-attr: derived impls (Clone, PartialEq, Default, Debug) are not verified",
]
TB_FMT = "R-fmt: std::fmt writes format segments in order; Display of char/&str/String is the text itself; fmt::Write for String appends and never fails (validated natively on a fixed battery each run)"
TB_STR = "R-strfn: str::replace(char, &str) replaces every occurrence left to right; str::replace(&str, &str) is leftmost non-overlapping; str::find(char).is_some() iff the char occurs; String + &str concatenates (battery validated natively each run)"
TB_CHAR = "R-charfn: char::is_alphabetic is A-Z|a-z on ASCII (validated natively over all 128 code points each run), uninterpreted elsewhere; is_ascii_digit is '0'..='9' (validated over all chars)"

PROPS = {
    "C15": {
        "kind": "verus",
        "units": [{"name": "take"}],
        "search": True,
        "bounded_standin": "clone independence and rendering equality (derive(Clone/PartialEq) and the renderers are not under contract): fully populated builders of the 12 statement types on the real crate",
        "technique": "Verus contracts on the 12 extracted take() functions (result == *old(self); for query statements every field of the struct is Default afterwards - predicate GENERATED from the extracted struct) and on the clear_* / reset_* functions (whole-struct frame over the generated field list)",
        "trusted_base": TB_COMMON + [
            "R-mem: std::mem::take leaves Default (empty Vec / None), std::mem::replace leaves the given value",
            "R-opaque: every field type that is not one of the 12 structs (the extracted code only moves such values)",
            "#[derive(Clone)] is a structural copy (vclone), #[derive(Default)] gives Default fields; SeaRc<dyn Iden>::eq (vtable pointer + string, unsafe transmute) is NOT verified"],
        "assumptions": [
            "`renders identically` follows from `equal` only if rendering is a function of the statement value (the renderers take &self and the statement types have no interior mutability); bounded-tested by the stand-in",
            "independence of a clone from its source follows from ownership (no Rc-shared mutable state in statements: SeaRc<dyn Iden> is immutable)",
        ],
    },
    "C16": {
        "kind": "verus",
        "units": [{"name": "token"}],
        "search": True,
        "technique": "Verus contracts on the extracted src/token.rs (loop invariants + decreases), driver lemma over next()'s contract",
        "trusted_base": TB_COMMON + [TB_FMT, TB_CHAR,
            "R-strfn: `string.chars().collect()` yields the chars of the string in order",
            "R-iterimpl: `.iter().collect()` calls next() until None (the verified driver `tokenize_all` is that loop)"],
        "assumptions": [
            "usize arithmetic is machine arithmetic in Verus; `p += 1` overflow is an obligation discharged from p < len",
            "the specification of a quoted span (`q_scan`) is hand-written from the property text: backslash protects the next char, a doubled ` ' \" continues the token, [ ] has no doubling",
        ],
    },
    "C04": {
        "kind": "verus",
        "units": [{"name": "ident"}],
        "search": True,
        "bounded_standin": "identifier positions reached through the call graph (not under contract): 15 statement shapes x 3 backends x names over a 10-symbol alphabet up to length 3, incl. user Iden impls writing char-wise",
        "technique": "Verus contracts: Iden::prepare / quoted / to_string (trait defaults) and every raw quoting site (any write! mentioning .left(), discovered on each run and wrapped as a function) emit one token that the quoted-identifier lexer decodes to exactly the name",
        "trusted_base": TB_COMMON + [TB_FMT, TB_STR,
            "R-strfn: std::str::from_utf8(&[b]).unwrap() is the one-character string of an ASCII byte and panics for b >= 0x80; str::repeat(2) is s+s; str::replace with a one-character pattern replaces that character; char::from(u8) is the Latin-1 code point (validated natively each run)",
            "R-arm: a raw quoting site is the `write!` statement wrapped as a function of its free variables (name: &str); the surrounding function is not verified",
            "oracle (hand-written): quoted-identifier lexer of MySQL (backtick) and PostgreSQL / SQLite (double quote): a doubled closing quote is one quote, a single one ends the token",
            "abstract implementor VIden: `unquoted` of an arbitrary Iden implementor writes its name (each implementor defines its own); Alias::unquoted is the real extracted body"],
        "assumptions": [
            "all other identifier positions (table / schema / column / alias / CTE / window names) reach the writer only through Iden::prepare with self.quote(): a syntactic call-graph fact, not proved",
            "implementors that override Iden::prepare / quoted (the derive macro's fast path, C19) are outside this check",
            "custom keyword / function / type names (Keyword::Custom, Func::Custom, ColumnType::Custom, IndexType::Custom) are written unquoted by design and are not identifier positions of the property",
        ],
    },
    "C20": {
        "kind": "rustc",
        "engine": "rustc",
        "search": False,
        "technique": "auto-trait obligations `T: Send + Sync` instantiated at every public type found in /repo/src, discharged by rustc's trait solver (cargo check, feature thread-safe)",
        "trusted_base": ["rustc 's trait solver and auto-trait rules", "the type list is scraped from `pub struct|enum|type` items on each run; generic types and types not nameable from outside the crate are listed in the evidence, not instantiated"],
        "assumptions": ["`unsafe impl Send/Sync` would be accepted by rustc without proof; a scan for them is part of the evidence (none present)"],
        "design_ref": "DESIGN.md section 4.12",
    },
    "C10": {
        "kind": "verus",
        "units": [{"name": "insert"}],
        "search": True,
        "bounded_standin": "rendering of rows / cells in call order (prepare_insert_statement is not under contract) and whole call histories: all histories of up to 4 calls over columns(0..2) / values(0..3) / select_from(0..2) / or_default_values on the real InsertStatement",
        "technique": "Verus contracts on the extracted InsertStatement::{new, columns, values, values_panic, select_from, or_default_values*}: Ok iff counts match, exact error payload, statement unchanged on error, rows appended in call order, rectangularity as a data-structure invariant",
        "trusted_base": TB_COMMON + [
            "R-collect: a generic `I: IntoIterator<Item = T>` parameter that is immediately collected into a Vec is replaced by the Vec (collect preserves order and length)",
            "R-into: `select.into()` into the same type is the identity; R-retself: the chaining return value is dropped",
            "R-opaque: SimpleExpr, DynIden, TableRef, OnConflict, ReturningClause, WithClause, SelectExpr; R-fields: SelectStatement projected on `selects`",
            "#[derive(Default)] on InsertStatement yields empty / None / false fields (vdefault_insert)"],
        "assumptions": [
            "values_from_panic (closure in for_each) is not extracted: it calls values_panic once per item",
            "the renderer's VALUES / DEFAULT VALUES branches are covered only by the bounded stand-in",
        ],
    },
    "C12": {
        "kind": "kani", "engine": "kani", "search": False,
        "technique": "Kani/CBMC harnesses asserting the conversion postconditions on the real crate: loop-free, full-domain symbolic inputs (complete); heap payloads bounded and labelled",
        "trusted_base": ["Kani 0.68.0 / CBMC 6.11.0 and Kani's models of std (alloc, Box, Vec, memcmp)",
            "the harnesses assert the postconditions on the real compiled functions of /repo (external crate, path dependency); contract attributes cannot be attached to the macro-generated impls without editing /repo, and for leaf functions a harness-asserted postcondition is the same obligation",
            "rustc monomorphisation of the macro-generated impls"],
        "assumptions": ["complete: bool, i8..i64, u8..u64, f32/f64 (all bit patterns), char; Option<T> of each; every (source scalar variant, target type) pair; as_null / dummy_value on scalar variants; tuples of arity 1, 2, 3, 4, 12 and ValueTuple::into_iter",
            "bounded (not proved): Vec<u8> payloads of length <= 3; String payloads are not explored (string code is out of CBMC's reach here)",
            "not covered: tuple arities 5..11 (same macro as 4 and 12), JSON, chrono, time, Decimal, BigDecimal, Uuid, arrays, vectors (optional features)"],
        "design_ref": "DESIGN.md section 4.11",
    },
    "C18": {
        "kind": "kani", "engine": "kani", "search": False,
        "technique": "Kani/CBMC harnesses on the real Value::{eq, hash} with feature hashable-value: reflexive / symmetric / transitive / variant separation / payload equality / eq => identical hasher input, all scalar variants and all float bit patterns",
        "trusted_base": ["Kani 0.68.0 / CBMC 6.11.0 and Kani's models of std (alloc, Box, Vec, memcmp)",
            "the harnesses assert the postconditions on the real compiled functions of /repo (external crate, path dependency); contract attributes cannot be attached to the macro-generated impls without editing /repo, and for leaf functions a harness-asserted postcondition is the same obligation",
            "rustc monomorphisation of the macro-generated impls"],
        "assumptions": ["complete over the 12 scalar variants (Some and None payloads, every f32/f64 bit pattern incl. NaN payloads, +-0, infinities) plus String(None) and Bytes(None); ordered-float is compiled and checked, not assumed",
            "Eq => Hash is shown by a recording Hasher receiving the identical byte sequence, so it holds for any hasher",
            "not covered: String / Bytes payloads, ValueTuple, JSON key order, vectors, nested arrays (heap / optional features)"],
        "design_ref": "DESIGN.md section 4.11",
    },
    "C01": {
        "kind": "verus",
        "units": [{"name": "writer"}],
        "search": True,
        "bounded_standin": "statement renderers other than LIMIT/OFFSET are abstract in unit writer: corpus of ~530 nested statements x 3 backends, placeholder/value count, numbering, order",
        "technique": "Verus contracts: SqlWriterValues as a data structure with abstraction relation rel(writer, trace); every operation extends the trace; closed-form lemma for numbering / pairing; clause renderers as trace transformers",
        "trusted_base": TB_COMMON + [TB_FMT,
            "R-dyn: `&mut dyn SqlWriter` / `&dyn QueryBuilder` replaced by generic parameters; both SqlWriter impls are verified against one trait contract",
            "R-fields: statement structs are projected on the fields the extracted functions read",
            "Value is opaque in this unit; #[derive(Clone)] on Value is a structural copy (trusted)",
            "Display of usize is left uninterpreted (num_text_int): the k-th Postgres placeholder is `$` ++ decimal(k) by the std formatter"],
        "assumptions": [
            "ASSUMED (assume() in the verified file): SqlWriterValues.counter < usize::MAX when a parameter is pushed - a Vec<Value> cannot hold usize::MAX elements",
            "frame: counter / values / string are private fields of src/prepare.rs and only new / write_str / push_param / into_parts touch them (checked syntactically on every run)",
            "statement renderers (prepare_select_statement ...) are abstract trace transformers here: that they emit every given value (beyond LIMIT / OFFSET, proved here) is the subject of C08's unit; text segments are assumed lexically closed and free of placeholder marks outside quotes (custom SQL with a literal mark is C11)",
        ],
    },
    "C02": {
        "kind": "verus",
        "units": [{"name": "writer"}],
        "search": True,
        "bounded_standin": "renderers that inline values without going through the writer (ORDER BY FIELD, constants): corpus of ~530 nested statements x 3 backends, inline == parameterised with placeholders substituted",
        "technique": "Verus contracts: String and SqlWriterValues refine one trace (same trait contract); to_string / build / build_any / build_collect* and both #[inherent] forwards of each statement type are proved to run the same renderer; lemma: inline == parameterised with placeholders substituted",
        "trusted_base": TB_COMMON + [TB_FMT,
            "R-dyn: dyn parameters replaced by generics", "R-inherent: #[inherent] re-exports trait methods as inherent methods without changing them",
            "ToString: `to_string()` of a String is itself; Display for SqlWriterValues writes its text (external_body)"],
        "assumptions": [
            "the renderer is a function of (&statement, &builder) only: it reaches the writer only through the SqlWriter interface (generic W) and &self statements have no interior mutability, so rendering cannot modify the statement and rendering twice gives the same result",
            "`on a live engine they return the same rows` is outside this family (no engine semantics in any contract) and is not claimed",
        ],
    },
    "C05": {
        "kind": "verus",
        "units": [{"name": "prec"}, {"name": "prec", "variant": "more-parentheses"}],
        "search": True,
        "bounded_standin": "the unparsing theorem itself (assumed) and the expression arms not under contract: all trees up to depth 2 over 15 binary operators, NOT, BETWEEN / NOT BETWEEN rendered by the 3 real backends and re-parsed with each engine's precedence table",
        "technique": "Verus contracts: exact decision spec of the parenthesis deciders + lemmas (finite case analysis by Z3) that every omitted pair is redundant under the MySQL / PostgreSQL / SQLite precedence and associativity tables; binary_expr and the NOT arm proved to emit exactly the decided shape; both feature modes",
        "trusted_base": TB_COMMON + [TB_FMT,
            "oracles (hand-written from the manuals): three operator precedence / associativity tables (units/prec/spec.rs)",
            "R-opaque: SimpleExpr payload types; R-arm: the Unary arm of prepare_simple_expr_common is wrapped as a function; R-refpat: matches!(e, Some(&V)) rewritten to is_some() && ==; #[derive(PartialEq)] on BinOper is structural (vbinoper_eq)",
            "R-into: `(*op).into()` is the extracted From<BinOper|UnOper> for Oper",
            "sub-expression renderers (prepare_simple_expr, prepare_bin_oper) are abstract text producers"],
        "assumptions": [
            "the classical operator-precedence unparsing theorem: if every operand is parenthesised unless it binds tighter than its parent (or equally, on the associative side), a precedence parser recovers the tree; the verifier discharges the local side condition for every (outer, inner, side, engine), not the parser theorem (bounded-tested by the stand-in search)",
            "custom operators / custom SQL have no table entry: they are never written bare (proved: prec = None => not safe_bare)",
            "not under contract: empty-IN rewriting, prepare_logical_chain_oper (legacy), LIKE..ESCAPE construction in ExprTrait::like, Func::cast_as, CASE, tuples, sub-queries (self-delimiting by construction)",
        ],
    },
    "C06": {
        "kind": "verus",
        "units": [{"name": "cond"}],
        "search": True,
        "bounded_standin": "rendered predicate of the real builder parsed and compared with Kleene semantics for condition trees up to depth 3 and histories of up to 2 calls, 27 valuations",
        "technique": "Verus contracts with Kleene three-valued semantics as spec functions: every rewrite in Condition::add / ConditionHolder::add_condition / to_simple_expr preserves the meaning for all trees and all valuations; empty holder renders nothing",
        "trusted_base": TB_COMMON + [TB_FMT,
            "R-opaque: payload types of SimpleExpr that the extracted code only moves (ColumnRef, FunctionCall, SubQueryStatement, ...) are opaque",
            "R-into: `x.into()` into the same type is the identity; the generic `C: Into<ConditionExpression>` / `C: IntoCondition` parameters are instantiated through the extracted From / IntoCondition impls",
            "R-mem: std::mem::take returns the old value and leaves Default (= ConditionHolderContents::Empty, #[default])",
            "R-attr: #[derive(Clone)] on SimpleExpr is a structural copy; #[derive(PartialEq)] on ConditionType is structural equality",
            "impl From<bool> for Value yields Value::Bool(Some(b)) (macro-generated; checked by Kani harness full_rt_bool)"],
        "assumptions": [
            "the engines evaluate AND / OR / NOT by Kleene's tables; that the rendered TEXT re-parses to this expression tree is C05",
            "the legacy Chain representation (hidden and_or_where) is outside the property's call list: it gets a contract but no semantic claim",
            "JOIN ON and CASE WHEN conditions reach the same functions (into_condition, prepare_condition_where): CaseStatement::case / join_join themselves are not extracted",
        ],
    },
    "C17": {
        "kind": "verus",
        "units": [{"name": "escape"}],
        "search": True,
        "technique": "Verus contracts on the extracted escape_string / unescape_string bodies of each backend; round trip = composition of the two contracts (theorem `roundtrip` per backend)",
        "trusted_base": TB_COMMON + [TB_FMT, TB_STR],
        "assumptions": [
            "which body a backend runs is read from the `impl EscapeBuilder for X` blocks at extraction time (trait default if the impl does not define the method)",
        ],
    },
    "C03": {
        "kind": "verus",
        "units": [{"name": "escape"}],
        "search": True,
        "bounded_standin": "value_to_string on the real backends for all strings over a 19-symbol escape-relevant alphabet up to length 3, 25 chars, all single bytes",
        "technique": "Verus contracts: every literal writer's output, followed by any non-quote text, lexes under the engine's lexer (spec functions written from the MySQL / PostgreSQL / SQLite manuals) to exactly one token decoding to the supplied value",
        "trusted_base": TB_COMMON + [TB_FMT, TB_STR,
            "R-fmt {:02X}: two upper-case hex digits, high nibble first (validated natively for all 256 bytes each run)",
            "oracles (hand-written from the manuals, not validated against a live MySQL / Postgres): mysql_string_lit, pg_string_lit (E'' and standard-conforming), sqlite_string_lit, x'..' blob literal, Postgres bytea hex input; Postgres octal / \\x / \\u escapes are left uninterpreted (never produced for NUL-free input - proved)",
            "R-dynw: `&mut dyn SqlWriter` replaced by a generic writer whose only operation appends text"],
        "assumptions": [
            "MySQL runs with backslash escapes enabled (NO_BACKSLASH_ESCAPES off) and Postgres with standard_conforming_strings = on (the default since 9.1)",
            "NUL is excluded for Postgres and SQLite, as the property allows",
            "positions under contract: query values (value_to_string / value_to_string_common, String / Char / Bytes arms, 3 backends), prepare_constant (constants, LIKE ESCAPE, DEFAULT), MySQL column COMMENT. Positions reached only through these writers (ORDER BY FIELD lists, CREATE/ALTER TYPE labels via prepare_value) rely on a syntactic call-graph fact, not proved. NOT under contract: MySQL table COMMENT (same code shape as column_comment), MySQL ENUM(...) labels (written by format!/join without escaping - see DESIGN.md section 10), optional value types behind cargo features (json, chrono, uuid, ...)",
            "the text preceding the literal does not glue to it (e.g. an identifier ending in E before a quote): argued at segment level only",
        ],
    },
}

LEVEL_TEXT = {
    "C15": "Unbounded proof for all builder states: each of the 12 take() functions returns exactly *old(self) (every field, so a field cloned-then-kept or forgotten fails), the two query statements leave every field at its Default (predicate generated from the struct text on each run), and clear_selects / from_clear / reset_limit / reset_offset / clear_order_by change exactly one field.",
    "C10": "Unbounded proof for all statements and all rows: values() / select_from() succeed iff the counts match, return ColValNumMismatch{col_len, val_len} otherwise and leave *self unchanged; accepted rows are appended after the existing ones and nothing else changes; rect (every row as long as the column list) is preserved by every operation except columns() after rows exist (a recorded known finding; the rest of columns()'s contract, incl. rect when no source exists, is proved).",
    "C05": "Unbounded proof over all operator pairs / sides / engines / both feature modes: the extracted deciders equal their decision spec, lemma_drop_is_safe / lemma_lassoc_is_safe / lemma_between_ok / lemma_escape_ok show every omitted parenthesis pair is redundant under each engine's table, and the extracted binary_expr / prepare_between_bound / NOT arm emit exactly `[(] l [)] op [(] r [)]` with those decisions.",
    "C06": "Unbounded proof over all condition trees, all call histories and all three-valued valuations: sem(result) == sem(what was added) for Condition::{add, add_option, not, any, all}, IntoCondition, ConditionHolder::add_condition (holder' == holder AND addition, empty == TRUE), cond_where / and_where / and_where_option / cond_having / and_having of the statements, to_simple_expr (tree == condition, termination proved), prepare_condition (Empty renders nothing).",
    "C01": "Unbounded proof over all operation sequences: the writer invariant (counter == values.len(), text == rendering of the trace) is preserved by every operation of the extracted SqlWriterValues; lemma_c01_closed_form: placeholder segments carry numbers 1..n once each, ascending, paired with values[k-1]; `?` vs `$k` per backend from the extracted placeholder(); prepare_value x4 push exactly one value; LIMIT/OFFSET renderers push their values in order.",
    "C02": "Unbounded proof: both writers satisfy one trait contract, so for any renderer the inline text is render_inline(T) and the parameterised result is (render_ph(T), params(T)) for the same trace T; lemma_c02_same_statement relates the two; all eight public entry points and the ten #[inherent] forwards are extracted and proved to call the same renderer with the same arguments.",
    "C12": "Complete proof (CBMC, no unwinding bound needed or unwinding assertions on) for every value of the scalar types, their Options, every variant/type mismatch and the listed tuple arities; heap-payload checks are bounded stand-ins, labelled and not counted.",
    "C18": "Complete proof (CBMC) over all scalar variants and all float bit patterns that == is an equivalence relation separating variants and that equal values feed identical bytes to any Hasher.",
    "C20": "Type-level proof for all values: the contract `where T: Send + Sync` is instantiated at every nameable non-generic public type of the crate (built with feature thread-safe) and discharged by rustc's trait solver; a type that stops being Send or Sync is a compile error naming the offending field.",
    "C04": "Unbounded proof for all identifier strings: the extracted Iden::prepare satisfies `quoted_ident(output ++ rest) == (name, |output|)` for every rest not starting with the quote, for both quote characters; the backends' QUOTE constants are verified to be those characters; every raw quoting site found in src/backend on this run satisfies the same contract.",
    "C17": "Unbounded proof for all strings: escape_string's postcondition is `unescape_spec(result) == input` and unescape_string's is `result == unescape_spec(input)` on the extracted bodies of all three backends (default chain of 8 replacements proved equal to a single-pass map; SQLite quote doubling vs leftmost non-overlapping '' replacement); the property is the verified composition `roundtrip`.",
    "C03": "Unbounded proof for all strings / chars / byte strings: the extracted literal writers (write_string_quoted default + Postgres override, write_bytes default + Postgres override, value_to_string_common, prepare_constant, MySQL column_comment) satisfy `lex_B(output ++ rest) == (value, |output|)` for every rest not starting with a quote, under the three engines' lexers.",
    "C16": "Unbounded proof: every function of src/token.rs is extracted from the working tree and verified by Verus against contracts taken from the property (termination by decreases, progress, non-empty tokens, concatenation == input, quoted spans == quoted_end); the property is a lemma (tokenize_all + lemma_punct_outside_quotes) over next()'s contract. All strings, all lengths.",
}

_NOT_YET = "not built yet in this session (planned, see DESIGN.md section 4); no check is registered so nothing is claimed"
NOT_APPLICABLE = {
    
    "C07": "defined by executing statements on a real SQLite engine and comparing rows/table contents; no contract on sea-query's functions can express an engine's evaluation semantics and neither Verus nor Kani can take SQLite's C code as a callee (DESIGN.md section 6)",
    "C08": _NOT_YET,
    "C09": "equality of query RESULTS of three renderings on executing engines and equivalence of emulations (IS NULL ordering, IFNULL/COALESCE, GREATEST/MAX): engine semantics, outside any contract on this code (DESIGN.md section 6)",
    "C11": _NOT_YET, 
    "C13": "decided by the SQLite catalogue (PRAGMA table_xinfo, sqlite_master) after executing DDL; no contract reaches the engine's DDL interpreter or its type-affinity rules (DESIGN.md section 6)",
    "C14": "needs a MySQL/Postgres DDL grammar as oracle; its core is a 40-arm format! table whose only possible contract is a copy of itself (DESIGN.md section 6)",
    
    "C19": "the mapping is computed at compile time by a proc-macro over syn token trees with heck; the quantifier is over programs; neither Verus nor Kani can take proc_macro/syn/quote code (DESIGN.md section 6)",
    
}
