"""C12 / C18: Kani (CBMC) harnesses on the real crate.  `full_*` harnesses are loop-free (or fixed-size with
unwinding assertions on) over full-domain symbolic inputs = complete proofs; `bounded_*` harnesses are bounded
stand-ins, reported separately and never counted as proved."""
import json
import os
import re
import shutil
import subprocess
import time

ROOT = os.path.dirname(os.path.dirname(os.path.abspath(__file__)))
KDIR = os.path.join(ROOT, "kani")
ENV = dict(os.environ, CARGO_NET_OFFLINE="true")


def harnesses():
    src = open(os.path.join(KDIR, "src", "lib.rs")).read()
    c18_start = src.index("mod c18")
    out = {"C12": [], "C18": []}
    for m in re.finditer(r"#\[kani::proof\](?:\s*#\[kani::unwind\(\d+\)\])?\s*fn\s+([a-z0-9_]+)\s*\(", src):
        out["C18" if m.start() > c18_start else "C12"].append(m.group(1))
    # macro-generated scalar harnesses
    for m in re.finditer(r"scalar!\(\w+, \d+, (\w+), (\w+), (\w+), (\w+)\);", src):
        out["C12"].extend(m.groups())
    for m in re.finditer(r"tuple_rt!\((\w+),", src):
        out["C12"].append(m.group(1))
    out["C12"] = [h for h in out["C12"] if not h.startswith("$")]
    # feature-gated value types (cargo feature `types`): thorough tier
    out["C12_types"] = re.findall(r"boxed!\((ft_\w+),", src)
    return out


def run_kani(names, features, timeout, jobs=12):
    cmd = ["cargo", "kani", "--output-format", "terse", "-j", str(jobs), "-Z", "unstable-options", "--harness-timeout", "240s"]
    if features:
        cmd += ["--features", features]
    for n in names:
        cmd += ["--harness", n]
    t0 = time.time()
    try:
        p = subprocess.run(cmd, cwd=KDIR, capture_output=True, text=True, timeout=timeout, env=ENV)
        out, rc = p.stdout + "\n" + p.stderr, p.returncode
    except subprocess.TimeoutExpired as e:
        out = ((e.stdout or b"").decode(errors="replace") if isinstance(e.stdout, bytes) else (e.stdout or "")) + "\nTIMEOUT"
        rc = 124
        subprocess.run(["pkill", "-f", "cbmc"], capture_output=True)
    return {"cmd": " ".join(cmd), "rc": rc, "out": out, "wall": time.time() - t0}


def parse(out):
    checks = [(int(a), int(b)) for a, b in re.findall(r"\*\* (\d+) of (\d+) failed", out)]
    ok = len(re.findall(r"VERIFICATION:- SUCCESSFUL", out))
    bad = len(re.findall(r"VERIFICATION:- FAILED", out))
    failed_names = re.findall(r"Verification failed for - ([A-Za-z0-9_:]+)", out)
    m = re.search(r"Complete - (\d+) successfully verified harnesses, (\d+) failures, (\d+) total", out)
    summary = tuple(int(x) for x in m.groups()) if m else None
    vtime = sum(float(x) for x in re.findall(r"Verification Time: ([0-9.]+)s", out))
    failed_checks = re.findall(r"Failed Checks: (.*)", out)
    return {"checks": checks, "ok": ok, "bad": bad, "failed_names": failed_names, "summary": summary, "vtime": vtime, "failed_checks": failed_checks}


def check(prop, tier, seed, P):
    t0 = time.time()
    if not os.path.exists(os.path.join(KDIR, "Cargo.lock")):
        shutil.copy("/repo/Cargo.lock", os.path.join(KDIR, "Cargo.lock"))
    hs = harnesses()
    runs = []
    if prop == "C12":
        names = hs["C12"]
        runs.append(("default features", None, names))
        if tier == "thorough":
            runs.append(("feature hashable-value (custom PartialEq used by Option<T>::try_from)", "hashable", names))
            runs.append(("feature-gated value types: uuid, chrono x5, time x4, rust_decimal, mac_address, ipnetwork (v4, v6)", "types", hs["C12_types"]))
    else:
        runs.append(("feature hashable-value", "hashable", hs["C18"]))
    results = []
    for label, feat, names in runs:
        r = run_kani(names, feat, timeout=1500)
        r["parsed"] = parse(r["out"])
        r["label"], r["names"] = label, names
        results.append(r)
    undecided, violations = [], []
    full_checks = full_ok = bounded_checks = 0
    for r in results:
        p = r["parsed"]
        if r["rc"] == 124:
            undecided.append("kani timed out (%s)" % r["label"])
            continue
        if p["summary"] is None:
            undecided.append("kani produced no summary (%s): %s" % (r["label"], r["out"][-400:].replace("\n", " | ")))
            continue
        ok, bad, total = p["summary"]
        if total != len(r["names"]):
            undecided.append("expected %d harnesses, kani ran %d (%s)" % (len(r["names"]), total, r["label"]))
        for fn in p["failed_names"]:
            violations.append({"harness": fn, "config": r["label"], "features": r["cmd"]})
        if bad and not p["failed_names"]:
            undecided.append("kani reported %d failures without naming them" % bad)
        for (f, n) in p["checks"]:
            full_checks += n
            full_ok += n - f
    wall = time.time() - t0
    os.makedirs(os.path.join(ROOT, "replay", "out"), exist_ok=True)
    vio_out = []
    for i, v in enumerate(violations):
        # concrete counterexample from CBMC, as a Rust unit test (concrete playback)
        short = v["harness"].split("::")[-1]
        cmd = ["cargo", "kani", "--harness", short, "-Z", "concrete-playback", "--concrete-playback=print", "--output-format", "terse"]
        if "--features" in v["features"]:
            cmd += ["--features", "hashable"]
        try:
            p = subprocess.run(cmd, cwd=KDIR, capture_output=True, text=True, timeout=900, env=ENV)
            txt = p.stdout
        except subprocess.TimeoutExpired:
            txt = "concrete playback timed out"
        m = re.search(r"Concrete playback unit test for.*?```\n(.*?)```", txt, re.S)
        failed = re.findall(r"Failed Checks: (.*)", txt)
        path = os.path.join(ROOT, "replay", "out", "%s-%d.json" % (prop, i + 1))
        json.dump({"property": prop, "obligation": "kani harness %s (%s)" % (v["harness"], v["config"]), "input": (m.group(1) if m else None),
                   "failed_checks": failed, "verifier_output": txt[-6000:],
                   "note": "input = CBMC's concrete values as a Kani concrete-playback unit test; ./check %s --replay re-runs the harness on the current tree" % prop},
                  open(path, "w"), indent=1)
        vio_out.append((v, path, bool(m)))
    names_all = [n for r in results for n in r["names"]]
    ev = {
        "property_id": prop, "tier": tier, "seed": seed, "level": "proof",
        "coverage": {
            "obligations": full_checks, "discharged": full_ok,
            "obligation_unit": "CBMC property checks (assertions of the harness postconditions, unwinding assertions, memory-safety / overflow checks of the real code reached) summed over harnesses",
            "harnesses": {"complete (loop-free or fixed-size with unwinding assertions, full-domain symbolic inputs)": [n for n in names_all if n.startswith("full_")],
                          "bounded (NOT counted as proved)": [n + " : byte strings of length <= 3" for n in names_all if n.startswith("bounded_")]},
            "checker_cmd": " ; ".join("cd /verif/kani && " + r["cmd"] for r in results),
            "back_end": "Kani 0.68.0 / CBMC 6.11.0",
            "trusted_base": P.get("trusted_base", []),
            "samples": [{"harness": n} for n in names_all[:5]],
            "solver_time_s": round(sum(r["parsed"]["vtime"] for r in results), 1),
            "undecided": undecided, "failed_obligations": [v["harness"] for v in violations],
        },
        "assumptions": P.get("assumptions", []), "wall_s": round(wall, 2), "violations": len(violations),
    }
    os.makedirs(os.path.join(ROOT, "evidence"), exist_ok=True)
    json.dump(ev, open(os.path.join(ROOT, "evidence", "%s.json" % prop), "w"), indent=1)
    if violations:
        for v, path, has in vio_out:
            print("OBLIGATION FAILED: kani harness %s (%s)" % (v["harness"], v["config"]))
            print("VIOLATION property=%s replay=%s%s" % (prop, path, "" if has else " no-failing-input-found"))
        return 1
    if undecided:
        for x in undecided:
            print("UNDECIDED property=%s %s" % (prop, x[:500]))
        return 2
    print("OK property=%s harnesses=%d cbmc_checks=%d wall=%.1fs" % (prop, len(names_all), full_checks, wall))
    return 0
