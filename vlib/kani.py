"""C12 / C18: Kani (CBMC) harnesses on the real crate.  `full_*` harnesses are loop-free (or fixed-size with
unwinding assertions on) over full-domain symbolic inputs = complete proofs; `bounded_*` harnesses are bounded
stand-ins, reported separately and never counted as proved."""
import json
import os
import re
import shutil
import subprocess
import time

ROOT = os.path.dirname(os.path.dirname(os.path.abspath(__file__)))
KDIR = os.path.join(ROOT, "kani")
ENV = dict(os.environ, CARGO_NET_OFFLINE="true")


def harnesses():
    src = open(os.path.join(KDIR, "src", "lib.rs")).read()
    c18_start = src.index("mod c18")
    out = {"C12": [], "C18": []}
    for m in re.finditer(r"#\[kani::proof\](?:\s*#\[kani::unwind\(\d+\)\])?\s*fn\s+([a-z0-9_]+)\s*\(", src):
        out["C18" if m.start() > c18_start else "C12"].append(m.group(1))
    # macro-generated scalar harnesses
    for m in re.finditer(r"scalar!\(\w+, \d+, (\w+), (\w+), (\w+), (\w+)\);", src):
        out["C12"].extend(m.groups())
    for m in re.finditer(r"tuple_rt!\((\w+),", src):
        out["C12"].append(m.group(1))
    for m in re.finditer(r"tuple_arity!\((\w+), (\w+),", src):
        out["C12"].extend(m.groups())
    out["C12"] = [h for h in out["C12"] if not h.startswith("$")]
    # feature-gated value types (cargo feature `types`): thorough tier
    out["C12_types"] = re.findall(r"boxed!\((ft_\w+),", src)
    return out


def run_kani(names, features, timeout, jobs=12):
    cmd = ["cargo", "kani", "--output-format", "terse", "-j", str(jobs), "-Z", "unstable-options", "--harness-timeout", "240s"]
    if features:
        cmd += ["--features", features]
    for n in names:
        cmd += ["--harness", n]
    t0 = time.time()
    try:
        p = subprocess.run(cmd, cwd=KDIR, capture_output=True, text=True, timeout=timeout, env=ENV)
        out, rc = p.stdout + "\n" + p.stderr, p.returncode
    except subprocess.TimeoutExpired as e:
        out = ((e.stdout or b"").decode(errors="replace") if isinstance(e.stdout, bytes) else (e.stdout or "")) + "\nTIMEOUT"
        rc = 124
        subprocess.run(["pkill", "-f", "cbmc"], capture_output=True)
    return {"cmd": " ".join(cmd), "rc": rc, "out": out, "wall": time.time() - t0}


def parse(out):
    # per harness: (failed, total) CBMC checks; for a #[kani::should_panic] harness that verified ("encountered one or more panics as
    # expected") the reached panic IS the obligation: its "failed" checks are the expected outcome, not undischarged ones
    checks = []
    ms = list(re.finditer(r"\*\* (\d+) of (\d+) failed", out))
    for k, m in enumerate(ms):
        f, n = int(m.group(1)), int(m.group(2))
        nxt = ms[k + 1].start() if k + 1 < len(ms) else len(out)
        v = re.search(r"VERIFICATION:- [A-Z]+[^\n]*", out[m.end():nxt])
        if v and "encountered one or more panics as expected" in v.group(0):
            f = 0
        checks.append((f, n))
    ok = len(re.findall(r"VERIFICATION:- SUCCESSFUL", out))
    bad = len(re.findall(r"VERIFICATION:- FAILED", out))
    failed_names = re.findall(r"Verification failed for - ([A-Za-z0-9_:]+)", out)
    m = re.search(r"Complete - (\d+) successfully verified harnesses, (\d+) failures, (\d+) total", out)
    summary = tuple(int(x) for x in m.groups()) if m else None
    vtime = sum(float(x) for x in re.findall(r"Verification Time: ([0-9.]+)s", out))
    failed_checks = re.findall(r"Failed Checks: (.*)", out)
    return {"checks": checks, "ok": ok, "bad": bad, "failed_names": failed_names, "summary": summary, "vtime": vtime, "failed_checks": failed_checks}


def run_verus_part(prop, seed):
    """the Verus unit `value` (parametric proof of the conversion macros / eq / hash for EVERY variant), run next to Kani"""
    from . import run as vrun
    try:
        r = vrun.run_unit("value", seed=seed, threads=4)
    except vrun.Undecided as e:
        return {"undecided": [str(e)], "fails": [], "r": None}
    except Exception as e:  # tool crash => undecided
        return {"undecided": ["unit=value internal error: %s" % e], "fails": [], "r": None}
    und, fails = [], []
    if r["status"] == "undecided":
        und.append("unit=value %s" % r.get("why", ""))
    for k, info in (r.get("stubbed") or {}).items():
        if prop in info["props"]:
            und.append("unit=value function `%s` is outside the verifier's reach on this tree (%s)" % (k, info["reason"]))
    for f in r["failures"]:
        if prop in f["props"]:
            fails.append(f)
        elif "MODEL" in f["props"] and prop == "C18":
            # the code's hashing scheme no longer matches the model the lemma is proved over: nothing is decided about C18 by this unit
            und.append("unit=value `%s` no longer matches the hashing model (discriminant, then the payload's own hash): %s" % (f["site_item"], f["clause"][:120]))
    return {"undecided": und, "fails": fails, "r": r}


R12 = os.path.join(ROOT, "replay12")


def run_native_search(prop):
    """bounded stand-in / witness search on the real crate built with hashable-value and every optional value type (replay12)"""
    if not os.path.exists(os.path.join(R12, "Cargo.lock")):
        shutil.copy("/repo/Cargo.lock", os.path.join(R12, "Cargo.lock"))
    try:
        b = subprocess.run(["cargo", "build", "--release", "--offline", "-q"], cwd=R12, capture_output=True, text=True, timeout=900, env=ENV)
        if b.returncode != 0:
            return {"ok": False, "note": "replay12 did not build: " + b.stderr[-300:], "witnesses": [], "cases": 0}
        r = subprocess.run([os.path.join(R12, "target", "release", "vreplay12"), prop], capture_output=True, text=True, timeout=300)
    except subprocess.TimeoutExpired:
        return {"ok": False, "note": "replay12 timed out", "witnesses": [], "cases": 0}
    ws = []
    for ln in r.stdout.splitlines():
        if ln.startswith("WITNESS "):
            try:
                ws.append(json.loads(ln[8:]))
            except Exception:
                pass
    m = re.search(r"CASES (\d+)", r.stdout)
    return {"ok": True, "note": "", "witnesses": ws, "cases": int(m.group(1)) if m else 0}


def check(prop, tier, seed, P):
    t0 = time.time()
    import concurrent.futures as cf
    pool = cf.ThreadPoolExecutor(max_workers=2)
    vfut = pool.submit(run_verus_part, prop, seed)
    nfut = pool.submit(run_native_search, prop)
    if not os.path.exists(os.path.join(KDIR, "Cargo.lock")):
        shutil.copy("/repo/Cargo.lock", os.path.join(KDIR, "Cargo.lock"))
    hs = harnesses()
    runs = []
    if prop == "C12":
        names = hs["C12"]
        runs.append(("default features", None, names))
        if tier == "thorough":
            runs.append(("feature hashable-value (custom PartialEq used by Option<T>::try_from)", "hashable", names))
            runs.append(("feature-gated value types: uuid, chrono x5, time x4, rust_decimal, mac_address, ipnetwork (v4, v6)", "types", hs["C12_types"]))
    else:
        runs.append(("feature hashable-value", "hashable", hs["C18"]))
    results = []
    for label, feat, names in runs:
        r = run_kani(names, feat, timeout=1500)
        r["parsed"] = parse(r["out"])
        r["label"], r["names"] = label, names
        results.append(r)
    undecided, violations = [], []
    full_checks = full_ok = bounded_checks = 0
    for r in results:
        p = r["parsed"]
        if r["rc"] == 124:
            undecided.append("kani timed out (%s)" % r["label"])
            continue
        if p["summary"] is None:
            undecided.append("kani produced no summary (%s): %s" % (r["label"], r["out"][-400:].replace("\n", " | ")))
            continue
        ok, bad, total = p["summary"]
        if total != len(r["names"]):
            undecided.append("expected %d harnesses, kani ran %d (%s)" % (len(r["names"]), total, r["label"]))
        for fn in p["failed_names"]:
            violations.append({"harness": fn, "config": r["label"], "features": r["cmd"]})
        if bad and not p["failed_names"]:
            undecided.append("kani reported %d failures without naming them" % bad)
        for (f, n) in p["checks"]:
            full_checks += n
            full_ok += n - f
    vp = vfut.result()
    undecided += vp["undecided"]
    v_obl = v_ok = 0
    v_funcs, v_rules, v_scan, v_ms = [], {}, [], 0.0
    if vp["r"] is not None and vp["r"].get("funcs"):
        r = vp["r"]
        unit = r["unit"]
        by_vpath = {f["vpath"]: f for f in unit.functions if f.get("kind") == "fn"}
        failed_items = set(x["site_item"] for x in vp["fails"])
        for fname, fr in r["funcs"].items():
            short = fname.split("::", 1)[1] if "::" in fname else fname
            rec = by_vpath.get(short)
            if rec is not None and rec.get("props") and prop not in rec["props"]:
                continue
            ok = fr["success"] or (rec is not None and rec["item"] not in failed_items)
            v_obl += 1
            v_ok += 1 if ok else 0
            v_ms += fr.get("time_us", 0) / 1000.0
        for f in unit.functions:
            if f.get("kind") == "fn" and f.get("props") and prop not in f["props"]:
                continue
            v_funcs.append({"item": f["item"], "file": f["file"], "line": f["line"], "sha256": f["sha256"], "has_contract": f.get("has_contract"), "rules": [a["rule"] for a in f["rules"]]})
            for a in f["rules"]:
                v_rules[a["rule"]] = v_rules.get(a["rule"], 0) + 1
        text = open(r["path"]).read()
        for kw in ("assume(", "admit(", "external_body", "assume_specification", "axiom fn", "uninterp spec fn"):
            c = text.count(kw)
            if c:
                v_scan.append("value: %d occurrence(s) of `%s` in %s" % (c, kw, os.path.basename(r["path"])))
    wall = time.time() - t0
    os.makedirs(os.path.join(ROOT, "replay", "out"), exist_ok=True)
    vio_out = []
    for i, f in enumerate(vp["fails"]):
        path = os.path.join(ROOT, "replay", "out", "%s-v%d.json" % (prop, i + 1))
        obl = "%s :: %s :: %s" % (f["site_item"], f["message"], re.sub(r"\s+", " ", f["clause"])[:160])
        json.dump({"property": prop, "obligation": obl, "function": f["site_item"], "clause": f["clause"], "verifier_message": f["message"], "verifier_output": f["rendered"],
                   "generated_file": vp["r"]["path"], "input": None,
                   "note": "Verus gives no counterexample and this property has no witness search: the payload types are opaque in the proof (it fails for SOME payload type / variant); ./check %s --replay re-runs the check on the current tree" % prop},
                  open(path, "w"), indent=1)
        violations.append({"harness": "verus:" + obl, "config": "unit value", "features": ""})
        vio_out.append(({"harness": "verus obligation " + obl, "config": "unit value"}, path, False))
    n_kani_viol = len(violations) - len(vp["fails"])
    # the native search: gives the failed Verus obligations their concrete input, and stands in (bounded) for what no proof covers
    ns = nfut.result()
    native_note = "bounded stand-in on the real crate (replay12: hashable-value + every optional value type; sample values of every type incl. Json null / NaN / +-0 / empty strings, every other variant as mismatch, value tuples of every shape): %d cases, %d witness(es)%s" % (ns["cases"], len(ns["witnesses"]), (" ; " + ns["note"]) if ns["note"] else "")
    if ns["witnesses"]:
        w0 = ns["witnesses"][0]
        path = os.path.join(ROOT, "replay", "out", "%s-n1.json" % prop)
        json.dump({"property": prop, "obligation": "bounded search on the real crate (replay12)", "input": w0.get("input"), "observed": w0.get("observed"), "expected": w0.get("expected"), "all_witnesses": ns["witnesses"][:20],
                   "note": "found by the native search over sample values of every value type; ./check %s --replay re-runs the check on the current tree" % prop}, open(path, "w"), indent=1)
        # attach the concrete input to the Verus failures (they then carry a failing input), or report it on its own
        if vio_out and not any(h for _, _, h in vio_out):
            vio_out = [(v, path, True) for v, _, _ in vio_out]
        else:
            violations.append({"harness": "native search: %s -> %s" % (w0.get("input"), w0.get("observed")), "config": "replay12", "features": ""})
            vio_out.append(({"harness": "verus/native: bounded search on the real crate: input=%r observed=%r expected=%r" % (w0.get("input"), w0.get("observed"), w0.get("expected")), "config": "replay12"}, path, True))
        n_kani_viol = min(n_kani_viol, len(violations))
    for i, v in enumerate(violations[:n_kani_viol]):
        # concrete counterexample from CBMC, as a Rust unit test (concrete playback)
        short = v["harness"].split("::")[-1]
        cmd = ["cargo", "kani", "--harness", short, "-Z", "concrete-playback", "--concrete-playback=print", "--output-format", "terse"]
        if "--features" in v["features"]:
            cmd += ["--features", "hashable"]
        if i >= 2:
            txt = "concrete playback is produced for the first two failing harnesses only (each takes minutes); ./check %s --replay re-runs this harness" % prop
        else:
            try:
                p = subprocess.run(cmd, cwd=KDIR, capture_output=True, text=True, timeout=900, env=ENV)
                txt = p.stdout
            except subprocess.TimeoutExpired:
                txt = "concrete playback timed out"
        m = re.search(r"Concrete playback unit test for.*?```\n(.*?)```", txt, re.S)
        failed = re.findall(r"Failed Checks: (.*)", txt)
        path = os.path.join(ROOT, "replay", "out", "%s-%d.json" % (prop, i + 1))
        json.dump({"property": prop, "obligation": "kani harness %s (%s)" % (v["harness"], v["config"]), "input": (m.group(1) if m else None),
                   "failed_checks": failed, "verifier_output": txt[-6000:],
                   "note": "input = CBMC's concrete values as a Kani concrete-playback unit test; ./check %s --replay re-runs the harness on the current tree" % prop},
                  open(path, "w"), indent=1)
        vio_out.append((v, path, bool(m)))
    names_all = [n for r in results for n in r["names"]]
    ev = {
        "property_id": prop, "tier": tier, "seed": seed, "level": "proof",
        "coverage": {
            "obligations": full_checks + v_obl, "discharged": full_ok + v_ok,
            "obligation_unit": "CBMC property checks (assertions of the harness postconditions, unwinding assertions, memory-safety / overflow checks of the real code reached) summed over harnesses, PLUS one per function / lemma verified by Verus in unit `value` (%d of %d discharged)" % (v_ok, v_obl),
            "verus_unit_value": {"obligations": v_obl, "discharged": v_ok, "solver_time_ms": round(v_ms, 1), "functions_under_contract": v_funcs, "rewrite_rule_applications": v_rules,
                                 "assumption_scan": v_scan, "canaries": (vp["r"] or {}).get("canary") and {k: v for k, v in vp["r"]["canary"].items() if k != "path"},
                                 "checker_cmd": (vp["r"] or {}).get("res", {}).get("cmd")},
            "harnesses": {"complete (loop-free or fixed-size with unwinding assertions, full-domain symbolic inputs)": [n for n in names_all if n.startswith("full_")],
                          "bounded (NOT counted as proved)": [n + " : byte strings of length <= 3" for n in names_all if n.startswith("bounded_")]},
            "checker_cmd": " ; ".join("cd /verif/kani && " + r["cmd"] for r in results),
            "back_end": "Kani 0.68.0 / CBMC 6.11.0 ; Verus 0.2026.09.13 (Z3) for unit `value`",
            "trusted_base": P.get("trusted_base", []),
            "samples": [{"harness": n} for n in names_all[:5]],
            "solver_time_s": round(sum(r["parsed"]["vtime"] for r in results), 1),
            "bounded_checks": [native_note],
            "undecided": undecided, "failed_obligations": [v["harness"] for v in violations],
        },
        "assumptions": P.get("assumptions", []), "wall_s": round(wall, 2), "violations": len(violations),
    }
    os.makedirs(os.path.join(ROOT, "evidence"), exist_ok=True)
    json.dump(ev, open(os.path.join(ROOT, "evidence", "%s.json" % prop), "w"), indent=1)
    if violations:
        for v, path, has in vio_out:
            print("OBLIGATION FAILED: %s%s (%s)" % ("" if v["harness"].startswith("verus") else "kani harness ", v["harness"], v["config"]))
            print("VIOLATION property=%s replay=%s%s" % (prop, path, "" if has else " no-failing-input-found"))
        return 1
    if undecided:
        for x in undecided:
            print("UNDECIDED property=%s %s" % (prop, x[:500]))
        return 2
    print("OK property=%s harnesses=%d cbmc_checks=%d verus_items=%d wall=%.1fs" % (prop, len(names_all), full_checks, v_obl, wall))
    return 0
