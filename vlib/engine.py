"""Executes the cases produced by `vreplay engine-cases <PROP>` on a REAL SQLite engine (python's sqlite3 module) - the bounded stand-in of
the properties whose observation is an executing engine (C13: the engine's catalogue after the DDL; C07 / C09: result rows and table
contents).  A case is {label, steps: [{s, fail}], checks: [{q, rows}]}: every step must succeed (or, with fail, be REJECTED by the
engine), then every catalogue / result query must return exactly `rows`.  Returns witnesses in the witness-search format.
Never decides a property on its own: labelled bounded in the evidence."""
import json
import sqlite3


def _norm(v):
    if isinstance(v, bytes):
        return "x'%s'" % v.hex()
    if isinstance(v, float) and v == int(v) and abs(v) < 1e15:
        return float(v)
    return v


def run_case(c):
    """-> None or (observed, expected)"""
    con = sqlite3.connect(":memory:")
    con.execute("PRAGMA foreign_keys = ON")
    try:
        for st in c["steps"]:
            try:
                if st.get("params") is not None:
                    con.execute(st["s"], st["params"])
                else:
                    con.execute(st["s"])
                ok = True
                err = None
            except Exception as e:   # sqlite3.Error, or a misuse error of the module
                ok = False
                err = str(e)
            if st.get("fail"):
                if ok:
                    return ("SQLite %s ACCEPTED: %s" % (sqlite3.sqlite_version, st["s"]), "the engine rejects this statement")
            elif not ok:
                return ("SQLite %s: %s  <-  %s" % (sqlite3.sqlite_version, err, st["s"]), "the engine accepts the statement")
        for ch in c["checks"]:
            try:
                got = [[_norm(v) for v in row] for row in con.execute(ch["q"]).fetchall()]
            except Exception as e:
                return ("SQLite %s: %s  <-  %s" % (sqlite3.sqlite_version, e, ch["q"]), json.dumps(ch["rows"]))
            want = [[_norm(v) for v in row] for row in ch["rows"]]
            if got != want:
                return ("%s -> %s   [after: %s]" % (ch["q"], json.dumps(got), " ; ".join(s["s"] for s in c["steps"])[:700]), "%s -> %s" % (ch["q"], json.dumps(want)))
    finally:
        con.close()
    return None


def _params(ps):
    return [bytes.fromhex(p["hex"]) if isinstance(p, dict) and "hex" in p else p for p in ps]


def _exec(con, st):
    cur = con.execute(st["s"], _params(st["params"])) if st.get("params") is not None else con.execute(st["s"])
    rows = [[_norm(v) for v in row] for row in cur.fetchall()]
    con.commit()
    return rows


def run_pair(c, must_parse=True):
    """a = the crate's rendering (inline, or parameterised with its values), b = the independently written explicit SQL: same fixture on two
    fresh engines; result rows (RETURNING rows) and the table contents afterwards must agree.  -> None or (observed, expected)"""
    ca, cb = sqlite3.connect(":memory:"), sqlite3.connect(":memory:")
    try:
        for con in (ca, cb):
            for f in c["fixture"]:
                con.execute(f)
            con.commit()
        try:
            rb = _exec(cb, c["b"])
            eb = None
        except Exception as e:
            rb, eb = None, str(e)
        try:
            ra = _exec(ca, c["a"])
            ea = None
        except Exception as e:
            ra, ea = None, str(e)
        desc = c["a"]["s"] + ((" with " + json.dumps(c["a"]["params"])) if c["a"].get("params") is not None else "")
        if eb is not None and ea is None:
            return ("accepted: " + desc, "ORACLE PROBLEM: the reference statement is rejected by SQLite %s (%s): %s" % (sqlite3.sqlite_version, eb, c["b"]["s"]))
        if ea is not None and eb is None:
            return ("SQLite %s: %s  <-  %s" % (sqlite3.sqlite_version, ea, desc), "accepted, like the explicit statement: " + c["b"]["s"])
        if ea is not None and eb is not None:
            # both rejected: a run-time refusal common to both (e.g. a constraint violation) leaves nothing to compare, but a statement the engine
            # cannot even PARSE is never `accepted by a real SQLite engine` - and an oracle that does not parse is an oracle problem, not agreement
            if not must_parse:
                return None   # C09 compares the backends' renderings with each other: identically rejected is not a difference (acceptance is C07's claim)
            if "syntax error" in eb:
                return ("rejected: " + desc, "ORACLE PROBLEM: the reference statement does not parse on SQLite %s (%s): %s" % (sqlite3.sqlite_version, eb, c["b"]["s"]))
            if "syntax error" in ea:
                return ("SQLite %s: %s  <-  %s" % (sqlite3.sqlite_version, ea, desc), "the engine accepts the statement")
            return None
        if not c.get("ordered"):
            ra, rb = sorted(ra, key=repr), sorted(rb, key=repr)
        if ra != rb:
            return ("%s -> %s" % (desc, json.dumps(ra)[:600]), "%s -> %s" % (c["b"]["s"], json.dumps(rb)[:600]))
        for q in c["snaps"]:
            sa, sb = ca.execute(q).fetchall(), cb.execute(q).fetchall()
            if sa != sb:
                return ("after %s: %s -> %s" % (desc, q, json.dumps(sa)[:500]), "after %s: %s -> %s" % (c["b"]["s"], q, json.dumps(sb)[:500]))
    finally:
        ca.close()
        cb.close()
    return None


def run_cases(lines, prop):
    """lines: stdout of `vreplay engine-cases`.  -> (witnesses, n_cases, n_checks)"""
    ws, n, nq = [], 0, 0
    for ln in lines:
        if not ln.startswith("CASE "):
            continue
        try:
            c = json.loads(ln[5:])
        except Exception as e:
            ws.append({"property": prop, "input": ln[:200], "observed": "case is not JSON: %s" % e, "expected": "a case"})
            continue
        n += 1
        if "fixture" in c:
            nq += 2 + 2 * len(c["snaps"])
            r = run_pair(c, must_parse=(prop == "C07"))
        else:
            nq += len(c["checks"]) + len(c["steps"])
            r = run_case(c)
        if r is not None:
            ws.append({"property": prop, "input": c["label"], "observed": r[0], "expected": r[1]})
    return ws, n, nq
