// ---- trusted shim: std::fmt (rule R-fmt) -------------------------------------------------
// Trusted: `Display` of char / &str / String is the text itself; write!/format! emit the
// segments of the format string in order; `fmt::Write for String` appends and never fails.
pub trait VDisp {
    spec fn disp(&self) -> Seq<char>;
    fn vdisp(&self) -> (r: String) ensures r@ == self.disp();
}
impl VDisp for char {
    open spec fn disp(&self) -> Seq<char> { seq![*self] }
    #[verifier::external_body] fn vdisp(&self) -> (r: String) { format!("{}", self) }
}
impl VDisp for String {
    open spec fn disp(&self) -> Seq<char> { self@ }
    #[verifier::external_body] fn vdisp(&self) -> (r: String) { format!("{}", self) }
}
impl VDisp for &str {
    open spec fn disp(&self) -> Seq<char> { self@ }
    #[verifier::external_body] fn vdisp(&self) -> (r: String) { format!("{}", self) }
}
impl<T: VDisp> VDisp for &T {
    open spec fn disp(&self) -> Seq<char> { (**self).disp() }
    fn vdisp(&self) -> (r: String) { (**self).vdisp() }
}
pub trait VWrite {
    spec fn text(&self) -> Seq<char>;
    fn vpush(&mut self, s: &str) ensures final(self).text() == old(self).text() + s@;
}
impl VWrite for String {
    open spec fn text(&self) -> Seq<char> { self@ }
    fn vpush(&mut self, s: &str) { self.push_str(s) }
}
fn vfmt_disp<W: VWrite, T: VDisp>(w: &mut W, x: T)
    ensures final(w).text() == old(w).text() + x.disp()
{ let s = x.vdisp(); w.vpush(s.as_str()) }
fn vfmt_lit<W: VWrite>(w: &mut W, x: &str)
    ensures final(w).text() == old(w).text() + x@
{ w.vpush(x) }
