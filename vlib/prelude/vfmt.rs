// ---- trusted shim: std::fmt (rule R-fmt) -------------------------------------------------
// Trusted: `Display` of char / &str / String is the text itself; write!/format! emit the
// segments of the format string in order; `fmt::Write for String` appends and never fails.
pub trait VDisp {
    spec fn disp(&self) -> Seq<char>;
    fn vdisp(&self) -> (r: String) ensures r@ == self.disp();
}
impl VDisp for char {
    open spec fn disp(&self) -> Seq<char> { seq![*self] }
    #[verifier::external_body] fn vdisp(&self) -> (r: String) { format!("{}", self) }
}
impl VDisp for String {
    open spec fn disp(&self) -> Seq<char> { self@ }
    #[verifier::external_body] fn vdisp(&self) -> (r: String) { format!("{}", self) }
}
impl VDisp for &str {
    open spec fn disp(&self) -> Seq<char> { self@ }
    #[verifier::external_body] fn vdisp(&self) -> (r: String) { format!("{}", self) }
}
impl<T: VDisp> VDisp for &T {
    open spec fn disp(&self) -> Seq<char> { (**self).disp() }
    fn vdisp(&self) -> (r: String) { (**self).vdisp() }
}
pub trait VWrite {
    spec fn text(&self) -> Seq<char>;
    fn vpush(&mut self, s: &str) ensures final(self).text() == old(self).text() + s@;
}
impl VWrite for String {
    open spec fn text(&self) -> Seq<char> { self@ }
    fn vpush(&mut self, s: &str) { self.push_str(s) }
}
fn vfmt_disp<W: VWrite, T: VDisp>(w: &mut W, x: T)
    ensures final(w).text() == old(w).text() + x.disp()
{ let s = x.vdisp(); w.vpush(s.as_str()) }
fn vfmt_lit<W: VWrite>(w: &mut W, x: &str)
    ensures final(w).text() == old(w).text() + x@
{ w.vpush(x) }

// {:02X}: trusted - two upper-case hexadecimal digits, high nibble first (validated natively for all 256 bytes)
pub open spec fn hexd(n: int) -> char {
    if n == 0 { '0' } else if n == 1 { '1' } else if n == 2 { '2' } else if n == 3 { '3' } else if n == 4 { '4' }
    else if n == 5 { '5' } else if n == 6 { '6' } else if n == 7 { '7' } else if n == 8 { '8' } else if n == 9 { '9' }
    else if n == 10 { 'A' } else if n == 11 { 'B' } else if n == 12 { 'C' } else if n == 13 { 'D' } else if n == 14 { 'E' } else { 'F' }
}
pub open spec fn hex2(b: u8) -> Seq<char> { seq![hexd(b as int / 16), hexd(b as int % 16)] }
#[verifier::external_body]
fn vfmt_hex2_upper<W: VWrite>(w: &mut W, b: &u8)
    ensures final(w).text() == old(w).text() + hex2(*b)
{ let s = format!("{:02X}", b); w.vpush(s.as_str()) }
// {:X} / {:x} / {:02x} of a byte (trusted, std::fmt): hexadecimal digits, most significant first, WITHOUT padding for {:X} / {:x}
pub open spec fn hexd_lower(n: int) -> char {
    if n == 10 { 'a' } else if n == 11 { 'b' } else if n == 12 { 'c' } else if n == 13 { 'd' } else if n == 14 { 'e' } else if n == 15 { 'f' } else { hexd(n) }
}
pub open spec fn hex_nopad(b: u8) -> Seq<char> { if (b as int) < 16 { seq![hexd(b as int)] } else { hex2(b) } }
pub open spec fn hex2_lower(b: u8) -> Seq<char> { seq![hexd_lower(b as int / 16), hexd_lower(b as int % 16)] }
pub open spec fn hex_nopad_lower(b: u8) -> Seq<char> { if (b as int) < 16 { seq![hexd_lower(b as int)] } else { hex2_lower(b) } }
#[verifier::external_body]
fn vfmt_hex_upper<W: VWrite>(w: &mut W, b: &u8) ensures final(w).text() == old(w).text() + hex_nopad(*b) { let s = format!("{:X}", b); w.vpush(s.as_str()) }
#[verifier::external_body]
fn vfmt_hex_lower<W: VWrite>(w: &mut W, b: &u8) ensures final(w).text() == old(w).text() + hex_nopad_lower(*b) { let s = format!("{:x}", b); w.vpush(s.as_str()) }
#[verifier::external_body]
fn vfmt_hex2_lower<W: VWrite>(w: &mut W, b: &u8) ensures final(w).text() == old(w).text() + hex2_lower(*b) { let s = format!("{:02x}", b); w.vpush(s.as_str()) }
// Display of numbers: canonical text, left uninterpreted (no proof depends on its shape)
pub uninterp spec fn num_text_int(i: int) -> Seq<char>;
pub uninterp spec fn num_text_f32(f: f32) -> Seq<char>;
pub uninterp spec fn num_text_f64(f: f64) -> Seq<char>;
impl VDisp for i8 {
    open spec fn disp(&self) -> Seq<char> { num_text_int(*self as int) }
    #[verifier::external_body] fn vdisp(&self) -> (r: String) { format!("{}", self) }
}
impl VDisp for i16 {
    open spec fn disp(&self) -> Seq<char> { num_text_int(*self as int) }
    #[verifier::external_body] fn vdisp(&self) -> (r: String) { format!("{}", self) }
}
impl VDisp for i32 {
    open spec fn disp(&self) -> Seq<char> { num_text_int(*self as int) }
    #[verifier::external_body] fn vdisp(&self) -> (r: String) { format!("{}", self) }
}
impl VDisp for i64 {
    open spec fn disp(&self) -> Seq<char> { num_text_int(*self as int) }
    #[verifier::external_body] fn vdisp(&self) -> (r: String) { format!("{}", self) }
}
impl VDisp for u8 {
    open spec fn disp(&self) -> Seq<char> { num_text_int(*self as int) }
    #[verifier::external_body] fn vdisp(&self) -> (r: String) { format!("{}", self) }
}
impl VDisp for u16 {
    open spec fn disp(&self) -> Seq<char> { num_text_int(*self as int) }
    #[verifier::external_body] fn vdisp(&self) -> (r: String) { format!("{}", self) }
}
impl VDisp for u32 {
    open spec fn disp(&self) -> Seq<char> { num_text_int(*self as int) }
    #[verifier::external_body] fn vdisp(&self) -> (r: String) { format!("{}", self) }
}
impl VDisp for u64 {
    open spec fn disp(&self) -> Seq<char> { num_text_int(*self as int) }
    #[verifier::external_body] fn vdisp(&self) -> (r: String) { format!("{}", self) }
}
impl VDisp for usize {
    open spec fn disp(&self) -> Seq<char> { num_text_int(*self as int) }
    #[verifier::external_body] fn vdisp(&self) -> (r: String) { format!("{}", self) }
}
impl VDisp for f32 {
    open spec fn disp(&self) -> Seq<char> { num_text_f32(*self) }
    #[verifier::external_body] fn vdisp(&self) -> (r: String) { format!("{}", self) }
}
impl VDisp for f64 {
    open spec fn disp(&self) -> Seq<char> { num_text_f64(*self) }
    #[verifier::external_body] fn vdisp(&self) -> (r: String) { format!("{}", self) }
}
