// ---- trusted shim: std string functions (rule R-strfn) ------------------------------------
// Trusted: str::replace(char, &str) replaces every occurrence of the char, left to right;
// str::replace(&str, &str) replaces leftmost non-overlapping occurrences; str::find(char)
// is Some iff the char occurs.  (A fixed battery is validated natively on every run.)
pub open spec fn rep1(c: char, from: char, to: Seq<char>) -> Seq<char> { if c == from { to } else { seq![c] } }
pub open spec fn replace_char(s: Seq<char>, from: char, to: Seq<char>) -> Seq<char>
    decreases s.len()
{ if s.len() == 0 { s } else { rep1(s[0], from, to) + replace_char(s.drop_first(), from, to) } }

// leftmost non-overlapping replacement of the 2-char pattern [a, b]
pub open spec fn replace_pair(s: Seq<char>, a: char, b: char, to: Seq<char>) -> Seq<char>
    decreases s.len()
{
    if s.len() == 0 { s }
    else if s.len() >= 2 && s[0] == a && s[1] == b { to + replace_pair(s.subrange(2, s.len() as int), a, b, to) }
    else { seq![s[0]] + replace_pair(s.drop_first(), a, b, to) }
}

pub trait VStrExt {
    spec fn sv(&self) -> Seq<char>;
    fn vreplace_c(&self, from: char, to: &str) -> (r: String) ensures r@ == replace_char(self.sv(), from, to@);
    fn vreplace_s2(&self, from: &str, to: &str) -> (r: String)
        requires from@.len() == 2
        ensures r@ == replace_pair(self.sv(), from@[0], from@[1], to@);
    fn vcontains_c(&self, c: char) -> (r: bool) ensures r == self.sv().contains(c);
}
impl VStrExt for str {
    open spec fn sv(&self) -> Seq<char> { self@ }
    #[verifier::external_body]
    fn vreplace_c(&self, from: char, to: &str) -> (r: String) { self.replace(from, to) }
    #[verifier::external_body]
    fn vreplace_s2(&self, from: &str, to: &str) -> (r: String) { self.replace(from, to) }
    #[verifier::external_body]
    fn vcontains_c(&self, c: char) -> (r: bool) { self.find(c).is_some() }
}
impl VStrExt for String {
    open spec fn sv(&self) -> Seq<char> { self@ }
    #[verifier::external_body]
    fn vreplace_c(&self, from: char, to: &str) -> (r: String) { self.replace(from, to) }
    #[verifier::external_body]
    fn vreplace_s2(&self, from: &str, to: &str) -> (r: String) { self.replace(from, to) }
    #[verifier::external_body]
    fn vcontains_c(&self, c: char) -> (r: bool) { self.find(c).is_some() }
}
#[verifier::external_body]
fn vstr_concat3(a: &str, b: &String, c: &str) -> (r: String)
    ensures r@ == a@ + b@ + c@
{ a.to_owned() + b + c }

pub proof fn lemma_replace_char_concat(a: Seq<char>, b: Seq<char>, from: char, to: Seq<char>)
    ensures replace_char(a + b, from, to) == replace_char(a, from, to) + replace_char(b, from, to)
    decreases a.len()
{
    if a.len() == 0 {
        assert(a + b == b);
    } else {
        assert((a + b).drop_first() == a.drop_first() + b);
        lemma_replace_char_concat(a.drop_first(), b, from, to);
    }
}
