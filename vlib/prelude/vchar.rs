// ---- trusted shim: char classification (rule R-charfn) -----------------------------------
// `char::is_alphabetic` is the Unicode Alphabetic property.  Trusted (validated natively on
// every run over all 128 ASCII code points): on ASCII it is exactly A-Z | a-z.  Outside ASCII
// it is left uninterpreted.
pub uninterp spec fn spec_non_ascii_alphabetic(c: char) -> bool;
pub open spec fn spec_is_alphabetic(c: char) -> bool {
    if (c as u32) < 128 { ('A' <= c && c <= 'Z') || ('a' <= c && c <= 'z') } else { spec_non_ascii_alphabetic(c) }
}
#[verifier::external_body]
fn vchar_is_alphabetic(c: char) -> (r: bool)
    ensures r == spec_is_alphabetic(c)
{ c.is_alphabetic() }
#[verifier::external_body]
fn vchar_is_ascii_digit(c: char) -> (r: bool)
    ensures r == ('0' <= c && c <= '9')
{ c.is_ascii_digit() }
