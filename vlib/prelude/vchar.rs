// ---- trusted shim: char classification (rule R-charfn) -----------------------------------
// `char::is_alphabetic` is the Unicode Alphabetic property.  Trusted (validated natively on
// every run over all 128 ASCII code points): on ASCII it is exactly A-Z | a-z.  Outside ASCII
// it is left uninterpreted.
pub uninterp spec fn spec_non_ascii_alphabetic(c: char) -> bool;
pub open spec fn spec_is_alphabetic(c: char) -> bool {
    if (c as u32) < 128 { ('A' <= c && c <= 'Z') || ('a' <= c && c <= 'z') } else { spec_non_ascii_alphabetic(c) }
}
#[verifier::external_body]
fn vchar_is_alphabetic(c: char) -> (r: bool)
    ensures r == spec_is_alphabetic(c)
{ c.is_alphabetic() }
#[verifier::external_body]
fn vchar_is_ascii_digit(c: char) -> (r: bool)
    ensures r == ('0' <= c && c <= '9')
{ c.is_ascii_digit() }
// other std predicates (only used if a refactoring of /repo reaches for them): Unicode classes left uninterpreted
// outside ASCII; on ASCII they are the usual sets (validated natively over all 128 code points each run)
pub uninterp spec fn spec_non_ascii_whitespace(c: char) -> bool;
pub uninterp spec fn spec_non_ascii_numeric(c: char) -> bool;
pub open spec fn spec_is_whitespace(c: char) -> bool {
    if (c as u32) < 128 { c == ' ' || ('\x09' <= c && c <= '\x0d') } else { spec_non_ascii_whitespace(c) }
}
pub open spec fn spec_is_numeric(c: char) -> bool { if (c as u32) < 128 { '0' <= c && c <= '9' } else { spec_non_ascii_numeric(c) } }
#[verifier::external_body]
fn vchar_is_whitespace(c: char) -> (r: bool) ensures r == spec_is_whitespace(c) { c.is_whitespace() }
#[verifier::external_body]
fn vchar_is_numeric(c: char) -> (r: bool) ensures r == spec_is_numeric(c) { c.is_numeric() }
#[verifier::external_body]
fn vchar_is_alphanumeric(c: char) -> (r: bool) ensures r == (spec_is_alphabetic(c) || spec_is_numeric(c)) { c.is_alphanumeric() }
#[verifier::external_body]
fn vchar_is_ascii_alphabetic(c: char) -> (r: bool) ensures r == (('A' <= c && c <= 'Z') || ('a' <= c && c <= 'z')) { c.is_ascii_alphabetic() }
#[verifier::external_body]
fn vchar_is_ascii_alphanumeric(c: char) -> (r: bool) ensures r == (('A' <= c && c <= 'Z') || ('a' <= c && c <= 'z') || ('0' <= c && c <= '9')) { c.is_ascii_alphanumeric() }
#[verifier::external_body]
fn vchar_is_ascii_whitespace(c: char) -> (r: bool) ensures r == (c == ' ' || c == '\x09' || c == '\x0a' || c == '\x0c' || c == '\x0d') { c.is_ascii_whitespace() }
